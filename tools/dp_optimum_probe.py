#!/usr/bin/env python3
"""dp_optimum_probe.py [seed] [n] [maxlen] [biotype,type]: developer probe for C07.
Aligns two groups of identical copies (1..3 copies of a, 1..3 copies of b) through the real do_align (op dp_align) and
compares the returned alignment with the optimum of an independent full-matrix DP under the scoring the kernels
implement (substitution scores, internal gap run of length L: 2*gpo + (L-1)*gpe, no gap-in-a run adjacent to a
gap-in-b run), for BOTH readings of a terminal gap run: model 1 = gpo + L*tgpe (what the forward kernel charges for a
leading run / the backward kernel for a trailing run), model 2 = L*tgpe (what the other kernel charges).
Reports the cases in which kalign's alignment is below the optimum under both readings.
Observed cause: a terminal gap-in-b run that crosses the middle row of a Hirschberg split is joined by `meetup`
without any gap-open charge, while the same run lying on one side of the split is charged gpo by one of the kernels."""
import os, re, sys, random
HERE = os.path.dirname(os.path.abspath(__file__))
sys.path.insert(0, HERE)
from lib import common as C

def _matrix0():
    s = open(os.path.join(C.LEAN, "KalignModel", "Gen", "Param.lean")).read()
    rows = re.findall(r"def matrix0_r(\d+) : List Int := \[(.*?)\]", s)
    return [[int(x) for x in r[1].split(",")] for r in rows]

M0 = _matrix0()
NEG = -10**9
# (biotype,type): (sub fn, gpo, gpe, tgpe, alphabet size); integer units (protein: 1/1000)
PARAMS = {
    (1, 0): (lambda x, y: 5 if x == y else -4, 8, 6, 0, 4),
    (1, 1): (lambda x, y: 5 if x == y else -4, 8, 6, 8, 4),
    (0, 3): (lambda x, y: M0[x][y], 5500, 2000, 1000, 20),
}

def opt(a, b, sub, gpo, gpe, tgpe, tg=None):
    tg = gpo if tg is None else tg   # extra charge of a terminal gap run (model 1: gpo, model 2: 0)
    la, lb = len(a), len(b)
    A = [[NEG] * (lb + 1) for _ in range(la + 1)]
    GA = [[NEG] * (lb + 1) for _ in range(la + 1)]
    GB = [[NEG] * (lb + 1) for _ in range(la + 1)]
    A[0][0] = 0
    for i in range(la + 1):
        for j in range(lb + 1):
            if i > 0 and j > 0:
                A[i][j] = sub(a[i-1], b[j-1]) + max(A[i-1][j-1], GA[i-1][j-1] - (tg if i == 1 else gpo), GB[i-1][j-1] - (tg if j == 1 else gpo))
            if j > 0:
                if i == 0:
                    GA[i][j] = max(GA[i][j-1], A[i][j-1]) - tgpe
                elif i == la:
                    GA[i][j] = max(GA[i][j-1], A[i][j-1] - tg) - tgpe
                else:
                    GA[i][j] = max(GA[i][j-1] - gpe, A[i][j-1] - gpo)
            if i > 0:
                if j == 0:
                    GB[i][j] = max(GB[i-1][j], A[i-1][j]) - tgpe
                elif j == lb:
                    GB[i][j] = max(GB[i-1][j], A[i-1][j] - tg) - tgpe
                else:
                    GB[i][j] = max(GB[i-1][j] - gpe, A[i-1][j] - gpo)
    return max(A[la][lb], GA[la][lb], GB[la][lb])

def score(path, a, b, sub, gpo, gpe, tgpe, tg=None):
    tg = gpo if tg is None else tg
    la, lb = len(a), len(b)
    cols = []
    last = 0
    for i, p in enumerate(path):
        if p == -1:
            cols.append(('B', i))
        else:
            cols += [('A_', None)] * (p - last - 1)
            cols.append(('M', (i, p - 1)))
            last = p
    cols += [('A_', None)] * (lb - last)
    s = 0
    k = 0
    n = len(cols)
    while k < n:
        t = cols[k][0]
        if t == 'M':
            i, j = cols[k][1]
            s += sub(a[i], b[j]); k += 1
        else:
            e = k
            while e < n and cols[e][0] == t:
                e += 1
            L = e - k
            if k > 0 and e < n and cols[k-1][0] != 'M':
                return None   # adjacency
            if e < n and cols[e][0] != 'M':
                return None
            if k == 0 or e == n:
                s -= tg + L * tgpe
            else:
                s -= 2 * gpo + (L - 1) * gpe
            k = e
    return s

def main():
    seed = int(sys.argv[1]) if len(sys.argv) > 1 else 1
    n = int(sys.argv[2]) if len(sys.argv) > 2 else 3000
    maxlen = int(sys.argv[3]) if len(sys.argv) > 3 else 12
    only = sys.argv[4] if len(sys.argv) > 4 else None
    rng = random.Random(seed)
    cases = []
    keys = [k for k in PARAMS if only is None or "%d,%d" % k == only]
    for _ in range(n):
        key = rng.choice(keys)
        K = PARAMS[key][4]
        la = rng.randint(1, maxlen)
        a = [rng.randrange(K) for _ in range(la)]
        b = list(a)
        if rng.random() < 0.8 and len(b) > 2:
            s = rng.randrange(len(b)); e = min(len(b), s + rng.randint(1, 4))
            del b[s:e]
        if rng.random() < 0.4:
            s = rng.randrange(len(b) + 1)
            b[s:s] = [rng.randrange(K) for _ in range(rng.randint(1, 3))]
        b = [x if rng.random() > 0.1 else rng.randrange(K) for x in b]
        if not b:
            b = [0]
        if rng.random() < 0.5:
            a, b = b, a
        ka, kb = rng.choice([1, 1, 2, 3]), rng.choice([1, 1, 2, 3])
        cases.append((key, a, b, ka, kb))
    ops = []
    for key, a, b, ka, kb in cases:
        seqs = [a] * ka + [b] * kb
        nseq = ka + kb
        tasks = []
        nxt = nseq
        cur = 0
        for i in range(1, ka):
            tasks += [cur, i]; cur = nxt; nxt += 1
        A = cur
        cur = ka
        for i in range(ka + 1, ka + kb):
            tasks += [cur, i]; cur = nxt; nxt += 1
        B = cur
        tasks += [A, B]
        ops.append("dp_align 0 %d %d bf800000 bf800000 bf800000 %d %s %s" % (key[0], key[1], nseq, " ".join(",".join(map(str, q)) for q in seqs), ",".join(map(str, tasks))))
    kvh = C.build_harness("asan")
    rc, out, err = C.run_lines(kvh, ops, env=C.SAN_ENV, timeout=3000)
    bad1 = bad2 = both = 0
    best = None
    kinds = {}
    for (key, a, b, ka, kb), o in zip(cases, out):
        sub, gpo, gpe, tgpe, _ = PARAMS[key]
        last = o.split(" ")[-1].split("/")
        path = [int(x) for x in last[0].split(",")]
        s1 = score(path, a, b, sub, gpo, gpe, tgpe); o1 = opt(a, b, sub, gpo, gpe, tgpe)
        s2 = score(path, a, b, sub, gpo, gpe, tgpe, 0); o2 = opt(a, b, sub, gpo, gpe, tgpe, 0)
        if s1 is None:
            print("ADJACENCY", key, a, b, path); continue
        bad1 += s1 != o1; bad2 += s2 != o2
        m = min(o1 - s1, o2 - s2)
        if m > 0:
            both += 1
            kk = ("seq" if ka == 1 else "prof") + "-" + ("seq" if kb == 1 else "prof")
            kinds[kk] = kinds.get(kk, 0) + 1
            if best is None or m > best[0] or (m == best[0] and len(a) + len(b) < len(best[2]) + len(best[3])):
                best = (m, key, a, b, ka, kb, path, (s1, o1), (s2, o2), last[3])
    print("%d cases; kalign's path below the optimum: model1 (terminal run costs gpo+L*tgpe) %d, model2 (L*tgpe) %d, both %d %s" % (len(cases), bad1, bad2, both, kinds))
    if best:
        print("largest margin under both models:", best)

main()
