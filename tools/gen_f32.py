#!/usr/bin/env python3
"""gen_f32.py <seed> [n] : op lines `f32 <op> <aBits> <bBits>` and `f32_of <int>` for the correspondence of the software
binary32 `SoftF32` (lean/KalignModel/Model/SoftFloat.lean, Driver/F32.lean) with C `float` arithmetic (harness/ops_f32.c), to
stdout.  Seeded, no other source of randomness.  `n` (default 200000) = approximate number of ops.

Operand pools: zeros of both signs, subnormals (smallest, largest, random), the smallest normals, powers of two and their
neighbours (+-1, +-2 ulp), FLT_MAX and neighbours, +-inf, quiet and signalling NaNs with payloads, random bit patterns, random
values with nearby exponents, "score-like" values (+-0..5000 with three decimals, multiples of 0.5, values near 1e6), small
and large integers (up to 2^31 and beyond 2^24).  Pairs are drawn from the pools and, in addition, constructed:
  * halfway cases for addition (b = +-half an ulp of a, +-1 ulp of that), large and small exponent differences (0..30, 100..250),
  * cancellation (b = -a +- few ulps), products / quotients landing in the subnormal range and at the overflow threshold,
  * exact halfway products (odd * odd significands) and quotients by powers of two,
  * the sentinel -FLT_MAX against everything (the DP kernels add scores to it)."""
import random, struct, sys

OPS2 = ["add", "sub", "mul", "div"]
CMP = ["lt", "gt", "le", "ge", "eq"]
UN = ["neg", "abs"]


def fbits(x):
    try:
        return struct.unpack("<I", struct.pack("<f", x))[0]
    except OverflowError:
        return 0x7f800000 if x > 0 else 0xff800000


def h(w):
    return "%08x" % (w & 0xffffffff)


def pool_special(rng):
    S = [0x00000000, 0x80000000, 0x00000001, 0x80000001, 0x00000002, 0x007fffff, 0x807fffff, 0x00800000, 0x80800000,
         0x00800001, 0x00400000, 0x3f800000, 0xbf800000, 0x3f7fffff, 0x3f800001, 0x40000000, 0x3f000000, 0x447a0000,
         0x7f7fffff, 0xff7fffff, 0x7f7ffffe, 0xff7ffffe, 0x7f000000, 0x7e800000, 0x7f800000, 0xff800000,
         0x7fc00000, 0xffc00000, 0x7fc00001, 0x7f800001, 0xff800001, 0x7fbfffff, 0x7fffffff, 0xffffffff, 0x7fa00000,
         0xffa12345, 0x7fd54321, 0x4b800000, 0x4b7fffff, 0x4b000000, 0x4b000001, 0x4f000000, 0xcf000000, 0x4effffff,
         0x49742400, 0x497423f0, 0x49742410, 0x33800000, 0x34000000, 0x73000000, 0x0c000000]
    return rng.choice(S)


def pool_pow2(rng):
    e = rng.randint(0, 254)
    w = e << 23
    w += rng.choice([-2, -1, 0, 0, 1, 2])
    w = max(0, min(w, 0x7f7fffff))
    return w | (rng.getrandbits(1) << 31)


def pool_sub(rng):
    return rng.randint(0, 0x7fffff) | (rng.getrandbits(1) << 31)


def pool_rand(rng):
    return rng.getrandbits(32)


def pool_score(rng):
    r = rng.random()
    if r < 0.3:
        v = rng.randint(-5000000, 5000000) / 1000.0
    elif r < 0.5:
        v = rng.randint(-10000, 10000) * 0.5
    elif r < 0.6:
        v = 1e6 + rng.randint(-2000, 2000) / 16.0
    elif r < 0.7:
        v = rng.choice([5.5, 2.0, 1.0, 0.5, 217.0, 39.4, 292.6, 24.31, 0.0, 55.0, 8.0, 4.0, 1e6, 1000.0, 2000.0]) * rng.choice([1, -1])
    elif r < 0.85:
        v = float(rng.randint(-(1 << 31), 1 << 31))
    else:
        v = float(rng.randint(-(1 << 25), 1 << 25))
    return fbits(v)


def pool_near(rng):
    e = rng.randint(100, 160)
    return (e << 23) | rng.getrandbits(23) | (rng.getrandbits(1) << 31)


POOLS = [pool_special, pool_pow2, pool_sub, pool_rand, pool_score, pool_near]


def pick(rng):
    return rng.choice(POOLS)(rng)


def decode(w):
    """(sign, sig, exp) of a finite pattern: value = sig * 2^exp units of 2^-149"""
    g = w & 0x7fffffff
    E = g >> 23
    if E == 0:
        return (w >> 31, g, 0)
    return (w >> 31, 0x800000 | (g & 0x7fffff), E - 1)


def halfway_add(rng):
    """a finite normal; b = +-(half ulp of a) +- {0,1} ulp(b), or scaled by a small power of two"""
    E = rng.randint(26, 253)
    a = (E << 23) | rng.getrandbits(23) | (rng.getrandbits(1) << 31)
    d = rng.choice([24, 24, 24, 23, 25, 1, 2, 3, 22, 26])
    Eb = E - d
    if Eb < 1:
        Eb = 1
    b = (Eb << 23) | rng.choice([0, 0, 0, 1, 0x7fffff, 0x400000, rng.getrandbits(23)])
    b += rng.choice([-1, 0, 0, 0, 1])
    b |= rng.getrandbits(1) << 31
    return a, b & 0xffffffff


def far_add(rng):
    Ea = rng.randint(1, 254)
    d = rng.choice([rng.randint(0, 30), rng.randint(100, 253)])
    Eb = max(0, Ea - d)
    a = (Ea << 23) | rng.getrandbits(23) | (rng.getrandbits(1) << 31)
    b = (Eb << 23) | rng.getrandbits(23) | (rng.getrandbits(1) << 31)
    return (a, b) if rng.random() < 0.5 else (b, a)


def cancel(rng):
    a = pick(rng)
    g = a & 0x7fffffff
    g2 = max(0, min(0x7f800000, g + rng.randint(-3, 3)))
    b = g2 | ((~a) & 0x80000000)
    return a, b


def mul_edge(rng):
    """exponents chosen so that the product / quotient is near the subnormal range or the overflow threshold"""
    r = rng.random()
    if r < 0.4:      # product near 2^-149 .. 2^-120
        Ea = rng.randint(1, 126)
        Eb = max(0, min(254, rng.randint(95, 135) - Ea))
    elif r < 0.7:    # product near 2^127..2^129
        Ea = rng.randint(128, 254)
        Eb = max(0, min(254, 381 + rng.randint(-2, 2) - Ea))
    else:
        Ea = rng.randint(0, 254)
        Eb = rng.randint(0, 254)
    fa = rng.choice([0, 1, 0x7fffff, 0x400000, rng.getrandbits(23), rng.getrandbits(12) << 11, rng.getrandbits(12) << 11 | 0x400])
    fb = rng.choice([0, 1, 0x7fffff, 0x400000, rng.getrandbits(23), rng.getrandbits(12) << 11, rng.getrandbits(11) << 12 | 0x800])
    a = (Ea << 23) | fa | (rng.getrandbits(1) << 31)
    b = (Eb << 23) | fb | (rng.getrandbits(1) << 31)
    return a, b


def div_edge(rng):
    r = rng.random()
    if r < 0.4:      # quotient in the subnormal range
        Eb = rng.randint(100, 254)
        Ea = max(0, min(254, Eb - 127 - rng.randint(-3, 26) + 0))
    elif r < 0.7:    # quotient near overflow
        Ea = rng.randint(128, 254)
        Eb = max(0, min(254, Ea - 127 + rng.randint(-2, 2)))
    else:
        Ea = rng.randint(0, 254)
        Eb = rng.randint(0, 254)
    fa = rng.choice([0, 1, 0x7fffff, 0x400000, rng.getrandbits(23), rng.getrandbits(12) << 11])
    fb = rng.choice([0, 0, 1, 0x7fffff, 0x400000, rng.getrandbits(23), rng.getrandbits(3) << 20])
    a = (Ea << 23) | fa | (rng.getrandbits(1) << 31)
    b = (Eb << 23) | fb | (rng.getrandbits(1) << 31)
    return a, b


def sentinel(rng):
    s = rng.choice([0xff7fffff, 0xff7fffff, 0x7f7fffff, 0xff800000])
    o = rng.choice([pool_score, pool_score, pick, pool_pow2])(rng)
    return (s, o) if rng.random() < 0.6 else (o, s)


def main():
    seed = int(sys.argv[1])
    n = int(sys.argv[2]) if len(sys.argv) > 2 else 200000
    rng = random.Random(seed * 7919 + 13)
    out = []
    for _ in range(n):
        r = rng.random()
        if r < 0.04:
            k = rng.random()
            if k < 0.4:
                v = rng.randint(-6000, 6000)
            elif k < 0.6:
                v = rng.randint(-(1 << 31), (1 << 31) - 1)
            elif k < 0.8:
                e = rng.randint(20, 62)
                v = (1 << e) + rng.choice([-2, -1, 0, 1, 2]) * (1 << max(0, e - rng.choice([23, 24, 25, 26]))) + rng.choice([-1, 0, 0, 1])
                v = v * rng.choice([1, -1])
            else:
                v = rng.randint(-(1 << 63) + 1, (1 << 63) - 1)
            out.append("f32_of %d" % v)
            continue
        if r < 0.34:
            a, b = pick(rng), pick(rng)
            op = rng.choice(OPS2 + OPS2 + CMP + UN)
        elif r < 0.44:
            a, b = halfway_add(rng); op = rng.choice(["add", "sub"])
        elif r < 0.52:
            a, b = far_add(rng); op = rng.choice(["add", "sub", "lt", "gt"])
        elif r < 0.58:
            a, b = cancel(rng); op = rng.choice(["add", "sub", "eq", "le", "lt"])
        elif r < 0.70:
            a, b = mul_edge(rng); op = "mul"
        elif r < 0.82:
            a, b = div_edge(rng); op = "div"
        elif r < 0.90:
            a, b = sentinel(rng); op = rng.choice(["add", "sub", "gt", "lt", "add", "sub", "mul"])
        else:
            a, b = pool_score(rng), pool_score(rng)
            op = rng.choice(OPS2 + ["gt", "add", "sub"])
        out.append("f32 %s %s %s" % (op, h(a), h(b)))
    sys.stdout.write("\n".join(out) + "\n")


if __name__ == "__main__":
    main()
