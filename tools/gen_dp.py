#!/usr/bin/env python3
"""gen_dp.py [seed] [nops] [outfile]: random ops for the dynamic-programming slice (harness/ops_dp.c,
lean/KalignModel/Driver/Dp.lean).  Seed from argv[1] or VERIF_SEED (default 1).  Deterministic per seed.

Coverage goals: all five parameter sets (+ the default types) and user penalties (ordinary, zero, -0.0, huge, inf);
the nine kernels on tiny rectangles, sub-rectangles with startb>0 / endb<len_b, every start-state pattern written
by aln_continue (A, GA, GB, inherited) and arbitrary float states; meetup on arbitrary cells with ties; the controller
through both entry points on lengths 1..700 (both sides of the 500 switch), on sub-rectangles with all kinds;
make_profile / set_gap_penalties / update_n (all flag branches); do_align chains over random trees."""
import os, random, struct, sys

NEG1 = "bf800000"
FLT_MAX_NEG = "ff7fffff"
ZERO = "00000000"


def fbits(x):
    return "%08x" % struct.unpack(">I", struct.pack(">f", x))[0]


PARAMSETS = [(0, 3), (0, 4), (1, 0), (1, 1), (1, 2)]
DEFAULT_TYPES = [(0, -1), (0, 5), (0, 6), (0, 99), (1, -1), (1, 5), (1, 99)]
FAIL_TYPES = [(0, 0), (0, 2), (1, 3), (1, 4), (2, 3), (2, -1)]


SPECIAL = ["80000000", "7f800000", fbits(3.0e38), fbits(1e30), "7fc00000", "00000001", fbits(-3.5), fbits(1e-30)]


class G:
    def __init__(self, seed):
        self.r = random.Random(seed)

    # ---------------- parameters
    def pen(self, special):
        r = self.r
        x = r.random()
        if x < 0.55:
            return NEG1
        if x < 0.9:
            return fbits(r.choice([0.0, 0.5, 1.0, 2.0, 2.5, 5.5, 8.0, 10.0, 39.4, 55.0, 217.0, 300.25, r.uniform(0, 60)]))
        if not special:
            return fbits(r.uniform(0, 20))
        return r.choice(SPECIAL)

    def param(self, special=False, allow_fail=False):
        r = self.r
        x = r.random()
        if allow_fail and x < 0.03:
            bt, ty = r.choice(FAIL_TYPES)
        elif x < 0.12:
            bt, ty = r.choice(DEFAULT_TYPES)
        else:
            bt, ty = r.choice(PARAMSETS)
        if r.random() < 0.6:
            pens = [NEG1, NEG1, NEG1]
        else:
            pens = [self.pen(special) for _ in range(3)]
        return bt, "%d %d %s %s %s" % (bt, ty, pens[0], pens[1], pens[2])

    # ---------------- sequences
    def alpha(self, bt):
        r = self.r
        if bt == 1:
            return 5 if r.random() < 0.85 else 23
        return 20 if r.random() < 0.7 else 23

    def seq(self, n, k):
        r = self.r
        if r.random() < 0.1:   # low complexity
            m = r.randint(1, 3)
            pool = [r.randrange(k) for _ in range(m)]
            return [r.choice(pool) for _ in range(n)]
        return [r.randrange(k) for _ in range(n)]

    def mutate(self, s, k, sub=0.1, indel=0.05):
        r = self.r
        out = []
        i = 0
        while i < len(s):
            x = r.random()
            if x < indel / 2:
                i += r.randint(1, 5)
                continue
            if x < indel:
                out += [r.randrange(k) for _ in range(r.randint(1, 5))]
            out.append(s[i] if r.random() > sub else r.randrange(k))
            i += 1
        return out if out else [r.randrange(k)]

    def family(self, n, length, k):
        r = self.r
        root = self.seq(max(1, length), k)
        fam = [root]
        while len(fam) < n:
            mode = r.random()
            if mode < 0.8:
                fam.append(self.mutate(r.choice(fam), k, r.choice([0.02, 0.1, 0.3]), r.choice([0.0, 0.03, 0.1])))
            elif mode < 0.9:
                fam.append(self.seq(max(1, int(length * r.uniform(0.2, 1.5))), k))
            else:   # fragment
                p = r.choice(fam)
                a = r.randrange(len(p))
                fam.append(p[a:a + r.randint(1, max(1, len(p) // 2))])
        r.shuffle(fam)
        return fam

    def length(self, big=0.0):
        r = self.r
        x = r.random()
        if x < big:
            return r.choice([r.randint(480, 520), r.randint(495, 505), r.randint(520, 700), 499, 500, 501])
        if x < big + 0.15:
            return r.randint(60, 300)
        if x < big + 0.45:
            return r.randint(1, 4)
        return r.randint(1, 40)

    @staticmethod
    def codes(s):
        return ",".join(map(str, s)) if s else "-"

    # ---------------- operands
    def rawprofile(self, length, nsip):
        r = self.r
        vals = []
        style = r.random()
        for col in range(length + 2):
            c = [0.0] * 64
            for j in range(23):
                if r.random() < 0.3:
                    c[j] = float(r.randint(1, nsip)) if style < 0.7 else r.uniform(-2, 3)
            if r.random() < 0.1:
                c[r.randrange(23)] = -0.0
            for j in range(23, 26):
                c[j] = float(r.randint(0, nsip))
            for j in (27, 28, 29):
                c[j] = -r.choice([0.0, 1.0, 2.0, 5.5, 8.0, 11.0, r.uniform(0, 30)])
            for j in range(32, 55):
                c[j] = r.choice([float(r.randint(-8, 12)), r.uniform(-10, 10), 0.0])
            for j in (55, 56, 57):
                c[j] = -r.uniform(0, 12)
            vals += c
        return "R%d:%s" % (nsip, "".join(fbits(v) for v in vals))

    def operand(self, want, bt, length, base=None, allow_group=True):
        """want: 'S' sequence, 'P' profile-like (group, raw, or single sequence used as profile)"""
        r = self.r
        k = self.alpha(bt)
        s = base if base is not None else self.seq(length, k)
        if want == 'S':
            return "S" + self.codes(s)
        x = r.random()
        if x < 0.7 and allow_group:
            n = r.choice([2, 2, 3, 3, 4, 6])
            fam = [s] + [self.mutate(s, k, r.choice([0.05, 0.2]), r.choice([0.0, 0.05, 0.1])) for _ in range(n - 1)]
            r.shuffle(fam)
            return "G" + "/".join(self.codes(q) for q in fam)
        if x < 0.85 and length <= 12:
            return self.rawprofile(len(s), r.randint(1, 9))
        return "S" + self.codes(s)

    def pair(self, fam, bt, la, lb, allow_group=True):
        """two related operands for family fam"""
        r = self.r
        k = self.alpha(bt)
        a = self.seq(la, k)
        if r.random() < 0.7:
            b = self.mutate(a, k, r.choice([0.05, 0.15, 0.4]), r.choice([0.0, 0.04, 0.12]))
            # bring b near the requested length
            if len(b) > lb:
                st = r.randrange(len(b) - lb + 1)
                b = b[st:st + lb]
            elif len(b) < lb and r.random() < 0.5:
                b = b + self.seq(lb - len(b), k)
        else:
            b = self.seq(lb, k)
        if fam == "ss":
            return "S" + self.codes(a), "S" + self.codes(b), 1
        if fam == "sp":
            A = self.operand('P', bt, la, a, allow_group)
            sip = int(A[1:].split(":")[0]) if A[0] == 'R' else (A.count("/") + 1 if A[0] == 'G' else 1)
            if r.random() < 0.1:
                sip = r.randint(0, 12)
            return A, "S" + self.codes(b), sip
        return self.operand('P', bt, la, a, allow_group), self.operand('P', bt, lb, b, allow_group), r.randint(0, 3)

    @staticmethod
    def oplen(o):
        if o[0] == 'S':
            return 0 if o[1:] == "-" else o.count(",") + 1
        if o[0] == 'R':
            return len(o.split(":")[1]) // 8 // 64 - 2
        return None   # group: length known only after alignment

    def state(self, onehot_only=False):
        r = self.r
        x = r.random()
        if x < 0.25 or onehot_only and x < 0.34:
            return ZERO + FLT_MAX_NEG + FLT_MAX_NEG
        if x < 0.5 or onehot_only and x < 0.67:
            return FLT_MAX_NEG + ZERO + FLT_MAX_NEG
        if x < 0.75 or onehot_only:
            return FLT_MAX_NEG + FLT_MAX_NEG + ZERO
        if x < 0.8:
            return FLT_MAX_NEG * 3
        return "".join(fbits(r.choice([0.0, -1.0, 3.5, -12.25, r.uniform(-50, 50), -3.4028234663852886e38])) for _ in range(3))

    def rect(self, la, lb):
        r = self.r
        x = r.random()
        if x < 0.25:
            sa, ea, sb, eb = 0, la, 0, lb
        else:
            sa = r.randint(0, la); ea = r.randint(sa, la)
            if r.random() < 0.3:
                ea = min(la, sa + r.randint(0, 2))
            sb = r.randint(0, lb - 1); eb = r.randint(sb + 1, lb)
            y = r.random()
            if y < 0.25:
                sb = 0
            elif y < 0.5:
                eb = lb
            elif y < 0.65:
                eb = min(lb, sb + 1)
            if sb >= eb:
                sb, eb = 0, lb
        return sa, ea, sb, eb

    # ---------------- ops
    def op_make_profile(self):
        bt, P = self.param(True, True)
        return "dp_make_profile %s S%s" % (P, self.codes(self.seq(self.r.choice([0, 1, 2, 5, 17, 40]), self.alpha(bt))))

    def op_set_gap(self):
        bt, P = self.param()
        o = self.operand('P', bt, self.r.randint(1, 10))
        return "dp_set_gap %s %s %d" % (P, o, self.r.choice([0, 1, 2, 3, 7, 50, 1000]))

    def op_update(self):
        r = self.r
        bt, P = self.param()
        k = self.alpha(bt)
        la, lb = r.randint(1, 14), r.randint(1, 14)
        A = "S" + self.codes(self.seq(la, k)) if r.random() < 0.6 else self.rawprofile(la, r.randint(1, 5))
        B = "S" + self.codes(self.seq(lb, k)) if r.random() < 0.6 else self.rawprofile(lb, r.randint(1, 5))
        # a consistent column list, then flags
        cols = []
        i = j = 0
        while i < la or j < lb:
            opts = []
            if i < la and j < lb:
                opts += [0, 0, 0]
            if j < lb:
                opts.append(1)
            if i < la:
                opts.append(2)
            c = r.choice(opts)
            cols.append(c)
            if c == 0:
                i += 1; j += 1
            elif c == 1:
                j += 1
            else:
                i += 1
        mode = r.random()
        out = []
        for n, c in enumerate(cols):
            if c and mode < 0.5:        # what add_gap_info produces: terminal flag only
                lead = all(x != 0 for x in cols[:n + 1]); trail = all(x != 0 for x in cols[n:])
                out.append(c | (32 if lead or trail else 0))
            elif c:                     # arbitrary flag combinations (all branches of update_n)
                out.append(c | r.choice([0, 4, 8, 16, 32, 36, 48, 20, 52, 12]))
            else:
                out.append(0)
        x = r.random()
        if x < 0.06:
            out.append(r.choice([0, 1, 2]))         # consumes one column too many
        elif x < 0.09 and out:
            out[r.randrange(len(out))] = r.choice([4, 8, 16, 32])   # a code that is no column
        elif x < 0.12 and out:
            out[r.randrange(len(out))] = 3           # early terminator
        return "dp_update %s %s %s %s %d %d %d" % (P, A, B, ",".join(map(str, out)) if out else "-",
                                                    r.randint(0, 9), r.randint(0, 9), 1 if la + lb < 12 else 0)

    def ctx(self, fam=None, big=0.0, special=False, allow_group=True, maxlen=None):
        r = self.r
        fam = fam or r.choice(["ss", "sp", "pp"])
        bt, P = self.param(special and fam == "ss", False)
        la, lb = self.length(big), self.length(big)
        if maxlen:
            la, lb = min(la, maxlen), min(lb, maxlen)
        if r.random() < 0.5 and la > 3:
            lb = max(1, la + r.randint(-3, 3))
        A, B, sip = self.pair(fam, bt, la, lb, allow_group)
        return fam, P, A, B, sip

    def op_kernel(self):
        r = self.r
        fam, P, A, B, sip = self.ctx(big=0.01, special=True, allow_group=r.random() < 0.6)
        la, lb = self.oplen(A), self.oplen(B)
        if la is None or lb is None:
            # group lengths are not known here: use a small rectangle that fits every member's minimum length
            la = la if la is not None else min(len(q.split(",")) for q in A[1:].split("/"))
            lb = lb if lb is not None else min(len(q.split(",")) for q in B[1:].split("/"))
        sa, ea, sb, eb = self.rect(la, lb)
        return "%s %s %s %s %s %d %d %d %d %d %s" % (r.choice(["dp_fwd", "dp_bwd"]), fam, P, A, B, sip, sa, ea, sb, eb, self.state())

    def cells(self, n):
        r = self.r
        pool = [0.0, 1.0, -1.0, 2.0, 5.5, -5.5, 10.0, -3.4028234663852886e38, 7.25, -7.25]
        style = r.random()
        out = []
        for _ in range(3 * n):
            if style < 0.5:
                out.append(r.choice(pool))
            elif style < 0.8:
                out.append(float(r.randint(-20, 20)))
            else:
                out.append(r.choice([r.uniform(-100, 100), -3.4028234663852886e38]))
        return "".join(fbits(v) for v in out)

    def op_meet(self):
        r = self.r
        fam, P, A, B, sip = self.ctx(special=True, allow_group=False, maxlen=14)
        la, lb = self.oplen(A), self.oplen(B)
        _, _, sb, eb = self.rect(la, lb)
        mid = r.randint(0, la)
        n = eb - sb + 1
        return "dp_meet %s %s %s %s %d %d %d %d %s %s" % (fam, P, A, B, sip, sb, eb, mid, self.cells(n), self.cells(n))

    def op_step(self):
        r = self.r
        fam, P, A, B, sip = self.ctx(big=0.01, special=True, allow_group=r.random() < 0.6)
        la, lb = self.oplen(A), self.oplen(B)
        if la is None:
            la = min(len(q.split(",")) for q in A[1:].split("/"))
        if lb is None:
            lb = min(len(q.split(",")) for q in B[1:].split("/"))
        for _ in range(20):
            sa, ea, sb, eb = self.rect(la, lb)
            if sa < ea:
                break
        else:
            sa, ea = 0, la
        oh = r.random() < 0.8
        return "dp_step %s %s %s %s %d %d %d %d %d %s %s" % (fam, P, A, B, sip, sa, ea, sb, eb, self.state(oh), self.state(oh))

    def op_runner(self, big=0.06):
        r = self.r
        full = r.random() < 0.7
        fam, P, A, B, sip = self.ctx(big=big, special=r.random() < 0.3, allow_group=True)
        la, lb = self.oplen(A), self.oplen(B)
        entry = r.choice(["par", "par", "ser"])
        if full or la is None or lb is None:
            # the meetup contract presupposes that -FLT_MAX acts as minus infinity: not monitored for absurd penalties
            mon = 0 if any(t in SPECIAL for t in P.split(" ")) else 1
            return "dp_runner %s %s %s %s %s %d 0 L 0 L A A %d" % (entry, fam, P, A, B, sip, mon)
        sa = r.randint(0, la); ea = r.randint(sa, la)
        sb = r.randint(0, lb); eb = r.randint(sb, lb)
        return "dp_runner %s %s %s %s %s %d %d %d %d %d %s %s 0" % (entry, fam, P, A, B, sip, sa, ea, sb, eb,
                                                                     r.choice(["A", "GA", "GB"]), r.choice(["A", "GA", "GB"]))

    def op_align(self, big=0.04):
        r = self.r
        bt, P = self.param(False, False)
        k = self.alpha(bt)
        n = r.choice([2, 2, 3, 3, 4, 5, 6, 8])
        length = self.length(big)
        if length > 300:
            n = min(n, 4)
        fam = self.family(n, length, k)
        # random tree
        avail = list(range(n))
        tasks = []
        nt = n - 1 if r.random() < 0.8 else r.randint(1, n - 1)
        for kk in range(nt):
            a = avail.pop(r.randrange(len(avail)))
            b = avail.pop(r.randrange(len(avail)))
            tasks += [a, b]
            avail.append(n + kk)
        return "dp_align %d %s %d %s %s" % (r.randint(0, 1), P, n, " ".join(self.codes(s) for s in fam), ",".join(map(str, tasks)))

    def malformed(self):
        r = self.r
        return r.choice([
            "dp_fwd ss 0 3 bf800000 bf800000 bf800000 S1,2 S1,2 1 0 2 0 3 00000000ff7fffffff7fffff",
            "dp_fwd ss 0 3 bf800000 bf800000 bf800000 S1,2 S1,2 1 0 2 1 1 00000000ff7fffffff7fffff",
            "dp_fwd ss 0 3 bf800000 bf800000 bf800000 S1,23 S1,2 1 0 2 0 2 00000000ff7fffffff7fffff",
            "dp_fwd sp 0 3 bf800000 bf800000 bf800000 S1,2 G1,2/1 1 0 2 0 1 00000000ff7fffffff7fffff",
            "dp_fwd ss 0 7 bf800000 bf800000 bf800000 S1,2 S1,2 1 0 2 0 2 00000000ff7fffffff7fffff",
            "dp_make_profile 0 3 bf800000 bf800000 S1",
            "dp_make_profile 0 3 bf800000 bf800000 bf80000 S1",
            "dp_runner both ss 0 3 bf800000 bf800000 bf800000 S1,2 S1,2 1 0 2 0 2 A A 1",
            "dp_runner par ss 0 3 bf800000 bf800000 bf800000 S1,2 S1,2 1 0 2 0 2 A X 1",
            "dp_align 0 0 3 bf800000 bf800000 bf800000 3 1,2 1,2 1,2 0,1,0,2",
            "dp_align 0 0 3 bf800000 bf800000 bf800000 3 1,2 1,2 1,2 0,1,3,4",
            "dp_update 0 3 bf800000 bf800000 bf800000 S1,2 S1 0,x 1 1 1",
            "dp_set_gap 0 3 bf800000 bf800000 bf800000 R2:00000000 1",
            "dp_meet ss 0 3 bf800000 bf800000 bf800000 S1,2 S1,2 1 0 2 1 00 00",
        ])

    def gen(self, n):
        r = self.r
        table = [(self.op_make_profile, 3), (self.op_set_gap, 3), (self.op_update, 8), (self.op_kernel, 30),
                 (self.op_meet, 10), (self.op_step, 14), (self.op_runner, 22), (self.op_align, 9), (self.malformed, 1)]
        fns = [f for f, w in table for _ in range(w)]
        return [r.choice(fns)() for _ in range(n)]


def main():
    seed = int(sys.argv[1]) if len(sys.argv) > 1 else int(os.environ.get("VERIF_SEED", "1"))
    n = int(sys.argv[2]) if len(sys.argv) > 2 else 3000
    ops = G(seed).gen(n)
    out = open(sys.argv[3], "w") if len(sys.argv) > 3 else sys.stdout
    out.write("\n".join(ops) + "\n")


if __name__ == "__main__":
    main()
