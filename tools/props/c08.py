"""C08 — identical sequences are aligned without gaps."""
import os
from lib import common as C
from lib import gen, sysrun
from lib.sysrun import Case

LEVEL = "proof"
CHECKER = "lake build KalignModel.Props.C08All && lake env lean KalignModel/Audit/C08.lean"


def theorems():
    out = []
    for f in ("C08.theorems", "C08Opt.theorems", "C08Direct.theorems", "C08DirectSoft.theorems"):
        p = os.path.join(C.LEAN, "KalignModel", "Props", f)
        if os.path.exists(p):
            out += [l.strip() for l in open(p) if l.strip() and not l.startswith("#")]
    p = os.path.join(C.LEAN, "KalignModel", "Props", "C07Soft.theorems")
    if os.path.exists(p):
        out += [l.strip() for l in open(p) if l.strip().startswith("Kalign.C08Soft") or "dyadic" in l]
    p = os.path.join(C.LEAN, "KalignModel", "Props", "C07SoftGroups.theorems")
    if os.path.exists(p):
        out += [l.strip() for l in open(p) if "C08Soft" in l]
    return out


def run(ctx):
    ctx.trusted = list(C.TRUSTED_COMMON) + ["that kalign's Hirschberg implementation returns the strict optimum is C07's tie (bit-exact kernel correspondence, certified oracle); here it is "
                                            "searched end to end", "user gap penalties are outside the property (Φ is about the defaults of each type)"]
    ctx.cov["_rule"] = ("all-identical inputs: nucleotides with IUPAC codes, all-N, proteins with B/Z/X, all-X, homopolymers and short repeats, lengths 1..5000, 2..500 copies, every "
                        "admissible type, threads 1..16, both APIs; oracle: every output row equals the input string; non-trivial = distinct (string, copies, type) with length >= 2")
    thms = theorems()
    ok = C.lean_obligations(ctx, "C08", thms, module="C08All") if thms else False
    if not thms:
        ctx.obligations.append(dict(name="Props/C08 theorems", ok=False, why="theorem list missing"))
    kvh = C.build_harness("asan")
    rng = ctx.rng
    # the DP core on identical operands is also compared bit-exactly model vs code (shared with C07)
    ops = C.gen_ops("gen_dp.py", ctx.seed + 1000, 200 if ctx.quick else 2000, outfile=os.path.join(C.scratch(), "dp8.ops"))
    diffs = C.unit_correspondence(ctx, kvh, ops, "dp")
    # identical copies through the whole pipeline model (Float32 and SoftF32 carriers) against kalign(): all-N / all-X / wildcard-heavy, every type
    ic = os.path.join(C.CORPUS, "sliceAC_identical.ops")
    if os.path.exists(ic):
        il = [l.strip() for l in open(ic) if l.strip()]
        il = il[ctx.seed % 4::4] if ctx.quick else il
        diffs += C.correspond(kvh, il, chunks=C.NCPU, timeout=1800)
        ctx.count("unit_ops_pipeline_identical", len(il))
        ctx.evaluations += len(il)
    cases = []
    for i in range(70 if ctx.quick else 600):
        kind = rng.choice(["dna", "rna", "protein"])
        comp = rng.randrange(7)
        L = rng.choice([1, 2, 3, 7, 30, 100, 499, 500, 501] + ([1200, 5000] if not ctx.quick else [800]))
        if kind == "protein":
            alpha = [gen.AA, gen.AA + "BZX", "X", "B", "AX", "W", "LMIV"][comp]
            if i % 5 == 2:
                # an ambiguity code with the residues it stands for (B = D/N, Z = E/Q) and with the other codes: the pairs whose scores sit closest to
                # the codes' own diagonal entries
                alpha = rng.choice(["BD", "BN", "ZE", "ZQ", "BZ", "BDN", "ZEQ", "XB", "XZ", "BDZE"])
                L = rng.choice([16, 30, 60, 100, 240])
        else:
            base = gen.RNA if kind == "rna" else gen.DNA
            alpha = [base, base + gen.IUPAC, "N", "A", "AN", "AT", base + "N"][comp]
        s = gen.rand_seq(rng, alpha, L)
        if kind == "protein" and i % 5 == 2 and len(alpha) == 2 and rng.random() < 0.6:
            s = (alpha * L)[:L]              # strictly alternating
            if rng.random() < 0.3:
                s = gen.rand_seq(rng, gen.AA, rng.randint(3, 20)) + s + gen.rand_seq(rng, gen.AA, rng.randint(3, 20))
        if rng.random() < 0.3:
            s = "".join(ch.lower() if rng.random() < 0.5 else ch for ch in s)
        copies = rng.choice([2, 2, 3, 5, 17, 60, 99, 100, 101] + ([500] if not ctx.quick else [150]))
        if L >= 1200:
            copies = rng.choice([2, 3, 8])
        if copies >= 100 and L > 200:
            L = 120
            s = s[:L]
        recs = [("c%d" % k, s) for k in range(copies)]
        types = [3, 4, 5] if kind == "protein" else [0, 1, 2, 5]
        t = rng.choice(types)
        api = rng.choice(["file", "arr"])
        cases.append(Case(recs, t, threads=rng.choice([1, 2, 8, 16]), api=api, fmt=rng.choice(["fasta", "clu", "msf"])))
    # large groups: both sides of the last merges hold hundreds of copies (gap penalties and match scores both scale with the product of the group
    # sizes); the sequences with the smallest default margin: all-X / mostly-X proteins (s(X,X) = -1), all-N nucleotides, tgpe = 0 types
    for j in range(4 if ctx.quick else 24):
        kind = ["protein", "protein", "dna", "rna"][j % 4]
        L = rng.choice([20, 40, 90])
        if kind == "protein":
            s_ = "X" * L if j % 8 < 4 else "".join("X" if rng.random() < 0.9 else rng.choice("ACDW") for _ in range(L))
            t = rng.choice([3, 5])
        else:
            s_ = "N" * L if j % 8 < 4 else "".join("N" if rng.random() < 0.8 else rng.choice("ACG" + ("U" if kind == "rna" else "T")) for _ in range(L))
            t = rng.choice([0, 1, 5]) if kind == "dna" else rng.choice([2, 5])
        copies = rng.choice([300, 320, 400, 513])
        recs = [("c%d" % k, s_) for k in range(copies)]
        t = gen.fit_type(t, kind, recs)
        cases.append(Case(recs, t, threads=rng.choice([1, 8]), api="file", fmt="fasta", tag="large group"))
    # many identical copies of long sequences (the k-means splitter sees identical distance rows whose float mean differs from the rows by more than
    # its tie tolerance only for lengths in a middle band): uninstrumented build, a crash or an abort counts like any other failure
    longid = []
    for j in range(3 if ctx.quick else 18):
        kind = rng.choice(["protein", "dna"])
        L = [1000, 1500, 700, 2000, 1200, 900][j % 6]
        s_ = gen.rand_seq(rng, gen.AA if kind == "protein" else gen.DNA, L)
        copies = rng.choice([128, 150, 200, 300])
        recs = [("c%d" % k, s_) for k in range(copies)]
        longid.append(Case(recs, gen.fit_type(5, kind, recs), threads=rng.choice([1, 4]), api="file", fmt="fasta", tag="many long identical copies"))
    sysrun.run_cases(C.build_harness("plain"), longid, timeout=1800)
    sysrun.run_cases(kvh, cases, timeout=1800)
    cases += longid
    fails = []
    for c in cases:
        ctx.evaluations += 1
        s = c.records[0][1]
        if c.crashed:
            fails.append(("crash / sanitizer report", c.describe()))
            continue
        if c.rc != 0:
            # an all-ambiguity composition may be *detected* as the other kind and the type then rejected: not a gap
            ctx.count("rejected")
            continue
        rows = sysrun.parse_output(c)
        bad = [r for _, r in rows if r != s]
        if len(rows) != len(c.records) or bad:
            fails.append(("identical sequences were aligned with gaps (or rows altered): %r" % (bad[:2],), dict(case=c.describe(), rows=rows[:6])))
            continue
        ctx.count("ok_%s" % ("kmeans" if len(rows) >= 100 else "upgma"))
        ctx.count("len_%s" % ("ge500" if len(s) >= 500 else "lt500"))
        if len(s) >= 2:
            ctx.nontriv((s, len(rows), c.type))
        if len(ctx.samples) < 3 and len(s) <= 30 and len(rows) <= 4:
            ctx.sample(dict(string=s, copies=len(rows), type=c.type, rows=rows))
    for why, rep in fails[:5]:
        ctx.violation(why, dict(kind="oracle", detail=rep))
    C.report_diffs(ctx, diffs, fails, "DP kernels (shared with C07)")
    if not ok and not fails and not diffs:
        ctx.violation("proof obligations of C08 no longer check", dict(kind="proof", broken=[o for o in ctx.obligations if not o["ok"]],
                                                                        log=getattr(ctx, "build_errors", "")[-3000:]), no_input=True)
    return ctx.finish(LEVEL, CHECKER)


def replay(ctx, path):
    return C.replay_generic(path)
