"""C13 — nucleotide and protein inputs are recognised from their residue letters."""
import os
from lib import common as C
from lib import gen, sysrun
from lib.sysrun import Case

LEVEL = "proof"
THEOREMS = ["Kalign.C13_p1_dna", "Kalign.C13_p2_protein", "Kalign.C13_p3_order", "Kalign.C13_protein_only_letters", "Kalign.C13_nuc_letters"]
CHECKER = "lake build KalignModel.Props.C13 && lake env lean KalignModel/Audit/C13.lean"

NUC = "ACGTUNacgtun"
PROT_ONLY = "DEFHIKLMPQRSVWYdefhiklmpqrsvwy"
LETTERS = "ABCDEFGHIJKLMNOPQRSTUVWXYZabcdefghijklmnopqrstuvwxyz"


def hist_line(op, h):
    return "%s %s" % (op, ",".join(str(x) for x in h))


def rand_hist(rng):
    h = [0] * 128
    mode = rng.randrange(6)
    n = rng.choice([1, 2, 5, 40, 300, 5000])
    if mode == 0:      # P1
        for _ in range(min(n, 60)):
            h[ord(rng.choice(NUC))] += rng.randint(1, max(1, n // 10))
    elif mode == 1:    # P2 boundary: exactly a quarter protein-only
        k = rng.randint(1, 50)
        for _ in range(k):
            h[ord(rng.choice(PROT_ONLY))] += 1
        for _ in range(3 * k):
            h[ord(rng.choice(rng.choice([NUC, "BJOXZbjoxz", NUC])))] += 1
    elif mode == 2:    # near the decision boundary: many shared letters, few protein-only
        k = rng.randint(0, 6)
        for _ in range(k):
            h[ord(rng.choice(PROT_ONLY))] += 1
        m = int(k * 8.16) + rng.randint(-3, 3)
        for _ in range(max(0, m)):
            h[ord(rng.choice(NUC))] += 1
        for _ in range(rng.randint(0, 5)):
            h[ord(rng.choice("BJOXZbjoxz"))] += 1
    elif mode == 3:    # arbitrary letters
        for _ in range(rng.randint(1, 80)):
            h[ord(rng.choice(LETTERS))] += rng.randint(1, 30)
    elif mode == 4:    # arbitrary bytes (array API counts everything)
        for _ in range(rng.randint(1, 30)):
            h[rng.randrange(128)] += rng.randint(1, 9)
    else:
        pass           # empty histogram: undecidable
    return h


def run(ctx):
    ctx.trusted = list(C.TRUSTED_COMMON) + ["A-float: detect_alphabet works in doubles (libm log); the theorems are about the exact rational reading `detectExact`; "
                                            "agreement of the double model with the exact one is measured on every generated histogram (disagreements counted as ambiguous)"]
    ctx.cov["_rule"] = ("histograms on both sides of both premises and near the decision boundary (unit); end to end: files in 3 formats incl. heavily gapped "
                        "presentations, array API acceptance of --type dna/protein, permuted/renamed records; non-trivial = distinct compositions with >= 2 letter classes")
    ok = C.lean_obligations(ctx, "C13", THEOREMS)
    kvh = C.build_harness("asan")
    rng = ctx.rng
    hs = [rand_hist(rng) for _ in range(1500 if ctx.quick else 20000)]
    lines = [hist_line("detect_alphabet", h) for h in hs]
    diffs = C.correspond(kvh, lines)
    ctx.evaluations += len(lines)
    # exact vs double model (model-internal)
    rc, oe, _ = C.run_lines(C.kmodel_path(), [hist_line("detect_exact", h) for h in hs])
    rc, of, _ = C.run_lines(C.kmodel_path(), lines)
    amb = sum(1 for a, b in zip(oe, of) if a != b)
    ctx.cov["float_vs_exact_ambiguous"] = amb
    ctx.sample(dict(histogram_nonzero={chr(i): n for i, n in enumerate(hs[0]) if n}, decision=of[0]))
    # premises checked directly on the implementation's unit function
    fails = []
    rc, oi, err = C.run_lines(kvh, lines, env=C.SAN_ENV)
    for h, d in zip(hs, oi):
        tot = sum(h)
        if tot == 0:
            continue
        nuc = sum(h[ord(c)] for c in NUC)
        po = sum(h[ord(c)] for c in PROT_ONLY)
        letters = sum(h[ord(c)] for c in LETTERS)
        classes = sum(1 for x in (nuc, po, tot - nuc - po) if x)
        if classes >= 2:
            ctx.nontriv(tuple(h))
        if nuc == tot and d != "1":
            fails.append(("all residues are nucleotide letters but detect_alphabet says %s" % d, dict(histogram={chr(i): n for i, n in enumerate(h) if n})))
        if letters == tot and 4 * po >= tot and d != "0":
            fails.append(("a quarter of the residues are protein-only letters but detect_alphabet says %s" % d, dict(histogram={chr(i): n for i, n in enumerate(h) if n})))
    # end to end
    cases = []
    arr_sets = []
    nset = 10 if ctx.quick else 80
    for i in range(nset):
        kind = rng.choice(["dna", "rna", "protein"])
        recs = gen.family(rng, kind, rng.randint(2, 6), rng.choice([8, 40, 120]), spice=False)
        if kind == "protein":
            # make sure at least a quarter are protein-only letters
            recs = [(n, "".join(ch if rng.random() < 0.5 else rng.choice("DEFHIKLMPQRSVWY") for ch in s)) for n, s in recs]
            tot = sum(len(s) for _, s in recs)
            po = sum(1 for _, s in recs for ch in s if ch in PROT_ONLY)
            if 4 * po < tot:
                continue
            exp = 0
        else:
            recs = [(n, "".join(ch if rng.random() < 0.9 else "N" for ch in s)) for n, s in recs]
            exp = 1
        if rng.random() < 0.5:
            recs = [(n, "".join(ch.lower() if rng.random() < 0.5 else ch for ch in s)) for n, s in recs]
        # presentations: plain, heavily gapped aligned fasta, shuffled + renamed
        pres = [("plain", gen.fasta_text(recs))]
        L = max(len(s) for _, s in recs)
        gp = rng.choice([3, 8, 20])
        gapped = []
        for n, s in recs:
            row = "".join("-" * gp + ch for ch in s) + "-" * (gp * (L - len(s)) + (L - len(s)))
            gapped.append((n, row))
        pres.append(("gapped x%d" % gp, gen.fasta_text(gapped)))
        gapped_split = gapped
        sh = list(recs)
        rng.shuffle(sh)
        sh = [("q%d" % k, s) for k, (n, s) in enumerate(sh)]
        pres.append(("shuffled+renamed", gen.fasta_text(sh)))
        # FASTA records with very long description lines (4 k .. 20 k characters of free text spelled in letters of the OTHER class): a header is one
        # line however long it is, and no part of it is residues
        words = ["ACGT", "GATTACA", "TATA", "CAT", "TAG", "ACT"] if exp == 0 else ["hypothetical", "protein", "similar", "to", "kinase", "domain", "family", "member", "putative"]
        desc = []
        while sum(len(w_) + 1 for w_ in desc) < rng.choice([4090, 4100, 5000, 9000, 20000]):
            desc.append(rng.choice(words))
        kdesc = rng.randrange(len(recs))
        pres.append(("fasta long description", "".join(">%s %s\n%s\n" % (n_, " ".join(desc) if k_ == kdesc or rng.random() < 0.3 else "x", q_) for k_, (n_, q_) in enumerate(recs))))
        # the other two readers, with long descriptive names spelled in letters of the OTHER class (the decision must not look at names)
        import random as _random
        from props import c04
        other = "ACGT" if exp == 0 else "EFILPQ"
        ln = [("%s_%d" % ("".join(rng.choice(other) for _ in range(rng.choice([12, 30, 60]))), k), q) for k, (n_, q) in enumerate(recs)]
        if all(q for _, q in ln):
            rows = c04.gap_rows(rng, ln, 0.02)
            pres.append(("msf long names", c04.render_msf(_random.Random(rng.getrandbits(30)), rows)))
            # blocks of one to four columns: every residue is then the first, or nearly the first, of its row segment
            rows_s = c04.gap_rows(rng, [("r%d" % k, q) for k, (n_, q) in enumerate(recs)], 0.02)
            wn = rng.choice([1, 2, 3, 4])
            pres.append(("clustal blocks of %d columns" % wn, c04.render_clustal(_random.Random(rng.getrandbits(30)), rows_s, width=wn)))
            pres.append(("msf blocks of %d columns" % wn, c04.render_msf(_random.Random(rng.getrandbits(30)), rows_s, width=wn)))
            pres.append(("clustal long names", c04.render_clustal(_random.Random(rng.getrandbits(30)), rows)))
        arr_sets.append((exp, [q for _, q in recs if q]))
        for tag, txt in pres:
            for t in (5, 0 if exp == 1 else 3, 3 if exp == 1 else 0):
                c = Case(recs, t, fmt="msf", intext=txt, tag="%s type=%d" % (tag, t))
                c.exp = exp
                cases.append(c)
        if i % 2 == 0:
            # an input that holds records without any residue letters (names only, or gap glyphs only) read BEFORE the file with the sequences: the class
            # of the combined input is that of the residues there are
            lead = rng.choice([">only_a_name\n>another_name\n", ">g1\n----\n>g2\n--..--\n", ">n1\n\n>n2\n-\n>n3\n"])
            for t in (5, 0 if exp == 1 else 3, 3 if exp == 1 else 0):
                c = Case(recs, t, fmt="msf", infiles=[lead, gen.fasta_text(recs)], tag="residue-free records first, then the sequences type=%d" % t)
                c.exp = exp
                cases.append(c)
        if len(gapped_split) >= 2:
            # the heavily gapped presentation given as two (or three) input files that are merged: the class of the merged set is still decided by
            # the residues alone
            k_ = rng.randint(1, len(gapped_split) - 1)
            parts_ = [gapped_split[:k_], gapped_split[k_:]]
            if len(parts_[1]) >= 2 and rng.random() < 0.4:
                parts_ = [parts_[0], parts_[1][:1], parts_[1][1:]]
            c = Case(recs, 5, fmt="msf", infiles=[gen.fasta_text(p_) for p_ in parts_], tag="gapped x%d in %d files type=5" % (gp, len(parts_)))
            c.exp = exp
            cases.append(c)
    # large inputs whose composition is very uneven along the file (the decision must see every residue of every sequence, in any order):
    # detection only, through kalign_read_input (op h_read prints the class)
    sc_ = C.scratch()
    big_lines, big_meta = [], []
    for j in range(6 if ctx.quick else 40):
        nseq, L = rng.choice([(150, 500), (40, 3000), (300, 400), (1200, 60)])
        want = rng.choice([0, 1])
        recs_ = []
        if want == 0:
            # peptides spelled only with A/C/G/T/N in the first part, protein-rich ones after it; overall >= a quarter protein-only letters
            nlead = int(nseq * rng.choice([0.5, 0.6, 0.68]))
            for k in range(nseq):
                if k < nlead:
                    recs_.append(("p%d" % k, gen.rand_seq(rng, "ACGTN", L)))
                else:
                    recs_.append(("p%d" % k, gen.rand_seq(rng, "DEFHIKLMPQRSVWY", L)))
        else:
            recs_ = [("n%d" % k, gen.rand_seq(rng, "ACGTUNacgtun", L)) for k in range(nseq)]
        tot_ = sum(len(q) for _, q in recs_)
        po_ = sum(1 for _, q in recs_ for ch in q if ch in PROT_ONLY)
        if want == 0 and 4 * po_ < tot_:
            continue
        for order in ("as is", "reversed", "shuffled"):
            rr = list(recs_)
            if order == "reversed":
                rr.reverse()
            elif order == "shuffled":
                rng.shuffle(rr)
            path = os.path.join(sc_, "c13_big_%d_%s.fa" % (j, order.replace(" ", "")))
            open(path, "w").write(gen.fasta_text(rr, width=rng.choice([60, 80, 1000])))
            big_lines += ["h_read 0 %s" % path, "h_free 0"]
            big_meta.append((want, order, path, tot_))
    rc_, ob, eb = C.run_lines(kvh, big_lines, env=C.SAN_ENV, timeout=1200)
    for k, (want, order, path, tot_) in enumerate(big_meta):
        ctx.evaluations += 1
        o = ob[2 * k] if 2 * k < len(ob) else ""
        if "biotype=%d" % want not in o:
            fails.append(("large input (%d residues, composition uneven along the file, order %s): detected %r, expected class %d" % (tot_, order, o[:80], want),
                          dict(file_head=open(path).read()[:2000], records=len(open(path).read().split(">")) - 1)))
        else:
            ctx.count("large_inputs_ok")
        os.remove(path)
    # the in-memory entry point (kalign_arr_to_msa / kalign()): the class it concludes, and which --type values kalign() then accepts; many calls in
    # ONE process with the two kinds alternating and sizes varying (each call decides on its own strings only), in the sanitizer build (fresh heap
    # blocks are poisoned) and in the plain build (freed blocks are handed out again at once)
    for j in range(4 if ctx.quick else 30):
        big = gen.rand_seq(rng, "ACGTN" if j % 2 else "DEFHIKLMPQRSVWY", rng.choice([400, 3000]))
        arr_sets.insert(rng.randrange(len(arr_sets) + 1), (1 if j % 2 else 0, [big] * rng.randint(2, 4)))
    order = list(arr_sets)
    alt = sorted(order, key=lambda e: e[0])
    half = len(alt) // 2
    inter = [x for pair in zip(alt[:half], reversed(alt[half:])) for x in pair]          # protein, nucleotide, protein, ...
    arr_lines, arr_meta = [], []
    for exp, seqs in order + inter:
        if not seqs:
            continue
        arr_lines.append("arr_detect " + " ".join(seqs))
        arr_meta.append(("detect", exp, seqs))
        fit, unfit = (rng.choice([0, 1, 2]), rng.choice([3, 4])) if exp == 1 else (rng.choice([3, 4]), rng.choice([0, 1, 2]))
        for t in (fit, unfit, 5):
            arr_lines.append("kalign_arr %d -1 -1 -1 %d - 0 %s" % (t, rng.choice([1, 4]), " ".join(seqs)))
            arr_meta.append(("fit" if t != unfit else "unfit", exp, seqs))
    for label, hv, env_ in (("sanitizer build", kvh, C.SAN_ENV), ("plain build", C.build_harness("plain"), {})):
        rc_, oa, ea = C.run_lines(hv, arr_lines, env=env_, timeout=1200)
        for k, (what, exp, seqs) in enumerate(arr_meta):
            ctx.evaluations += 1
            o = oa[k] if k < len(oa) else "<no output: crash>"
            bad = None
            if what == "detect" and "biotype=%d" % exp not in o:
                bad = "kalign_arr_to_msa concluded %r for strings of class %d" % (o[:60], exp)
            elif what == "fit" and not o.startswith("rc=0"):
                bad = "kalign() rejected a type of the strings' own kind (class %d): %r" % (exp, o[:60])
            elif what == "unfit" and o.startswith("rc=0"):
                bad = "kalign() accepted a type of the other kind (class %d)" % exp
            if bad:
                fails.append(("in-memory API, call %d of %d in one process (%s): %s" % (k + 1, len(arr_lines), label, bad),
                              dict(calls_in_order=[l[:4000] for l in arr_lines[:k + 1]][-12:], stderr=ea[-1500:])))
                break
            ctx.count("arr_api_ok")
    sysrun.run_cases(kvh, cases)
    for c in cases:
        ctx.evaluations += 1
        if c.crashed or c.status is None:
            fails.append(("crash", c.describe()))
            continue
        bt = c.kv["biotype"]
        if bt != c.exp:
            fails.append(("input %s detected as biotype %d, expected %d" % (c.tag, bt, c.exp), c.describe()))
            continue
        fits = (c.type == 5) or (c.exp == 1 and c.type in (0, 1, 2)) or (c.exp == 0 and c.type in (3, 4))
        if fits and c.rc != 0:
            fails.append(("fitting type rejected (%s)" % c.tag, c.describe()))
        elif not fits and c.kv["run"] == 0:
            fails.append(("type of the other kind accepted (%s)" % c.tag, c.describe()))
        elif fits and c.outtext:
            hdr = c.outtext.split("\n")[0]
            want = "!!NA_MULTIPLE_ALIGNMENT" if c.exp == 1 else "!!AA_MULTIPLE_ALIGNMENT"
            if not hdr.startswith(want):
                fails.append(("MSF header %r for biotype %d" % (hdr, c.exp), c.describe()))
            ctx.count("e2e_ok")
    for why, rep in fails[:5]:
        ctx.violation(why, dict(kind="oracle", detail=rep))
    if diffs and not fails:
        ctx.violation("model detectF and detect_alphabet disagree (%d); no composition violating the property found" % len(diffs),
                      dict(kind="correspondence", broken="unit correspondence detect_alphabet", first=diffs[:5]), no_input=True)
    if not ok and not fails and not diffs:
        ctx.violation("proof obligations of C13 no longer check", dict(kind="proof", broken=[o for o in ctx.obligations if not o["ok"]],
                                                                        log=getattr(ctx, "build_errors", "")[-3000:]), no_input=True)
    return ctx.finish(LEVEL, CHECKER)


def replay(ctx, path):
    return C.replay_generic(path)
