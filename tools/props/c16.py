"""C16 — a library call's result does not depend on the calls made before it."""
import os
from lib import common as C
from lib import gen

LEVEL = "proof"
CHECKER = "lake build KalignModel.Props.C16 && lake env lean KalignModel/Audit/C16.lean"


def theorems():
    p = os.path.join(C.LEAN, "KalignModel", "Props", "C16.theorems")
    return [l.strip() for l in open(p) if l.strip() and not l.startswith("#")] if os.path.exists(p) else []


class Hist:
    """one API history: op lines for a single process + which output files each write produces"""

    def __init__(self, hid, sc):
        self.hid, self.sc = hid, sc
        self.ops = []          # (line, handles, outfile)
        self.nfile = 0

    def newfile(self, txt, suffix="in"):
        self.nfile += 1
        p = os.path.join(self.sc, "h%d_%d.%s" % (self.hid, self.nfile, suffix))
        if txt is not None:
            open(p, "w").write(txt)
        return p


def pen(x):
    return "-1" if x == -1 else repr(float(x))


def gen_history(ctx, hid, sc, nops):
    rng = ctx.rng
    H = Hist(hid, sc)
    live = {}       # handle -> state ("read" | "run") , kind
    origin = {}     # handle -> id of the record set it was read from (compare needs the same sequences)
    sets = []       # (kind, files)
    nexth = 0
    for _ in range(nops):
        choices = ["read", "arr"]
        if any(st == "read" for st, k in live.values()):
            choices += ["run", "run"]
        if any(st == "run" for st, k in live.values()):
            choices += ["write", "write"]
        runs = [h for h, (st, k) in live.items() if st == "run"]
        if any(origin[a] == origin[b] for a in runs for b in runs if a != b):
            choices += ["compare", "compare"]
        if sets and nexth < 60:
            choices += ["reread"]
        if live:
            choices += ["free"]
        op = rng.choice(choices)
        if op == "read" and nexth < 60:
            kind = rng.choice(["dna", "protein", "rna"])
            recs = gen.family(rng, kind, rng.randint(2, 9), rng.choice([8, 40, 120, 520, 700, 1100]), sub=0.15, indel=0.06)      # incl. rows beyond 512 / 1024 residues (the per-sequence buffers grow in steps of 512)
            if rng.random() < 0.12:
                # the k-means guide-tree path (>= 100 sequences) has allocations of its own
                recs = gen.family(rng, kind, rng.choice([100, 130, 180, 260]), rng.choice([25, 50]), sub=0.25, indel=0.08, spice=False)
            mode = rng.random()
            if mode < 0.15:
                recs[rng.randrange(len(recs))] = (recs[0][0] + "z", "")        # zero-length record
            elif mode < 0.3 and len(recs) >= 4:
                # many zero-length records (half of them and more): the library drops them and works on the rest; everything it
                # allocated for the dropped ones must still be released with the object
                ke = rng.randint(len(recs) // 2, len(recs) - 2)
                for j in rng.sample(range(len(recs)), ke):
                    recs[j] = (recs[j][0], "")
                recs += [("e%d" % j, "") for j in range(rng.choice([0, 0, 3, 9]))]
                rng.shuffle(recs)
            files = []
            if mode > 0.7 and len(recs) >= 3:
                k = rng.randrange(1, len(recs))
                files = [H.newfile(gen.fasta_text(recs[:k])), H.newfile(gen.fasta_text(recs[k:]))]
            else:
                files = [H.newfile(gen.fasta_text(recs))]
            if rng.random() < 0.08:
                files = [H.newfile("ACGT\n>a\nACGT\n>b\nACGT\n")]      # reader failure
            if rng.random() < 0.05:
                files.append(H.newfile(""))                              # empty extra file
            if rng.random() < 0.12:
                # an extra input that is no alignment file at all (notes, a table): whatever the reader makes of it, nothing stays allocated
                junk = "".join(rng.choice(["notes on this run\n", "sample\tcount\n", "12 34 56\n", "see the lab book, page 12\n", "\n"]) for _ in range(rng.randint(1, 400)))
                files.insert(rng.randint(0, len(files)), H.newfile(junk))
            h = nexth
            nexth += 1
            if rng.random() < 0.08:
                # the file exists but cannot be opened (no file descriptor left): the call fails, nothing may stay allocated
                H.ops.append(("h_read_nofd %d %s" % (h, files[0]), [h], None))
                continue
            H.ops.append(("h_read %d %s" % (h, " ".join(files)), [h], None))
            live[h] = ("read", kind)
            sets.append((kind, files))
            origin[h] = len(sets) - 1
        elif op == "reread":
            k = rng.randrange(len(sets))
            kind, files = sets[k]
            h = nexth
            nexth += 1
            H.ops.append(("h_read %d %s" % (h, " ".join(files)), [h], None))
            live[h] = ("read", kind)
            origin[h] = k
        elif op == "arr":
            kind = rng.choice(["dna", "protein"])
            recs = gen.family(rng, kind, rng.randint(2, 7), rng.choice([10, 60, 200]), spice=False)
            if rng.random() < 0.25:
                recs += [("e%d" % j, "") for j in range(rng.randint(len(recs), 2 * len(recs) + 1))]      # more empty than non-empty sequences
                rng.shuffle(recs)
            t = rng.choice([3, 4, 5]) if kind == "protein" else rng.choice([0, 1, 2, 5])
            t = gen.fit_type(t, kind, recs)
            if rng.random() < 0.1:
                t = 3 if kind != "protein" else 0      # failing call
            H.ops.append(("kalign_arr %d %s %s %s %d - 0 %s" % (t, pen(rng.choice([-1, 5])), pen(-1), pen(rng.choice([-1, 1])), rng.choice([1, 3, 8]),
                                                                 " ".join((s if s else ".") for _, s in recs)), [], None))
        elif op == "run":
            h = rng.choice([h for h, (st, k) in live.items() if st == "read"])
            kind = live[h][1]
            t = rng.choice([3, 4, 5]) if kind == "protein" else rng.choice([0, 1, 2, 5])
            if rng.random() < 0.08:
                t = 3 if kind != "protein" else 0
            H.ops.append(("h_run %d %d %s %s %s %d" % (h, t, pen(rng.choice([-1, 3, 10])), pen(rng.choice([-1, 2])), pen(rng.choice([-1, 0.5])),
                                                      rng.choice([1, 2, 5, 16])), [h], None))
            live[h] = ("run", kind)
        elif op == "write":
            h = rng.choice([h for h, (st, k) in live.items() if st == "run"])
            out = H.newfile(None, "out")
            # to a named file, or to the process's standard output (captured in a file by the harness)
            H.ops.append(("%s %d %s %s" % (rng.choice(["h_write", "h_write", "h_write_stdout"]), h, out, rng.choice(["fasta", "msf", "clu"])), [h], out))
        elif op == "compare":
            pairs = [(a, b) for a in runs for b in runs if a != b and origin[a] == origin[b]]
            hs = list(rng.choice(pairs))
            H.ops.append(("h_compare %d %d" % (hs[0], hs[1]), hs, None))
        elif op == "free":
            h = rng.choice(list(live))
            H.ops.append(("h_free %d" % h, [h], None))
            del live[h]
    for h in list(live):
        H.ops.append(("h_free %d" % h, [h], None))
    return H


def mask_msf(txt):
    import re
    return re.sub(r"^ (\S+)  MSF: (\d+)  Type: (\S)  .*  Check: (\d+)  \.\.$", r" FILE  MSF: \2  Type: \3  DATE  Check: \4  ..", txt, flags=re.M)


def execute(kvh, lines, env):
    rc, out, err = C.run_lines(kvh, lines, env=env, timeout=900)
    return rc, out, err


def run(ctx):
    ctx.trusted = list(C.TRUSTED_COMMON) + ["heap reuse effects cannot be exhibited by the functional model; the history search looks for them",
                                            "LeakSanitizer with suppressions for the OpenMP runtime's own pool (harness/lsan.supp)"]
    ctx.cov["_rule"] = ("random API histories (read one/several files, run, write, compare, free, kalign() array calls, failing calls mixed in) with several handles alive, "
                        "executed in one process; every op's output and written file compared with the same op replayed in a fresh process on the ops of its own handles only; "
                        "LeakSanitizer at exit; non-trivial = ops compared whose history prefix contains >= 3 earlier ops on other handles")
    thms = theorems()
    ok = C.lean_obligations(ctx, "C16", thms) if thms else False
    if not thms:
        ctx.obligations.append(dict(name="Props/C16 theorems", ok=False, why="theorem list missing"))
    kvh = C.build_harness("asan")
    sc = C.scratch()
    fails = []
    nh = 6 if ctx.quick else 40
    hists = [gen_history(ctx, i, sc, ctx.rng.randint(10, 40 if not ctx.quick else 25)) for i in range(nh)]
    # several alignments written to standard output one after the other by ONE process, formats mixed (each must arrive complete, as it does when it
    # is the only thing the process writes)
    for i in range(3 if ctx.quick else 20):
        H = Hist(4000 + i, sc)
        kind = ctx.rng.choice(["protein", "dna"])
        recs = gen.family(ctx.rng, kind, ctx.rng.randint(2, 6), ctx.rng.choice([20, 80]), spice=False)
        f = H.newfile(gen.fasta_text(recs))
        H.ops = [("h_read 0 %s" % f, [0], None), ("h_run 0 5 -1 -1 -1 %d" % ctx.rng.choice([1, 4]), [0], None)]
        fm = ["msf", "fasta", "clu", ctx.rng.choice(["msf", "fasta", "clu"])]
        if i % 3:
            ctx.rng.shuffle(fm)
        for f_ in fm:
            out = H.newfile(None, "out")
            H.ops.append(("h_write_stdout 0 %s %s" % (out, f_), [0], out))
        H.ops.append(("h_free 0", [0], None))
        hists.append(H)
    # an input that is no alignment file at all (notes, a table) among the files of a read, in every position
    for i in range(3 if ctx.quick else 12):
        H = Hist(5000 + i, sc)
        recs = gen.family(ctx.rng, ctx.rng.choice(["protein", "dna"]), ctx.rng.randint(2, 5), ctx.rng.choice([20, 60]), spice=False)
        good = H.newfile(gen.fasta_text(recs))
        junk = H.newfile("".join(ctx.rng.choice(["notes on this run\n", "sample\tcount\n", "12 34 56\n", "see the lab book, page 12\n"]) for _ in range(ctx.rng.randint(1, 300))))
        order = [[good, junk], [junk, good], [good, junk, good]][i % 3]
        H.ops = [("h_read 0 %s" % " ".join(order), [0], None), ("h_run 0 5 -1 -1 -1 1", [0], None), ("h_free 0", [0], None),
                 ("h_read 1 %s" % junk, [1], None), ("h_free 1", [1], None)]
        hists.append(H)
    from concurrent.futures import ThreadPoolExecutor

    def run_hist(H):
        res = dict(H=H)
        rc, out, err = execute(kvh, [l for l, hs, o in H.ops], C.SAN_ENV_LEAK)
        res["full"] = (rc, out, err)
        files = {}
        for l, hs, o in H.ops:
            if o and os.path.exists(o):
                files[o] = mask_msf(open(o, errors="replace").read())
                os.remove(o)
        res["files"] = files
        # fresh-process replays: per op, the sub-history of the ops touching its handles (closure), up to and including it
        fresh = []
        for k, (l, hs, o) in enumerate(H.ops):
            if l.startswith("h_free"):
                fresh.append(None)
                continue
            need = set(hs)
            # closure: a compare mutates (sorts, finalises) both of its objects, so it belongs to the history of either
            changed = True
            while changed:
                changed = False
                for j in range(k):
                    hj = set(H.ops[j][1])
                    if H.ops[j][0].startswith("h_compare") and hj & need and not hj <= need:
                        need |= hj
                        changed = True
            sub = [j for j in range(k) if set(H.ops[j][1]) & need and not H.ops[j][0].startswith("h_write")] + [k]
            lines = [H.ops[j][0] for j in sub] + ["h_free %d" % h for h in need]
            rc2, out2, err2 = execute(kvh, lines, C.SAN_ENV_LEAK)
            f2 = None
            if o and os.path.exists(o):
                f2 = mask_msf(open(o, errors="replace").read())
                os.remove(o)
            fresh.append((rc2, out2[len(sub) - 1] if len(out2) >= len(sub) else None, f2, err2, lines))
        res["fresh"] = fresh
        return res

    with ThreadPoolExecutor(min(C.NCPU, 8)) as ex:
        results = list(ex.map(run_hist, hists))
    # allocation ledger by counting (LeakSanitizer's conservative scan can miss blocks): in the build without sanitizers, repeat each
    # complete history (all handles freed at its end) in one process; after a warm-up round the heap in use must not grow
    kvp = C.build_harness("noomp")     # no OpenMP runtime: its thread pool / team caches are excluded by the property and would blur the count

    def ledger(H):
        ops = [l for l, hs, o in H.ops]
        lines = ops + ["memuse"] + ops + ["memuse"] + ops + ["memuse"] + ops + ["memuse"]
        rc, out, err = C.run_lines(kvp, lines, env={}, timeout=1800)
        for l, hs, o in H.ops:
            if o and os.path.exists(o):
                os.remove(o)
        n = len(ops)
        vals = [out[(n + 1) * k + n] if len(out) > (n + 1) * k + n else None for k in range(4)]
        # in this build freed blocks are handed out again at once (no sanitizer quarantine): the outputs of a repetition must equal the outputs of
        # the first round, and -- for the histories of array calls -- the output of each call made alone in a fresh process
        H.repeat_diff = None
        for k in range(1, 4):
            for j in range(n):
                a, b = (out[j] if j < len(out) else None), (out[(n + 1) * k + j] if (n + 1) * k + j < len(out) else None)
                if a != b and H.repeat_diff is None and not ops[j].startswith("memuse"):
                    H.repeat_diff = (j, k, a, b)
        if getattr(H, "fresh_check", False):
            for j, l in enumerate(ops):
                rc1, o1, e1 = C.run_lines(kvp, [l], env={}, timeout=900)
                got = out[j] if j < len(out) else None
                if (o1[0] if o1 else None) != got and H.repeat_diff is None:
                    H.repeat_diff = (j, 0, o1[0] if o1 else None, got)
        return H, vals

    # plus short histories on inputs large enough for the bisecting k-means path (>= 100 sequences), whose allocations the
    # small histories never reach
    khists = []
    for i in range(10 if ctx.quick else 80):
        H = Hist(1000 + i, sc)
        kind = ctx.rng.choice(["protein", "dna", "rna"])
        recs = gen.family(ctx.rng, kind, ctx.rng.choice([100, 130, 180, 260]), ctx.rng.choice([25, 50, 100]), sub=ctx.rng.choice([0.1, 0.25]), indel=0.08, spice=False)
        f = H.newfile(gen.fasta_text(recs))
        out = H.newfile(None, "out")
        H.ops = [("h_read 0 %s" % f, [0], None), ("h_run 0 5 -1 -1 -1 %d" % ctx.rng.choice([1, 4]), [0], None),
                 ("h_write 0 %s %s" % (out, ctx.rng.choice(["fasta", "msf", "clu"])), [0], out), ("h_free 0", [0], None)]
        khists.append(H)
    for i in range(2 if ctx.quick else 10):
        H = Hist(2000 + i, sc)
        recs = gen.family(ctx.rng, "protein", 4, 30)
        f = H.newfile(gen.fasta_text(recs))
        H.ops = [("h_read_nofd 0 %s" % f, [0], None), ("h_read 1 %s" % f, [1], None), ("h_read_nofd 1 %s" % f, [1], None), ("h_free 1", [1], None)]
        khists.append(H)
    # calls of the in-memory API one after the other in ONE process, alternating kinds and sizes (an earlier, larger input of the other kind must
    # not influence what a later call concludes about its own input)
    for i in range(6 if ctx.quick else 40):
        H = Hist(3000 + i, sc)
        H.fresh_check = True
        H.ops = []
        for j in range(ctx.rng.randint(3, 5)):
            kind = ["protein", "dna"][(i + j) % 2]
            big = (j % 2 == 0)
            recs = gen.family(ctx.rng, kind, ctx.rng.randint(6, 9) if big else ctx.rng.randint(2, 3), ctx.rng.choice([150, 300]) if big else ctx.rng.choice([12, 30]), spice=False)
            t = ctx.rng.choice([5, 5, 3 if kind == "protein" else 0])
            t = gen.fit_type(t, kind, recs)
            H.ops.append(("kalign_arr %d -1 -1 -1 %d - 0 %s" % (t, ctx.rng.choice([1, 4]), " ".join(q for _, q in recs)), [], None))
        khists.append(H)
    with ThreadPoolExecutor(min(C.NCPU, 8)) as ex:
        ledgers = list(ex.map(ledger, hists + khists))
    for res in results:
        H = res["H"]
        rc, out, err = res["full"]
        nout = len([x for x in out if x != ""])
        if nout < len(H.ops):
            fails.append(("crash / sanitizer report inside a history at op %d: %s" % (nout, H.ops[nout][0][:200]), dict(history=[l for l, _, _ in H.ops], stderr=err[-3000:])))
            continue
        if "LeakSanitizer" in err or rc != 0:
            fails.append(("after all objects were freed the library still holds memory (LeakSanitizer) or the process failed rc=%d" % rc,
                          dict(history=[l for l, _, _ in H.ops], report=err[-3500:])))
            continue
        for k, (l, hs, o) in enumerate(H.ops):
            fr = res["fresh"][k]
            ctx.evaluations += 1
            if fr is None:
                continue
            rc2, o2, f2, err2, lines = fr
            if "LeakSanitizer" in err2:
                fails.append(("leak in a fresh process running only the ops of one object", dict(ops=lines, report=err2[-3000:])))
                break
            if o2 != out[k]:
                fails.append(("op %d gives %r inside the history but %r in a fresh process" % (k, out[k], o2), dict(op=l, history=[x for x, _, _ in H.ops[:k + 1]], fresh_ops=lines)))
                break
            if o and res["files"].get(o) != f2:
                fails.append(("file written by op %d differs between the history and a fresh process" % k,
                              dict(op=l, history=[x for x, _, _ in H.ops[:k + 1]], in_history=res["files"].get(o), fresh=f2)))
                break
            others = sum(1 for j in range(k) if not (set(H.ops[j][1]) & set(hs)))
            if others >= 3:
                ctx.nontriv((H.hid, k))
            ctx.count("op_" + l.split()[0])
        if len(ctx.samples) < 2:
            ctx.sample(dict(history=[l[:160] for l, _, _ in H.ops[:12]], outputs=out[:12]))
    for H, vals in ledgers:
        ctx.evaluations += 1
        if getattr(H, "repeat_diff", None):
            j, k, a, b = H.repeat_diff
            what = ("op %d gives %r when the history is repeated in the same process (round %d) but %r the first time" % (j, (b or "")[:160], k + 1, (a or "")[:160])) if k else \
                   ("op %d gives %r inside the history but %r when made alone in a fresh process" % (j, (b or "")[:160], (a or "")[:160]))
            fails.append((what + " (uninstrumented build: freed memory is reused at once)", dict(history=[l[:2000] for l, _, _ in H.ops], op=H.ops[j][0][:2000])))
            continue
        try:
            v = [int(x) for x in vals]
        except (TypeError, ValueError):
            ctx.count("ledger_unavailable")
            continue
        ctx.count("ledger_histories")
        # rounds 2,3,4 (after warm-up): growth in every round = memory that stays allocated after all objects were freed
        if v[2] > v[1] and v[3] > v[2]:
            fails.append(("the number of live heap blocks grows by %d and %d per repetition of a complete history although every object was freed" % (v[2] - v[1], v[3] - v[2]),
                          dict(history=[l[:300] for l, _, _ in H.ops], heap_in_use_after_each_round=v)))
    for why, rep in fails[:5]:
        ctx.violation(why, dict(kind="oracle", detail=rep))
    if not ok and not fails:
        ctx.violation("proof obligations of C16 no longer check", dict(kind="proof", broken=[o for o in ctx.obligations if not o["ok"]],
                                                                        log=getattr(ctx, "build_errors", "")[-3000:]), no_input=True)
    return ctx.finish(LEVEL, CHECKER)


def replay(ctx, path):
    return C.replay_generic(path)
