"""C10 — progressive merging never re-aligns a finished sub-alignment."""
import os
from lib import common as C
from lib import gen, sysrun
from lib.sysrun import Case
from props import c01

LEVEL = "proof"
THEOREMS = ["Kalign.weave", "Kalign.C10_subalignment_preserved", "Kalign.C10_column_mates_stay", "Kalign.C01_tree_integrity"]
CHECKER = "lake build KalignModel.Props.C10Pipeline && lake env lean KalignModel/Audit/C10.lean"


def linear(seq, gaps):
    out = []
    for i, ch in enumerate(seq):
        out.append("-" * gaps[i])
        out.append(ch)
    out.append("-" * gaps[len(seq)])
    return "".join(out)


def project(rows):
    """drop the columns that are gaps in all rows"""
    if not rows:
        return rows
    L = len(rows[0])
    keep = [k for k in range(L) if any(r[k] != "-" for r in rows)]
    return ["".join(r[k] for k in keep) for r in rows]


def leafsets(events):
    """node id -> set of ranks of the leaves below it, from the TASKS and CANON events (None if not logged)"""
    canon, tasks = None, None
    for ln in events or []:
        if ln.startswith("CANON"):
            canon = [int(x) for x in ln.split()[1:]]
        elif ln.startswith("TASKS"):
            tasks = [tuple(int(v) for v in x.split(",")) for x in ln.split()[1:]]
    if canon is None or tasks is None:
        return None
    ls = {i: {canon[i]} for i in range(len(canon))}
    pending = list(tasks)
    for _ in range(len(tasks) + 2):
        rest = []
        for a, b, cc in pending:
            if a in ls and b in ls:
                ls[cc] = ls[a] | ls[b]
            else:
                rest.append((a, b, cc))
        pending = rest
        if not pending:
            break
    return ls


def scale_case(rng):
    """two sub-families of one protein family, each with > 4096 members and its own extra segment: nodes with thousands of members whose
    parent merge inserts gap columns into them"""
    aa = gen.AA
    base = gen.rand_seq(rng, aa, 60)

    def mut(s, k):
        s = list(s)
        for p in rng.sample(range(len(s)), k):
            s[p] = rng.choice(aa)
        return "".join(s)
    f1 = mut(base[:15] + gen.rand_seq(rng, aa, 4) + base[15:], 8)
    f2 = mut(base[:44] + gen.rand_seq(rng, aa, 5) + base[44:], 8)
    n1, n2 = rng.randint(4200, 5200), rng.randint(4200, 5200)
    recs = [("P%05d" % i, mut(f1, rng.randint(1, 4))) for i in range(n1)] + [("Q%05d" % i, mut(f2, rng.randint(1, 4))) for i in range(n2)]
    rng.shuffle(recs)
    return Case(recs, 5, threads=rng.choice([4, 16]), fmt="fasta", api="file", evlog=True, tag="scale")


def cases(ctx, n, thorough):
    rng = ctx.rng
    out = []
    for i in range(n):
        kind = rng.choice(["dna", "rna", "protein"])
        shape = rng.random()
        if thorough and shape < 0.1:
            nseq = rng.choice([100, 101, 140])     # k-means trees
            length = rng.choice([30, 60])
        elif shape < 0.5:
            nseq = rng.randint(3, 20)
            length = rng.choice([5, 20, 60, 150])
        else:
            nseq = rng.randint(3, 40)
            length = rng.choice([10, 40, 80])
        recs = gen.family(rng, kind, nseq, length, sub=rng.choice([0.05, 0.2]), indel=rng.choice([0.03, 0.08, 0.15]))
        if rng.random() < 0.3:
            # caterpillar-ish: strongly decreasing lengths
            recs = [(n_, s[:max(1, len(s) - 3 * k)]) for k, (n_, s) in enumerate(recs)]
        type_ = rng.choice([3, 4, 5]) if kind == "protein" else rng.choice([0, 1, 2, 5])
        type_ = gen.fit_type(type_, kind, recs)
        api = rng.choice(["file", "arr"])
        if i % 6 == 1:
            # short fragments of much longer sequences: the final rows of the fragments carry leading / trailing / internal gap runs of 64+ columns
            alpha_ = gen.AA if kind == "protein" else (gen.RNA if kind == "rna" else gen.DNA)
            Lf = rng.choice([200, 300, 420, 700, 900])
            fullf = gen.family(rng, kind, rng.randint(2, 4), Lf, sub=0.1, indel=(0.02 if Lf < 600 else 0.0), spice=False)
            recs = list(fullf)
            for _ in range(rng.randint(2, 4)):
                src_ = rng.choice(fullf)[1]
                a0 = rng.randint(70, max(71, len(src_) - 100))
                if Lf >= 600:
                    a0 = rng.randint(520, max(521, len(src_) - 100))      # leading gap runs of more than 500 columns in the fragment's row
                frag_ = src_[a0:a0 + rng.randint(40, 90)]
                if rng.random() < 0.6:
                    # a relative of the full sequences with an insertion exactly where the fragment begins (or ends): the columns a later merge
                    # inserts into the finished group then start right in front of the fragment's first (behind its last) residue
                    at_ = a0 if rng.random() < 0.7 else a0 + len(frag_)
                    recs.append(("ins%d" % len(recs), src_[:at_] + gen.rand_seq(rng, alpha_, rng.randint(4, 20)) + src_[at_:]))
                if rng.random() < 0.4 and len(src_) > a0 + 200:
                    frag_ = frag_[:20] + src_[a0 + 120:a0 + 160]          # a fragment with an internal deletion of ~100 residues
                recs.append(("frag%d" % len(recs), gen.mutate(rng, frag_, alpha_, 0.05, 0.0)))
            rng.shuffle(recs)
            recs = [("q%d_%s" % (k, n_), q_) for k, (n_, q_) in enumerate(recs) if q_]
            type_ = gen.fit_type(5, kind, recs)
        if i % 6 == 4 and len(recs) >= 4:
            # records without residues in between (the library drops them and renumbers the rest; member lists must follow)
            for _ in range(rng.randint(1, 3)):
                recs.insert(rng.randint(1, len(recs)), ("empty%d" % len(recs), ""))
            api = "file"
        c_ = Case(recs, type_, threads=rng.choice([1, 4, 16]), fmt="fasta", api=api, evlog=True,
                  jitter=rng.choice([0, 0, rng.randint(1, 10 ** 6)]))
        if i % 6 == 2 and len(recs) >= 3 and all(q for _, q in recs):
            # the records come in two or three files, some of them plain, others carrying gap characters from an earlier alignment (a single gapped
            # row, or an aligned block): gaps of the input are no part of any sub-alignment kalign builds
            k_ = rng.randint(1, len(recs) - 1)
            parts_ = [recs[:k_], recs[k_:]]
            if len(parts_[1]) >= 2 and rng.random() < 0.4:
                parts_ = [parts_[0], parts_[1][:1], parts_[1][1:]]
            gapped_ = rng.randrange(len(parts_))
            files_ = []
            for pi_, part_ in enumerate(parts_):
                if pi_ == gapped_:
                    rows_ = []
                    for n_, q_ in part_:
                        cuts_ = sorted(rng.randint(0, len(q_)) for _ in range(rng.randint(1, 3)))
                        o_, prev_ = [], 0
                        for c0_ in cuts_:
                            o_.append(q_[prev_:c0_]); o_.append("-" * rng.randint(1, 4)); prev_ = c0_
                        o_.append(q_[prev_:])
                        rows_.append((n_, "".join(o_)))
                    if rng.random() < 0.5:
                        W_ = max(len(r_) for _, r_ in rows_)
                        rows_ = [(n_, r_.ljust(W_, "-")) for n_, r_ in rows_]          # an aligned block
                    files_.append("".join(">%s\n%s\n" % (n_, r_) for n_, r_ in rows_))
                else:
                    files_.append(gen.fasta_text(part_))
            c_ = Case(recs, type_, threads=c_.threads, fmt="fasta", api="file", evlog=True, infiles=files_, tag="%d files, file %d gapped" % (len(parts_), gapped_ + 1))
        out.append(c_)
    # >= 100 members of one tight family (end-truncated fragments, so the family's own alignment has gaps) plus one or two unrelated sequences:
    # the bisecting k-means splits off clusters of a single sequence, on either side
    for j in range(12 if thorough else 4):
        kind = rng.choice(["protein", "protein", "dna"])
        alpha_ = gen.AA if kind == "protein" else gen.DNA
        base = gen.rand_seq(rng, alpha_, rng.choice([60, 80, 120]))
        nfam = rng.choice([100, 110, 120, 150])
        recs = []
        for k in range(nfam):
            a0, b0 = rng.randint(0, 12), rng.randint(0, 12)
            recs.append(("frag%03d" % k, gen.mutate(rng, base[a0:len(base) - b0], alpha_, rng.choice([0.0, 0.03]), 0.0)))
        for k in range(1 if j % 3 else 2):
            recs.insert(rng.randint(0, len(recs)), ("lone%d" % k, gen.rand_seq(rng, alpha_, rng.choice([15, 30, 90, 200]))))
        out.append(Case(recs, gen.fit_type(5, kind, recs), threads=rng.choice([1, 4]), fmt="fasta", api="file", evlog=True, tag="family + lone outlier"))
    return out


def run(ctx):
    ctx.trusted = list(C.TRUSTED_COMMON) + ["premise `Aligner.Valid` of the tree theorems (monitored on every merge)"]
    ctx.cov["_rule"] = ("real runs with the NODE_DONE hook: snapshot of member gap vectors when a node completes vs projection of the final "
                        "alignment onto the node's members; non-trivial = (input, node) pairs where the node has >= 2 members, is not the root and "
                        "the final projection needed >= 1 all-gap column to be dropped")
    px = os.path.join(C.LEAN, "KalignModel", "Props", "C10Pipeline.theorems")
    extra = [l.strip() for l in open(px) if l.strip() and not l.startswith("#")] if os.path.exists(px) else []
    ok = C.lean_obligations(ctx, "C10", THEOREMS + C.pipefile_theorems(["recAln_"]) + extra, module="C10Pipeline")
    kvh = C.build_harness("asan")
    cs = cases(ctx, 60 if ctx.quick else 500, not ctx.quick)
    sysrun.run_cases(kvh, cs)
    big = [scale_case(ctx.rng) for _ in range(1 if ctx.quick else 3)]
    sysrun.run_cases(C.build_harness("plain"), big, env={"KV_ND_MIN": "1500"}, timeout=1800)
    cs += big
    fails, model_lines, expected, where = [], [], [], []
    # whole pipeline (recAln_subalignment_preserved is about the recAln of this function)
    diffs = C.pipeline_correspondence(ctx, kvh, [3 * ctx.seed + 1000] if ctx.quick else [3 * ctx.seed + 1000 + 30 * k for k in range(4)])
    for c in cs:
        ctx.evaluations += 1
        if c.infiles and not c.crashed and c.rc != 0 and "different alphabets" in (c.stderr or ""):
            # records split over files whose own classes differ: the recorded finding C04-split-class (the reader refuses the combination), no
            # alignment is made and nothing is re-aligned
            ctx.count("split_files_rejected_(C04-split-class)")
            continue
        if c.crashed or c.rc != 0:
            fails.append(("run failed/crashed: %s" % c.status, c, None))
            continue
        rows = sysrun.parse_output(c)
        why = gen.integrity(c.records, rows, names=(False if c.api == "arr" else None))
        if why:
            fails.append(("final alignment broken: " + why, c, None))
            continue
        # rank = position among ALL input records; output rows exist for the non-empty ones, in input order
        nonempty = [k for k, (_, q) in enumerate(c.records) if q]
        final = {k: rows[j][1] for j, k in enumerate(nonempty)} if len(rows) == len(nonempty) else {}
        nd = sysrun.parse_nd(c.events)
        if not nd:
            fails.append(("no NODE_DONE events logged", c, None))
            continue
        ctx.count("trees_%s" % ("kmeans" if len(c.records) >= 100 else "upgma"))
        leaves = leafsets(c.events)
        for e in nd:
            members = e["A"] + e["B"]
            if leaves is not None:
                # the members a completed node carries must be exactly the leaves below it in the task tree (independent of the library's
                # own member counts): a node that lost members would leave them out of every later merge
                bad = None
                for side, node in (("A", e["a"]), ("B", e["b"])):
                    if node in leaves and set(r for r, g in e[side]) != leaves[node]:
                        bad = "node %d (operand of task %d) carries %d members but %d leaves lie below it in the guide tree" % (node, e["task"], len(e[side]), len(leaves[node]))
                if bad:
                    fails.append((bad, c, dict(task=e["task"], a=e["a"], b=e["b"])))
                    break
                ctx.count("member_sets_checked")
            if any(r not in final for r, g in members):
                fails.append(("node %d lists a member (rank %s) that is not a non-empty input record" % (e["task"], [r for r, g in members if r not in final][:3]), c, dict(event=e)))
                break
            snap = [linear(c.records[r][1], g) for r, g in members]
            proj = project([final[r] for r, g in members])
            ctx.count("nodes_checked")
            if snap != proj:
                fails.append(("node %d: projection of the final alignment differs from the node's alignment at completion" % e["task"], c,
                              dict(event=e, snapshot=snap, projection=proj)))
                break
            if len(members) >= 2 and len(members) < len(rows) and len(final[members[0][0]]) > len(snap[0]):
                ctx.nontriv((c.key(), e["task"]))
        if c.tag != "scale":
            c01.check_steps(ctx, c, model_lines, expected, where)
        if len(ctx.samples) < 3 and len(c.records) <= 5:
            ctx.sample(dict(input=c.records, rows=rows, merges=[dict(a=e["a"], b=e["b"], codes=e["codes"]) for e in nd]))
    if model_lines:
        rc, out, err = C.run_lines(C.kmodel_path(), model_lines)
        for i, exp in enumerate(expected):
            got = out[i] if i < len(out) else "<none>"
            if got != exp:
                diffs.append(dict(index=i, op=model_lines[i], impl=exp, model=got, note="step replay of a real merge"))
    for why, c, extra in fails[:5]:
        ctx.violation(why, dict(kind="oracle", case=c.describe(), detail=extra, out=c.outtext))
    if diffs and not fails:
        ctx.violation("model and implementation disagree on %s (%d disagreements); no input violating C10 found" % (diffs[0]["op"].split()[0], len(diffs)),
                      dict(kind="correspondence", broken="step / pipeline correspondence of " + diffs[0]["op"].split()[0],
                           first=[dict(index=x["index"], op=x["op"][:3000], impl=str(x["impl"])[:1500], model=str(x["model"])[:1500], note=x["note"][-1500:]) for x in diffs[:5]]), no_input=True)
    if not ok and not fails and not diffs:
        ctx.violation("proof obligations of C10 no longer check", dict(kind="proof", broken=[o for o in ctx.obligations if not o["ok"]],
                                                                        log=getattr(ctx, "build_errors", "")), no_input=True)
    return ctx.finish(LEVEL, CHECKER)


def replay(ctx, path):
    return C.replay_generic(path)
