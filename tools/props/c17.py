"""C17 — the alignment-comparison score is exact."""
import os, struct
from lib import common as C
from lib import gen, alngen

LEVEL = "proof"
CHECKER = "lake build KalignModel.Props.C17 && lake env lean KalignModel/Audit/C17.lean"


def theorems():
    p = os.path.join(C.LEAN, "KalignModel", "Props", "C17.theorems")
    return [l.strip() for l in open(p) if l.strip() and not l.startswith("#")] if os.path.exists(p) else []


def rel(aln):
    """set of ((s, p), (t, partner position or None)) over ordered pairs s != t, as the property defines it"""
    names = [n for n, _ in aln]
    L = len(aln[0][1])
    pos = {n: [] for n in names}
    for n, r in aln:
        k = 0
        for ch in r:
            if ch.isalpha():
                pos[n].append(k)
                k += 1
            else:
                pos[n].append(None)
    out = set()
    for s in names:
        for t in names:
            if s == t:
                continue
            for c in range(L):
                if pos[s][c] is not None:
                    out.add(((s, pos[s][c]), (t, pos[t][c])))
    return out


def f32bits(x):
    return "%08x" % struct.unpack("<I", struct.pack("<f", x))[0]


def perturb(rng, aln):
    """another alignment of the same sequences: re-gap each row randomly to a common length"""
    seqs = [(n, r.replace("-", "")) for n, r in aln]
    L = max(len(s) for _, s in seqs) + rng.randint(0, 6)
    out = []
    for n, s in seqs:
        gaps = L - len(s)
        cuts = sorted(rng.randint(0, len(s)) for _ in range(gaps))
        row, prev = [], 0
        for c in cuts:
            row.append(s[prev:c]); row.append("-"); prev = c
        row.append(s[prev:])
        out.append((n, "".join(row)))
    return out


def add_allgap_cols(rng, aln):
    L = len(aln[0][1])
    ins = sorted(rng.randint(0, L) for _ in range(rng.randint(0, 4)))
    out = []
    for n, r in aln:
        rr, prev = [], 0
        for c in ins:
            rr.append(r[prev:c]); rr.append("-"); prev = c
        rr.append(r[prev:])
        out.append((n, "".join(rr)))
    return out


def args(aln):
    return "%d %s" % (len(aln), " ".join("%s:%s" % (n.encode().hex(), r) for n, r in aln))


def run(ctx):
    ctx.trusted = list(C.TRUSTED_COMMON) + ["score compared as binary32 bits of 100*a/b computed in doubles (A-float for the narrowing only)",
                                            "premise of the property: both inputs are alignments of the same uniquely named sequences (other inputs are outside C17)"]
    ctx.cov["_rule"] = ("alignment pairs of the same uniquely named sequences: identical, row-permuted, with inserted all-gap columns, randomly re-gapped, real kalign outputs "
                        "under different parameters; score from the real kalign_msa_compare vs an independent set-based implementation of the definition; bounds; row-order "
                        "invariance; non-trivial = distinct pairs with >= 3 rows whose score is strictly between 0 and 100")
    thms = theorems()
    ok = C.lean_obligations(ctx, "C17", thms) if thms else False
    if not thms:
        ctx.obligations.append(dict(name="Props/C17 theorems", ok=False, why="theorem list missing"))
    kvh = C.build_harness("asan")
    rng = ctx.rng
    diffs = C.unit_correspondence(ctx, kvh, C.gen_ops("gen_misc.py", ctx.seed, 400 if ctx.quick else 4000, prefixes=("compare_pair", "msa_compare")) +
                                  [l.strip() for l in open(os.path.join(C.CORPUS, "ops_misc.txt")) if l.startswith(("compare_pair", "msa_compare"))], "compare")
    lines, meta = [], []
    for i in range(120 if ctx.quick else 1500):
        kind, A = alngen.rand_alignment(rng, False) if i % 10 else alngen.long_row_alignment(rng)
        if i % 12 == 7:
            # more than 50 rows of which only rows beyond the 50th carry gaps (whatever decides "is this file an alignment?" must see every row)
            nrow = rng.choice([52, 60, 75])
            W_ = rng.choice([30, 40, 61])
            alpha_ = gen.AA
            A = []
            for k in range(nrow):
                row = gen.rand_seq(rng, alpha_, W_)
                if k >= 50 + rng.randint(0, 1):
                    g0 = rng.randrange(W_ - 3)
                    row = row[:g0] + "-" * rng.randint(1, 3) + row[g0 + 3:]
                    row = row[:W_].ljust(W_, "-")
                A.append(("r%02d" % k, row))
            if not any("-" in r for _, r in A[50:]):
                continue
            kind = "protein"
            ctx.count("late_gap_rows_beyond_50")
        elif len(A) < 2 or len(A) > 14:
            continue
        A = [(n, r) for n, r in A if True]
        if len(set(n for n, _ in A)) != len(A):
            continue
        if rng.random() < 0.15:
            # unique names that agree in their first 256+ characters (FASTA headers are taken whole): rows must still be paired by the full name
            pre = "".join(rng.choice("abcdefghijklmnopqrstuvwxyz_|.") for _ in range(rng.choice([255, 256, 257, 300])))
            A = [(pre + "isoform%d" % k, r) for k, (n, r) in enumerate(A)]
            ctx.count("long_common_prefix_names")
        mode = rng.randrange(5)
        if mode == 0:
            T, tag = list(A), "identical"
        elif mode == 1:
            T = list(A); rng.shuffle(T); T = add_allgap_cols(rng, T); tag = "same mod row order and all-gap columns"
        elif mode == 2:
            T, tag = perturb(rng, A), "re-gapped"
        elif mode == 3:
            T = perturb(rng, A); rng.shuffle(T); tag = "re-gapped + shuffled"
        else:
            T = [(n, r) for n, r in A]
            k = rng.randrange(len(T))
            T[k] = perturb(rng, [T[k], T[(k + 1) % len(T)]])[0] if False else T[k]
            T = perturb(rng, A) if rng.random() < 0.5 else list(A)
            tag = "mixed"
        R2 = list(A); rng.shuffle(R2)
        meta.append((A, T, tag, R2))
    # through the public API only (files -> kalign_read_input -> kalign_msa_compare), so that the oracle survives refactorings of
    # the static helpers; a file must contain a gap character to be recognised as an alignment (the property's premise)
    sc = C.scratch()
    lines, keep = [], []
    for k, (A, T, tag, R2) in enumerate(meta):
        if not (any("-" in r for _, r in A) and any("-" in r for _, r in T)):
            continue
        if any(not n or any(ch.isspace() for ch in n) for n, _ in A):
            continue
        fr, ft, fr2 = [os.path.join(sc, "c17_%d_%s.fa" % (k, x)) for x in ("r", "t", "r2")]
        import random as _random
        from props import c04
        for path, aln in ((fr, A), (ft, T), (fr2, R2)):
            # the two alignments may come in any of the three formats (the comparison is of alignments, not of files); names longer than the block
            # formats keep (255 bytes) stay in FASTA
            # (names made of the words the format sniffer looks for, and residues spelling them, are fine in every format: the first line of a
            # block-format file decides its format, repaired in 8e76171)
            # gap columns written the way other tools write them: GCG style ('~' for leading / trailing runs, '.' inside), dots only, or a mixture
            style = rng.choice(["dash", "dash", "gcg", "dots", "mixed"])

            def glyphs(row, style=style):
                if style == "dash":
                    return row
                if style == "dots":
                    return row.replace("-", ".")
                if style == "mixed":
                    return "".join(rng.choice("-.~") if ch == "-" else ch for ch in row)
                core = row.strip("-")
                lead = len(row) - len(row.lstrip("-"))
                return "~" * lead + core.replace("-", ".") + "~" * (len(row) - lead - len(core))
            aln_w = [(n_, glyphs(r_)) for n_, r_ in aln]
            if max(len(n) for n, _ in aln) > 200 or rng.random() < 0.4:
                open(path, "w").write(gen.fasta_text(aln_w))
            else:
                render = rng.choice([c04.render_clustal, c04.render_msf])
                open(path, "w").write(render(_random.Random(rng.getrandbits(30)), aln_w))
                ctx.count("gap_glyph_style_" + style)
                ctx.count("compared_from_" + render.__name__)
        lines += ["h_read 0 %s" % fr, "h_read 1 %s" % ft, "h_read 2 %s" % fr2, "h_compare 0 1", "h_compare 2 1", "h_free 0", "h_free 1", "h_free 2"]
        keep.append((A, T, tag))
    chunks = [lines[i:i + 8 * 25] for i in range(0, len(lines), 8 * 25)]
    from concurrent.futures import ThreadPoolExecutor
    with ThreadPoolExecutor(C.NCPU) as ex:
        res = list(ex.map(lambda ch: C.run_lines(kvh, ch, env=C.SAN_ENV, timeout=900), chunks))
    out, crashed = [], None
    for ch, (rc, o, err) in zip(chunks, res):
        got = [x for x in o if x != ""]
        if len(got) < len(ch):
            crashed = (ch[len(got)], err[-3000:])
        out += (o + [""] * len(ch))[:len(ch)]
    fails = []
    if crashed:
        fails.append(("crash / sanitizer report in kalign_msa_compare", dict(op=crashed[0][:500], stderr=crashed[1])))
    else:
        for k, (A, T, tag) in enumerate(keep):
            ctx.evaluations += 1
            o1, o2 = out[8 * k + 3], out[8 * k + 4]
            if not o1.startswith("rc=0"):
                fails.append(("kalign_msa_compare failed (%s) on alignments of the same uniquely named sequences (%s)" % (o1, tag), dict(R=A, T=T)))
                continue
            rR, rT = rel(A), rel(T)
            num, den = len(rR & rT), len(rR)
            if den == 0:
                ctx.count("skipped_den0")
                continue
            exp = "rc=0 score=" + f32bits(100.0 * num / den)
            if o1 != exp:
                fails.append(("score %s differs from the definition %s = 100*%d/%d (%s)" % (o1, exp, num, den, tag), dict(R=A, T=T)))
                continue
            val = struct.unpack("<f", struct.pack("<I", int(o1.split("=")[-1], 16)))[0]
            if not (0.0 <= val <= 100.0):
                fails.append(("score %r outside [0,100]" % val, dict(R=A, T=T)))
                continue
            if tag in ("identical", "same mod row order and all-gap columns") and val != 100.0:
                fails.append(("score %r for alignments that are the same up to row order and all-gap columns" % val, dict(R=A, T=T)))
                continue
            if o2 != o1:
                fails.append(("score depends on the row order of the reference: %s vs %s" % (o1, o2), dict(R=A, T=T)))
                continue
            ctx.count("tag_" + tag.split()[0])
            if len(A) >= 3 and 0.0 < val < 100.0:
                ctx.nontriv((tuple(A), tuple(T)))
            if len(ctx.samples) < 3 and len(A) <= 3 and len(A[0][1]) <= 30:
                ctx.sample(dict(R=A, T=T, score=val, relations=(num, den)))
    for why, rep in fails[:5]:
        ctx.violation(why, dict(kind="oracle", detail=rep))
    C.report_diffs(ctx, diffs, fails, "compare_pair / kalign_msa_compare")
    if not ok and not fails and not diffs:
        ctx.violation("proof obligations of C17 no longer check", dict(kind="proof", broken=[o for o in ctx.obligations if not o["ok"]],
                                                                        log=getattr(ctx, "build_errors", "")[-3000:]), no_input=True)
    return ctx.finish(LEVEL, CHECKER)


def replay(ctx, path):
    return C.replay_generic(path)
