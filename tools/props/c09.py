"""C09 — the scoring parameters used are exactly the ones the caller selected."""
import os, struct
from lib import common as C
from lib import gen, sysrun
from lib.sysrun import Case

LEVEL = "proof"
THEOREMS = ["Kalign.C09_override_exact", "Kalign.C09_defaults_nonneg", "Kalign.C09_explicit_default_noop", "Kalign.C09_single_override",
            "Kalign.C09_accept_indep", "Kalign.C09_over_cap_rejected", "Kalign.C09_defaults_within_cap", "Kalign.C09_defaults_dna", "Kalign.C09_defaults_internal", "Kalign.C09_defaults_protein",
            "Kalign.C09_defaults_divergent", "Kalign.C09_defaults_rna", "Kalign.C09_matrices_symmetric", "Kalign.C09_type_words",
            "Kalign.C09_mismatch_rejected", "Kalign.C09_default_branch_uniform"]
CHECKER = "lake build KalignModel.Props.C09 KalignModel.Props.Cli && lake env lean KalignModel/Audit/C09.lean && lake env lean KalignModel/Audit/C09Cli.lean"


def cli_theorems():
    """the command-line front end (slice T): theorem list of Props/Cli.lean"""
    p = os.path.join(C.LEAN, "KalignModel", "Props", "Cli.theorems")
    return [l.strip() for l in open(p) if l.strip()] if os.path.exists(p) else []

WORDS = {"dna": 0, "internal": 1, "rna": 2, "protein": 3, "divergent": 4}


def fbits(x):
    return "%08x" % struct.unpack("<I", struct.pack("<f", x))[0]


def bits_f(h):
    return struct.unpack("<f", struct.pack("<I", int(h, 16)))[0]


def unit_ops(ctx):
    rng = ctx.rng
    lines = []
    vals = [-1.0, 0.0, -0.0, 0.5, 1.0, 5.5, 8.0, 55.0, 217.0, 1000.0, -0.001, float("nan"), float("inf"), 39.4, 1e6, 1.0000001e6, 3e38]
    types = [-1, 0, 1, 2, 3, 4, 5, 6, 7, 99, -5, 1000]
    for bt in (0, 1, 2):
        for t in types:
            for mask in range(8):
                v = [rng.choice(vals[1:]) if mask >> k & 1 else -1.0 for k in range(3)]
                lines.append("param_init %d %d %s %s %s" % (bt, t, fbits(v[0]), fbits(v[1]), fbits(v[2])))
    for _ in range(200):
        lines.append("param_init %d %d %s %s %s" % (rng.choice([0, 1]), rng.choice(types), fbits(rng.choice(vals)), fbits(rng.choice(vals)), fbits(rng.choice(vals))))
    words = list(WORDS) + ["DNA", "Protein", "dnax", "xrna", "internal_dna", "proteindivergent", "divergentprotein", "ribonucleic", "intern",
                           "", "d", "na", "rn", "prot", "diverge", "internalrna", "rnainternal"]
    for w in words:
        lines.append("set_aln_type %s" % (w.encode().hex() if w else "-"))
    lines.append("set_aln_type NULL")
    for _ in range(100):
        w = "".join(rng.choice("dnarinteprolvg") for _ in range(rng.randint(1, 12)))
        lines.append("set_aln_type %s" % w.encode().hex())
    return lines


def run_cli(cli, args, timeout=120):
    p = C.sh([cli] + args, timeout=timeout, env=C.SAN_ENV)
    return p.returncode, p.stdout.decode(errors="replace"), p.stderr.decode(errors="replace")


def param_event(c):
    for ln in c.events or []:
        if ln.startswith("PARAM "):
            t = ln.split()
            return dict(type=int(t[1]), gpo=t[2], gpe=t[3], tgpe=t[4], mat=t[5])
    return None


def run(ctx):
    ctx.trusted = list(C.TRUSTED_COMMON) + ["out-of-range `type` values are represented by the executed values -1, 5, 6, 99 (C `default:` semantics)",
                                            "README.md parameter table transcribed into Props/C09.lean / Props/C09Ref.lean as the specification"]
    ctx.cov["_rule"] = ("unit: aln_param_init on 3 biotypes x 12 type values x 8 override subsets x values (incl. -0.0, NaN) and set_aln_type on words; "
                        "the command-line front end (op cli: real main() with recording library entry points) on well-formed, malformed and number-torture command lines; "
                        "end to end: explicit-default vs default run, single overrides observed through the PARAM hook, CLI --type/--gpo/--gpe/--tgpe vs library; "
                        "non-trivial = distinct end-to-end comparisons whose alignment contains a gap")
    ok = C.lean_obligations(ctx, "C09", THEOREMS)
    # from argv to the library calls: Props/Cli.lean over the model of main() (Model/Cli.lean, data regenerated into Gen/Cli.lean)
    ok = C.lean_obligations(ctx, "C09Cli", cli_theorems(), module="Cli") and ok
    kvh = C.build_harness("asan")
    cli = C.build_cli("asan")
    fails = []
    # the documented nucleotide table (README: dna = 5 match / -4 mismatch; internal = the same) against aln_param_init executed now, for all five
    # symbols of the nucleotide alphabet (A C G T/U N): the concrete entry is the replay when C09_defaults_dna / _internal no longer check
    try:
        from lib import translate as _tr
        for prm in _tr.t1_tables()[0]:
            if prm["bt"] == 1 and prm["type"] in (0, 1) and prm["vals"] is not None:
                ctx.evaluations += 1
                for i in range(5):
                    for j in range(5):
                        got, want = float(prm["vals"][3 + 23 * i + j][0]), (5.0 if i == j else -4.0)
                        if got != want:
                            fails.append(("aln_param_init(nucleotide, type %d): substitution score of symbols (%s,%s) is %g, documented %g" % (
                                prm["type"], "ACGTN"[i], "ACGTN"[j], got, want), dict(biotype=1, type=prm["type"], i=i, j=j, got=got, documented=want)))
        ctx.count("documented_table_entries", 50)
    except Exception as ex:
        ctx.notes.append("documented-table oracle not run: %s" % str(ex)[:200])
    lines = unit_ops(ctx)
    # the real main() with the library entry points replaced by recorders (op `cli`) against the model
    lines += C.gen_ops("gen_cli.py", ctx.seed, 100 if ctx.quick else 700)
    diffs = C.correspond(kvh, lines)
    ctx.count("unit_ops", len(lines))
    ctx.evaluations += len(lines)
    ctx.sample(dict(unit_ops=lines[:2] + lines[-2:]))
    rng = ctx.rng
    nsets = 3 if ctx.quick else 12
    sc = C.scratch()
    for si in range(nsets):
        for kind, bt, types in (("dna", 1, [0, 1, 2, 5]), ("protein", 0, [3, 4, 5])):
            recs = gen.family(rng, kind, rng.randint(3, 8), rng.choice([30, 80, 150]), sub=0.15, indel=0.08, spice=False)
            base = {}
            cs = [Case(recs, t, evlog=True, fmt="fasta", tag="default") for t in types]
            sysrun.run_cases(kvh, cs)
            for c in cs:
                ctx.evaluations += 1
                pe = param_event(c)
                if c.crashed or c.rc != 0 or pe is None:
                    fails.append(("default run of an admissible type failed: %s" % c.status, c.describe()))
                    continue
                base[c.type] = (c, pe)
            more = []
            for t, (c0, pe) in base.items():
                d = [bits_f(pe["gpo"]), bits_f(pe["gpe"]), bits_f(pe["tgpe"])]
                more.append((Case(recs, t, d[0], d[1], d[2], evlog=True, tag="explicit-default"), c0, pe, None))
                for k in range(3):
                    v = rng.choice([0.0, 0.5, 3.0, 12.0, 100.0])
                    pens = [-1, -1, -1]
                    pens[k] = v
                    more.append((Case(recs, t, pens[0], pens[1], pens[2], evlog=True, tag="single-override-%d" % k), c0, pe, (k, v)))
                if not ctx.quick:
                    for mask in (3, 5, 6, 7):
                        pens = [rng.choice([0.0, 1.0, 7.0, 30.0]) if mask >> k & 1 else -1 for k in range(3)]
                        more.append((Case(recs, t, pens[0], pens[1], pens[2], evlog=True, tag="subset-%d" % mask), c0, pe, ("mask", pens)))
            sysrun.run_cases(kvh, [m[0] for m in more])
            for c, c0, pe, what in more:
                ctx.evaluations += 1
                pe2 = param_event(c)
                if c.crashed or c.rc != 0 or pe2 is None:
                    fails.append(("run with explicit penalties failed: %s" % c.status, c.describe()))
                    continue
                exp = dict(pe)
                if what is None:
                    if c.outtext != c0.outtext:
                        fails.append(("passing the type's defaults explicitly changed the alignment", dict(default=c0.describe(), explicit=c.describe())))
                elif what[0] == "mask":
                    for k, f in enumerate(("gpo", "gpe", "tgpe")):
                        if what[1][k] != -1:
                            exp[f] = fbits(what[1][k])
                else:
                    exp[("gpo", "gpe", "tgpe")[what[0]]] = fbits(what[1])
                if {k: pe2[k] for k in ("gpo", "gpe", "tgpe", "mat")} != {k: exp[k] for k in ("gpo", "gpe", "tgpe", "mat")}:
                    fails.append(("parameters in use differ from the selected ones: expected %s, observed %s" % (exp, pe2), c.describe()))
                if c.outtext and "-" in c.outtext:
                    ctx.nontriv((c.key(), c.tag))
            # CLI vs library
            inp = os.path.join(sc, "c09_%d_%s.fa" % (si, kind))
            open(inp, "w").write(gen.fasta_text(recs))
            for w, t in WORDS.items():
                out = os.path.join(sc, "c09_cli.out")
                if os.path.exists(out):
                    os.remove(out)
                rc, so, se = run_cli(cli, ["-i", inp, "-o", out, "--type", w, "-n", "2", "-q"])
                ctx.evaluations += 1
                fits = (t in types)
                if fits:
                    if rc != 0 or not os.path.exists(out):
                        fails.append(("CLI --type %s rejected on %s input (rc=%d)" % (w, kind, rc), dict(records=recs, stderr=se[-800:], stdout=so[-800:])))
                    elif t in base and open(out).read() != base[t][0].outtext:
                        fails.append(("CLI --type %s differs from the library run with the constant %d" % (w, t), dict(records=recs, cli=open(out).read(), lib=base[t][0].outtext)))
                    else:
                        ctx.count("cli_type_ok")
                else:
                    if rc == 0:
                        fails.append(("CLI --type %s accepted on %s input (a type that does not fit must be rejected)" % (w, kind), dict(records=recs)))
                    else:
                        ctx.count("cli_mismatch_rejected")
            # CLI penalties
            if base:
                t = rng.choice(list(base))
                w = [k for k, v in WORDS.items() if v == t]
                k = rng.randrange(3)
                v = rng.choice([0.5, 2.0, 9.0])
                pens = [-1, -1, -1]
                pens[k] = v
                cl = Case(recs, t, pens[0], pens[1], pens[2], threads=2)
                sysrun.run_cases(kvh, [cl])
                out = os.path.join(sc, "c09_cli.out")
                if os.path.exists(out):
                    os.remove(out)
                args = ["-i", inp, "-o", out, "-n", "2", "-q", ["--gpo", "--gpe", "--tgpe"][k], str(v)] + (["--type", w[0]] if w else [])
                rc, so, se = run_cli(cli, args)
                ctx.evaluations += 1
                if rc != 0 or not os.path.exists(out) or cl.rc != 0 or open(out).read() != cl.outtext:
                    fails.append(("CLI %s differs from the library run with the same penalty" % " ".join(args[6:]), dict(records=recs, rc=rc, lib=cl.outtext, stderr=se[-500:])))
                else:
                    ctx.count("cli_penalty_ok")
            if len(ctx.samples) < 4:
                ctx.sample(dict(records=recs[:3], params_observed={t: base[t][1] for t in base}))
    # a user-supplied penalty must replace that value EVERYWHERE it is used (leaf profiles, merged profiles, kernels): two alignment types that share
    # their substitution matrix differ only in penalties, so a run of type A with all three penalties given explicitly as B's defaults must equal the
    # default run of type B (pairs and values taken from the regenerated tables: dna <-> internal). Inputs of >= 3 sequences, so that profiles take part.
    eq_cases = []
    for j in range(14 if ctx.quick else 120):
        recs_ = gen.family(rng, "dna", rng.randint(3, 9), rng.choice([25, 60, 140]), sub=0.15, indel=rng.choice([0.04, 0.1]), spice=False)
        if gen.detect_kind(recs_) != "dna":
            continue
        th_ = rng.choice([1, 4])
        for (ta, tb, pb) in ((0, 1, (8.0, 6.0, 8.0)), (1, 0, (8.0, 6.0, 0.0))):
            A_ = Case(recs_, ta, pb[0], pb[1], pb[2], threads=th_, fmt="fasta", api=rng.choice(["file", "arr"]), tag="type %d with the defaults of type %d given explicitly" % (ta, tb))
            B_ = Case(recs_, tb, -1, -1, -1, threads=th_, fmt="fasta", api=A_.api, tag="type %d default" % tb)
            # and a single explicit tgpe (the only value in which the two types differ)
            C_ = Case(recs_, ta, -1, -1, pb[2], threads=th_, fmt="fasta", api=A_.api, tag="type %d with tgpe of type %d" % (ta, tb))
            eq_cases.append((A_, B_, C_))
    sysrun.run_cases(kvh, [c for tr in eq_cases for c in tr])
    for A_, B_, C_ in eq_cases:
        ctx.evaluations += 2
        if any(c.crashed or c.rc != 0 for c in (A_, B_, C_)):
            fails.append(("run failed in the explicit-vs-default comparison: %s / %s / %s" % (A_.status, B_.status, C_.status), dict(a=A_.describe(), b=B_.describe())))
            continue
        ra, rb, rc3 = sysrun.parse_output(A_), sysrun.parse_output(B_), sysrun.parse_output(C_)
        if ra != rb:
            fails.append(("%s gives a different alignment than %s although both use the same matrix and the same three penalties" % (A_.tag, B_.tag), dict(a=A_.describe(), b=B_.describe(), rows_a=ra, rows_b=rb)))
        elif rc3 != rb:
            fails.append(("%s gives a different alignment than %s although they differ in that penalty only" % (C_.tag, B_.tag), dict(a=C_.describe(), b=B_.describe(), rows_a=rc3, rows_b=rb)))
        else:
            ctx.count("explicit_equals_other_types_default")
    # the whole pipeline with user penalties against the composed model (profiles, kernels and the parameter block together)
    diffs += C.pipeline_correspondence(ctx, kvh, [3 * ctx.seed + 2000] if ctx.quick else [3 * ctx.seed + 2000 + 30 * k for k in range(4)])
    # marginal decisions: two groups of similar sequences that overlap in a short core with overhangs on both sides; whether the groups are joined on
    # the overlap is decided by a few score units -- the selected gap-extension against the selected terminal penalty among them. The proved model
    # run with the caller's type and overrides says which alignment these parameters select; where the implementation returns another one, both are
    # scored under exactly the selected parameters (harness/ops_ref.c refsp, the reading S_T of the reference DP)
    from props import c07 as _c07
    ml, mmeta = [], []
    for j in range(240 if ctx.quick else 2400):
        d = _c07.marginal_dovetail(rng, overrides=rng.random() < 0.6) if j % 3 else _c07.staggered_pair(rng, overrides=rng.random() < 0.6)
        alpha_ = gen.AA if d["kind"] == "protein" else (gen.RNA if d["kind"] == "rna" else gen.DNA)

        def member(q):
            q = list(q)
            for _ in range(rng.choice([0, 0, 1, 2])):
                q[rng.randrange(len(q))] = rng.choice(alpha_)
            return "".join(q)
        seqs = [d["a"]] + [member(d["a"]) for _ in range(d["ka"] - 1)] + [d["b"]] + [member(d["b"]) for _ in range(d["kb"] - 1)]
        pb = [fbits(float(x)) if x != -1 else "bf800000" for x in d["pens"]]
        ml.append("kalign_sys %d %s %s %s %s" % (d["t"], pb[0], pb[1], pb[2], " ".join(seqs)))
        mmeta.append((d, seqs, pb))
    chunks_ = [list(range(i, len(ml), C.NCPU)) for i in range(C.NCPU)]
    from concurrent.futures import ThreadPoolExecutor as _TPE
    with _TPE(C.NCPU) as ex_:
        oi_ = list(ex_.map(lambda ix: C.run_lines(kvh, [ml[i] for i in ix], env=C.SAN_ENV, timeout=900)[1] if ix else [], chunks_))
        om_ = list(ex_.map(lambda ix: C.run_lines(C.kmodel_path(), [ml[i] for i in ix], timeout=900)[1] if ix else [], chunks_))
    impl_, mod_ = {}, {}
    for ix, a_, b_ in zip(chunks_, oi_, om_):
        for k_, i in enumerate(ix):
            impl_[i] = a_[k_] if k_ < len(a_) else ""
            mod_[i] = b_[k_] if k_ < len(b_) else ""
    for i, (d, seqs, pb) in enumerate(mmeta):
        ctx.evaluations += 1
        if impl_[i] == mod_[i]:
            ctx.count("marginal_groups_agree_with_model")
            continue
        dd = dict(index=i, op=ml[i], impl=impl_[i], model=mod_[i], note="marginal dovetail groups")
        ri, rm = impl_[i].split(), mod_[i].split()
        if not (ri and rm and ri[0] == "rc=0" and rm[0] == "rc=0" and len(ri) == len(rm) == 2 + len(seqs)):
            diffs.append(dd)
            continue
        alph = 23 if d["kind"] == "protein" else 5
        cv = C.run_lines(kvh, ["convert %d %s" % (alph, q) for q in seqs], env=C.SAN_ENV)[1]

        def coderow(row, codes):
            it = iter(codes.split(","))
            return ",".join(next(it) if ch != "-" else "-1" for ch in row)
        sp = []
        for rows in (ri[2:], rm[2:]):
            ln = "refsp %d %d %s %s %s %s" % (0 if d["kind"] == "protein" else 1, d["t"], pb[0], pb[1], pb[2], " ".join(coderow(r_, c_) for r_, c_ in zip(rows, cv)))
            o_ = C.run_lines(kvh, [ln], env=C.SAN_ENV)[1]
            sp.append(float(o_[0][3:]) if o_ and o_[0].startswith("sp=") else None)
        if sp[0] is not None and sp[1] is not None and sp[0] < sp[1] - 1e-3 * (1 + abs(sp[1])):
            fails.append(("type %d with gpo/gpe/tgpe overrides %s: the alignment returned scores %.2f under the selected parameters, the alignment these parameters select in the "
                          "proved model scores %.2f (sum of pairs; substitution scores, gap-open, gap-extension and terminal penalties as selected)" % (d["t"], d["pens"], sp[0], sp[1]),
                          dict(sequences=seqs, type=d["t"], overrides=d["pens"], rows_returned=ri[2:], rows_model=rm[2:], op=ml[i])))
        else:
            diffs.append(dd)
    # argv -> library call, judged against an independent expectation (not the Lean model): a decimal value given to --gpo/--gpe/--tgpe must reach
    # kalign_run as exactly (float)value, -n as the integer, the other two penalties as -1 (= library default)
    cl_lines, cl_meta = [], []
    hx = lambda z: z.encode().hex()
    for j in range(90 if ctx.quick else 900):
        k = rng.randrange(3)
        v = rng.choice(["0.5", "292.6", "5.5", "2.25", "0.1", "39.4", "217", "12", "1e2", "7.75", "0.999", "1.5e1", "3", "0", "8.0001", "123.456"])
        nth = rng.choice([1, 2, 7, 16])
        opt = ["gpo", "gpe", "tgpe"][k]
        spell = rng.choice(["--%s", "-%s"]) % opt
        args = ["-i", "in.fa", spell, v, "-n", str(nth)]
        if rng.random() < 0.5:
            args = [spell + "=" + v, "-n%d" % nth, "in.fa"]
        cl_lines.append("cli 1 -1 " + " ".join(hx(a) for a in args))
        cl_meta.append((k, v, nth, args))
    rc_, out_, err_ = C.run_lines(kvh, cl_lines, env=C.SAN_ENV, timeout=600)
    for (k, v, nth, args), o in zip(cl_meta, out_ + [""] * len(cl_meta)):
        ctx.evaluations += 1
        m_ = [x for x in o.split("calls=")[-1].split(";") if x.startswith("A,")] if o.startswith("exit=0") else []
        if not m_:
            if o and o != "bad-op":
                fails.append(("kalign %s: the alignment was not run (%s)" % (" ".join(args), o[:200]), dict(argv=args)))
            else:
                ctx.count("cli_op_unavailable")
            continue
        f_ = m_[0].split(",")
        want = ["bf800000"] * 3
        want[k] = fbits(float(v))
        if f_[3:6] != want or f_[1] != str(nth):
            fails.append(("kalign %s: kalign_run received threads=%s gpo/gpe/tgpe=%s, expected threads=%d %s" % (" ".join(args), f_[1], f_[3:6], nth, want), dict(argv=args, observed=o)))
        else:
            ctx.count("cli_argv_to_call_ok")
    for why, rep in fails[:5]:
        ctx.violation(why, dict(kind="oracle", detail=rep))
    if diffs and not fails:
        d = diffs[0]
        ctx.violation("model and implementation disagree on %s (%d disagreements); end-to-end search found no failing input" % (d["op"].split()[0], len(diffs)),
                      dict(kind="correspondence", broken="unit correspondence " + d["op"].split()[0], first=diffs[:8]), no_input=True)
    if not ok and not fails and not diffs:
        ctx.violation("proof obligations of C09 no longer check (regenerated tables/guards/word chain differ from what the theorems need)",
                      dict(kind="proof", broken=[o for o in ctx.obligations if not o["ok"]], log=getattr(ctx, "build_errors", "")[-3000:]), no_input=True)
    return ctx.finish(LEVEL, CHECKER)


def replay(ctx, path):
    return C.replay_generic(path)
