"""C11 — the bit-parallel distance kernel equals the edit distance it stands for."""
import os
from lib import common as C

LEVEL = "proof"
CHECKER = "lake build KalignModel.Props.C11 && lake env lean KalignModel/Audit/C11.lean"


def theorems():
    p = os.path.join(C.LEAN, "KalignModel", "Props", "C11.theorems")
    return [l.strip() for l in open(p) if l.strip() and not l.startswith("#")] if os.path.exists(p) else []


def csv(l):
    return ",".join(str(x) for x in l) if l else "-"


def pairs(ctx, n):
    rng = ctx.rng
    out = []
    # exhaustive small: alphabet 2, lengths <= 5 (quick) / alphabet 3, lengths <= 6 (thorough)
    import itertools
    A, Lmax = (2, 5) if ctx.quick else (3, 6)
    seqs = [list(x) for L in range(1, Lmax + 1) for x in itertools.product(range(A), repeat=L)]
    for t in seqs:
        for p in seqs:
            if len(p) <= len(t) and (ctx.quick is False or rng.random() < 0.25):
                out.append((t, p))
    # random around every 64-symbol block boundary and the caps 63 / 255 / 1024
    ms = [1, 2, 31, 32, 33, 62, 63, 64, 65, 127, 128, 129, 191, 192, 193, 254, 255, 256, 257, 320, 511, 512, 513, 640, 1023, 1024, 1025, 1100]
    for _ in range(n):
        m = rng.choice(ms)
        sigma = rng.choice([2, 4, 13, 13])
        mode = rng.random()
        nlen = m + rng.choice([0, 0, 1, 5, 64, 300]) if rng.random() < 0.8 else rng.randint(m, min(3000, m + 2000))
        p = [rng.randrange(sigma) for _ in range(m)]
        if mode < 0.35:
            # text contains a mutated copy of the pattern (small distances, matches running into the text end)
            q = list(p)
            for _ in range(rng.choice([0, 1, 2, 5])):
                k = rng.randrange(len(q))
                r = rng.random()
                if r < 0.4:
                    q[k] = rng.randrange(sigma)
                elif r < 0.7 and len(q) > 1:
                    del q[k]
                else:
                    q.insert(k, rng.randrange(sigma))
            pre = [rng.randrange(1, sigma) if sigma > 1 else 0 for _ in range(max(0, nlen - len(q)))]
            t = pre + q if rng.random() < 0.6 else q + pre
        elif mode < 0.5:
            # pattern ending in symbol 0 whose best match is at the very end of the text
            x = [rng.randrange(1, sigma) if sigma > 1 else 0 for _ in range(m - 1)]
            p = x + [0]
            t = [rng.randrange(1, sigma) if sigma > 1 else 0 for _ in range(rng.randint(1, 80))] + x
        else:
            t = [rng.randrange(sigma) for _ in range(nlen)]
        if len(t) < len(p):
            t = t + [rng.randrange(sigma) for _ in range(len(p) - len(t))]
        out.append((t, p))
    # several planted copies of the pattern of different quality, separated by junk long enough to push the running score far above the best hit
    # so far (band/threshold logic: blocks dropped and re-activated), the best copy last or in the middle
    for _ in range(max(30, n // 5)):
        m = rng.choice([65, 70, 100, 128, 155, 200, 255, 300, 640])
        sigma = rng.choice([4, 13])
        p = [rng.randrange(sigma) for _ in range(m)]
        t = []
        ncop = rng.randint(2, 5)
        quals = [rng.choice([0, 1, 2, 3, 6, 12]) for _ in range(ncop)]
        for q in quals:
            t += [rng.randrange(sigma) for _ in range(rng.choice([0, 30, 80, 200, 400]))]
            c = list(p)
            for _e in range(q):
                k = rng.randrange(len(c))
                r = rng.random()
                if r < 0.4:
                    c[k] = rng.randrange(sigma)
                elif r < 0.7 and len(c) > 1:
                    del c[k]
                else:
                    c.insert(k, rng.randrange(sigma))
            t += c
        t += [rng.randrange(sigma) for _ in range(rng.choice([0, 10, 100]))]
        if len(t) < len(p):
            t += [rng.randrange(sigma) for _ in range(len(p) - len(t))]
        out.append((t, p))
    # lane-structured patterns (see tools/gen_bpm.py): full 64-symbol lanes of a symbol absent from the text, lane 0 cut from the text --
    # a carry from lane 0 must ripple through one, two or more all-ones lanes
    for _ in range(max(20, n // 6)):
        nl = rng.choice([2, 3, 4, 4, 4, 5, 8, 16])
        m = 64 * nl - rng.choice([0, 0, 1, 7, 33, 63])
        nlen = m + rng.randint(0, 300)
        t = [rng.randrange(12) for _ in range(nlen)]
        p = []
        absent = set(k for k in range(1, nl) if rng.random() < 0.6)
        for k in range(nl):
            if k in absent:
                p += [12] * 64
            else:
                a = rng.randint(0, max(0, nlen - 64))
                p += t[a:a + 64]
                p += [rng.randrange(12) for _ in range(64 * (k + 1) - len(p))]
        out.append((t, p[:m]))
    # text and pattern over disjoint symbol sets (poly-A against poly-G, low-complexity pieces): the answer is the pattern length itself, the value
    # the scan starts from -- on every residue of m modulo 64 (a last block holding 1, 2, 63 or 64 pattern symbols) and next to the 1024 cap
    for _ in range(max(40, n // 4)):
        m = 64 * rng.randint(0, 16) + rng.choice([0, 1, 1, 1, 2, 33, 63])
        m = max(1, m)
        nlen = m + rng.choice([0, 1, 40, 300])
        ks = rng.sample(range(13), rng.choice([2, 4, 6]))
        half = len(ks) // 2
        t = [rng.choice(ks[:half]) for _ in range(nlen)]
        p = [rng.choice(ks[half:]) for _ in range(m)]
        if rng.random() < 0.3:
            # ... except that the LAST pattern symbol occurs in the text (once, late)
            t[rng.randrange(len(t) * 2 // 3, len(t))] = p[-1]
        out.append((t, p))
    return out


def run(ctx):
    ctx.trusted = list(C.TRUSTED_COMMON) + ["the AVX2 intrinsics of bpm_256 are modelled lane by lane (C11_add256 / C11_shl256 prove the lane emulation equals the 256-bit operation); "
                                            "the intrinsic semantics themselves are taken from Intel's specification",
                                            "plain Sellers DP in the harness (ops_bpm.c) as independent oracle"]
    ctx.cov["_rule"] = ("(text, pattern) pairs over 2..13 symbols: exhaustive small pairs, random lengths around every multiple of 64 and around the caps 63/255/1024, texts containing "
                        "mutated copies of the pattern, patterns ending in symbol 0 matched at the text end; bpm_block / bpm / bpm_256 / dyn_256 of the real code vs the Lean models and vs "
                        "an independent plain DP; AVX2 and non-AVX2 builds; non-trivial = distinct pairs with pattern length >= 2 and distance >= 1")
    thms = theorems()
    ok = C.lean_obligations(ctx, "C11", thms) if thms else False
    if not thms:
        ctx.obligations.append(dict(name="Props/C11 theorems", ok=False, why="theorem list missing"))
    kvh = C.build_harness("asan")
    args = ["--no-exhaustive", "--random", 250 if ctx.quick else 4000, "--trees", 0, "--matrices", 0]
    ops = C.gen_ops("gen_bpm.py", ctx.seed, *args, prefixes=("bpm_block", "bpm", "bpm_256", "dyn_256", "sellers", "bpm_block_dp", "dp_bpm_block"))
    diffs = C.unit_correspondence(ctx, kvh, ops, "bpm")
    # independent oracle: real routines vs the harness's plain DP, both on the C side
    ps = pairs(ctx, 300 if ctx.quick else 5000)
    lines = []
    for t, p in ps:
        lines.append("bpm_block %s %s" % (csv(t), csv(p)))
        lines.append("sellers %s %s" % (csv(t), csv(p[:1024])))
        if len(p) <= 63:
            lines.append("bpm %s %s" % (csv(t), csv(p)))
        if len(p) <= 255:
            lines.append("bpm_256 %s %s" % (csv(t), csv(p)))
    from concurrent.futures import ThreadPoolExecutor

    def run_variant(exe, skip256):
        ls = [l for l in lines if not (skip256 and l.startswith("bpm_256 "))]
        chunks = [ls[i::C.NCPU] for i in range(C.NCPU)]
        with ThreadPoolExecutor(C.NCPU) as ex:
            res = list(ex.map(lambda ch: C.run_lines(exe, ch, env=C.SAN_ENV, timeout=1800) if ch else (0, [], ""), chunks))
        out = {}
        for ch, (rc, o, e) in zip(chunks, res):
            for k, l in enumerate(ch):
                out[l] = o[k] if k < len(o) and o[k] != "" else "<crash> " + e[-400:]
        return out

    fails = []
    for variant, skip in (("asan", False), ("noavx", True)):
        exe = kvh if variant == "asan" else C.build_harness("noavx")
        out = run_variant(exe, skip)
        for t, p in ps:
            ctx.evaluations += 1
            ref = out["sellers %s %s" % (csv(t), csv(p[:1024]))]
            got = {"bpm_block": out["bpm_block %s %s" % (csv(t), csv(p))]}
            if len(p) <= 63:
                got["bpm"] = out["bpm %s %s" % (csv(t), csv(p))]
            if len(p) <= 255 and not skip:
                got["bpm_256"] = out["bpm_256 %s %s" % (csv(t), csv(p))]
            for name, v in got.items():
                if v != ref:
                    fails.append(("%s returns %s, the minimum edit distance over substrings is %s (|text|=%d, |pattern|=%d, %s build)" % (name, v[:60], ref[:60], len(t), len(p), variant),
                                  dict(text=csv(t), pattern=csv(p), routine=name, variant=variant)))
            ctx.count("pairs_%s" % variant)
            ctx.count("m_mod64_%s" % ("0" if len(p) % 64 == 0 else "other"))
            try:
                if len(p) >= 2 and int(ref) >= 1:
                    ctx.nontriv((csv(t), csv(p)))
            except ValueError:
                pass
        if len(fails) > 20:
            break
    # the same kernels called from several threads at once (the guide-tree distances are computed in a parallel loop): the value for a pair is the
    # value the pair gets when it is computed alone
    small = [(t, p) for t, p in ps if 1 <= len(p) <= len(t) <= 700]
    for variant in ("asan", "noavx"):
        exe = kvh if variant == "asan" else C.build_harness("noavx")
        for r_ in range(2 if ctx.quick else 10):
            grp = ctx.rng.sample(small, min(len(small), 24))
            if len(grp) < 4:
                break
            nt = ctx.rng.choice([4, 8, 16])
            ln = "bpm_mt %d %d %s" % (nt, 150 if ctx.quick else 600, " ".join("%s %s" % (csv(t), csv(p)) for t, p in grp))
            rc_, o_, e_ = C.run_lines(exe, [ln], env=C.SAN_ENV, timeout=1800)
            res_ = o_[0] if o_ else "<crash> " + e_[-400:]
            ctx.evaluations += 1
            if res_.startswith("ok"):
                ctx.count("concurrent_calls_%s" % variant, int(res_.split("calls=")[1]))
                continue
            if res_.startswith("mismatch"):
                kv_ = dict(x.split("=") for x in res_.split()[1:])
                t_, p_ = grp[int(kv_["pair"])]
                fails.append(("%s returns %s for a pair when %d threads call the kernels at the same time, %s when the pair is computed alone (|text|=%d, |pattern|=%d, %s build)" %
                              (kv_["kernel"], kv_["concurrent"], nt, kv_["alone"], len(t_), len(p_), variant),
                              dict(text=csv(t_), pattern=csv(p_), routine=kv_["kernel"] + " (concurrent)", variant=variant, threads=nt, op=ln[:20000])))
            else:
                fails.append(("concurrent kernel calls crashed or faulted: %s" % res_[:200], dict(text="", pattern="", routine="bpm_mt", variant=variant, op=ln[:20000])))
            break
    for t, p in ps[:2]:
        ctx.sample(dict(text=csv(t)[:80], pattern=csv(p)[:80]))
    seen = set()
    for why, rep in fails:
        k = (rep["routine"], rep["variant"])
        if k in seen:
            continue
        seen.add(k)
        ctx.violation(why, dict(kind="oracle", detail=rep))
    C.report_diffs(ctx, diffs, fails, "bpm_block / bpm / bpm_256 / dyn_256")
    if not ok and not fails and not diffs:
        ctx.violation("proof obligations of C11 no longer check", dict(kind="proof", broken=[o for o in ctx.obligations if not o["ok"]],
                                                                        log=getattr(ctx, "build_errors", "")[-3000:]), no_input=True)
    return ctx.finish(LEVEL, CHECKER)


def replay(ctx, path):
    return C.replay_generic(path)
