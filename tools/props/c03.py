"""C03 — the alignment does not depend on the order of the input sequences."""
import os
from lib import common as C
from lib import gen, sysrun
from lib.sysrun import Case

LEVEL = "proof"
CHECKER = "lake build KalignModel.Props.Pipeline && lake env lean KalignModel/Audit/C03.lean"


def theorems():
    p = os.path.join(C.LEAN, "KalignModel", "Props", "C03.theorems")
    return [l.strip() for l in open(p) if l.strip() and not l.startswith("#")] if os.path.exists(p) else []


def columns(rows):
    """set of columns, each a frozenset of (name, residue index)"""
    if not rows:
        return set()
    L = len(rows[0][1])
    pos = {n: 0 for n, _ in rows}
    cols = set()
    for k in range(L):
        col = []
        for n, r in rows:
            if r[k] != "-":
                col.append((n, pos[n]))
                pos[n] += 1
        cols.add(frozenset(col))
    return cols


def run(ctx):
    ctx.trusted = list(C.TRUSTED_COMMON) + ["qsort is a correct sort (A-libc); the theorem needs pairwise distinct names (sort key = (length, full name), strcmp since 15117bc)",
                                            "n >= 100: the k-means tree is a function of the canonical list in the model; on the code side this is observed (task lists compared)"]
    ctx.cov["_rule"] = ("generated sets with distinct names (common prefixes, equal lengths, duplicates of residues under different names) x k random permutations + reversal + "
                        "rotation, below and above 100 sequences, all types, threads 1/8; compared: column-membership sets and the canonical order / task list seen by the hooks; "
                        "non-trivial = distinct (input, permutation) pairs with >= 3 sequences and >= 1 gap")
    thms = theorems()
    thms = thms + C.pipeline_theorems(["kalignRun_is_run", "kalignRun_order_independent", "buildTasks_is_bisectingKmeans"]) if thms else thms
    ok = C.lean_obligations(ctx, "C03", thms, module="Pipeline") if thms else False
    if not thms:
        ctx.obligations.append(dict(name="Props/C03 theorems", ok=False, why="theorem list missing"))
    kvh = C.build_harness("asan")
    rng = ctx.rng
    udiffs = C.unit_correspondence(ctx, kvh, C.gen_ops("gen_misc.py", ctx.seed, 400 if ctx.quick else 4000, prefixes=("sort_len_name", "cmp_len_name", "essential_check", "essential_check1")) +
                                   [l.strip() for l in open(os.path.join(C.CORPUS, "ops_misc.txt")) if l.startswith(("sort_len_name", "cmp_len_name", "essential_check"))], "canon")
    kops = C.gen_ops("gen_kmeans.py", ctx.seed + 7, 1 if ctx.quick else 4)
    if ctx.quick:
        kops = [l for l in kops if not l.startswith("kmeans_tree")][:120] + [l for l in kops if l.startswith("kmeans_tree")][:10]
    udiffs += C.unit_correspondence(ctx, kvh, kops, "kmeans")
    # the whole composed pipeline (kalignRun_order_independent is about this function, guide tree included)
    udiffs += C.pipeline_correspondence(ctx, kvh, [3 * ctx.seed + 1] if ctx.quick else [3 * ctx.seed + 1 + 30 * k for k in range(6)])
    diffs = []
    groups = []
    for i in range(14 if ctx.quick else 120):
        kind = rng.choice(["dna", "rna", "protein"])
        r = rng.random()
        if r < 0.15:
            nseq, length = rng.choice([100, 105, 130]), rng.choice([20, 50])
        elif r < 0.3:
            nseq, length = rng.randint(60, 99), rng.choice([15, 40])
        else:
            nseq, length = rng.randint(3, 25), rng.choice([5, 30, 100, 250])
        names = gen.name_pool(rng, nseq, maxlen=rng.choice([6, 20, 60]))
        if rng.random() < 0.4:
            pre = "".join(rng.choice("abcXYZ_|.") for _ in range(rng.randint(3, 40)))
            names = [pre + n for n in names]
        recs = gen.family(rng, kind, nseq, length, sub=rng.choice([0.05, 0.2]), indel=rng.choice([0.0, 0.05]), names=names)
        mode = rng.random()
        if mode < 0.3:       # many equal lengths (ties broken by name)
            L = min(len(s) for _, s in recs)
            recs = [(n, s[:L]) for n, s in recs]
        elif mode < 0.45:    # identical residues under different names
            recs = [(n, recs[0][1]) if rng.random() < 0.5 else (n, s) for n, s in recs]
        longnames = False
        if i % 7 == 3 or rng.random() < 0.08:
            # long descriptive names that agree in their first 256+ characters (FASTA headers are kept whole) on sequences of EQUAL length:
            # the canonical order must still be decided by the full names
            pre = "".join(rng.choice("abcdefghijklmnopqrstuvwxyz_|.") for _ in range(rng.choice([255, 256, 257, 300])))
            L0 = min(len(q) for _, q in recs)
            recs = [("%s_acc%05d" % (pre, rng.randrange(1000) * 100 + k), q[:L0] if k < max(2, len(recs) // 2) else q) for k, (nm, q) in enumerate(recs)]
            ctx.count("long_common_prefix_names")
            longnames = True
        if i % 7 == 4 and not longnames:
            # FASTA headers with free-text descriptions, one of them quoting the signature of another format: whichever record stands first, the
            # file is a FASTA file
            sig = rng.choice(["exported from MSF: 74 Type: P", "from a CLUSTAL W (1.83) run", "CLUSTAL O(1.2.4) multiple sequence alignment", "!!AA_MULTIPLE_ALIGNMENT 1.0"])
            ks = rng.randrange(len(recs))
            recs = [("%s %s" % (nm, sig if k == ks else rng.choice(["hypothetical protein", "fragment", "strain K12", "partial cds"])), q) for k, (nm, q) in enumerate(recs)]
            ctx.count("described_headers_with_signature")
            longnames = True          # FASTA output, names are whole header lines
        highnames = False
        if i % 7 == 1 and not longnames:
            # names in which bytes >= 0x80 occur (Latin-1 / UTF-8 text in FASTA headers) and which agree up to the first such byte, on sequences of
            # EQUAL length: these are distinct names, the canonical order is decided by the whole name
            pre = "".join(rng.choice("abcdefgprot_") for _ in range(rng.randint(0, 8)))
            hi = "".join(chr(rng.randint(0xA1, 0xFF)) for _ in range(rng.randint(1, 3)))
            L0 = min(len(q) for _, q in recs)
            keep = max(2, len(recs) // 2)
            recs = [(("%s%s_%s%d" % (pre, hi, rng.choice(["", "A", chr(rng.randint(0xC0, 0xFF))]), k)) if k < keep else nm, q[:L0] if k < keep else q) for k, (nm, q) in enumerate(recs)]
            ctx.count("names_with_high_bytes")
            highnames = True
        if i % 7 == 2 and len(recs) >= 3:
            # records without residues (two to four of them, distinct names): the library drops them wherever they stand -- first, last, next to
            # each other -- and the rest is aligned as if they were not there
            for k in range(rng.randint(2, 4)):
                recs.insert(rng.randint(0, len(recs)), ("%s_empty%d" % (recs[0][0][:20], k), ""))
            ctx.count("sets_with_empty_records")
        t = rng.choice([3, 4, 5]) if kind == "protein" else rng.choice([0, 1, 2, 5])
        t = gen.fit_type(t, kind, recs)
        th = rng.choice([1, 8])
        perms = [list(recs)]
        p = list(recs); p.reverse(); perms.append(p)
        k = rng.randrange(1, len(recs)); perms.append(recs[k:] + recs[:k])
        for _ in range(2 if ctx.quick else 5):
            p = list(recs); rng.shuffle(p); perms.append(p)
        if any(not q for _, q in recs):
            ne = [r for r in recs if r[1]]
            em = [r for r in recs if not r[1]]
            perms += [ne + em, em + ne, ne[:1] + em[:1] + ne[1:] + em[1:]]
        grp = [Case(p, t, threads=th, fmt=("fasta" if longnames or highnames else rng.choice(["fasta", "clu", "msf"])), evlog=True) for p in perms]
        if highnames:
            for c_ in grp:
                c_.enc = "latin-1"
        if i % 7 == 6 and not longnames and not highnames:
            # the same records, in every order, as Clustal / MSF input files (rows are assigned to sequences block by block there), with names of which
            # one is a proper prefix of another (s1 / s10 / s1x): distinct names all the same
            import random as _random
            from props import c04
            recs = [(n_, q_) for n_, q_ in recs if q_][:rng.randint(3, 14)]
            if len(recs) < 3:
                recs = [("u%d" % k, gen.rand_seq(rng, gen.AA, 30)) for k in range(4)]
                t = 3
            perms = [list(recs), list(reversed(recs)), recs[1:] + recs[:1]]
            for _ in range(3):
                p_ = list(recs); rng.shuffle(p_); perms.append(p_)
            base_ = "".join(rng.choice("abcdefgs") for _ in range(rng.randint(1, 4)))
            pref = [base_ + "1", base_ + "10", base_ + "1x", base_ + "100"][:min(4, len(recs))]
            others = ["%s_%d" % (rng.choice(["q", "r", base_]), k) for k in range(len(recs) - len(pref))]
            newn = pref + others
            rng.shuffle(newn)
            ren = dict((old, new) for (old, _), new in zip(recs, newn))
            render = c04.render_clustal if (i // 7) % 3 != 2 else c04.render_msf
            inv = dict((new, old) for old, new in ren.items())
            for first in pref[:3]:
                rest = [r_ for r_ in recs if r_[0] != inv[first]]
                rng.shuffle(rest)
                perms.append([r_ for r_ in recs if r_[0] == inv[first]] + rest)      # the shorter / the longer of the prefix-related names first
            grp = []
            for p_ in perms:
                p2 = [(ren[n_], q_) for n_, q_ in p_]
                rows_ = c04.gap_rows(rng, p2, rng.choice([0.0, 0.05, 0.3]))
                c_ = Case(p2, t, threads=th, fmt="fasta", evlog=True, tag="input as %s" % render.__name__)
                c_.intext = render(_random.Random(rng.getrandbits(30)), rows_)
                grp.append(c_)
            ctx.count("block_format_inputs_with_prefix_names")
        if i % 7 == 5 and not longnames:
            # more than 50 ragged records of which a few carry stray gap characters: whatever kalign concludes about "is this input aligned?" must
            # not depend on WHERE in the file those records stand (first, last, shuffled)
            nseq2 = rng.choice([56, 60, 75, 120])
            recs2 = gen.family(rng, kind, nseq2, rng.choice([20, 45]), sub=0.15, indel=0.06, names=gen.name_pool(rng, nseq2, maxlen=12, charset="abcdefghijklmnopqrstuvwxyz0123456789"))
            recs2 = [(n_, q_) for n_, q_ in recs2 if q_]
            if len(recs2) > 52:
                gapped = {}
                for n_, q_ in rng.sample(recs2, rng.randint(1, 3)):
                    cut = sorted(rng.randint(0, len(q_)) for _ in range(rng.randint(1, 4)))
                    out_, prev = [], 0
                    for c_ in cut:
                        out_.append(q_[prev:c_]); out_.append("-"); prev = c_
                    out_.append(q_[prev:])
                    gapped[n_] = "".join(out_)
                first = [r for r in recs2 if r[0] in gapped] + [r for r in recs2 if r[0] not in gapped]
                last = [r for r in recs2 if r[0] not in gapped] + [r for r in recs2 if r[0] in gapped]
                sh = list(recs2); rng.shuffle(sh)
                t2 = gen.fit_type(5, kind, recs2)
                grp = []
                for order in (last, first, sh):
                    c_ = Case(order, t2, threads=th, fmt="fasta", evlog=True, tag="stray gaps in %d of %d records" % (len(gapped), len(recs2)))
                    c_.intext = "".join(">%s\n%s\n" % (n_, gapped.get(n_, q_)) for n_, q_ in order)
                    grp.append(c_)
                ctx.count("ragged_gap_records_beyond_50")
        groups.append(grp)
    sysrun.run_cases(kvh, [c for g in groups for c in g])
    fails = []
    for g in groups:
        base = g[0]
        ctx.evaluations += len(g)
        if base.crashed or base.rc != 0:
            fails.append(("run failed: %s" % base.status, base.describe()))
            continue
        rows0 = sysrun.parse_output(base)
        cols0 = columns(rows0)
        name_of0 = [n for n, s in base.records]
        canon0 = [name_of0[int(x)] for l in base.events if l.startswith("CANON") for x in l.split()[1:]]
        tasks0 = [l for l in base.events if l.startswith("TASKS")]
        for c in g[1:]:
            if c.crashed or c.rc != 0:
                fails.append(("permuted run failed: %s" % c.status, c.describe()))
                continue
            rows = sysrun.parse_output(c)
            if [n for n, _ in rows] != [n for n, q in c.records if q]:
                fails.append(("rows not in the (permuted) input order", dict(case=c.describe(), rows=rows)))
                continue
            if columns(rows) != cols0:
                fails.append(("a permutation of the input changed which residues share a column", dict(original=base.describe(), permuted=c.describe(), rows_original=rows0, rows_permuted=rows)))
                continue
            names = [n for n, s in c.records]
            canon = [names[int(x)] for l in c.events if l.startswith("CANON") for x in l.split()[1:]]
            if canon != canon0:
                diffs.append(("canonical order differs between permutations although the alignments agree", canon0[:10], canon[:10]))
            if [l for l in c.events if l.startswith("TASKS")] != tasks0:
                diffs.append(("guide tree differs between permutations although the alignments agree", tasks0, None))
            if len(rows) >= 3 and any("-" in r for _, r in rows):
                ctx.nontriv((base.key(), tuple(n for n, _ in c.records)))
            ctx.count("pairs_above_100" if len(rows) >= 100 else "pairs_below_100")
        if len(ctx.samples) < 3 and len(base.records) <= 5:
            ctx.sample(dict(records=base.records, permutation=[n for n, _ in g[1].records], rows=rows0))
    for why, rep in fails[:5]:
        ctx.violation(why, dict(kind="oracle", detail=rep))
    if diffs and not fails:
        ctx.violation("hook-observed canonical order / guide tree depends on the input order (%d cases) but no alignment difference was found" % len(diffs),
                      dict(kind="correspondence", broken="CANON/TASKS observation", first=diffs[:3]), no_input=True)
    C.report_diffs(ctx, udiffs, fails, "sort_by_len_name / kalign_essential_input_check")
    if not ok and not fails and not diffs and not udiffs:
        ctx.violation("proof obligations of C03 no longer check", dict(kind="proof", broken=[o for o in ctx.obligations if not o["ok"]],
                                                                        log=getattr(ctx, "build_errors", "")[-3000:]), no_input=True)
    return ctx.finish(LEVEL, CHECKER)


def replay(ctx, path):
    return C.replay_generic(path)
