"""C12 — duplicate input sequences receive identical rows."""
import os
from lib import common as C
from lib import gen, sysrun
from lib.sysrun import Case

LEVEL = "proof"
CHECKER = "lake build KalignModel.Props.C12Soft && lake env lean KalignModel/Audit/C12.lean"

# the published 13-class reduction used for guide-tree distances (Steinegger & Soeding), as letters -> class representative
RED = {}
for grp in ("LM", "IV", "KR", "EQZ", "AST", "NDB", "FY", "C", "G", "H", "P", "W", "X"):
    for ch in grp:
        RED[ch] = grp[0]
for ch in "JOU":
    RED[ch] = "X"
NUC = {"A": "A", "C": "C", "G": "G", "T": "T", "U": "T", "N": "N"}


def reduce(s, kind):
    s = s.upper()
    if kind == "protein":
        return "".join(RED.get(ch, "X") for ch in s)
    return "".join(NUC.get(ch, "N") for ch in s)


def theorems():
    out = []
    for f in ("C12.theorems", "C12Soft.theorems"):
        p = os.path.join(C.LEAN, "KalignModel", "Props", f)
        if os.path.exists(p):
            out += [l.strip() for l in open(p) if l.strip() and not l.startswith("#")]
    return out


def premise_ok(recs, kind):
    """for every repeated sequence S: no other (different) sequence contains S or is contained in S, on the full and the reduced alphabet"""
    seqs = [s for _, s in recs]
    groups = {}
    for s in seqs:
        groups.setdefault(s.upper() if False else s, 0)
        groups[s] += 1
    red = {s: reduce(s, kind) for s in set(seqs)}
    for S, cnt in groups.items():
        if cnt < 2:
            continue
        for T in set(seqs):
            if T == S:
                continue
            if S.upper() in T.upper() or T.upper() in S.upper():
                return False
            if red[S] in red[T] or red[T] in red[S]:
                return False
    return any(c >= 2 for c in groups.values())


def cap_induced_zero(recs, kind):
    """known finding C12-prefix-1024: some OTHER sequence is at guide-tree distance 0 from a repeated sequence only because bpm_block looks at the
    first 1024 symbols of the shorter of the two (neither contains the other)"""
    seqs = [q for _, q in recs]
    red = {q: reduce(q, kind) for q in set(seqs)}
    for S in set(seqs):
        if seqs.count(S) < 2:
            continue
        for T in set(seqs):
            if T == S:
                continue
            a, b = (red[S], red[T]) if len(red[S]) <= len(red[T]) else (red[T], red[S])
            if len(a) > 1024 and a[:1024] in b and a not in b:
                return True
    return False


def known_witness(ctx, kvh):
    for kf in ctx.known.get("findings", []):
        if kf.get("property") != "C12" or kf.get("key") != "C12-prefix-1024":
            continue
        w = kf["witness"]
        recs = [tuple(x) for x in w["records"]]
        c = Case(recs, w["type"], threads=w["threads"], api=w["api"], fmt="fasta")
        sysrun.run_cases(kvh, [c])
        rows = dict(sysrun.parse_output(c) or []) if c.rc == 0 else {}
        got = set(rows.get(n) for n in w["copies"])
        if c.rc == 0 and len(got) > 1 and premise_ok(recs, "protein") and cap_induced_zero(recs, "protein"):
            ctx.violation(kf["what"], dict(kind="known-witness"), key="C12-prefix-1024")
        else:
            ctx.notes.append("known finding C12-prefix-1024 no longer reproduces on its witness")


def run(ctx):
    ctx.trusted = list(C.TRUSTED_COMMON) + ["A-float: UPGMA averages in binary32; the clade theorem is over exact arithmetic with margins >= 0.4",
                                            "premise (containment) checked by an independent substring test on the full and on the 13-class reduced alphabet"]
    ctx.cov["_rule"] = ("sets of 2..99 sequences with planted duplicate groups (any multiplicity, any position, several groups), all types, threads 1/4/16, both APIs; only sets "
                        "satisfying the containment premise are judged; oracle: all copies of a repeated sequence have identical rows; non-trivial = distinct sets with >= 2 copies, "
                        ">= 1 other sequence and a gap inside the duplicated rows")
    thms = theorems()
    ok = C.lean_obligations(ctx, "C12", thms, module="C12Soft") if thms else False
    if not thms:
        ctx.obligations.append(dict(name="Props/C12 theorems", ok=False, why="theorem list missing"))
    kvh = C.build_harness("asan")
    rng = ctx.rng
    diffs = []
    if os.path.exists(os.path.join(C.VERIF, "tools", "gen_bpm.py")):
        diffs = C.unit_correspondence(ctx, kvh, C.gen_ops("gen_bpm.py", ctx.seed, "--no-exhaustive", "--random", 0, "--trees", 8 if ctx.quick else 200, "--matrices", 15 if ctx.quick else 300,
                                                          prefixes=("calc_distance", "dist_matrix", "upgma", "upgma_exact", "tree", "tree_exact")), "distances/upgma")
    # the binary32 guide tree the C12Soft theorems are about: SoftF32 distance matrix / UPGMA / tree against the real routines
    ty = os.path.join(C.CORPUS, "sliceY_treesoft.ops")
    soft = C.gen_ops("gen_bpm.py", ctx.seed + 77, "--soft", "--trees", 4 if ctx.quick else 200, "--matrices", 8 if ctx.quick else 300)
    if os.path.exists(ty):
        soft += [l.strip() for l in open(ty) if l.strip() and not l.startswith("f32_lenterm")][:: (25 if ctx.quick else 1)]
    diffs += C.unit_correspondence(ctx, kvh, soft, "softtree")
    cases = []
    for i in range(90 if ctx.quick else 900):
        kind = rng.choice(["dna", "rna", "protein"])
        n = rng.choice([2, 3, 5, 8, 15, 40, 99, rng.randint(53, 98)])
        base = gen.family(rng, kind, max(1, n // 2), rng.choice([12, 40, 120, 300]), sub=rng.choice([0.1, 0.3]), indel=rng.choice([0.05, 0.1]), spice=rng.random() < 0.5)
        seqs = [s for _, s in base]
        recs = list(seqs)
        while len(recs) < n:
            recs.append(rng.choice(seqs[:max(1, len(seqs) // 2)]) if rng.random() < 0.8 else seqs[rng.randrange(len(seqs))])
        recs = recs[:n]
        if len(recs) < 2:
            continue
        if rng.random() < 0.06:
            # long sequences: the distance kernel looks at the first 1024 symbols of the shorter sequence only, so a sequence sharing its
            # first 1024 symbols with a duplicated one is at distance 0 although neither contains the other (the clade theorem excludes
            # this case by hypothesis; the end-to-end claim is searched here)
            alpha = gen.AA if kind == "protein" else (gen.RNA if kind == "rna" else gen.DNA)
            S = gen.rand_seq(rng, alpha, rng.choice([1100, 1600]))
            T = S[:1024] + gen.rand_seq(rng, alpha, rng.choice([50, 300, 500]))
            T2 = S[:1024] + gen.mutate(rng, S[1024:], alpha, 0.3, 0.15)
            recs = [S, T, S] + ([T2] if rng.random() < 0.5 else []) + ([gen.mutate(rng, S, alpha, 0.2, 0.05)] if rng.random() < 0.5 else [])
        if rng.random() < 0.12:
            # distance extremes: sequences over disjoint letter classes are at distance exactly len(shorter) (capped at 1024), which puts
            # the entries of the distance matrix on 255/256/257, 511/512, 767/768, 1023/1024 -- the widths an integer narrowing would cut at
            if kind == "protein":
                a1, a2 = "LMIVKR", "FYWCGHP"
            elif kind == "rna":
                a1, a2 = "AC", "GU"
            else:
                a1, a2 = "AC", "GT"
            if rng.random() < 0.5:
                a1, a2 = a2, a1
            L = rng.choice([255, 256, 256, 257, 511, 512, 512, 768, 1024, 1100])
            X = gen.rand_seq(rng, a1, L)
            recs = [X, X]
            for _ in range(rng.choice([1, 2, 3, 5])):
                recs.append(gen.rand_seq(rng, a2, L + rng.choice([0, 1, 7, 40, 200])))
            for _ in range(rng.choice([0, 1, 2, 3])):
                recs.append(gen.mutate(rng, X, a1, rng.choice([0.02, 0.1]), rng.choice([0.02, 0.06])))
            for _ in range(rng.choice([0, 1, 2])):
                # chimeras: half of X, half foreign
                cut = rng.randrange(L // 4, 3 * L // 4)
                recs.append(gen.rand_seq(rng, a2, cut) + X[cut:] if rng.random() < 0.5 else X[:cut] + gen.rand_seq(rng, a2, L - cut + rng.choice([0, 30])))
            if rng.random() < 0.4:
                recs.append(X)
            ctx.count("distance_extreme_sets")
        if i % 9 == 4:
            # the duplicated sequence has exactly 63/64/255/256/257/1023/1024 residues (limits of the distance kernels) and its relatives differ from it
            # only by an insertion just before its LAST residue (neither contains the other): the last residue must count
            # (protein: one relative inserts a residue SIMILAR to the last one -- the optimum then leaves a terminal gap -- another a dissimilar one --
            # internal gap -- so that copies joined with different relatives would show different rows)
            kind = "protein"
            alpha_ = gen.AA
            sim_ = {"L": "I", "M": "V", "K": "Q", "E": "D", "F": "W", "S": "N", "R": "H", "I": "L", "V": "M"}
            Lb = rng.choice([63, 64, 65, 255, 256, 256, 256, 257, 1023, 1024])
            last_ = rng.choice(sorted(sim_))
            S_ = gen.rand_seq(rng, [ch for ch in alpha_ if ch not in (last_, sim_[last_])], Lb - 1) + last_
            far_ = [ch for ch in "WCGP" if ch not in (last_, sim_[last_], S_[-2])]
            recs = [S_, S_, S_[:-1] + sim_[last_] + S_[-1], S_[:-1] + rng.choice(far_) + S_[-1]]
            if rng.random() < 0.5:
                recs.append(S_[:-1] + rng.choice(far_) + rng.choice(far_) + S_[-1])
            if rng.random() < 0.4:
                recs.append(S_)
            ctx.count("kernel_boundary_length_sets")
        rng.shuffle(recs)
        recs = [("d%d" % k, s) for k, s in enumerate(recs)]
        if not premise_ok(recs, kind):
            ctx.count("premise_not_met")
            continue
        t = rng.choice([3, 4, 5]) if kind == "protein" else rng.choice([0, 1, 2, 5])
        t = gen.fit_type(t, kind, recs)
        c = Case(recs, t, threads=rng.choice([1, 4, 16]), api=rng.choice(["file", "arr"]), fmt="fasta")
        if len(recs) > 52 and i % 2 == 0:
            # more than 50 records; some copies of repeated sequences standing late in the file are WRITTEN with stray gap characters (a leading '-',
            # a '-' inside): they are still the same sequences
            cnt = {}
            for _, q in recs:
                cnt[q] = cnt.get(q, 0) + 1
            txt, marked = [], 0
            for k, (nm, q) in enumerate(recs):
                w = q
                if k >= 50 and cnt[q] >= 2 and len(q) >= 2 and rng.random() < 0.6:
                    for _ in range(rng.randint(1, 3)):
                        at = 0 if rng.random() < 0.5 else rng.randint(1, len(w) - 1)
                        w = w[:at] + "-" + w[at:]
                    marked += 1
                txt.append(">%s\n%s\n" % (nm, w))
            if marked:
                c.api = "file"
                c.intext = "".join(txt)
                c.tag = "%d late copies written with stray gap characters" % marked
                ctx.count("late_copies_with_stray_gaps")
        elif c.api == "file" and i % 4 == 1:
            # no line terminator after the last residue of the file
            c.intext = gen.fasta_text(recs).rstrip("\n")
            ctx.count("files_without_final_newline")
        cases.append(c)
    sysrun.run_cases(kvh, cases)
    # very long duplicates (beyond the 10000-residue clamp of the length term of the distance) with short fragments one edit away from a locus of
    # them: the copies must still be joined first. Uninstrumented build (a 22 kb pair costs ~5e8 DP cells).
    longc = []
    for j in range(1 if ctx.quick else 4):
        Lg = rng.randint(20400, 26000)
        g = gen.rand_seq(rng, gen.DNA, Lg)
        loc = rng.randint(1000, Lg - 1000)

        def frag(pos, n, ins):
            piece = g[pos:pos + n]
            at = ins - pos
            extra = [ch for ch in "ACGT" if ch != piece[at - 1] and ch != piece[at]][0]
            return piece[:at] + extra + piece[at:]
        recs = [("gA", g), ("f1", frag(loc, 89, loc + 45)), ("gB", g), ("f2", frag(loc - 10, 95, loc + 46))]
        if rng.random() < 0.5:
            recs.append(("gC", g))
        rng.shuffle(recs)
        if premise_ok(recs, "dna"):
            longc.append(Case(recs, rng.choice([0, 5]), threads=8, api="file", fmt="fasta", tag="very long duplicate"))
    if longc:
        sysrun.run_cases(C.build_harness("plain"), longc, timeout=3000)
        cases += longc
    known_witness(ctx, kvh)
    known_reported = []
    fails = []
    for c in cases:
        ctx.evaluations += 1
        if c.crashed or c.rc != 0:
            fails.append(("run failed: %s" % c.status, c.describe()))
            continue
        rows = sysrun.parse_output(c)
        by = {}
        for (n, s), (_, r) in zip(c.records, rows):
            by.setdefault(s, set()).add(r)
        bad = [(s, sorted(v)) for s, v in by.items() if len(v) > 1]
        if bad:
            kindc = gen.detect_kind(c.records)
            kindc = "protein" if kindc == "protein" else "dna"
            if cap_induced_zero(c.records, kindc):
                # the recorded finding (distance cap at 1024 symbols), not a new violation
                ctx.count("copies_differ_(known_prefix_1024)")
                if not known_reported:
                    known_reported.append(1)
                    kf = next((x for x in ctx.known.get("findings", []) if x.get("key") == "C12-prefix-1024"), None)
                    if kf:
                        ctx.violation(kf["what"], dict(kind="known-class", case=c.describe()), key="C12-prefix-1024")
                        continue
                else:
                    continue
            fails.append(("copies of one sequence received different rows", dict(case=c.describe(), sequence=bad[0][0], rows=bad[0][1])))
            continue
        ctx.count("sets_ok")
        dup_rows = [next(iter(v)) for s, v in by.items() if sum(1 for _, x in c.records if x == s) >= 2]
        if len(by) >= 2 and any("-" in r for r in dup_rows):
            ctx.nontriv(c.key())
        if len(ctx.samples) < 3 and len(c.records) <= 5:
            ctx.sample(dict(records=c.records, rows=rows))
    for why, rep in fails[:5]:
        ctx.violation(why, dict(kind="oracle", detail=rep))
    C.report_diffs(ctx, diffs, fails, "distances / UPGMA")
    if not ok and not fails and not diffs:
        ctx.violation("proof obligations of C12 no longer check", dict(kind="proof", broken=[o for o in ctx.obligations if not o["ok"]],
                                                                        log=getattr(ctx, "build_errors", "")[-3000:]), no_input=True)
    return ctx.finish(LEVEL, CHECKER)


def replay(ctx, path):
    return C.replay_generic(path)
