"""C04 — the result depends only on names and residues, not on how they are presented."""
import os
from lib import common as C
from lib import gen, sysrun
from lib.sysrun import Case

LEVEL = "proof"
CHECKER = "lake build KalignModel.Props.C04All && lake env lean KalignModel/Audit/C04.lean"
GLYPHS = "-.~*_"


def theorems():
    out = []
    for f in ("C04.theorems", "C04Sniff.theorems"):
        p = os.path.join(C.LEAN, "KalignModel", "Props", f)
        if os.path.exists(p):
            out += [l.strip() for l in open(p) if l.strip() and not l.startswith("#")]
    return out


def gap_rows(rng, recs, density):
    """insert gap glyphs so that all rows get one length (an 'alignment' of the records)"""
    rows = []
    for n, s in recs:
        r = []
        for ch in s:
            while rng.random() < density:
                r.append(rng.choice("-" if rng.random() < 0.7 else GLYPHS))
            r.append(ch)
        rows.append(r)
    L = max(len(r) for r in rows) + rng.randint(0, 5)
    out = []
    for (n, s), r in zip(recs, rows):
        pad = L - len(r)
        k = rng.randint(0, pad)
        out.append((n, "-" * k + "".join(r) + "-" * (pad - k)))
    return out


def render_fasta(rng, rows, width=None):
    width = width or rng.choice([1, 7, 59, 60, 61, 80, 500])
    out = [""] * rng.choice([0, 0, 0, 1, 4, 5, 6, 9])        # blank lines before the first record
    for n, r in rows:
        if rng.random() < 0.3:
            out.append("")
        out.append(">" + n)
        for i in range(0, len(r), width):
            out.append(r[i:i + width] + (" " * rng.randint(0, 3) if rng.random() < 0.2 else ""))
            if rng.random() < 0.05:
                out.append("")
    while out and out[-1] == "" and rng.random() < 0.5:
        out.pop()
    return "\n".join(out) + ("\n" if rng.random() < 0.7 else "")      # the last line need not end in a newline


def render_clustal(rng, rows, width=None):
    width = width or rng.choice([10, 50, 60, 61, 120])
    pad = max(len(n) for n, _ in rows) + rng.choice([1, 5, 30])
    out = [rng.choice(["CLUSTAL W (1.83) multiple sequence alignment", "Kalign (3.4.1) multiple sequence alignment", "CLUSTAL O(1.2.4) multiple sequence alignment"]), ""]
    L = len(rows[0][1])
    for i in range(0, max(L, 1), width):
        for n, r in rows:
            out.append(n.ljust(pad) + r[i:i + width])
        out.append("")
        if rng.random() < 0.3:
            out.append("")
    if rng.random() < 0.25:
        while out and out[-1] == "":
            out.pop()
        return "\n".join(out)                                           # file ends with the last sequence line, no newline
    return "\n".join(out) + "\n"


def render_msf(rng, rows, width=None):
    width = width or rng.choice([10, 50, 60, 100])
    pad = max(len(n) for n, _ in rows) + rng.choice([1, 5, 30])
    L = len(rows[0][1])
    out = ["!!NA_MULTIPLE_ALIGNMENT 1.0", "", " x.msf  MSF: %d  Type: N  January 01, 2000 00:00  Check: 0  .." % L, ""]
    for n, r in rows:
        out.append(" Name: %s  Len: %5d  Check: %4d  Weight: 1.00" % (n.ljust(pad), L, gen.gcg_checksum(r)))
    out += ["", "//", ""]
    ragged = rng.random() < 0.3     # rows not padded to a common column: each name is followed by one to three blanks and the data
    for i in range(0, max(L, 1), width):
        for n, r in rows:
            chunk = r[i:i + width]
            if rng.random() < 0.5:   # GCG style: blanks every 10 columns
                chunk = " ".join(chunk[j:j + 10] for j in range(0, len(chunk), 10))
            out.append((n + " " * rng.randint(1, 3) if ragged else n.ljust(pad)) + chunk)
        out.append("")
    if rng.random() < 0.25:
        while out and out[-1] == "":
            out.pop()
        return "\n".join(out)
    return "\n".join(out) + "\n"


def split_class_differs(kvh, c):
    """does some file, read on its own, get a different DNA/protein class than the files before it?"""
    singles = [Case(c.records, c.type, infiles=[f], tag="single") for f in c.infiles]
    sysrun.run_cases(kvh, singles)
    classes = [s.kv.get("biotype") for s in singles if s.status and hasattr(s, "kv")]
    classes = [x for x in classes if x in (0, 1)]
    return len(set(classes)) > 1


def known_witness(ctx, kvh):
    """replay the recorded witness of C04-split-class: it must still fail in the recorded way (and the one-file form must be accepted)"""
    for kf in ctx.known.get("findings", []):
        if kf.get("property") != "C04" or kf.get("key") != "C04-split-class":
            continue
        files = kf["witness"]["files"]
        recs = gen.parse_fasta("".join(files))
        split = Case(recs, 5, infiles=files, tag="witness split")
        one = Case(recs, 5, intext="".join(files), tag="witness one file")
        sysrun.run_cases(kvh, [split, one])
        if one.rc == 0 and split.rc != 0 and "different alphabets" in split.stderr:
            ctx.violation(kf["what"], dict(kind="known-witness"), key="C04-split-class")
        else:
            ctx.notes.append("known finding C04-split-class no longer reproduces (split rc=%s, one-file rc=%s)" % (split.rc, one.rc))


def run(ctx):
    ctx.trusted = list(C.TRUSTED_COMMON) + ["getline/isalpha/ispunct by specification; several files: each file's own detected class equals the class of the whole set "
                                            "(the other case is the recorded finding C04-split-class)"]
    ctx.cov["_rule"] = ("each record set is presented as plain FASTA (reference) and as: gapped aligned FASTA (densities up to 50 gaps/residue, several glyphs), arbitrary "
                        "line widths, blank lines, trailing blanks, Clustal and MSF renderings with name padding, 2..5 files; compared: output bytes; non-trivial = distinct "
                        "(records, presentation) pairs whose output alignment has >= 1 gap")
    thms = theorems()
    thms = thms + C.pipefile_theorems(["kalignFile_presentation_independent", "dealignStep_congr"]) if thms else thms
    ok = C.lean_obligations(ctx, "C04", thms, module="C04All") if thms else False
    if not thms:
        ctx.obligations.append(dict(name="Props/C04 theorems", ok=False, why="theorem list missing"))
    kvh = C.build_harness("asan")
    rng = ctx.rng
    diffs = C.unit_correspondence(ctx, kvh, C.gen_ops("gen_io.py", ctx.seed, 1 if ctx.quick else 8, prefixes=('read', 'read_as', 'detect_format')), "readers")
    # whole program, files to file (kalignFile_presentation_independent is about this function)
    diffs += C.pipefile_correspondence(ctx, kvh, [4 * ctx.seed] if ctx.quick else [4 * ctx.seed + 40 * k for k in range(5)])
    groups = []
    for i in range(16 if ctx.quick else 150):
        kind = rng.choice(["dna", "rna", "protein"])
        nseq = rng.randint(2, 10)
        recs = gen.family(rng, kind, nseq, rng.choice([6, 30, 90, 200]), sub=0.15, indel=0.06)
        names = gen.name_pool(rng, nseq, maxlen=12, charset="abcdefghijklmnopqrstuvwxyzABCDEFGHIJKLMNOPQRSTUVWXYZ0123456789_")
        recs = [(n, s) for n, (_, s) in zip(names, recs)]
        if i % 5 == 3:
            # a record named like a format signature whose residues continue it ("CLUSTAL" + blank(s) + "W..." is what its row looks like in a
            # block format; in FASTA the words may stand in a residue line): what format a file has is decided by how it BEGINS (8e76171)
            j_ = rng.randrange(len(recs))
            lead = ("W" if kind == "protein" else "") + recs[j_][1]
            recs[j_] = (rng.choice(["CLUSTAL", "MSF:", "x|CLUSTAL"]), lead)
            if j_ == 0 and rng.random() < 0.7:
                recs[0], recs[-1] = recs[-1], recs[0]
            ctx.count("signature_word_names")
        t = rng.choice([3, 4, 5]) if kind == "protein" else rng.choice([0, 1, 2, 5])
        t = gen.fit_type(t, kind, recs)
        fmt = rng.choice(["fasta", "clu", "msf"])
        ref = Case(recs, t, fmt=fmt, tag="plain fasta")
        alts = []
        for dens in ([0.1, 0.9, 0.98] if ctx.quick else [0.05, 0.3, 0.8, 0.95, 0.98]):
            rows = gap_rows(rng, recs, dens)
            alts.append(Case(recs, t, fmt=fmt, intext=render_fasta(rng, rows), tag="aligned fasta, gap density %.2f" % dens))
        rows = gap_rows(rng, recs, rng.choice([0.0, 0.2, 0.6]))
        alts.append(Case(recs, t, fmt=fmt, intext=render_clustal(rng, rows), tag="clustal"))
        alts.append(Case(recs, t, fmt=fmt, intext=render_msf(rng, rows), tag="msf"))
        alts.append(Case(recs, t, fmt=fmt, intext=render_fasta(rng, [(n, s) for n, s in recs]), tag="fasta other width/blank lines"))
        if i % 4 == 1:
            # very long physical lines: one unwrapped block of a mostly-gaps alignment whose width sits on the usual stdio buffer sizes
            Wd = rng.choice([4095, 4096, 8190, 8191, 8192, 8193, 9000, 16384, 70000])
            lrows = []
            for n_, s_ in recs:
                pos = sorted(rng.sample(range(Wd), min(len(s_), Wd)))
                row = ["-"] * Wd
                for q, ch in zip(pos, s_):
                    row[q] = ch
                lrows.append((n_, "".join(row)))
            if all(len(s_) <= Wd for _, s_ in recs):
                alts.append(Case(recs, t, fmt=fmt, intext=render_clustal(rng, lrows, width=Wd), tag="clustal, one block of %d columns" % Wd))
                alts.append(Case(recs, t, fmt=fmt, intext=render_msf(rng, lrows, width=Wd), tag="msf, one block of %d columns" % Wd))
                alts.append(Case(recs, t, fmt=fmt, intext=render_fasta(rng, lrows, width=Wd), tag="aligned fasta, lines of %d columns" % Wd))
        if nseq >= 2:
            k = rng.randint(2, min(5, nseq))
            cuts = sorted(rng.sample(range(1, nseq), k - 1)) if nseq > k - 1 and k > 1 else []
            parts, prev = [], 0
            for cpos in cuts + [nseq]:
                parts.append(recs[prev:cpos])
                prev = cpos
            files = []
            for part in parts:
                rws = gap_rows(rng, part, rng.choice([0.0, 0.3]))
                files.append(rng.choice([render_fasta, render_fasta, render_clustal, render_msf])(rng, rws) if len(part) >= 1 else "")
            alts.append(Case(recs, t, fmt=fmt, infiles=files, tag="%d files" % len(files)))
        groups.append((ref, alts))
    # more than 50 records where only late records carry gap characters (the aligned/unaligned decision must see every record)
    for i in range(3 if ctx.quick else 25):
        kind = rng.choice(["dna", "protein"])
        nseq = rng.choice([51, 57, 80, 120])
        recs = gen.family(rng, kind, nseq, rng.choice([20, 50]), sub=0.1, indel=0.05, spice=False)
        recs = [("q%03d" % k, s) for k, (_, s) in enumerate(recs)]
        t = 5
        fmt = rng.choice(["fasta", "clu"])
        ref = Case(recs, t, fmt=fmt, tag="plain fasta")
        alts = []
        for rep in range(2):
            late = list(recs)
            for k in rng.sample(range(50, nseq), rng.randint(1, min(5, nseq - 50))):
                n_, s_ = late[k]
                pos = sorted(rng.randint(0, len(s_)) for _ in range(rng.randint(1, 6)))
                out_, prev = [], 0
                for q in pos:
                    out_.append(s_[prev:q]); out_.append("-"); prev = q
                out_.append(s_[prev:])
                late[k] = (n_, "".join(out_))
            txt = gen.fasta_text(late, width=rng.choice([60, 80]))
            alts.append(Case(recs, t, fmt=fmt, intext=txt, tag="gaps only after record 50"))
            k = rng.randint(50, nseq - 1)
            alts.append(Case(recs, t, fmt=fmt, infiles=[gen.fasta_text(recs[:k]), txt.split(">" + late[k][0] + "\n")[0] and ">" + late[k][0] + "\n" + txt.split(">" + late[k][0] + "\n")[1]], tag="2 files, gaps late"))
        groups.append((ref, alts))
    sysrun.run_cases(kvh, [c for ref, alts in groups for c in [ref] + alts])
    known_witness(ctx, kvh)
    fails = []
    for ref, alts in groups:
        ctx.evaluations += 1 + len(alts)
        if ref.crashed or ref.rc != 0:
            fails.append(("reference run failed: %s" % ref.status, ref.describe()))
            continue
        for c in alts:
            if c.crashed:
                fails.append(("crash on presentation '%s'" % c.tag, c.describe()))
            elif c.rc != 0:
                if c.infiles and "different alphabets" in c.stderr and split_class_differs(kvh, c):
                    # recorded finding C04-split-class (same call site, same cause): not a new violation
                    ctx.violation("split files with differing per-file class rejected", dict(kind="oracle", detail=c.describe()), key="C04-split-class")
                    continue
                fails.append(("presentation '%s' of the same records was rejected (%s)" % (c.tag, c.status), c.describe()))
            elif sysrun.parse_output(c) != sysrun.parse_output(ref):
                fails.append(("presentation '%s' of the same records gives a different result" % c.tag,
                              dict(case=c.describe(), infiles=c.infiles, reference=ref.outtext, got=c.outtext, status=(ref.status, c.status))))
            else:
                ctx.count("pres_" + c.tag.split(",")[0].split()[0])
                if "-" in (c.outtext or ""):
                    ctx.nontriv((ref.key(), c.tag, c.id))
        if len(ctx.samples) < 3 and len(ref.records) <= 3:
            ctx.sample(dict(records=ref.records, presentation=alts[0].intext[:300]))
    for why, rep in fails[:5]:
        ctx.violation(why, dict(kind="oracle", detail=rep))
    C.report_diffs(ctx, diffs, fails, "readers")
    if not ok and not fails and not diffs:
        ctx.violation("proof obligations of C04 no longer check", dict(kind="proof", broken=[o for o in ctx.obligations if not o["ok"]],
                                                                        log=getattr(ctx, "build_errors", "")[-3000:]), no_input=True)
    return ctx.finish(LEVEL, CHECKER)


def replay(ctx, path):
    return C.replay_generic(path)
