"""C15 — written alignment files are self-consistent and correctly labelled."""
import os, re
from lib import common as C
from lib import gen, alngen, sysrun
from lib.sysrun import Case

LEVEL = "proof"
CHECKER = "lake build KalignModel.Props.PipelineFile && lake env lean KalignModel/Audit/C15.lean"


def theorems():
    p = os.path.join(C.LEAN, "KalignModel", "Props", "C15.theorems")
    return [l.strip() for l in open(p) if l.strip() and not l.startswith("#")] if os.path.exists(p) else []


def check_file(txt, fmt, aln, protein):
    """independent well-formedness check; returns None or reason"""
    names = [n for n, _ in aln]
    L = len(aln[0][1])
    nblocks = (L + 59) // 60
    if fmt == "fasta":
        recs = gen.fasta_lines(txt)
        if [n for n, _ in recs] != names:
            return "FASTA: names/order differ"
        for (n, lines), (_, row) in zip(recs, aln):
            if "".join(lines) != row:
                return "FASTA: row of %s differs" % n
            for ln in lines[:-1]:
                if len(ln) != 60:
                    return "FASTA: a non-final line of %s has width %d" % (n, len(ln))
            if lines and not (1 <= len(lines[-1]) <= 60):
                return "FASTA: last line of %s has width %d" % (n, len(lines[-1]))
        if not txt.endswith("\n"):
            return "FASTA: no final newline"
        return None
    # the block formats carry names in a column of MSA_NAME_LEN (256) bytes: longer names appear cut to 256 bytes, consistently in the MSF
    # Name: lines and in every block
    names = [n[:256] for n in names]
    aln = [(n[:256], r) for n, r in aln]
    if fmt == "clu":
        try:
            rows, shape, hdr = gen.parse_clustal(txt)
        except ValueError as ex:
            return "Clustal: " + str(ex)
        if "multiple sequence alignment" not in hdr:
            return "Clustal: header line missing"
    else:
        try:
            rows, shape, hdr = gen.parse_msf(txt)
        except ValueError as ex:
            return "MSF: " + str(ex)
        want = "!!AA_MULTIPLE_ALIGNMENT" if protein else "!!NA_MULTIPLE_ALIGNMENT"
        if not (hdr["type_line"] or "").startswith(want):
            return "MSF: type line %r for %s" % (hdr["type_line"], "protein" if protein else "nucleotide")
        if hdr["msf"] is None:
            return "MSF: no 'MSF: .. Type: .. Check: ..' line"
        if hdr["msf"]["len"] != L:
            return "MSF: declared alignment length %d, true length %d" % (hdr["msf"]["len"], L)
        if hdr["msf"]["type"] != ("P" if protein else "N"):
            return "MSF: Type: %s for %s" % (hdr["msf"]["type"], "protein" if protein else "nucleotide")
        if [x["name"] for x in hdr["names"]] != names:
            return "MSF: Name: lines differ from the rows"
        tot = 0
        for x, (n, row) in zip(hdr["names"], aln):
            if x["len"] != L:
                return "MSF: Len of %s is %d, true %d" % (n, x["len"], L)
            chk = gen.gcg_checksum(row)
            tot = (tot + chk) % 10000
            if x["check"] != chk:
                return "MSF: Check of %s is %d, true GCG checksum %d" % (n, x["check"], chk)
        if hdr["msf"]["check"] != tot:
            return "MSF: alignment Check %d, true %d" % (hdr["msf"]["check"], tot)
    if rows != aln:
        return "%s: rows differ from the alignment" % fmt
    if len(shape) != nblocks:
        return "%s: %d blocks, expected %d" % (fmt, len(shape), nblocks)
    for b, blk in enumerate(shape):
        if [n for n, _ in blk] != names:
            return "%s: block %d does not list every sequence in order" % (fmt, b)
        for n, chunk in blk:
            w = 60 if b < nblocks - 1 else L - 60 * (nblocks - 1)
            if len(chunk) != w:
                return "%s: block %d row %s has %d columns, expected %d" % (fmt, b, n, len(chunk), w)
    return None


def run(ctx):
    ctx.trusted = list(C.TRUSTED_COMMON) + ["independent Python parser of the three formats (oracle); strftime date not checked"]
    ctx.cov["_rule"] = ("(a) random finished alignments written by the real writers; (b) real kalign_run outputs for protein and nucleotide inputs; each file parsed by an "
                        "independent reader: wrapping at 60, block structure, MSF length / per-row GCG checksums / total / type; non-trivial = distinct (alignment, format) "
                        "with >= 2 rows; widths on both sides of multiples of 60 are counted")
    thms = theorems()
    thms = thms + C.pipefile_theorems(["kalignFile_output_shape"]) if thms else thms
    ok = C.lean_obligations(ctx, "C15", thms, module="PipelineFile") if thms else False
    if not thms:
        ctx.obligations.append(dict(name="Props/C15 theorems", ok=False, why="theorem list missing"))
    kvh = C.build_harness("asan")
    rng = ctx.rng
    diffs = C.unit_correspondence(ctx, kvh, C.gen_ops("gen_io.py", ctx.seed, 1 if ctx.quick else 8, prefixes=('write', 'gcg', 'parse_format')), "writers")
    diffs += C.pipefile_correspondence(ctx, kvh, [4 * ctx.seed + 2] if ctx.quick else [4 * ctx.seed + 2 + 40 * k for k in range(5)])
    sc = C.scratch()
    fails = []
    # (a) synthetic alignments through the writers
    alns = [alngen.rand_alignment(rng, not ctx.quick) for _ in range(50 if ctx.quick else 500)] + [alngen.long_row_alignment(rng) for _ in range(6 if ctx.quick else 60)] + \
           [alngen.many_lines_alignment(rng, ctx.seed + j) for j in range(4 if ctx.quick else 24)]
    # names must be white-space free tokens for block formats; alngen guarantees the C06 charset
    lines, meta = [], []
    for k, (kind, aln) in enumerate(alns):
        for f in ("fasta", "msf", "clu"):
            path = os.path.join(sc, "c15_%d.%s" % (k, f))
            if k % 7 == 3 and f == "fasta":
                # names longer than the 256-byte name column of the block formats (FASTA headers are kept whole); unique within their first 256 bytes
                aln = [("%03d_" % j + "n" * (rng.choice([252, 253, 256, 260, 300, 330])) , r) for j, (n_, r) in enumerate(aln)]
                alns[k] = (kind, aln)
            if k % 5 == 2:
                # long output file names (the MSF header line carries the basename): up to the 255-byte limit of a file name
                stem = "c15_%d_" % k
                path = os.path.join(sc, stem + "n" * (rng.choice([150, 190, 200, 230, 250]) - len(stem) - len(f) - 1) + "." + f)
            lines.append("writealn %s %s %d %s" % (path, f, 1 if kind == "dna" else 0, alngen.aln_args(aln)))
            meta.append((k, f, path))
    chunks = [list(range(i, min(i + 30, len(lines)))) for i in range(0, len(lines), 30)]
    chunks = [[i for i in ch if len(lines[i]) < 100000] for ch in chunks] + [[i] for i in range(len(lines)) if len(lines[i]) >= 100000]
    from concurrent.futures import ThreadPoolExecutor
    with ThreadPoolExecutor(C.NCPU) as ex:
        res = list(ex.map(lambda idx: C.run_lines(kvh, [lines[i] for i in idx], env=C.SAN_ENV), chunks))
    for idx, (rc, o, e) in zip(chunks, res):
        for j, i in enumerate(idx):
            k, f, path = meta[i]
            kind, aln = alns[k]
            ctx.evaluations += 1
            st = o[j] if j < len(o) else ""
            if st != "rc=0":
                fails.append(("writer failed or crashed (%r) for format %s" % (st, f), dict(alignment=aln, stderr=e[-2000:])))
                continue
            txt = open(path, errors="replace").read()
            os.remove(path)
            why = check_file(txt, f, aln, kind != "dna")
            if why:
                fails.append((why, dict(alignment=aln, fmt=f, file=txt[:3000])))
                continue
            ctx.count("writer_ok_" + f)
            L = len(aln[0][1])
            ctx.count("width_mod60_%s" % ("0" if L % 60 == 0 else ("1" if L % 60 == 1 else ("59" if L % 60 == 59 else "other"))))
            if len(aln) >= 2:
                ctx.nontriv((tuple(aln), f))
    # (b) real pipeline outputs
    cases = []
    for i in range(18 if ctx.quick else 150):
        kind = rng.choice(["dna", "rna", "protein"])
        recs = gen.family(rng, kind, rng.randint(2, 9), rng.choice([10, 55, 60, 118, 130, 300]), sub=0.1, indel=0.05)
        if kind != "protein" and i % 4 == 2:
            # masked / unresolved bases: 10..40 % of the residues are N (upper or lower case), nothing but A C G T U N otherwise -- nucleic acid by
            # the letters alone, whatever the share of N
            fr = rng.choice([0.1, 0.15, 0.2, 0.4])
            ncase = rng.choice(["N", "N", "n", "Nn"])
            recs = [(n_, "".join(rng.choice(ncase) if rng.random() < fr else (ch if ch.upper() in "ACGTU" else "N") for ch in q)) for n_, q in recs]
        t = rng.choice([3, 4, 5]) if kind == "protein" else rng.choice([0, 1, 2, 5])
        t = gen.fit_type(t, kind, recs)
        if i % 3 == 1 and len(recs) >= 3:
            # records without residues in the middle of the input (dropped by the library; the remaining rows keep their input positions as rank)
            for _ in range(rng.randint(1, 3)):
                recs.insert(rng.randint(0, len(recs) - 1), ("empty%d" % len(recs), ""))
        for f in ("fasta", "msf", "clu"):
            c = Case(recs, t, fmt=f, threads=rng.choice([1, 4]))
            c.protein = kind == "protein"
            cases.append(c)
    sysrun.run_cases(kvh, cases)
    for c in cases:
        ctx.evaluations += 1
        if c.crashed or c.rc != 0:
            fails.append(("run failed: %s" % c.status, c.describe()))
            continue
        try:
            rows = sysrun.parse_output(c)
        except Exception as ex:
            fails.append(("output of a real run is not parseable as %s: %s" % (c.fmt, ex), dict(case=c.describe(), file=c.outtext[:3000])))
            continue
        if c.kv["biotype"] != (0 if c.protein else 1):
            if not c.protein and all(ch in "ACGTUNacgtun" for _, q in c.records for ch in q) and c.fmt == "msf":
                fails.append(("MSF file of an input made of A C G T U N only is labelled %r (molecule type: nucleic acid expected)" % c.outtext.split("\n")[0][:40],
                              dict(case=c.describe(), file=c.outtext[:1500])))
                continue
            ctx.count("skipped_misdetected")
            continue
        why = check_file(c.outtext, c.fmt, rows, c.protein) or gen.integrity(c.records, rows)
        if why:
            fails.append((why + " (real run)", dict(case=c.describe(), file=c.outtext[:3000])))
            continue
        ctx.count("run_ok_" + c.fmt)
        ctx.nontriv((c.key(),))
        if len(ctx.samples) < 2 and c.fmt == "msf" and len(c.records) <= 3:
            ctx.sample(dict(records=c.records, file=c.outtext))
    for why, rep in fails[:5]:
        ctx.violation(why, dict(kind="oracle", detail=rep))
    C.report_diffs(ctx, diffs, fails, "writers")
    if not ok and not fails and not diffs:
        ctx.violation("proof obligations of C15 no longer check", dict(kind="proof", broken=[o for o in ctx.obligations if not o["ok"]],
                                                                        log=getattr(ctx, "build_errors", "")[-3000:]), no_input=True)
    return ctx.finish(LEVEL, CHECKER)


def replay(ctx, path):
    return C.replay_generic(path)
