"""C01 — alignment integrity."""
import os
from lib import common as C
from lib import gen, sysrun
from lib.sysrun import Case

LEVEL = "proof"
THEOREMS = ["Kalign.weave", "Kalign.degap_makeLinear", "Kalign.C01_merge_integrity", "Kalign.C01_tree_integrity",
            "Kalign.C01_rows", "Kalign.C01_no_allgap_column", "Kalign.C01_expandPath_valid",
            # the k-means guide tree (>= 100 sequences) keeps every sequence: leaves of the tree = the samples
            "Kalign.Kmeans.split2_partition", "Kalign.Kmeans.bisectingKmeans_leaves", "Kalign.Kmeans.bisectingKmeans_fuel"]
CHECKER = "lake build KalignModel.Props.PipelineFile && lake env lean KalignModel/Audit/C01.lean"


# ------------------------------------------------------------------ generators for the unit ops

def col_of(code):
    if code == 0:
        return "both"
    if code & 1:
        return "gapA"
    if code & 2:
        return "gapB"
    return "skip"


def rand_cols(rng, n, adj_ok=False):
    """random column list (codes 0/1/2) with at least one aligned column; no gapA run adjacent to a gapB run unless adj_ok"""
    cols = []
    while len(cols) < n:
        r = rng.random()
        c = 0 if r < 0.6 else (1 if r < 0.8 else 2)
        if not adj_ok and cols and c != 0 and cols[-1] != 0 and cols[-1] != c:
            c = 0
        cols.append(c)
    if 0 not in cols:
        cols[rng.randrange(len(cols))] = 0
        if not adj_ok:   # repair adjacency
            for i in range(1, len(cols)):
                if cols[i] and cols[i - 1] and cols[i] != cols[i - 1]:
                    cols[i] = cols[i - 1]
    return cols


def flags(cols):
    out = list(cols)
    i = 0
    while i < len(out) and out[i] != 0:
        out[i] |= 32
        i += 1
    i = len(out) - 1
    while i >= 0 and out[i] != 0:
        out[i] |= 32
        i -= 1
    return out


def path_of_cols(cols):
    """Hirschberg path (entries for a-residues) of a column list"""
    path, posb = [], 0
    for c in cols:
        if c == 0:
            posb += 1
            path.append(posb)
        elif c == 1:
            posb += 1
        else:
            path.append(-1)
    return path, posb


def rand_gseq(rng, plen):
    """gap vector of a row of total length plen with a random number of residues"""
    if plen == 0:
        return [0]
    L = rng.randint(1, plen)
    pos = sorted(rng.sample(range(plen), L))
    g, prev = [], -1
    for p in pos:
        g.append(p - prev - 1)
        prev = p
    g.append(plen - 1 - prev)
    return g


def csv(l):
    return ",".join(str(x) for x in l) if l else "-"


def unit_ops(ctx, n):
    rng = ctx.rng
    lines = []
    for _ in range(n):
        k = rng.randrange(6)
        if k == 0:
            g = [rng.choice([0, 0, 0, 1, 2, 5]) for _ in range(rng.randint(1, 15))]
            tot = (len(g) - 1) + sum(g) + 1
            ng = [rng.choice([0, 0, 1, 3]) for _ in range(tot)]
            lines.append("update_gaps %s %s" % (csv(g), csv(ng)))
        elif k == 1:
            cols = flags(rand_cols(rng, rng.randint(1, 40), adj_ok=rng.random() < 0.3))
            la = sum(1 for c in cols if col_of(c) in ("both", "gapB"))
            lb = sum(1 for c in cols if col_of(c) in ("both", "gapA"))
            na, nb = rng.randint(1, 3), rng.randint(1, 3)
            gs = [rand_gseq(rng, la) for _ in range(na)] + [rand_gseq(rng, lb) for _ in range(nb)]
            lines.append("make_seq %s %d %d %s" % (csv(cols), na, nb, " ".join(csv(g) for g in gs)))
        elif k in (2, 3):
            cols = rand_cols(rng, rng.randint(1, 50), adj_ok=(k == 3 and rng.random() < 0.5))
            path, lb = path_of_cols(cols)
            if not path:
                continue
            if any(p != -1 for p in path) and lb >= 1:
                lines.append("add_gap_info %d %s" % (lb, csv(path)))
        elif k == 4:
            cols = rand_cols(rng, rng.randint(1, 50))
            path, lb = path_of_cols(cols)       # path of (a,b); mirror takes the path of the swapped problem
            la = len(path)
            if la == 0 or lb == 0:
                continue
            sw = [-1] * lb
            for i, p in enumerate(path):
                if p != -1:
                    sw[p - 1] = i + 1
            lines.append("mirror_path %d %s" % (la, csv(sw)))
        else:
            L = rng.randint(0, 20)
            res = gen.rand_seq(rng, "ACGTacgtNXKLM", L) if L else "."
            g = [rng.choice([0, 0, 1, 4]) for _ in range(L + 1)]
            lines.append("make_linear %s %s" % (res, csv(g)))
    return lines


# ------------------------------------------------------------------ system cases

def system_cases(ctx, n, thorough=False):
    rng = ctx.rng
    cases = []
    for i in range(n):
        kind = rng.choice(["dna", "dna", "rna", "protein", "protein"])
        big = thorough and rng.random() < 0.15
        nseq = rng.randint(2, 12) if not big else rng.choice([60, 99, 100, 101, 130, 250])
        if rng.random() < 0.15:
            nseq = rng.randint(2, 40)
        length = rng.choice([1, 2, 5, 20, 60, 120, 300]) if not thorough else rng.choice([1, 3, 30, 100, 400, 700, 1500])
        if big:
            length = rng.choice([20, 80, 200])
        recs = gen.family(rng, kind, nseq, length, sub=rng.choice([0.02, 0.1, 0.3]), indel=rng.choice([0.0, 0.03, 0.1]))
        mode = rng.random()
        if mode < 0.15:     # duplicates
            recs = [(n, recs[rng.randrange(len(recs))][1]) if rng.random() < 0.4 else (n, s) for n, s in recs]
        elif mode < 0.3:    # extreme length ratio
            k = rng.randrange(len(recs))
            recs[k] = (recs[k][0], recs[k][1][:rng.randint(1, 3)])
        elif mode < 0.4 and len(recs) > 2:    # a zero-length member (dropped by the library)
            k = rng.randrange(len(recs))
            recs[k] = (recs[k][0], "")
        if rng.random() < (0.04 if not thorough else 0.06):
            # a large cluster of identical copies (k-means cannot separate them) plus a few others that force gaps into them
            others = recs[:rng.randint(2, 6)]
            ncopy = rng.choice([100, 101, 103, 127, 150, 151])
            recs = others + [("dup%d" % k, others[0][1][: max(3, len(others[0][1]) - 4)]) for k in range(ncopy)]
            rng.shuffle(recs)
        nonempty = [r for r in recs if r[1]]
        if len(nonempty) < 2:
            continue
        if kind == "protein":
            type_ = rng.choice([3, 4, 5])
        else:
            type_ = rng.choice([0, 1, 2, 5])
        if gen.detect_kind(recs) != ("protein" if kind == "protein" else "dna"):
            type_ = 5      # short / ambiguity-rich sets may be classified as the other kind: an explicit type would rightly be rejected
        pens = [-1, -1, -1]
        if rng.random() < 0.35:
            for k in range(3):
                if rng.random() < 0.5:
                    pens[k] = rng.choice([0, 0.5, 1, 2, 5.5, 8, 20, 55, 217])
        api = rng.choice(["file", "file", "arr"])
        if api == "arr" and any(not s for _, s in recs):
            api = "file"
        fmt = rng.choice(["fasta", "msf", "clu"])
        th = rng.choice([1, 1, 2, 4, 7, 16])
        c = Case(recs, type_, pens[0], pens[1], pens[2], th, fmt, api if len(recs) < 90 else "file", evlog=(len(recs) <= 60))
        if c.api == "file" and i % 9 == 4 and all(s for _, s in recs) and len(recs) <= 40:
            # names of 150..250 characters (FASTA headers are taken whole) written in the block formats, alignments wider than one block
            recs = [("%s_%s" % (nm[:20], "".join(rng.choice("abcdefghijklmnopqrstuvwxyz0123456789_.|") for _ in range(rng.choice([150, 189, 190, 191, 200, 230, 250]) - len(nm[:20]) - 1))), sq)
                    for nm, sq in recs]
            if len(set(n_ for n_, _ in recs)) == len(recs):
                c = Case(recs, type_, pens[0], pens[1], pens[2], th, rng.choice(["clu", "msf", "clu"]), "file", evlog=False, tag="names of 150-250 characters")
        elif c.api == "file" and rng.random() < 0.12 and all(s for _, s in recs):
            # FASTA headers with free-text descriptions that mention other formats and tools, incl. the very words the format sniffer looks for
            # (a file whose first record line starts with '>' is a FASTA file whatever its descriptions say; repaired in 8e76171)
            words = ["re-aligned from a CLUSTALW run", "CLUSTAL-Omega 1.2.4 output", "exported from MSF format", "PileUp of 12", "Clustal consensus", "see MSF file",
                     "!!AA family 7", "multiple alignment seed", "kalign 3 reference", "GCG Check 1234",
                     "from a CLUSTAL W (1.83) alignment", "CLUSTAL O(1.2.4) multiple sequence alignment", "was x.msf  MSF: 120  Type: P", "!!AA_MULTIPLE_ALIGNMENT 1.0",
                     "!!NA_MULTIPLE_ALIGNMENT", "Kalign (3.3) multiple sequence alignment"]
            recs = [("%s %s" % (nm, rng.choice(words)) if rng.random() < 0.6 else nm, sq) for nm, sq in recs]
            c = Case(recs, type_, pens[0], pens[1], pens[2], th, "fasta", "file", evlog=False, tag="described headers")
        elif c.api == "file" and rng.random() < 0.3 and all(s for _, s in recs):
            # the same records in an untidy FASTA file: stray gap glyphs that do not form an alignment (rows of unequal length), a trailing
            # stop-codon '*', or an aligned block followed by unaligned records -- kalign announces it will drop the gaps and align
            style = rng.choice(["stray", "star", "mixed", "plain"])
            out = []
            for k, (nm, sq) in enumerate(recs):
                row = sq
                if style == "stray" or (style == "mixed" and k >= len(recs) // 2 and rng.random() < 0.5):
                    row = "".join(ch + (rng.choice("-.") * rng.randint(1, 3) if rng.random() < 0.08 else "") for ch in sq)
                elif style == "star":
                    row = sq + ("*" if rng.random() < 0.7 else "")
                elif style == "mixed" and k < len(recs) // 2:
                    L = max(len(x) for _, x in recs[:len(recs) // 2]) + 2
                    row = sq + "-" * (L - len(sq))
                out.append(">%s\n%s\n" % (nm, row))
            c.intext = "\n" * rng.choice([0, 0, 2, 5, 7]) + "".join(out)
            if rng.random() < 0.5:
                c.intext = c.intext.rstrip("\n")          # the last line of a file need not end in a newline
            c.tag = "untidy-fasta-" + style
        cases.append(c)
    return cases


def check_steps(ctx, c, model_lines, expected, where):
    """validity monitor + model replay lines for every merge of one run"""
    nd = sysrun.parse_nd(c.events)
    nonempty = [(k, s) for k, (n, s) in enumerate(c.records) if s]
    # rank = input position among *all* inputs (rank is assigned before empty ones are dropped)
    lens = {k: len(s) for k, (n, s) in enumerate(c.records)}
    state = {k: [0] * (lens[k] + 1) for k in lens}
    for e in nd:
        cols = [col_of(x) for x in e["codes"]]
        la = sum(1 for x in cols if x in ("both", "gapB"))
        lb = sum(1 for x in cols if x in ("both", "gapA"))
        bad = None
        if "skip" in cols:
            bad = "code that is neither aligned, gap-in-a nor gap-in-b"
        elif la != e["len_a"] or lb != e["len_b"]:
            bad = "column list consumes (%d,%d) columns but profiles have (%d,%d)" % (la, lb, e["len_a"], e["len_b"])
        else:
            for i in range(1, len(cols)):
                if cols[i] != "both" and cols[i - 1] != "both" and cols[i] != cols[i - 1]:
                    bad = "gap-in-a run adjacent to gap-in-b run at column %d" % i
                    break
        if bad:
            ctx.violation("merge path invalid: " + bad, dict(kind="path-monitor", case=c.describe(), event=e), key=None)
            return
        pre = []
        for side in ("A", "B"):
            for r, g in e[side]:
                pre.append(state[r])
        model_lines.append("make_seq %s %d %d %s" % (csv(e["codes"]), len(e["A"]), len(e["B"]), " ".join(csv(g) for g in pre)))
        post = [g for r, g in reversed(e["A"])] + [g for r, g in reversed(e["B"])]
        expected.append(" ".join(csv(g) for g in post))
        where.append((c, e))
        for side in ("A", "B"):
            for r, g in e[side]:
                state[r] = g
        ctx.count("merges_replayed")


def run(ctx):
    ctx.trusted = list(C.TRUSTED_COMMON) + ["premise of the tree theorems: the pairwise aligner returns a valid column list "
                                            "(proved for the path expansion from `pathOK` paths; that the DP controller yields `pathOK` paths is monitored on "
                                            "every merge of every run, see C07)"]
    ctx.cov["_rule"] = ("system cases: evolved DNA/RNA/protein families (duplicates, length ratios, empty members), all types, random penalty "
                        "overrides, threads 1..16, both APIs, three formats; non-trivial = distinct (input, config) whose output has >= 3 rows and >= 1 gap")
    ok = C.lean_obligations(ctx, "C01", THEOREMS + C.pipeline_theorems(["kalignRunWith_integrity", "kalignRun_integrity"]) + C.pipefile_theorems(["kalignFile_integrity", "kalignFile_no_fault"]), module="PipelineFile")
    kvh = C.build_harness("asan")
    # 1. unit correspondence
    lines = unit_ops(ctx, 3000 if ctx.quick else 40000)
    kops = C.gen_ops("gen_kmeans.py", ctx.seed, 1 if ctx.quick else 3, prefixes=("split2", "split2_serial", "kmeans_tree", "pick_anchor"))
    if ctx.quick:
        kops = [l for l in kops if not l.startswith("kmeans_tree")][:60] + [l for l in kops if l.startswith("kmeans_tree")][:6]
    lines += kops
    diffs = C.correspond(kvh, lines)
    # the whole composed pipeline model against the real kalign() (the integrity theorems kalignRun_integrity* are about this function)
    diffs += C.pipeline_correspondence(ctx, kvh, [3 * ctx.seed] if ctx.quick else [3 * ctx.seed + 30 * k for k in range(6)])
    ctx.count("unit_ops", len(lines))
    ctx.evaluations += len(lines)
    for op in lines[:3]:
        ctx.sample(dict(unit_op=op))
    # 2. system runs: oracle + step replay
    cases = system_cases(ctx, 120 if ctx.quick else 1500, thorough=not ctx.quick)
    sysrun.run_cases(kvh, cases)
    # scale: groups of several thousand members (two sub-families of > 4096 sequences each), uninstrumented build
    from props import c10
    big = []
    for k in range(1 if ctx.quick else 3):
        b = c10.scale_case(ctx.rng)
        b.want_ev = False
        b.fmt = ["fasta", "clu", "msf"][k % 3]
        big.append(b)
    # long families (1005..2500 residues, 3..8 members, one-column and short indels): two and more levels of the task-parallel Hirschberg
    # controller, whose sub-windows inherit boundary states -- uninstrumented build, both APIs
    for k in range(int(os.environ.get("VERIF_C01_LONG", "60" if ctx.quick else "600"))):
        kind = ctx.rng.choice(["protein", "protein", "dna"])
        Lb = ctx.rng.randint(1005, 2500)
        fam = gen.family(ctx.rng, kind, ctx.rng.randint(3, 8), Lb, sub=ctx.rng.choice([0.003, 0.02, 0.1]), indel=ctx.rng.choice([0.0005, 0.002, 0.01]), spice=False)
        b = Case(fam, 5, threads=ctx.rng.choice([1, 4]), fmt=ctx.rng.choice(["fasta", "clu", "msf"]), api=ctx.rng.choice(["file", "arr"]), tag="long family")
        big.append(b)
    # targeted: a group of near-identical long sequences against one member that lacks 1..3 residues right at (or next to) the row where the
    # first Hirschberg split of the group falls -- the sub-windows next to the split then start/end in a gap state
    for k in range(60 if ctx.quick else 600):
        kind = ctx.rng.choice(["protein", "dna"])
        alpha = gen.AA if kind == "protein" else gen.DNA
        n = ctx.rng.randint(1002, 2400)
        a = gen.rand_seq(ctx.rng, alpha, n)
        grp = [("g%d" % j, gen.mutate(ctx.rng, a, alpha, 0.003, 0.0)) for j in range(ctx.rng.randint(2, 3))]
        mid = n // 2
        d0 = mid + ctx.rng.randint(-2, 3)
        dl = ctx.rng.choice([1, 1, 1, 2, 3])
        c_ = gen.mutate(ctx.rng, a, alpha, 0.02, 0.0)
        c_ = c_[:d0] + c_[d0 + dl:]
        recs_ = grp + [("c", c_)]
        ctx.rng.shuffle(recs_)
        big.append(Case(recs_, 5, threads=ctx.rng.choice([1, 4]), fmt="fasta", api=ctx.rng.choice(["file", "arr"]), tag="gap at the split row"))
    sysrun.run_cases(C.build_harness("plain"), big, timeout=1800)
    cases += big
    model_lines, expected, where = [], [], []
    fails = []
    for c in cases:
        ctx.evaluations += 1
        if c.crashed:
            fails.append(("crash or sanitizer report during alignment", c))
            continue
        if c.rc != 0:
            fails.append(("accepted input was rejected: " + str(c.status), c))
            continue
        try:
            rows = sysrun.parse_output(c)
        except Exception as ex:
            fails.append(("output not parseable: %s" % ex, c))
            continue
        why = gen.integrity(c.records, rows, names=(False if c.api == "arr" else None))
        if why:
            fails.append((why, c))
            continue
        ctx.count("fmt_" + (c.fmt if c.api == "file" else "arr"))
        if len(rows) >= 3 and any("-" in r for _, r in rows):
            ctx.nontriv(c.key())
        if c.events is not None:
            check_steps(ctx, c, model_lines, expected, where)
        if len(ctx.samples) < 5 and len(c.records) <= 4 and max(len(s) for _, s in c.records) <= 40:
            ctx.sample(dict(input=c.records, type=c.type, rows=rows))
    # model replay of the recorded merges
    if model_lines:
        rc, out, err = C.run_lines(C.kmodel_path(), model_lines)
        for i, exp in enumerate(expected):
            got = out[i] if i < len(out) else "<none>"
            if got != exp:
                c, e = where[i]
                diffs.append(dict(index=i, op=model_lines[i], impl=exp, model=got, note="step replay of a real merge"))
    # verdicts
    for why, c in fails[:5]:
        ctx.violation("integrity violated: " + why, dict(kind="oracle", case=c.describe(), rows=getattr(c, "rows", None), out=c.outtext))
    if diffs and not fails:
        d = diffs[0]
        ctx.violation("model and implementation disagree on %s (%d disagreements); no input violating integrity found by the search" % (
            d["op"].split()[0], len(diffs)), dict(kind="correspondence", broken="unit/step correspondence of " + d["op"].split()[0],
                                                  first=diffs[:5]), no_input=True)
    if not ok and not fails and not diffs:
        ctx.violation("proof obligations of C01 no longer check", dict(kind="proof", broken=[o for o in ctx.obligations if not o["ok"]],
                                                                        log=getattr(ctx, "build_errors", "")), no_input=True)
    return ctx.finish(LEVEL, CHECKER)


def replay(ctx, path):
    return C.replay_generic(path)
