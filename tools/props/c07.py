"""C07 — the DP kernels return the optimum whenever it is certifiably unique."""
import os, struct
from lib import common as C
from lib import gen, sysrun
from lib.sysrun import Case

LEVEL = "proof"
CHECKER = "lake build KalignModel.Props.C07All && lake env lean KalignModel/Audit/C07.lean"
NEG1 = "bf800000"


def theorems():
    out = []
    for f in ("C07.theorems", "C07Opt.theorems", "C07Prof.theorems", "C07Soft.theorems", "C07SoftProf.theorems", "C07SoftGroups.theorems"):
        p = os.path.join(C.LEAN, "KalignModel", "Props", f)
        if os.path.exists(p):
            out += [l.strip() for l in open(p) if l.strip() and not l.startswith("#")]
    return out


def fbits(x):
    return "%08x" % struct.unpack("<I", struct.pack("<f", x))[0]


def planted_pair(rng, kind, n):
    alpha = gen.AA if kind == "protein" else (gen.RNA if kind == "rna" else gen.DNA)
    a = gen.rand_seq(rng, alpha, n)
    b = list(a)
    # substitutions
    for k in range(len(b)):
        if rng.random() < rng.choice([0.0, 0.05, 0.15]):
            b[k] = rng.choice(alpha)
    b = "".join(b)
    # internal indels, well separated
    nind = rng.choice([0, 0, 1, 1, 2, 3])
    pos = sorted(rng.sample(range(5, max(6, len(b) - 5)), min(nind, max(0, len(b) - 12)))) if len(b) > 14 else []
    off = 0
    for p in pos:
        L = rng.choice([1, 1, 2, 3, 6, 12])
        p += off
        if rng.random() < 0.5:
            b = b[:p] + b[p + L:]
            off -= L
        else:
            b = b[:p] + gen.rand_seq(rng, alpha, L) + b[p:]
            off += L
    # terminal overhangs
    if rng.random() < 0.4:
        k = rng.choice([1, 3, 10, 40])
        b = b[k:] if rng.random() < 0.5 else gen.rand_seq(rng, alpha, k) + b
    if rng.random() < 0.4:
        k = rng.choice([1, 3, 10, 40])
        b = b[:-k] if (rng.random() < 0.5 and len(b) > k + 2) else b + gen.rand_seq(rng, alpha, k)
    if not b:
        b = a[:1]
    return a, b


def pair_cols(ra, rb):
    out = []
    for x, y in zip(ra, rb):
        if x != "-" and y != "-":
            out.append(0)
        elif x == "-" and y != "-":
            out.append(1)
        elif x != "-" and y == "-":
            out.append(2)
    return out


def score_reading(cols, a, b, sub, gpo, gpe, tgpe, lead_close, trail_open):
    """score of a column list under one consistent reading (terminal runs cost L*tgpe plus gpo for the close of a leading / the open of a trailing run when the flag is set)"""
    s, i, j = 0.0, 0, 0
    runs = []
    k = 0
    while k < len(cols):
        if cols[k] == 0:
            s += sub(a[i], b[j]); i += 1; j += 1; k += 1
        else:
            c = cols[k]; L = 0; start = k
            while k < len(cols) and cols[k] == c:
                L += 1
                if c == 1: j += 1
                else: i += 1
                k += 1
            lead, trail = start == 0, k == len(cols)
            if lead and trail: s -= L * tgpe
            elif lead: s -= L * tgpe + (gpo if lead_close else 0)
            elif trail: s -= L * tgpe + (gpo if trail_open else 0)
            else: s -= 2 * gpo + (L - 1) * gpe
    return s


def known_witness(ctx, kvh):
    for kf in ctx.known.get("findings", []):
        if kf.get("property") != "C07" or kf.get("key") != "C07-terminal-gap-split":
            continue
        recs = [tuple(x) for x in kf["witness"]["records"]]
        c = Case(recs, 3, threads=1, fmt="fasta")
        sysrun.run_cases(kvh, [c])
        rows = dict(sysrun.parse_output(c) or [])
        if c.rc == 0 and rows.get(kf["witness"]["short_name"]) == kf["witness"]["observed_row"]:
            ctx.violation(kf["what"], dict(kind="known-witness"), key="C07-terminal-gap-split")
        else:
            ctx.notes.append("known finding C07-terminal-gap-split no longer reproduces: rows=%s" % rows)


def staggered_pair(rng, overrides=False):
    """two single sequences of different length in a staggered overlap (the shorter one runs past the end of the longer one) with a small indel near
    the end of the shared part: the trailing gap is terminal for one row only, and whether the indel is opened depends on how that gap is priced"""
    kind = rng.choice(["dna", "dna", "rna", "protein"])
    alpha = gen.AA if kind == "protein" else (gen.RNA if kind == "rna" else gen.DNA)
    t = rng.choice([3, 4]) if kind == "protein" else (rng.choice([0, 1]) if kind == "dna" else 2)
    core = gen.rand_seq(rng, alpha, rng.randint(12, 60))
    cut = rng.randint(max(1, len(core) - 12), len(core) - 2)
    core2 = core[:cut] + gen.rand_seq(rng, alpha, rng.randint(1, 4)) + core[cut:] if rng.random() < 0.5 else core[:cut] + core[cut + rng.randint(1, 3):]
    a = gen.rand_seq(rng, alpha, rng.randint(10, 60)) + core
    b = core2 + gen.rand_seq(rng, alpha, rng.randint(2, 25))
    if rng.random() < 0.3:
        a, b = b[::-1], a[::-1]
    pens = [-1, -1, -1]
    if overrides:
        scale = 30.0 if t == 2 else (8.0 if t == 4 else 1.0)
        for k in rng.sample(range(3), rng.choice([1, 1, 2, 3])):
            pens[k] = rng.choice([0, 0.5, 1, 2, 3, 5, 8]) * scale if k == 2 else rng.choice([1, 2, 4, 6, 8, 12]) * scale
    return dict(kind=kind, a=a, b=b, t=t, pens=pens, ka=1, kb=1, bt=0 if kind == "protein" else 1, threads=1)


def marginal_dovetail(rng, overrides=False):
    """two groups whose sequences overlap in a SHORT core (2..12 residues) with overhangs on both sides, the right overhang of the shorter one longer than
    half of it: whether the overlap is worth joining is decided by a few score units, among them the terminal gap penalty of the type / of the caller"""
    kind = rng.choice(["dna", "dna", "rna", "protein"])
    alpha = gen.AA if kind == "protein" else (gen.RNA if kind == "rna" else gen.DNA)
    t = rng.choice([3, 4]) if kind == "protein" else (rng.choice([0, 1]) if kind == "dna" else 2)
    core = gen.rand_seq(rng, alpha, rng.randint(2, 12))
    la, lb = rng.randint(6, 40), rng.randint(4, 30)
    a = gen.rand_seq(rng, alpha, la) + core
    b = core + gen.rand_seq(rng, alpha, lb + len(core))
    if rng.random() < 0.3:
        a, b = b[::-1], a[::-1]          # mirror image: the overhang on the left end
    ka, kb = rng.choice([(2, 2), (2, 2), (2, 3), (3, 2), (3, 3), (1, 2), (2, 1)])
    pens = [-1, -1, -1]
    if overrides:
        scale = 30.0 if t == 2 else (8.0 if t == 4 else 1.0)
        for k in rng.sample(range(3), rng.choice([1, 1, 2, 3])):
            pens[k] = rng.choice([0, 0.5, 1, 2, 3, 5, 8]) * scale if k == 2 else rng.choice([1, 2, 4, 6, 8, 12]) * scale
    return dict(kind=kind, a=a, b=b, t=t, pens=pens, ka=ka, kb=kb, bt=0 if kind == "protein" else 1, threads=rng.choice([1, 4]))


def heavy_open_dovetail(rng):
    """dovetail (a = X + core, b = core + Y) whose leading overhang is longer than half of the shorter sequence, so that the leading terminal gap crosses
    the middle row of the first Hirschberg split, under a LARGE gap-open price given by the caller with small extension / terminal prices: the terminal run
    must be priced as terminal in the forward and in the backward pass alike, a difference of (open - terminal) per pass decides the optimum here"""
    t = rng.choice([3, 3, 4])
    scale = 8.0 if t == 4 else 1.0
    Cn = rng.choice([20, 30, 45, 60])
    L = rng.randint(max(Cn + 10, 40), 110)
    core = gen.rand_seq(rng, gen.AA, Cn)
    a = gen.rand_seq(rng, gen.AA, L) + core
    b = core + gen.rand_seq(rng, gen.AA, L + rng.choice([5, 25, 60]))
    if rng.random() < 0.4:
        a, b = b[::-1], a[::-1]          # mirror image: the long run is a trailing one
    if rng.random() < 0.5:
        a, b = b, a
    ka, kb = rng.choice([(1, 1), (1, 1), (1, 1), (2, 1), (1, 2), (2, 2)])
    pens = [rng.choice([30, 60, 100, 150]) * scale, rng.choice([1, 2]) * scale, rng.choice([0.5, 1, 2]) * scale]
    return dict(kind="protein", a=a, b=b, t=t, pens=pens, ka=ka, kb=kb, bt=0, threads=rng.choice([1, 4]))


def model_judge(ctx, kvh, cases, note):
    """the whole run (`kalign_sys`) on the implementation and on the proved model; where the two alignments differ both are scored under exactly the selected
    parameters (harness/ops_ref.c `refsp`, the reading S_T of the reference DP): a returned alignment that scores lower than the model's is a failure with
    the sequences as input, any other difference is a disagreement of the correspondence. Same oracle as the marginal stream of C09."""
    from concurrent.futures import ThreadPoolExecutor as _TPE
    ml, meta = [], []
    for d in cases:
        seqs = [d["a"]] * d["ka"] + [d["b"]] * d["kb"]
        pb = [fbits(float(x)) if x != -1 else "bf800000" for x in d["pens"]]
        ml.append("kalign_sys %d %s %s %s %s" % (d["t"], pb[0], pb[1], pb[2], " ".join(seqs)))
        meta.append((d, seqs, pb))
    chunks = [list(range(i, len(ml), C.NCPU)) for i in range(C.NCPU)]
    with _TPE(C.NCPU) as ex:
        oi = list(ex.map(lambda ix: C.run_lines(kvh, [ml[i] for i in ix], env=C.SAN_ENV, timeout=900)[1] if ix else [], chunks))
        om = list(ex.map(lambda ix: C.run_lines(C.kmodel_path(), [ml[i] for i in ix], timeout=900)[1] if ix else [], chunks))
    impl, mod = {}, {}
    for ix, a_, b_ in zip(chunks, oi, om):
        for k_, i in enumerate(ix):
            impl[i] = a_[k_] if k_ < len(a_) else ""
            mod[i] = b_[k_] if k_ < len(b_) else ""
    fails, diffs = [], []
    for i, (d, seqs, pb) in enumerate(meta):
        ctx.evaluations += 1
        if impl[i] == mod[i]:
            ctx.count(note + "_agree_with_model")
            if "-" in impl[i]:
                ctx.nontriv((d["a"], d["b"], d["t"], tuple(d["pens"]), d["ka"], d["kb"], note))
            continue
        dd = dict(index=i, op=ml[i], impl=impl[i], model=mod[i], note=note)
        ri, rm = impl[i].split(), mod[i].split()
        if not (ri and rm and ri[0] == "rc=0" and rm[0] == "rc=0" and len(ri) == len(rm) == 2 + len(seqs)):
            diffs.append(dd)
            continue
        alph = 23 if d["kind"] == "protein" else 5
        cv = C.run_lines(kvh, ["convert %d %s" % (alph, q) for q in seqs], env=C.SAN_ENV)[1]

        def coderow(row, codes):
            it = iter(codes.split(","))
            return ",".join(next(it) if ch != "-" else "-1" for ch in row)
        sp = []
        for rows in (ri[2:], rm[2:]):
            ln = "refsp %d %d %s %s %s %s" % (d["bt"], d["t"], pb[0], pb[1], pb[2], " ".join(coderow(r_, c_) for r_, c_ in zip(rows, cv)))
            o_ = C.run_lines(kvh, [ln], env=C.SAN_ENV)[1]
            sp.append(float(o_[0][3:]) if o_ and o_[0].startswith("sp=") else None)
        if sp[0] is not None and sp[1] is not None and sp[0] < sp[1] - 1e-3 * (1 + abs(sp[1])):
            fails.append(("type %d, penalties %s: the alignment returned scores %.2f, the optimum computed by the proved model scores %.2f (sum of pairs under the "
                          "selected parameters)" % (d["t"], d["pens"], sp[0], sp[1]),
                          dict(sequences=seqs, type=d["t"], overrides=d["pens"], rows_returned=ri[2:], rows_model=rm[2:], op=ml[i])))
        else:
            diffs.append(dd)
    return fails, diffs


def judge(ctx, kvh, todo):
    """certify each planted case with the reference DP under exactly its type and penalties, run kalign on the certified ones and compare; returns the failures"""
    conv = []
    for d in todo:
        alph = 23 if d["kind"] == "protein" else 5
        conv += ["convert %d %s" % (alph, d["a"]), "convert %d %s" % (alph, d["b"])]
    rc, oc, err = C.run_lines(kvh, conv, env=C.SAN_ENV)
    refs = []
    for k, d in enumerate(todo):
        d["ca"], d["cb"] = oc[2 * k], oc[2 * k + 1]
        pb = [fbits(x) if x != -1 else NEG1 for x in d["pens"]]
        refs.append("refdp %d %d %s %s %s %s %s" % (d["bt"], d["t"], pb[0], pb[1], pb[2], d["ca"], d["cb"]))
    from concurrent.futures import ThreadPoolExecutor
    chunks = [refs[i::C.NCPU] for i in range(C.NCPU)]
    with ThreadPoolExecutor(C.NCPU) as ex:
        outs = list(ex.map(lambda ch: C.run_lines(kvh, ch, env=C.SAN_ENV)[1] if ch else [], chunks))
    ro = [None] * len(refs)
    for ci, ch in enumerate(chunks):
        for k in range(len(ch)):
            ro[ci + k * C.NCPU] = outs[ci][k] if k < len(outs[ci]) else ""
    cases = []
    for d, r in zip(todo, ro):
        ctx.evaluations += 1
        if not r or not r.startswith("cert="):
            ctx.count("ref_failed")
            continue
        kv = dict(x.split("=") for x in r.split())
        scale = 60.0 if d["t"] == 2 else (10.0 if d["t"] == 4 else 1.0)
        margin = scale * (0.5 + 0.002 * (len(d["a"]) + len(d["b"]))) * d["ka"] * d["kb"] / (d["ka"] * d["kb"])
        d["cert"], d["cols"] = float(kv["cert"]), [int(x) for x in kv["cols"].split(",")]
        if d["cert"] <= margin:
            ctx.count("not_certified")
            continue
        recs = [("a%d" % i, d["a"]) for i in range(d["ka"])] + [("b%d" % i, d["b"]) for i in range(d["kb"])]
        # the detected kind must be the intended one, else the parameters are not the ones certified
        c = Case(recs, d["t"], d["pens"][0], d["pens"][1], d["pens"][2], threads=d["threads"], fmt="fasta")
        c.d = d
        cases.append(c)
    sysrun.run_cases(kvh, cases)
    fails = []
    for c in cases:
        d = c.d
        if c.crashed:
            fails.append(("crash", c.describe()))
            continue
        if c.rc != 0:
            ctx.count("rejected_(kind_misdetected)")
            continue
        rows = dict(sysrun.parse_output(c))
        ra = [rows["a%d" % i] for i in range(d["ka"])]
        rb = [rows["b%d" % i] for i in range(d["kb"])]
        if len(set(ra)) != 1 or len(set(rb)) != 1:
            from props import c12
            if not c12.premise_ok(c.records, d["kind"]):
                # one sequence contains the other (guide-tree distance 0 as for a duplicate): the tree need not join the copies first,
                # so the groups of the property are not formed; not a statement about the kernels (see C12's premise)
                ctx.count("copies_not_grouped_(containment)")
                continue
            fails.append(("identical copies received different rows", dict(case=c.describe(), rows=rows)))
            continue
        got = pair_cols(ra[0], rb[0])
        ctx.count("certified_compared")
        ctx.count("len_%s" % ("ge500" if max(len(d["a"]), len(d["b"])) >= 500 else "lt500"))
        ctx.count("groups_%dx%d" % (d["ka"], d["kb"]))
        if min(len(d["a"]), len(d["b"])) >= 500 and d["threads"] > 1:
            ctx.count("parallel_controller_%dx%d" % (min(d["ka"], 2), min(d["kb"], 2)))
        if got != d["cols"]:
            fails.append(("kalign's alignment differs from the certified unique optimum (margin %.2f)" % d["cert"],
                          dict(case=c.describe(), expected_cols=d["cols"], got_cols=got, rows=[ra[0], rb[0]])))
            continue
        if any(x != 0 for x in got):
            ctx.nontriv((d["a"], d["b"], d["t"], tuple(d["pens"]), d["ka"], d["kb"]))
        if len(ctx.samples) < 3 and len(d["a"]) <= 40:
            ctx.sample(dict(a=d["a"], b=d["b"], type=d["t"], pens=d["pens"], copies=(d["ka"], d["kb"]), certified_margin=d["cert"], rows=[ra[0], rb[0]]))
    return fails


def run(ctx):
    ctx.trusted = list(C.TRUSTED_COMMON) + ["A-float: kernels run in binary32; the Lean Float32 model is tied bit-for-bit, theorems about path shape hold for any score carrier",
                                            "independent full-matrix reference DP (harness/ops_ref.c, doubles) as oracle; its *robust* certificate (lo(P) > hi(Q)+margin for all Q != P) "
                                            "is the reading of 'certifiably unique' used here, see DESIGN.md C07"]
    ctx.cov["_rule"] = ("unit: bit-exact correspondence of the 9 kernel functions, controllers (serial/parallel), profiles and do_align on generated rectangles; oracle: planted "
                        "pairs (substitutions, internal indels, overhangs), all types and user penalties, lengths on both sides of 500, groups of 1..3 identical copies per side; only "
                        "pairs whose optimum is certified by the reference DP are compared; non-trivial = distinct certified cases whose optimum contains a gap")
    thms = theorems()
    ok = C.lean_obligations(ctx, "C07", thms, module="C07All") if thms else False
    if not thms:
        ctx.obligations.append(dict(name="Props/C07 theorems", ok=False, why="theorem list missing"))
    kvh = C.build_harness("asan")
    rng = ctx.rng
    ops = C.gen_ops("gen_dp.py", ctx.seed, 500 if ctx.quick else 6000, outfile=os.path.join(C.scratch(), "dp.ops"))
    corpus = [l.strip() for f in sorted(os.listdir(C.CORPUS)) if f.startswith("dp_") for l in open(os.path.join(C.CORPUS, f)) if l.strip()]
    if ctx.quick:
        corpus = corpus[:300] + [l for l in corpus if "fallthrough" in l]
    diffs = C.unit_correspondence(ctx, kvh, corpus + ops, "dp")
    # the C07Soft theorems are about the software binary32: tie it to C `float` here as well (operand pairs) and run the whole pipeline on it
    diffs += C.unit_correspondence(ctx, kvh, C.gen_ops("gen_f32.py", ctx.seed + 300, 12000 if ctx.quick else 200000), "softfloat")
    sl = [l.replace("kalign_sys ", "kalign_sys_soft ", 1) for l in C.gen_ops("gen_pipe.py", 11 * ctx.seed + 5, 1)]
    d3 = C.correspond(kvh, sl[::6] if ctx.quick else sl, chunks=C.NCPU, timeout=3000)
    ctx.count("unit_ops_pipeline_softfloat", len(sl[::6] if ctx.quick else sl))
    diffs += d3
    known_witness(ctx, kvh)
    # oracle
    todo = []
    for i in range(160 if ctx.quick else 1500):
        kind = rng.choice(["dna", "rna", "protein", "protein"])
        n = rng.choice([3, 8, 30, 90, 200] + ([480, 520, 700] if rng.random() < (0.15 if ctx.quick else 0.3) else []))
        a, b = planted_pair(rng, kind, n)
        t = rng.choice([3, 4]) if kind == "protein" else rng.choice([0, 1, 2])
        pens = [-1, -1, -1]
        if rng.random() < 0.3:
            scale = 30.0 if t == 2 else (8.0 if t == 4 else 1.0)
            for k in range(3):
                if rng.random() < 0.6:
                    pens[k] = rng.choice([0.5, 1, 2, 4, 8, 12] + ([0] if k == 2 else [])) * scale
        ka, kb = rng.choice([(1, 1), (1, 1), (2, 1), (1, 3), (2, 2), (3, 3)])
        if rng.random() < 0.35:
            # targeted stream: one sequence against a group, a single internal insertion of 4..12 residues near a Hirschberg
            # midpoint, equal ends (exercises the sequence-profile kernels and the gap-extension/terminal distinction)
            alpha = gen.AA if kind == "protein" else (gen.RNA if kind == "rna" else gen.DNA)
            n = rng.choice([24, 40, 64, 100, 180])
            a = gen.rand_seq(rng, alpha, n)
            pos = n // 2 + rng.randint(-n // 4, n // 4)
            ins = gen.rand_seq(rng, alpha, rng.randint(4, 12))
            b = a[:pos] + ins + a[pos:]
            if rng.random() < 0.5:
                # both sides carry a segment the other lacks (the optimum needs a gap in the longer AND in the shorter sequence) -- with groups of
                # different sizes on the two sides the penalties of each profile must be scaled by the size of the OTHER side
                p2 = rng.randint(3, max(4, n // 4))
                a = a[:p2] + a[p2 + rng.randint(3, 6):]
            if rng.random() < 0.5:
                a, b = b, a
            ka, kb = rng.choice([(1, 2), (2, 1), (1, 3), (3, 1), (2, 3), (3, 2)])
            pens = [-1, -1, -1]
        threads = rng.choice([1, 4])
        if i < (60 if ctx.quick else 300):
            # dedicated stream for the task-parallel controller (>= 500 columns on the shorter side, several threads): every kernel family,
            # in particular group-vs-group merges, whose two halves run as OpenMP tasks that the meetup must wait for
            n = rng.choice([510, 560, 700])
            a, b = planted_pair(rng, kind, n)
            ka, kb = rng.choice([(2, 2), (2, 2), (3, 2), (2, 3), (1, 2), (1, 1)])
            pens = [-1, -1, -1]
            threads = rng.choice([2, 4, 8, 16])
            if i % 3 != 1:
                # two levels of the task-parallel controller (>= 1002 positions on the shorter side) with an indel lying across the middle row
                # of the first split: the boundary states handed to the sub-problems are then gap states
                # (protein only: on 4-letter alphabets a gap can almost always slide by a column, so the optimum is not certifiably unique)
                kind, t = "protein", rng.choice([3, 4])
                alpha = gen.AA
                n = rng.choice([1040, 1200, 1300])
                a = list(gen.rand_seq(rng, alpha, n))
                n = rng.randint(1002, 1500) if rng.random() < 0.5 else n
                L = rng.choice([1, 1, 2, 3, 8, 20, 40])
                pos = (n // 2 + rng.randint(-2, 3)) if L <= 3 else (n // 2 - L // 2 + rng.randint(-3, 3))
                # flanks that make the position of the indel unambiguous
                a[pos - 1], a[pos], a[pos + L - 1], a[pos + L] = "W", "C", "G", "P"
                a = "".join(a)
                core = "".join(ch if (rng.random() > 0.04 or abs(k - pos) < 6 or abs(k - pos - L) < 6) else rng.choice(alpha) for k, ch in enumerate(a))
                b = core[:pos] + core[pos + L:]
                if rng.random() < 0.5:
                    a, b = b, a
                ka, kb = rng.choice([(1, 1), (2, 1), (1, 2), (3, 1), (1, 3), (2, 2)])
                threads = rng.choice([1, 4])
        if i % 8 == 5:
            # dovetails: the two sequences overlap in a core shorter than their overhangs (the optimal path leaves a Hirschberg split row through the
            # last column of a sub-problem), groups on both sides
            kind, t = "protein", rng.choice([3, 3, 4])
            Cn = rng.choice([60, 100, 150, 250])
            core = gen.rand_seq(rng, gen.AA, Cn)
            core2 = "".join(ch if rng.random() > 0.03 else rng.choice(gen.AA) for ch in core)
            a = gen.rand_seq(rng, gen.AA, Cn + rng.choice([10, 30, 60])) + core
            b = core2 + gen.rand_seq(rng, gen.AA, Cn + rng.choice([5, 10, 40]))
            if rng.random() < 0.5:
                a, b = b, a
            ka, kb = rng.choice([(2, 2), (2, 2), (3, 2), (2, 3), (3, 3), (1, 2), (1, 1)])
            pens = [-1, -1, -1]
            threads = rng.choice([1, 4])
            if i % 16 == 5:
                # a short core between long overhangs with the terminal penalty set to exactly 0 by the caller (an explicit 0 is a value like any
                # other): free end gaps make the overlap the optimum, any positive terminal price would not
                Cn = rng.choice([15, 20, 30])
                core = gen.rand_seq(rng, gen.AA, Cn)
                a = gen.rand_seq(rng, "KRE", rng.randint(100, 180)) + core
                b = core + gen.rand_seq(rng, "STG", rng.randint(100, 180))
                if rng.random() < 0.5:
                    a, b = b, a
                pens = [-1, -1, 0.0]
                ka, kb = rng.choice([(1, 1), (2, 1), (1, 2), (2, 2)])
        todo.append(dict(kind=kind, a=a, b=b, t=t, pens=pens, ka=ka, kb=kb, bt=0 if kind == "protein" else 1, threads=threads))
    todo += [marginal_dovetail(rng) for _ in range(60 if ctx.quick else 600)]
    heavy = [heavy_open_dovetail(rng) for _ in range(48 if ctx.quick else 400)]
    todo += heavy
    fails = judge(ctx, kvh, todo)
    # most of these are not robustly certifiable (the slack between the readings of a terminal run is one gap-open, which is large here): they are judged
    # against the proved model instead
    f2, d2 = model_judge(ctx, kvh, heavy, "heavy_open_dovetail")
    fails += f2
    diffs += d2
    for why, rep in fails[:5]:
        ctx.violation(why, dict(kind="oracle", detail=rep))
    C.report_diffs(ctx, diffs, fails, "DP kernels / controllers / profiles")
    if not ok and not fails and not diffs:
        ctx.violation("proof obligations of C07 no longer check", dict(kind="proof", broken=[o for o in ctx.obligations if not o["ok"]],
                                                                        log=getattr(ctx, "build_errors", "")[-3000:]), no_input=True)
    return ctx.finish(LEVEL, CHECKER)


def replay(ctx, path):
    return C.replay_generic(path)
