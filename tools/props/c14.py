"""C14 — letter case and RNA/DNA spelling do not influence the alignment."""
from lib import common as C
from lib import gen, sysrun
from lib.sysrun import Case

LEVEL = "proof"
THEOREMS = ["Kalign.C14_codes_case_invariant", "Kalign.C14_codes_TU", "Kalign.C14_codes_defined", "Kalign.C14_detect_sets_case_closed",
            "Kalign.C14_detect_sets_TU", "Kalign.C14_detect_respell_invariant", "Kalign.C14_convert_respell_invariant"]
CHECKER = "lake build KalignModel.Props.Pipeline && lake env lean KalignModel/Audit/C14.lean"


def mask(rows):
    return ["".join("-" if ch == "-" else "x" for ch in r) for _, r in rows]


def respell(rng, s, nuc):
    out = []
    for ch in s:
        if rng.random() < 0.5:
            ch = ch.swapcase()
        if nuc and ch in "TtUu" and rng.random() < 0.5:
            ch = {"T": "U", "U": "T", "t": "u", "u": "t"}[ch]
        out.append(ch)
    return "".join(out)


def run(ctx):
    ctx.trusted = list(C.TRUSTED_COMMON) + ["that stages after convert_msa_to_internal read residues only through codes and lengths is structural in the model "
                                            "(alignment functions take code lists) and observed on the implementation by the end-to-end oracle"]
    ctx.cov["_rule"] = ("unit: convert_msa_to_internal on random letter strings for the three alphabets; end to end: gap pattern of respelled inputs (random case "
                        "patterns, random T<->U substitutions for nucleotides) vs original, all types, both APIs; non-trivial = distinct pairs whose alignment has a gap "
                        "and whose spelling differs in >= 1 letter")
    ok = C.lean_obligations(ctx, "C14", THEOREMS + C.pipeline_theorems(["kalignRunWith_codes_only", "kalignRun_codes_only", "kalignRunWith_respell", "kalignRunWith_case",
                                                                         "kalignRunExact_case", "kalignRun_case", "kalignRunWith_TU", "kalignRunExact_TU", "kalignRun_TU"]),
                             module="Pipeline")
    kvh = C.build_harness("asan")
    rng = ctx.rng
    lines = []
    for _ in range(600 if ctx.quick else 6000):
        lines.append("convert %d %s" % (rng.choice([5, 13, 23]), gen.rand_seq(rng, gen.LETTERS if hasattr(gen, "LETTERS") else "ABCDEFGHIJKLMNOPQRSTUVWXYZabcdefghijklmnopqrstuvwxyz", rng.randint(1, 60))))
    diffs = C.correspond(kvh, lines)
    ctx.evaluations += len(lines)
    # the whole composed pipeline (kalignRun*_codes_only / _case_invariant / _TU_invariant are about this function)
    diffs += C.pipeline_correspondence(ctx, kvh, [3 * ctx.seed + 2] if ctx.quick else [3 * ctx.seed + 2 + 30 * k for k in range(6)])
    pairs = []
    for i in range(40 if ctx.quick else 400):
        kind = rng.choice(["dna", "rna", "protein"])
        recs = gen.family(rng, kind, rng.randint(2, 10), rng.choice([10, 50, 150, 600 if not ctx.quick else 100]), sub=0.15, indel=0.06)
        nuc = kind != "protein"
        boundary = False
        if nuc and rng.random() < 0.4:
            # IUPAC-rich nucleotides (the class decision must not flip with the spelling)
            recs = [(n, "".join(ch if rng.random() < rng.choice([0.97, 0.93, 0.85]) else rng.choice("RYSWKMBDHVN") for ch in s)) for n, s in recs]
            # such input may be *detected* as protein (IUPAC codes are mostly protein-only letters); T and U are then
            # different amino acids and the T<->U clause of the property does not apply: respell case only
            tot = sum(len(s) for _, s in recs)
            po = sum(1 for _, s in recs for ch in s if ch.upper() in "DEFHIKLMPQRSVWY")
            if po * 10 > tot:
                nuc = False
        if nuc is True and kind != "protein" and rng.random() < 0.25:
            # composition near the DNA/protein decision boundary (about one protein-only IUPAC letter per 8 nucleotides): the class
            # must be the same for both spellings; if kalign calls both protein the T<->U clause does not apply (skipped below)
            L = max(len(s) for _, s in recs)
            recs = [(n, "".join(ch if (k % 9) else rng.choice("RYSWKMDHV") for k, ch in enumerate(s)) if rng.random() < 0.8 else s) for n, s in recs]
            recs = [(n, s.replace("T", "U") if rng.random() < 0.5 else s) for n, s in recs]
            boundary = True
        dupnames = False
        if rng.random() < 0.2 and len(recs) >= 3 and not boundary:
            # records with the SAME name and the same length but different residues (the same accession in two merged files): whatever breaks
            # the tie between them must not look at the spelling
            L0 = min(len(q) for _, q in recs)
            k1, k2 = rng.sample(range(len(recs)), 2)
            recs[k1] = (recs[k1][0], recs[k1][1][:L0])
            recs[k2] = (recs[k1][0], recs[k2][1][:L0])
            if recs[k1][1] == recs[k2][1]:
                continue
            dupnames = True
            ctx.count("duplicate_name_records")
        alt = [(n, respell(rng, s, nuc)) for n, s in recs]
        if alt == recs:
            continue
        t = rng.choice([3, 4, 5]) if kind == "protein" else rng.choice([0, 1, 2, 5])
        t = gen.fit_type(t, kind, recs)
        api = "file" if (boundary or dupnames) else rng.choice(["file", "arr"])      # the detected kind is only observable through the file API
        th = rng.choice([1, 4])
        a = Case(recs, t, threads=th, api=api, fmt="fasta")
        b = Case(alt, t, threads=th, api=api, fmt="fasta")
        if api == "file" and rng.random() < 0.5 and all(s for _, s in recs):
            # the same two spellings presented as CLUSTAL / MSF / gapped FASTA (each reader counts letters on its own)
            import random as _random
            from props import c04
            rows = c04.gap_rows(rng, recs, rng.choice([0.0, 0.05, 0.9, 0.95]))      # up to very sparse rows (20 gaps per residue)

            def relabel(row, s):
                it = iter(s)
                return "".join(ch if not ch.isalpha() else next(it) for ch in row)
            rows_alt = [(n, relabel(r, s2)) for (n, r), (_, s2) in zip(rows, alt)]
            render = rng.choice([c04.render_clustal, c04.render_msf, c04.render_fasta])
            k = rng.getrandbits(30)
            a = Case(recs, t, threads=th, api=api, fmt="fasta", intext=render(_random.Random(k), rows), tag=render.__name__)
            b = Case(alt, t, threads=th, api=api, fmt="fasta", intext=render(_random.Random(k), rows_alt), tag=render.__name__)
            ctx.count("presented_" + render.__name__)
        pairs.append((a, b))
    # dedicated stream: two records with the same name and length that differ in residues, inside a family with low-complexity repeats (so
    # that equally good gap placements exist); the respelling touches exactly the first position where the two differ (case, or T<->U)
    for j in range(160 if ctx.quick else 800):
        kind = rng.choice(["dna", "rna"])
        Tq = "U" if kind == "rna" else "T"
        unit = "".join(rng.choice("ACG" + Tq) for _ in range(rng.choice([1, 2, 3])))
        base = gen.rand_seq(rng, "ACG" + Tq, rng.randint(6, 14)) + unit * rng.randint(3, 7) + gen.rand_seq(rng, "ACG" + Tq, rng.randint(6, 14))
        recs = []
        for k in range(rng.randint(3, 5)):
            q = base
            cut = rng.randrange(len(base))
            q = q[:cut] + q[cut + rng.randint(1, 3):] if rng.random() < 0.7 else q
            recs.append(("s%d" % k, gen.mutate(rng, q, "ACG" + Tq, 0.05, 0.0)))
        x = gen.mutate(rng, base, "ACG" + Tq, 0.08, 0.0)
        y = gen.mutate(rng, base, "ACG" + Tq, 0.08, 0.0)
        if x == y or len(x) != len(y):
            continue
        d = next(k for k in range(len(x)) if x[k] != y[k])
        recs += [("dup", x), ("dup", y)]
        rng.shuffle(recs)
        alt = []
        for n_, q in recs:
            if n_ == "dup" and q == x:
                ch = q[d]
                ch2 = {"T": "U", "U": "T"}.get(ch, ch.lower()) if rng.random() < 0.5 else ch.lower()
                q = q[:d] + ch2 + q[d + 1:]
            alt.append((n_, q))
        t = gen.fit_type(rng.choice([0, 1, 2, 5]), kind, recs)
        th = rng.choice([1, 4])
        pairs.append((Case(recs, t, threads=th, api="file", fmt="fasta", tag="duplicate names"), Case(alt, t, threads=th, api="file", fmt="fasta", tag="duplicate names")))
        ctx.count("duplicate_name_stream")
    # the records split over two or three input files (merged by the reader), IUPAC codes sprinkled in; second spelling: soft-masked (nucleotides in
    # lower case, ambiguity codes in upper case -- or the other way round) in some of the files only: the class of the merged set and the gap pattern
    # must not follow the case
    for j in range(12 if ctx.quick else 120):
        kind = rng.choice(["dna", "rna"])
        recs = gen.family(rng, kind, rng.randint(3, 8), rng.choice([30, 80, 150]), sub=0.12, indel=0.06, spice=False)
        dens = rng.choice([0.0, 0.04, 0.08, 0.12])
        recs = [(n_, "".join(ch if rng.random() >= dens else rng.choice("RYKMSW") for ch in q.upper())) for n_, q in recs if q]
        if len(recs) < 3:
            continue
        k1 = rng.choice([1, 1, 2, max(1, len(recs) // 2)])
        parts = [recs[:k1], recs[k1:]]
        if len(parts[1]) >= 2 and rng.random() < 0.3:
            parts = [parts[0], parts[1][:1], parts[1][1:]]
        style = rng.choice(["soft", "soft", "antisoft", "lower", "random"])

        def spell(q, style=style):
            if style == "soft":
                return "".join(ch.lower() if ch in "ACGTUN" else ch for ch in q)
            if style == "antisoft":
                return "".join(ch if ch in "ACGTUN" else ch.lower() for ch in q)
            if style == "lower":
                return q.lower()
            return "".join(ch.lower() if rng.random() < 0.5 else ch for ch in q)
        which = [rng.random() < 0.7 or f_ == len(parts) - 1 for f_ in range(len(parts))]
        parts_alt = [[(n_, spell(q)) for n_, q in p_] if w_ else p_ for p_, w_ in zip(parts, which)]
        alt = [r_ for p_ in parts_alt for r_ in p_]
        if alt == recs:
            continue
        t = gen.fit_type(rng.choice([0, 1, 2, 5, 5]), kind, recs)
        th = rng.choice([1, 4])
        pairs.append((Case(recs, t, threads=th, api="file", fmt="fasta", infiles=[gen.fasta_text(p_) for p_ in parts], tag="%d files" % len(parts)),
                      Case(alt, t, threads=th, api="file", fmt="fasta", infiles=[gen.fasta_text(p_) for p_ in parts_alt], tag="%d files, %s" % (len(parts), style))))
        ctx.count("multi_file_case_pairs")
    sysrun.run_cases(kvh, [c for p in pairs for c in p])
    fails = []
    for a, b in pairs:
        ctx.evaluations += 2
        if a.crashed or b.crashed:
            fails.append(("crash", dict(a=a.describe(), b=b.describe())))
            continue
        if a.rc != b.rc:
            fails.append(("one spelling accepted, the other rejected (rc %s vs %s)" % (a.status, b.status), dict(a=a.describe(), b=b.describe())))
            continue
        if a.rc != 0:
            ctx.count("both_rejected")
            continue
        if a.api == "file" and a.kv["biotype"] != b.kv["biotype"]:
            fails.append(("detected kind differs between the two spellings (%d vs %d)" % (a.kv["biotype"], b.kv["biotype"]), dict(a=a.describe(), b=b.describe())))
            continue
        if a.api == "file" and a.kv["biotype"] == 0 and any(x.upper().replace("U", "T") != y.upper().replace("U", "T") or
                                                          x.upper() != y.upper() for (_, x), (_, y) in zip(a.records, b.records)):
            # nucleotide-looking input classified as protein, respelled in T/U: if the residues themselves decide for protein (independent
            # re-statement of the decision on the letters alone) T and U are distinct amino acids and the clause does not apply; if the letters
            # decide for nucleotide, kalign's classification is what is wrong and the respelling must still not change the gap pattern
            if gen.detect_kind(a.records) != "dna" or gen.detect_kind(b.records) != "dna":
                ctx.count("skipped_TU_on_protein_classified")
                continue
        ra, rb = sysrun.parse_output(a), sysrun.parse_output(b)
        if mask(ra) != mask(rb):
            fails.append(("gap pattern differs between the two spellings", dict(a=a.describe(), b=b.describe(), rows_a=ra, rows_b=rb)))
            continue
        if [r.replace("-", "") for _, r in rb] != [s for _, s in b.records]:
            fails.append(("respelled letters not preserved in the output", dict(b=b.describe(), rows_b=rb)))
            continue
        if any("-" in r for _, r in ra):
            ctx.nontriv((a.key(), tuple(b.records)))
        if len(ctx.samples) < 3 and len(a.records) <= 3:
            ctx.sample(dict(original=a.records, respelled=b.records, rows=ra))
    for why, rep in fails[:5]:
        ctx.violation(why, dict(kind="oracle", detail=rep))
    if diffs and not fails:
        ctx.violation("model codeOf/convert and convert_msa_to_internal disagree (%d); no respelling changing a gap pattern found" % len(diffs),
                      dict(kind="correspondence", broken="unit correspondence convert", first=diffs[:5]), no_input=True)
    if not ok and not fails and not diffs:
        ctx.violation("proof obligations of C14 no longer check", dict(kind="proof", broken=[o for o in ctx.obligations if not o["ok"]],
                                                                        log=getattr(ctx, "build_errors", "")[-3000:]), no_input=True)
    return ctx.finish(LEVEL, CHECKER)


def replay(ctx, path):
    return C.replay_generic(path)
