"""C02 — same alignment for every thread count and every schedule."""
import os
from lib import common as C
from lib import gen, sysrun
from lib.sysrun import Case

LEVEL = "proof"
THEOREMS = []   # filled when Props/C02.lean is present (see THEOREM_FILE)
CHECKER = "lake build KalignModel.Props.C02 && lake env lean KalignModel/Audit/C02.lean"


def theorems():
    p = os.path.join(C.LEAN, "KalignModel", "Props", "C02.theorems")
    if os.path.exists(p):
        return [l.strip() for l in open(p) if l.strip() and not l.startswith("#")]
    return []


def validate_trace(c):
    """the event log must be a linearisation of the task program:
    merge(c) begins after both children ended; meetup of an aln_mem begins after its forward and backward ended;
    concurrently open merges have disjoint member sets"""
    tasks = None
    nseq = len([1 for _, s in c.records if s])
    for ln in c.events:
        if ln.startswith("TASKS"):
            tasks = [tuple(int(x) for x in t.split(",")) for t in ln.split()[1:]]
    if tasks is None:
        return "no TASKS event"
    done, open_merges = set(range(nseq)), {}
    members = {i: {i} for i in range(nseq)}
    for a, b, cc in sorted(tasks, key=lambda t: t[2]):
        members[cc] = members.get(a, set()) | members.get(b, set())
    fstate = {}
    nmerge = 0
    for ln in c.events:
        t = ln.split()
        if not t:
            continue
        if t[0] == "MB":
            a, b = int(t[3]), int(t[4])
            task = int(t[2])
            cid = [x for x in tasks if x[0] == a and x[1] == b]
            if not cid:
                return "merge of (%d,%d) is not a task" % (a, b)
            cid = cid[0][2]
            if a not in done or b not in done:
                return "merge of node %d started before its children %d,%d were complete" % (cid, a, b)
            for other, mem in open_merges.items():
                if mem & members[cid]:
                    return "merges of nodes %d and %d overlap in time and share sequences" % (other, cid)
            open_merges[cid] = members[cid]
        elif t[0] == "ME":
            a, b = int(t[3]), int(t[4])
            cid = [x for x in tasks if x[0] == a and x[1] == b][0][2]
            open_merges.pop(cid, None)
            done.add(cid)
            nmerge += 1
        elif t[0] in ("FB", "BB"):
            st = fstate.setdefault(t[2], {"F": 0, "B": 0})
            st["F" if t[0] == "FB" else "B"] = 1     # running
        elif t[0] in ("FE", "BE"):
            st = fstate.setdefault(t[2], {"F": 0, "B": 0})
            st["F" if t[0] == "FE" else "B"] = 2     # finished
        elif t[0] == "UB":
            st = fstate.get(t[2], {"F": 0, "B": 0})
            if st["F"] != 2 or st["B"] != 2:
                return "meetup started before forward and backward were both finished (state %s)" % st
        elif t[0] == "UE":
            fstate[t[2]] = {"F": 0, "B": 0}
    if nmerge != len(tasks):
        return "%d merges logged for %d tasks" % (nmerge, len(tasks))
    return None


def inputs(ctx, n, thorough):
    rng = ctx.rng
    out = []
    for i in range(n):
        r = (i % 4 + rng.random()) / 4.0      # the four regions in turn, so that a short run covers each of them
        kind = rng.choice(["dna", "protein", "rna"])
        if r < 0.25:       # k-means region
            nseq, length = rng.choice([100, 101, 128, 160] + ([300] if thorough else [])), rng.choice([25, 60, 120])
        elif r < 0.5:      # parallel Hirschberg region (>= 500 columns)
            nseq, length = rng.randint(2, 8), rng.choice([520, 700, 1100] + ([2500] if thorough else []))
        elif r < 0.75:     # deep trees, many tree-parallel merges
            nseq, length = rng.randint(20, 90), rng.choice([15, 40, 90])
        else:
            nseq, length = rng.randint(2, 12), rng.choice([1, 5, 50, 200])
        recs = gen.family(rng, kind, nseq, length, sub=rng.choice([0.05, 0.2]), indel=rng.choice([0.02, 0.08]))
        if rng.random() < 0.3:
            recs = [(n_, s[:max(1, len(s) - 2 * k)]) for k, (n_, s) in enumerate(recs)]   # caterpillar
        t = rng.choice([3, 4, 5]) if kind == "protein" else rng.choice([0, 1, 2, 5])
        t = gen.fit_type(t, kind, recs)
        out.append((recs, t))
    return out


def run(ctx):
    ctx.trusted = list(C.TRUSTED_COMMON) + ["A-omp: OpenMP runtime, compiler and memory model implement task/taskwait/barrier semantics; atoms are functions of their declared "
                                            "footprints (validated dynamically: trace validation, disjoint member sets, optional TSan pass)"]
    ctx.cov["_rule"] = ("inputs covering the four parallel regions (>=100 sequences, >=500 columns, deep trees, distance matrix); each run with n_threads in {1..64}, "
                        "seeded schedule jitter at the hook points, repeated, and in the build without OpenMP; non-trivial = distinct (input, threads, jitter) runs whose "
                        "alignment has a gap and whose event log shows >= 2 worker threads")
    thms = theorems()
    ok = C.lean_obligations(ctx, "C02", thms) if thms else False
    if not thms:
        ctx.obligations.append(dict(name="Props/C02 theorems", ok=False, why="theorem list missing"))
    kvh = C.build_harness("asan")
    kvp = C.build_harness("plain")
    kvn = C.build_harness("noomp")
    rng = ctx.rng
    ins = inputs(ctx, 10 if ctx.quick else 60, not ctx.quick)
    # a large set of related fragments of differing lengths: many sequences near a k-means boundary, so that a perturbed
    # anchor distance changes the guide tree (distance matrix + bisecting k-means regions under real contention)
    for rep in range(1 if ctx.quick else 4):
        fam = gen.family(rng, "protein", 40, 160, sub=0.25, indel=0.05, spice=False)
        frags = []
        for k in range(1200 if ctx.quick else 1500):
            _, s = fam[rng.randrange(len(fam))]
            L = rng.randint(40, 120)
            a = rng.randint(0, max(0, len(s) - L))
            frags.append(("f%d" % k, s[a:a + L] if len(s) >= L else s))
        ins.append((frags, 5))
    fails = []
    for recs, t in ins:
        ref = Case(recs, t, threads=1, fmt="fasta")
        sysrun.run_cases(kvn, [ref])            # serial elision: build without OpenMP
        ctx.evaluations += 1
        if ref.crashed or ref.rc != 0:
            fails.append(("reference run (no OpenMP) failed: %s" % ref.status, ref.describe()))
            continue
        variants = []
        ths = [1, 2, 3, 4, 7, 8, 16, 33, 64] if not ctx.quick else [1, 2, 5, 16, 64]
        big = len(recs) >= 1000
        if big:
            # few threads as well: a quantity derived from the team size (work per thread, leaf size, chunk) differs most between 1 and 2 threads
            ths = [1, 2, 8, 16, 64] if ctx.quick else [1, 2, 3, 4, 8, 16, 32, 64]
        for th in ths:
            if big:
                for rep in range(1 if th <= 3 else (2 if ctx.quick else 4)):
                    variants.append((kvp, Case(recs, t, threads=th, fmt="fasta", evlog=False, jitter=0, tag="threads=%d repeat %d (large fragment set)" % (th, rep))))
                continue
            variants.append((kvh if rng.random() < 0.5 else kvp, Case(recs, t, threads=th, fmt="fasta", evlog=True, jitter=0, tag="threads=%d" % th)))
            variants.append((kvp, Case(recs, t, threads=th, fmt="fasta", evlog=True, jitter=rng.randint(1, 10 ** 6), tag="threads=%d jitter" % th)))
        if not ctx.quick:
            for rep in range(4):
                variants.append((kvp, Case(recs, t, threads=rng.choice([4, 16, 40]), fmt="fasta", evlog=True, jitter=rng.randint(1, 10 ** 6), tag="repeat")))
        for exe in (kvh, kvp):
            cs = [c for e, c in variants if e is exe]
            # each case alone in its process group would serialise everything; a few in parallel also oversubscribes the cores
            sysrun.run_cases(exe, cs, par=(2 if big else 4))
        for exe, c in variants:
            ctx.evaluations += 1
            if c.crashed or c.rc != 0:
                fails.append(("run failed or crashed with %s: %s" % (c.tag, c.status), c.describe()))
                continue
            if c.outtext != ref.outtext:
                fails.append(("alignment with %s differs from the serial (no-OpenMP) alignment" % c.tag, dict(case=c.describe(), serial=ref.outtext, got=c.outtext)))
                continue
            if c.events is None:
                ctx.count("region_large_fragment_set")
                if "-" in c.outtext:
                    ctx.nontriv((c.key(), c.threads, c.tag))
                continue
            why = validate_trace(c)
            ctx.count("traces_validated")
            if why:
                fails.append(("event log is not a linearisation of the task program: " + why, dict(case=c.describe(), log=c.events[:4000])))
                continue
            tids = set(l.split()[1] for l in c.events if l[:2] in ("MB", "FB", "BB"))
            if len(tids) >= 2 and "-" in c.outtext:
                ctx.nontriv((c.key(), c.threads, c.jitter))
            ctx.count("region_kmeans" if len(recs) >= 100 else ("region_hirschberg_parallel" if max(len(s) for _, s in recs) >= 500 else "region_tree"))
        if len(ctx.samples) < 3:
            ctx.sample(dict(nseq=len(recs), maxlen=max(len(s) for _, s in recs), type=t, threads_tried=ths))
    # the two Hirschberg halves of one step only run at the same time when the runtime allows a second level of parallelism
    # (OMP_MAX_ACTIVE_LEVELS=2; with the default of one level the inner region is executed by one thread): few long sequences whose lengths sit on
    # the sizes the DP work space grows to (256 * 1.5^k: 384, 576, 864, 1296) and just off them, repeated, against the serial build
    nest_env = dict(C.SAN_ENV)
    nest_env.update({"OMP_MAX_ACTIVE_LEVELS": "2", "OMP_NESTED": "true"})
    for j in range(3 if ctx.quick else 16):
        kind = rng.choice(["protein", "dna"])
        alpha_ = gen.AA if kind == "protein" else gen.DNA
        Lg = rng.choice([576, 576, 864, 1296, 575, 577, 600])
        base = gen.rand_seq(rng, alpha_, Lg)
        recs = [("n0", base)]
        for k in range(rng.randint(2, 4)):
            q = gen.mutate(rng, base, alpha_, 0.15, 0.03)
            recs.append(("n%d" % (k + 1), q[:rng.randint(505, min(len(q), Lg - 1))]))
        rng.shuffle(recs)
        t = gen.fit_type(5, kind, recs)
        ref = Case(recs, t, threads=1, fmt="fasta")
        sysrun.run_cases(kvn, [ref])
        if ref.crashed or ref.rc != 0:
            fails.append(("reference run (no OpenMP) failed: %s" % ref.status, ref.describe()))
            continue
        vs = [Case(recs, t, threads=th, fmt="fasta", evlog=True, jitter=rng.choice([0, rng.randint(1, 10 ** 6)]), tag="threads=%d, two active levels, repeat %d" % (th, r_))
              for th in (2, 4, 16) for r_ in range(4 if ctx.quick else 8)]
        sysrun.run_cases(kvp, vs, env=nest_env, par=4)
        for c in vs:
            ctx.evaluations += 1
            if c.crashed or c.rc != 0:
                fails.append(("run failed or crashed with %s: %s" % (c.tag, c.status), dict(case=c.describe(), env="OMP_MAX_ACTIVE_LEVELS=2 OMP_NESTED=true")))
                break
            if c.outtext != ref.outtext:
                fails.append(("alignment with %s differs from the serial (no-OpenMP) alignment" % c.tag,
                              dict(case=c.describe(), env="OMP_MAX_ACTIVE_LEVELS=2 OMP_NESTED=true", serial=ref.outtext, got=c.outtext)))
                break
            why = validate_trace(c) if c.events else None
            if why:
                fails.append(("event log is not a linearisation of the task program: " + why, dict(case=c.describe(), env="OMP_MAX_ACTIVE_LEVELS=2", log=c.events[:4000])))
                break
            ctx.count("nested_level_runs")
            if c.events and "-" in c.outtext:
                ctx.nontriv((c.key(), c.threads, c.tag))
    # supporting footprint validator: ThreadSanitizer (+Archer) build, thorough tier only
    if not ctx.quick and not fails:
        try:
            kvt = C.build_harness("tsan")
            picks = [x for x in ins if 100 <= len(x[0]) < 400][:1] + [x for x in ins if max(len(s) for _, s in x[0]) >= 500][:1] + [x for x in ins if len(x[0]) < 100][:1]
            for recs, t in picks:
                c = Case(recs, t, threads=8, fmt="fasta")
                sysrun.run_cases(kvt, [c], env={"TSAN_OPTIONS": "halt_on_error=0 ignore_noninstrumented_modules=1", "OMP_TOOL_LIBRARIES": "libarcher.so"})
                ctx.count("tsan_runs")
                if "WARNING: ThreadSanitizer: data race" in c.stderr:
                    fails.append(("ThreadSanitizer reports a data race", dict(case=c.describe(), report=c.stderr[-4000:])))
        except C.BuildError as ex:
            ctx.notes.append("tsan build not available: %s" % str(ex)[:200])
    for why, rep in fails[:5]:
        ctx.violation(why, dict(kind="oracle", detail=rep))
    if not ok and not fails:
        ctx.violation("proof obligations of C02 no longer check (OpenMP skeleton / frame facts regenerated from the source differ from what the theorems need, or a proof broke)",
                      dict(kind="proof", broken=[o for o in ctx.obligations if not o["ok"]], log=getattr(ctx, "build_errors", "")[-3000:]), no_input=True)
    return ctx.finish(LEVEL, CHECKER)


def replay(ctx, path):
    return C.replay_generic(path)
