"""C05 — no memory error, crash or hang on any input; failures are reported as failures."""
import os, re
from concurrent.futures import ThreadPoolExecutor
from lib import common as C
from lib import gen
from props import c04

LEVEL = "proof"
CHECKER = "lake build KalignModel.Props.C05All KalignModel.Props.C05IndexEx && lake env lean KalignModel/Audit/C05.lean"


def theorems():
    out = []
    for f in ("C05.theorems", "C05Pipeline.theorems", "SoftFloat.theorems", "C05PipelineSoft.theorems", "C05PipelineSoftL.theorems",
              "C05PipelineSoftFinal.theorems", "C05PipelineSoft2.theorems", "C05PipelineSoft2Ex.theorems",
              "C05WholeProgram.theorems", "C05WholeProgramEx.theorems"):
        p = os.path.join(C.LEAN, "KalignModel", "Props", f)
        if os.path.exists(p):
            out += [l.strip() for l in open(p) if l.strip() and not l.startswith("#")]
    return out


def base_file(rng):
    kind = rng.choice(["dna", "rna", "protein"])
    recs = gen.family(rng, kind, rng.randint(2, 8), rng.choice([5, 30, 90]), sub=0.15, indel=0.06)
    names = gen.name_pool(rng, len(recs), maxlen=12, charset="abcdefghijklmnopqrstuvwxyzABCDEFGHIJKLMNOPQRSTUVWXYZ0123456789_")
    recs = [(n, s) for n, (_, s) in zip(names, recs)]
    rows = c04.gap_rows(rng, recs, rng.choice([0.0, 0.2]))
    f = rng.choice(["fasta", "clu", "msf"])
    txt = {"fasta": c04.render_fasta, "clu": c04.render_clustal, "msf": c04.render_msf}[f](rng, rows)
    return kind, f, txt.encode()


def mutate(rng, data):
    b = bytearray(data)
    tag = []
    for _ in range(rng.choice([1, 1, 2, 3])):
        m = rng.randrange(16)
        lines = bytes(b).split(b"\n")
        if m == 0 and b:
            b = b[:rng.randrange(len(b))]; tag.append("truncate")
        elif m == 1 and len(lines) > 1:
            k = rng.randrange(len(lines)); lines.insert(k, lines[k]); b = bytearray(b"\n".join(lines)); tag.append("dup-line")
        elif m == 2 and len(lines) > 1:
            del lines[rng.randrange(len(lines))]; b = bytearray(b"\n".join(lines)); tag.append("del-line")
        elif m == 3:
            for _ in range(rng.randint(1, 8)):
                b.insert(rng.randint(0, len(b)), rng.randrange(128, 256))
            tag.append("non-ascii")
        elif m == 4:
            for _ in range(rng.randint(1, 5)):
                b.insert(rng.randint(0, len(b)), rng.choice([0, 1, 7, 9, 11, 12, 13, 27, 127]))
            tag.append("control")
        elif m == 5:
            b = bytearray(rng.choice([b"--\n", b"..-\n", b"*\n", b" \n- -\n"])) + b; tag.append("punct-before-header")
        elif m == 6:
            k = rng.randrange(len(lines)); lines[k] = lines[k] + bytes(rng.choice(b"ACGTXJOUZB*") for _ in range(rng.choice([1, 50, 5000]))); b = bytearray(b"\n".join(lines)); tag.append("long-line")
        elif m == 7:
            nm = bytes(rng.choice(b"abcXYZ_|. ") for _ in range(rng.choice([255, 256, 257, 1000, 100000])))
            b = bytearray(b">" + nm + b"\nACGTACGT\n") + b; tag.append("huge-name")
        elif m == 8:
            b = bytearray(re.sub(rb"[ACGT]", lambda mm: rng.choice([b"X", b"J", b"O", b"U", b"Z", b"B", mm.group(0), mm.group(0), mm.group(0)]), bytes(b))); tag.append("odd-letters")
        elif m == 9:
            b = bytearray(bytes(b).replace(b"Name:", b"Len: 5 Name:", rng.randint(1, 3))); tag.append("len-before-name")
        elif m == 10:
            k = rng.randrange(len(lines)); extra = [b"r%d  ACGTACGT" % i for i in range(rng.choice([3, 600]))]; lines[k:k] = extra; b = bytearray(b"\n".join(lines)); tag.append("many-rows")
        elif m == 11:
            b = bytearray(rng.choice([b"", b"\n", b"\n\n\n", b" ", b">", b">\n", b">a\n", b">a\n>b\n", b">a\nACGT\n", b"A\n>x\nAC\n", b"CLUSTAL W\n", b"MSF:\n//\n", b"!!AA_MULTIPLE_ALIGNMENT\n", b"//\n"])); tag.append("degenerate")
        elif m == 12:
            k = rng.randrange(len(lines)); lines[k] = b">" + lines[k]; b = bytearray(b"\n".join(lines)); tag.append("extra-header")
        elif m == 13:
            b = bytearray(bytes(b).replace(b"\n", b"\r\n")); tag.append("crlf")
        elif m == 14:
            k = rng.randrange(len(lines)); lines[k] = lines[k].replace(b" ", b"\t"); b = bytearray(b"\n".join(lines)); tag.append("tabs")
        else:
            k = rng.randint(0, len(b)); b[k:k] = b">e1\n\n>e2\n"; tag.append("empty-records")
    return bytes(b), "+".join(tag)


def check_output(txt, fmt):
    # block formats: a name containing blanks (possible: FASTA headers are taken whole) cannot be told from the residues by the independent
    # parser -- such outputs are not judged here (the name may come from ANY of the input files, so the mutation tags do not tell)
    if fmt.startswith("msf"):
        for m in re.finditer(r"^ Name: (.*?)\s+Len:\s+\d+\s+Check:", txt, re.M):
            if re.search(r"\s", m.group(1).strip()) or not m.group(1).strip():
                return "skip"
    elif fmt.startswith("clu"):
        for ln in txt.splitlines()[1:]:
            if ln.strip() and len(ln.split()) != 2:
                return "skip"
    try:
        if fmt.startswith("fa"):
            rows = gen.parse_fasta(txt)
        elif fmt.startswith("clu"):
            rows, shape, _ = gen.parse_clustal(txt)
            if shape and len(set(n for n, _ in shape[0])) != len(shape[0]):
                return "skip"
        else:
            rows, shape, _ = gen.parse_msf(txt)
            if shape and len(set(n for n, _ in shape[0])) != len(shape[0]):
                return "skip"
    except Exception as ex:
        if not fmt.startswith("fa"):
            return "skip"      # names with blanks / empty names make block formats ambiguous for the independent parser: not judged
        return "output not parseable: %s" % ex
    if len(set(n for n, _ in rows)) != len(rows) and not fmt.startswith("fa"):
        return "skip"          # duplicate names: rows cannot be told apart in a block format
    if len(rows) < 2:
        return "fewer than two rows in a successful output"
    if len(set(len(r) for _, r in rows)) != 1:
        return "rows of different length"
    return None


def run(ctx):
    ctx.trusted = list(C.TRUSTED_COMMON) + ["Lean does not prove memory safety of the C text: it proves fault-freedom of the reader model and totality/in-range facts of the code tables; the "
                                            "sanitizer verdicts (ASan/UBSan/LSan, valgrind in the thorough tier) on the generated inputs carry it to the code",
                                            "heap behaviour of libc/libgomp, stack depth and OOM paths are not modelled"]
    ctx.cov["_rule"] = ("reader model vs real readers on a malformed byte stream (unit); CLI (ASan+UBSan+LSan build) on structure-aware mutations of valid FASTA/Clustal/MSF files "
                        "(truncation, duplicated/deleted lines, non-ASCII and control bytes, punctuation before the first header, huge names/lines, letters outside the alphabet, "
                        "Len: before Name:, >512 rows, degenerate files, CRLF, tabs, empty records) crossed with option strings and unreadable/unwritable paths, 20 s timeout; "
                        "non-trivial = distinct (mutation kinds, option kind, outcome) triples")
    thms = theorems()
    ok = C.lean_obligations(ctx, "C05", thms, module="C05All") if thms else False
    # the index-safety theorems live in their own module (their checked twins reuse names of the SoftF32 pipeline: the two cannot be imported together)
    pi_ = os.path.join(C.LEAN, "KalignModel", "Props", "C05Index.theorems")
    if os.path.exists(pi_):
        ok = C.lean_obligations(ctx, "C05Index", [l.strip() for l in open(pi_) if l.strip() and not l.startswith("#")], module="C05IndexEx") and ok
    if not thms:
        ctx.obligations.append(dict(name="Props/C05 theorems", ok=False, why="theorem list missing"))
    kvh = C.build_harness("asan")
    cli = C.build_cli("asan")
    rng = ctx.rng
    diffs = C.unit_correspondence(ctx, kvh, C.gen_ops("gen_io.py", ctx.seed + 500, 1 if ctx.quick else 10, prefixes=("read", "read_as", "detect_format")), "readers(malformed)")
    # whole pipeline with extreme admitted / rejected penalties (0, -0.0, subnormals, 1e6, just above, NaN, +-inf) and the k-means path: the model's
    # explicit fault values (`fault:`) must never appear and the real code must agree under ASan/UBSan
    bp = os.path.join(C.CORPUS, "sliceAD_bounds.ops")
    if os.path.exists(bp):
        # kernels on full and edge rectangles (mid = 0 / len_a, profile column len+1): the accesses C05_kernel_indices_in_range is about, under ASan/UBSan
        diffs += C.unit_correspondence(ctx, kvh, [l.strip() for l in open(bp) if l.strip()], "kernel_bounds")
    xp = os.path.join(C.CORPUS, "sliceV_extreme_params.ops")
    if os.path.exists(xp):
        xl = [l.strip() for l in open(xp) if l.strip()]
        if ctx.quick:
            xl = xl[ctx.seed % 4::4]
        d2 = C.correspond(kvh, xl, chunks=C.NCPU, timeout=1800)
        ctx.count("unit_ops_pipeline_extreme_params", len(xl))
        ctx.evaluations += len(xl)
        diffs += d2
    # the software binary32 the monitor theorems are about: bit-for-bit against C `float` (edge-rich operand pairs), and the whole pipeline with
    # every DP score computed in it against the real kalign()
    fl = C.gen_ops("gen_f32.py", ctx.seed, 20000 if ctx.quick else 300000)
    cf = os.path.join(C.CORPUS, "sliceW_f32.ops")
    if os.path.exists(cf):
        fl += [l.strip() for l in open(cf) if l.strip()][:: (10 if ctx.quick else 1)]
    diffs += C.unit_correspondence(ctx, kvh, fl, "softfloat")
    # kalign_sys_soft: every DP score in SoftF32; kalign_sys_soft2: in addition the < 100-sequence guide tree (distance matrix, UPGMA) in SoftF32 --
    # the model the unconditional theorem kalignRunSoft2_never_faults is about
    sl = [l.replace("kalign_sys ", "kalign_sys_soft " if k % 2 else "kalign_sys_soft2 ", 1) for k, l in enumerate(C.gen_ops("gen_pipe.py", 7 * ctx.seed + 3, 1))]
    if ctx.quick:
        sl = sl[::3]
    ty = os.path.join(C.CORPUS, "sliceY_treesoft.ops")
    if os.path.exists(ty):
        tl = [l.strip() for l in open(ty) if l.strip()]
        diffs += C.unit_correspondence(ctx, kvh, tl[:: (12 if ctx.quick else 1)] + C.gen_ops("gen_bpm.py", ctx.seed, "--soft", "--trees", 6 if ctx.quick else 100, "--matrices", 10 if ctx.quick else 200), "softtree")
    # the whole program on SoftF32 (the model kalignFileSoft2_never_faults is about): files in, file out
    fl2 = C.gen_ops("gen_pipefile.py", 5 * ctx.seed + 1, 1, "kalign_file_soft2")
    sl += fl2[::5] if ctx.quick else fl2
    d3 = C.correspond(kvh, sl, chunks=C.NCPU, timeout=3000)
    ctx.count("unit_ops_pipeline_softfloat", len(sl))
    ctx.evaluations += len(sl)
    diffs += d3
    sc = C.scratch()
    jobs = []
    N = 400 if ctx.quick else 6000
    for i in range(N):
        kind, f, data = base_file(rng)
        if rng.random() < 0.85:
            data, tag = mutate(rng, data)
        else:
            tag = "valid"
        inp = os.path.join(sc, "c05_%d.in" % i)
        open(inp, "wb").write(data)
        out = os.path.join(sc, "c05_%d.out" % i)
        fmt = rng.choice(["fasta", "msf", "clu"])
        args = ["-i", inp, "-o", out, "-f", fmt, "-n", str(rng.choice([1, 2, 8]))]
        otag = "plain"
        r = rng.random()
        if r < 0.15:
            args += ["--type", rng.choice(["dna", "rna", "internal", "protein", "divergent"])]; otag = "type"
        elif r < 0.22:
            args += ["--type", rng.choice(["", "x", "DNA", "prot", "rn a", "é"])]; otag = "bad-type"
        elif r < 0.3:
            args += [rng.choice(["--gpo", "--gpe", "--tgpe"]), rng.choice(["0", "5", "-3", "1e30", "1e39", "nan", "inf", "abc", ""])]; otag = "penalty"
        elif r < 0.34:
            args[args.index("-n") + 1] = rng.choice(["0", "-1", "1000", "x"]); otag = "threads"
        elif r < 0.38:
            args[args.index("-f") + 1] = rng.choice(["", "xyz", "fastaa", "MSF", "clustal"]); otag = "format"
            fmt = None
        elif r < 0.41:
            args[args.index("-i") + 1] = rng.choice(["/nonexistent/file.fa", sc, "/dev/null"]); otag = "bad-input-path"
        elif r < 0.45:
            args[args.index("-o") + 1] = rng.choice(["/nonexistent/dir/out.fa", sc, "/proc/version"]); otag = "bad-output-path"
        elif r < 0.5:
            inp2 = os.path.join(sc, "c05_%d.in2" % i)
            open(inp2, "wb").write(mutate(rng, base_file(rng)[2])[0])
            args += [inp2]; otag = "two-files"
        elif r < 0.56:
            # output file names up to the 255-byte limit of a file name (the MSF title line carries the base name)
            stem = "c05_%d_" % i
            out = os.path.join(sc, stem + "o" * (rng.choice([150, 185, 190, 200, 215, 230, 250]) - len(stem) - 4) + ".out")
            args[args.index("-o") + 1] = out; otag = "long-output-name"
        jobs.append(dict(i=i, args=args, tag=tag, otag=otag, fmt=fmt, out=out, inp=inp))
    # huge user penalties (at and beyond FLT_MAX) on inputs in which a terminal gap cannot be avoided (a sequence of a single residue next to longer
    # ones): each of the three penalties must either be rejected with a message or lead to a valid alignment
    for k, (opt, val) in enumerate([(o, v) for o in ("--gpo", "--gpe", "--tgpe") for v in (["1e39", "inf", "3e38"] if ctx.quick else ["1e39", "inf", "3e38", "1e38", "3.4e38", "1e31", "999999", "1000001"])]):
        i = N + 200 + k
        kind_ = ["protein", "dna"][k % 2]
        recs = gen.family(rng, kind_, rng.randint(2, 4), rng.choice([12, 40]), spice=False)
        recs.insert(rng.randint(0, len(recs)), ("one", rng.choice("ACGT") if kind_ == "dna" else rng.choice("LKE")))
        inp = os.path.join(sc, "c05_%d.in" % i)
        open(inp, "w").write(gen.fasta_text(recs))
        out = os.path.join(sc, "c05_%d.out" % i)
        jobs.append(dict(i=i, args=["-i", inp, "-o", out, "-f", "fasta", "-n", str(rng.choice([1, 4])), opt, val], tag="single-residue+huge-penalty", otag="penalty", fmt="fasta", out=out, inp=inp))
    # capacity boundaries of the sequence array (grown in steps of 512) and of the writers' line table (grown in steps of 1024 lines):
    # record counts around 512/1024 in the first of several files, and outputs whose line count lands exactly on a table boundary
    for k, nrec in enumerate([511, 512, 513, 1024] if ctx.quick else [510, 511, 512, 513, 1023, 1024, 1025, 1536, 2048]):
        i = N + k
        recs = [("r%d" % x, gen.rand_seq(rng, "ACGT", rng.randint(4, 9))) for x in range(nrec)]
        inp = os.path.join(sc, "c05_%d.in" % i)
        open(inp, "w").write(gen.fasta_text(recs))
        inp2 = os.path.join(sc, "c05_%d.in2" % i)
        open(inp2, "w").write(gen.fasta_text([("x%d" % x, gen.rand_seq(rng, "ACGT", 6)) for x in range(rng.choice([1, 3]))]))
        out = os.path.join(sc, "c05_%d.out" % i)
        fmt = ["fasta", "msf", "clu"][k % 3]
        jobs.append(dict(i=i, args=["-i", inp, "-o", out, "-f", fmt, "-n", "2", inp2], tag="capacity-%d" % nrec, otag="two-files", fmt=fmt, out=out, inp=inp))
    # ... and a LATER file that is larger than one growth step of the table (3 + 1100, 600 + 1000, 513 + 600 records)
    for k, (n1, n2) in enumerate([(3, 1100), (600, 1000)] if ctx.quick else [(3, 1022), (3, 1100), (600, 1000), (513, 600), (1, 2100), (1024, 1025)]):
        i = N + 30 + k
        inp = os.path.join(sc, "c05_%d.in" % i)
        open(inp, "w").write(gen.fasta_text([("r%d" % x, gen.rand_seq(rng, "ACGT", rng.randint(4, 9))) for x in range(n1)]))
        inp2 = os.path.join(sc, "c05_%d.in2" % i)
        open(inp2, "w").write(gen.fasta_text([("x%d" % x, gen.rand_seq(rng, "ACGT", rng.randint(4, 9))) for x in range(n2)]))
        out = os.path.join(sc, "c05_%d.out" % i)
        jobs.append(dict(i=i, args=["-i", inp, "-o", out, "-f", "fasta", "-n", "2", inp2], tag="capacity-%d+%d" % (n1, n2), otag="two-files", fmt="fasta", out=out, inp=inp))
    for k, (nrec, L) in enumerate([(1017, 8), (1015, 8), (3, 30500 if not ctx.quick else 0), (2, 30700), (339, 150), (203, 280)]):
        if L == 0:
            continue
        i = N + 50 + k
        base = gen.rand_seq(rng, "ACDEFGHIKLMNPQRSTVWY", L)
        recs = [("w%d" % x, base if L > 1000 else gen.mutate(rng, base, "ACDEFGHIKLMNPQRSTVWY", 0.05, 0.0)) for x in range(nrec)]
        inp = os.path.join(sc, "c05_%d.in" % i)
        open(inp, "w").write(gen.fasta_text(recs))
        for fmt in ("msf", "clu"):
            out = os.path.join(sc, "c05_%d_%s.out" % (i, fmt))
            jobs.append(dict(i=i, args=["-i", inp, "-o", out, "-f", fmt, "-n", "4"], tag="line-table-%dx%d" % (nrec, L), otag="plain", fmt=fmt, out=out, inp=inp))

    # two sequences whose lengths ADD UP to the sizes the alignment-path buffer is grown to (256 * 1.5^k: 256, 384, 576, 864, 1296) and their
    # neighbours: the path of a merge has up to len_a + len_b columns plus its length field and its terminator
    sums = [255, 256, 383, 384, 575, 576, 863, 864] if ctx.quick else [254, 255, 256, 257, 382, 383, 384, 385, 574, 575, 576, 577, 862, 863, 864, 865, 1294, 1295, 1296, 1943, 1944]
    for k, tot in enumerate(sums):
        i = N + 400 + k
        kind = rng.choice(["dna", "protein"])
        alpha_ = gen.DNA if kind == "dna" else gen.AA
        la = rng.randint(max(1, tot // 4), tot - max(1, tot // 4))
        a_ = gen.rand_seq(rng, alpha_, la)
        b_ = gen.rand_seq(rng, alpha_, tot - la) if rng.random() < 0.5 else gen.mutate(rng, a_, alpha_, 0.2, 0.0)[:tot - la].ljust(tot - la, alpha_[0])
        inp = os.path.join(sc, "c05_%d.in" % i)
        open(inp, "w").write(gen.fasta_text([("p", a_), ("q", b_)]))
        out = os.path.join(sc, "c05_%d.out" % i)
        jobs.append(dict(i=i, args=["-i", inp, "-o", out, "-f", "fasta", "-n", str(rng.choice([1, 4]))], tag="path-capacity-%d" % tot, otag="plain", fmt="fasta", out=out, inp=inp))

    def one(j):
        env = dict(C.SAN_ENV_LEAK, LSAN_OPTIONS=C.SAN_ENV_LEAK["LSAN_OPTIONS"] + ":exitcode=0")
        p = C.sh([cli] + j["args"] + ["-q"], timeout=20, env=env)
        if p.returncode == -999:
            # not finished within 20 s: on a loaded machine that is not yet a hang -- repeat alone with a generous limit before saying so
            p = C.sh([cli] + j["args"] + ["-q"], timeout=300, env=env)
            j["slow"] = True
        j["rc"] = p.returncode
        j["err"] = p.stderr.decode(errors="replace")[-4000:]
        j["so"] = p.stdout.decode(errors="replace")[-2000:]
        j["outtxt"] = None
        o = j["args"][j["args"].index("-o") + 1]
        if os.path.isfile(o) and o.startswith(sc):
            j["outtxt"] = open(o, errors="replace").read()
            os.remove(o)
        return j

    with ThreadPoolExecutor(C.NCPU) as ex:
        jobs = list(ex.map(one, jobs))
    fails = []
    for j in jobs:
        ctx.evaluations += 1
        why = None
        if j["rc"] == -999:
            why = "hang: no termination within 20 s, nor within 300 s when repeated alone"
        elif "ERROR: AddressSanitizer" in j["err"] or "runtime error:" in j["err"] or "AddressSanitizer:DEADLYSIGNAL" in j["err"]:
            why = "memory error / undefined behaviour reported by the sanitizer"
        elif j["rc"] < 0:
            why = "killed by signal %d" % (-j["rc"])
        elif j["rc"] == 0:
            if "LeakSanitizer" in j["err"]:
                why = "memory leaked on a successful run"
            elif j["outtxt"] is None:
                why = "exit status 0 but no alignment written" if j["otag"] not in ("bad-output-path",) else None
                if j["otag"] == "bad-output-path" and j["outtxt"] is None:
                    why = "exit status 0 although the output could not be written"
            elif j["fmt"]:
                bad = check_output(j["outtxt"], j["fmt"])
                if bad and not j["fmt"].startswith("fa") and any(t in j["tag"] for t in ("huge-name", "extra-header", "control", "non-ascii", "tabs", "crlf")):
                    bad = "skip"     # names may contain blanks or odd bytes: block formats are not judged by the independent parser
                if bad == "skip":
                    ctx.count("block_output_not_judged")
                    bad = None
                if bad:
                    why = "exit status 0 with an invalid alignment: " + bad
        else:
            if not (j["err"].strip() or j["so"].strip()):
                why = "failure status without any message"
        outcome = "ok" if j["rc"] == 0 else ("fail" if j["rc"] > 0 else "signal")
        ctx.count("outcome_" + outcome)
        ctx.count("opt_" + j["otag"])
        for t in j["tag"].split("+"):
            ctx.count("mut_" + t)
        ctx.nontriv((j["tag"], j["otag"], outcome))
        if why:
            fails.append((why + " [%s / %s]" % (j["tag"], j["otag"]), dict(args=j["args"], input_hex=open(j["inp"], "rb").read()[:200000].hex(),
                                                                          more_inputs_hex={a: open(a, "rb").read()[:200000].hex() for a in j["args"] if a != j["inp"] and a.startswith(sc) and os.path.isfile(a) and a != j.get("out")},
                                                                          output=(j.get("outtxt") or "")[:20000], rc=j["rc"], stderr=j["err"][-2500:])))
        if len(ctx.samples) < 4 and j["tag"] != "valid":
            ctx.sample(dict(mutation=j["tag"], options=j["otag"], rc=j["rc"], input_head=open(j["inp"], "rb").read()[:120].decode(errors="replace")))
    # thorough: valgrind memcheck on a subset (uninitialised reads are invisible to ASan)
    if not fails:
        cliv = C.build_cli("plain")
        nv = 14 if ctx.quick else 60
        gen_ = [j for j in jobs if not j["tag"].startswith(("capacity-", "line-table-"))]       # the special streams must not crowd out the generic pool
        sub = [j for j in gen_ if j["rc"] == 0][:nv] + [j for j in gen_ if j["rc"] > 0 and j["otag"] not in ("bad-input-path",)][:nv // 2]
        # sequences of 1024+ residues (growth steps of the per-sequence buffers: 512, 1024, 1536, ...) are always among the memcheck runs, in all
        # three input formats
        for kv_, L_ in enumerate([1024, 1030, 1536, 2100] if ctx.quick else [1023, 1024, 1025, 1535, 1536, 1537, 2048, 2100, 4096]):
            inp_ = os.path.join(sc, "c05_vg_%d.in" % kv_)
            recs_ = [("v%d" % x, gen.rand_seq(rng, "ACGT", L_ if x == 0 else rng.randint(40, 90))) for x in range(3)]
            rows_ = c04.gap_rows(rng, recs_, 0.01)
            txt_ = [gen.fasta_text(recs_), c04.render_fasta(rng, rows_), c04.render_clustal(rng, rows_), c04.render_msf(rng, rows_)][kv_ % 4]
            open(inp_, "w").write(txt_)
            out_ = os.path.join(sc, "c05_vg_%d.out" % kv_)
            sub.append(dict(i=10 ** 6 + kv_, args=["-i", inp_, "-o", out_, "-f", ["fasta", "msf", "clu"][kv_ % 3], "-n", "1"], tag="long-sequence-%d" % L_, otag="plain",
                            fmt=None, out=out_, inp=inp_, rc=0))

        def vg(j):
            p = C.sh(["valgrind", "-q", "--error-exitcode=77", "--track-origins=no", cliv] + j["args"] + ["-q"], timeout=600, env={"OMP_NUM_THREADS": "1"})
            return j, p.returncode, p.stderr.decode(errors="replace")[-3000:]
        with ThreadPoolExecutor(C.NCPU) as ex:
            for j, rc, err in ex.map(vg, sub):
                ctx.count("valgrind_runs")
                if rc == 77:
                    fails.append(("valgrind memcheck: invalid or uninitialised access [%s]" % j["tag"], dict(args=j["args"], report=err)))
    for why, rep in fails[:6]:
        ctx.violation(why, dict(kind="oracle", detail=rep))
    C.report_diffs(ctx, diffs, fails, "readers on malformed input")
    if not ok and not fails and not diffs:
        ctx.violation("proof obligations of C05 no longer check", dict(kind="proof", broken=[o for o in ctx.obligations if not o["ok"]],
                                                                        log=getattr(ctx, "build_errors", "")[-3000:]), no_input=True)
    return ctx.finish(LEVEL, CHECKER)


def replay(ctx, path):
    return C.replay_generic(path)
