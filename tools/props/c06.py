"""C06 — alignments survive a write/read round trip in every format."""
import os
from lib import common as C
from lib import gen, alngen

LEVEL = "proof"
CHECKER = "lake build KalignModel.Props.PipelineFile && lake env lean KalignModel/Audit/C06.lean"
FMTS = ["fasta", "msf", "clu"]


def theorems():
    p = os.path.join(C.LEAN, "KalignModel", "Props", "C06.theorems")
    return [l.strip() for l in open(p) if l.strip() and not l.startswith("#")] if os.path.exists(p) else []


def parse_dump(line):
    if not line.startswith("rc=0"):
        return None
    parts = line.split(" | ")
    out = []
    for p in parts[1:]:
        nm, res, g = p.split()
        out.append((bytes.fromhex(nm).decode(errors="replace") if nm != "-" else "", "" if res == "." else res, [int(x) for x in g.split(",")]))
    return out


def run(ctx):
    ctx.trusted = list(C.TRUSTED_COMMON) + ["fprintf/getline/snprintf by specification; the output basename is a fixed safe string"]
    ctx.cov["_rule"] = ("random finished alignments (1..120 rows, widths incl. 59/60/61/119/120/121 and multiples of 60, names 1..200 chars from [A-Za-z0-9_.|-] incl. "
                        "prefixes of each other and punctuation-only names, mixed case) written by the real writers in each format and read back by the real readers; "
                        "compared: names, residues, gap vectors, order; non-trivial = distinct (alignment, format) with >= 2 rows and >= 1 gap")
    thms = theorems()
    thms = thms + C.pipefile_theorems(["kalignFile_roundtrip"]) if thms else thms
    ok = C.lean_obligations(ctx, "C06", thms, module="PipelineFile") if thms else False
    if not thms:
        ctx.obligations.append(dict(name="Props/C06 theorems", ok=False, why="theorem list missing"))
    kvh = C.build_harness("asan")
    rng = ctx.rng
    diffs = C.unit_correspondence(ctx, kvh, C.gen_ops("gen_io.py", ctx.seed, 1 if ctx.quick else 8, prefixes=('write_read', 'read')), "write+read")
    diffs += C.pipefile_correspondence(ctx, kvh, [4 * ctx.seed + 1] if ctx.quick else [4 * ctx.seed + 1 + 40 * k for k in range(5)])
    sc = C.scratch()
    alns = [alngen.rand_alignment(rng, not ctx.quick) for _ in range(60 if ctx.quick else 600)] + [alngen.long_row_alignment(rng) for _ in range(6 if ctx.quick else 60)]
    lines, meta = [], []
    for k, (kind, aln) in enumerate(alns):
        for f in FMTS:
            path = os.path.join(sc, "c06_%d.%s" % (k, f))
            if k % 6 == 1:
                # the path of the output file is no part of the alignment: doubled separators, nested and dotted directory names
                sub = os.path.join(sc, "out.d", "run1")
                os.makedirs(sub, exist_ok=True)
                path = [sc + "//c06_%d.%s" % (k, f), sub + "//c06_%d.%s" % (k, f), os.path.join(sc, "out.d//run1", "c06_%d.x.%s" % (k, f))][k % 3]
            lines.append("writealn %s %s %d %s" % (path, f, 1 if kind == "dna" else 0, alngen.aln_args(aln)))
            lines.append("readfile %s" % path)
            meta.append((k, f, path))
    # one process per chunk of lines (pairs must stay together)
    chunks = [lines[i:i + 40] for i in range(0, len(lines), 40)]
    from concurrent.futures import ThreadPoolExecutor
    with ThreadPoolExecutor(C.NCPU) as ex:
        res = list(ex.map(lambda ch: C.run_lines(kvh, ch, env=C.SAN_ENV), chunks))
    outs = []
    crashed = None
    for ch, (rc, o, e) in zip(chunks, res):
        o = [x for x in o]
        if len([x for x in o if x != ""]) < len(ch):
            crashed = (ch[len([x for x in o if x != ""])], e[-3000:])
        outs += (o + [""] * len(ch))[:len(ch)]
    fails = []
    if crashed:
        fails.append(("crash / sanitizer report in writer or reader", dict(op=crashed[0][:2000], stderr=crashed[1])))
    for i, (k, f, path) in enumerate(meta):
        ctx.evaluations += 1
        w, r = outs[2 * i], outs[2 * i + 1]
        kind, aln = alns[k]
        if os.path.exists(path):
            os.remove(path)
        if w != "rc=0":
            if w:
                fails.append(("writer failed (%s) in format %s" % (w, f), dict(alignment=aln)))
            continue
        got = parse_dump(r)
        exp = [(n, row.replace("-", ""), alngen.gaps_of(row)) for n, row in aln]
        if got is None:
            fails.append(("reader rejected a file kalign wrote (%s, %s)" % (f, r[:80]), dict(alignment=aln, fmt=f)))
            continue
        if got != exp:
            which = "row count" if len(got) != len(exp) else next(("row %d: %s" % (j, "name" if g[0] != e[0] else ("residues" if g[1] != e[1] else "gaps"))
                                                                  for j, (g, e) in enumerate(zip(got, exp)) if g != e), "?")
            fails.append(("read(write(A, %s)) differs from A in %s" % (f, which), dict(alignment=aln, fmt=f, read_back=got[:6])))
            continue
        ctx.count("ok_" + f)
        if len(aln) >= 2 and any("-" in r_ for _, r_ in aln):
            ctx.nontriv((tuple(aln), f))
        if len(ctx.samples) < 3 and len(aln) <= 3 and len(aln[0][1]) <= 61:
            ctx.sample(dict(alignment=aln, fmt=f))
    # conversion between the formats through kalign: file in format f1 -> reader -> linearised -> writer in format f2 -> reader; all ordered pairs;
    # incl. alignments with more than 50 rows of which only late rows carry gaps (whatever decides "is this file an alignment?" sees every row)
    cal = [a_ for a_ in alns if 2 <= len(a_[1]) and any("-" in r_ for _, r_ in a_[1])][:(12 if ctx.quick else 120)]
    for j in range(4 if ctx.quick else 30):
        nrow, W_ = rng.choice([51, 52, 60, 75, 110]), rng.choice([30, 60, 61, 130])
        kind_ = rng.choice(["dna", "protein"])
        A_ = []
        for k in range(nrow):
            row = gen.rand_seq(rng, gen.AA if kind_ == "protein" else gen.DNA, W_)
            if k >= 50 + rng.randint(0, nrow - 51):
                g0 = rng.randrange(W_ - 3)
                row = (row[:g0] + "-" * rng.randint(1, 3) + row[g0 + 3:])[:W_].ljust(W_, "-")
            A_.append(("r%03d" % k, row))
        if any("-" in r_ for _, r_ in A_):
            cal.append((kind_, A_))
            ctx.count("conversion_late_gap_alignments")
    cl, cmeta = [], []
    for k, (kind, aln) in enumerate(cal):
        for f1 in FMTS:
            for f2 in FMTS:
                p1, p2 = os.path.join(sc, "c06_cv_%d_%s.%s" % (k, f2, f1)), os.path.join(sc, "c06_cv_%d_%s_out.%s" % (k, f1, f2))
                cl += ["writealn %s %s %d %s" % (p1, f1, 1 if kind == "dna" else 0, alngen.aln_args(aln)), "convert_file %s %s %s" % (p1, p2, f2), "readfile %s" % p2]
                cmeta.append((k, f1, f2, p1, p2))
    cch = [cl[i:i + 45] for i in range(0, len(cl), 45)]
    with ThreadPoolExecutor(C.NCPU) as ex:
        cres = list(ex.map(lambda ch: C.run_lines(kvh, ch, env=C.SAN_ENV, timeout=900), cch))
    cout = []
    for ch, (rc_, o_, e_) in zip(cch, cres):
        cout += (o_ + [""] * len(ch))[:len(ch)]
    for i, (k, f1, f2, p1, p2) in enumerate(cmeta):
        ctx.evaluations += 1
        kind, aln = cal[k]
        for pth in (p1, p2):
            if os.path.exists(pth):
                os.remove(pth)
        w, cv, r = cout[3 * i], cout[3 * i + 1], cout[3 * i + 2]
        if w != "rc=0":
            continue
        exp = [(n, row.replace("-", ""), alngen.gaps_of(row)) for n, row in aln]
        got = parse_dump(r) if cv.startswith("rc=0") else None
        if got != exp:
            fails.append(("converting %s -> %s through kalign loses the alignment (%s)" % (f1, f2, cv[:60] or "crash"), dict(alignment=aln, read_back=(got or [])[:6])))
            continue
        ctx.count("conversion_ok_%s_%s" % (f1, f2))
    # alignments as the pipeline leaves them in memory (rows carry their input position as rank; records without residues were dropped on the
    # way): write in each format through the public API, read back with kalign's reader, compare with the FASTA written by the same object
    from lib import sysrun
    from lib.sysrun import Case
    pl, pmeta = [], []
    for j in range(10 if ctx.quick else 80):
        kind_ = rng.choice(["dna", "protein"])
        recs_ = gen.family(rng, kind_, rng.randint(3, 8), rng.choice([20, 70, 130]), sub=0.15, indel=0.08, spice=False)
        if j % 2 == 0:
            for _ in range(rng.randint(1, 3)):
                recs_.insert(rng.randint(0, len(recs_) - 1), ("empty%d" % len(recs_), ""))
        inp_ = os.path.join(sc, "c06_pipe_%d.fa" % j)
        open(inp_, "w").write(gen.fasta_text(recs_))
        outs_ = {f: os.path.join(sc, "c06_pipe_%d.%s" % (j, f)) for f in FMTS}
        pl += ["h_read 0 %s" % inp_, "h_run 0 5 -1 -1 -1 %d" % rng.choice([1, 4])] + ["h_write 0 %s %s" % (outs_[f], f) for f in FMTS] + ["h_free 0"] + ["readfile %s" % outs_[f] for f in FMTS]
        pmeta.append((recs_, outs_))
    per = 6 + len(FMTS)
    pch = [pl[i:i + per * 4] for i in range(0, len(pl), per * 4)]
    with ThreadPoolExecutor(C.NCPU) as ex:
        pres = list(ex.map(lambda ch: C.run_lines(kvh, ch, env=C.SAN_ENV, timeout=900), pch))
    pout = []
    for ch, (rc_, o_, e_) in zip(pch, pres):
        pout += (o_ + [""] * len(ch))[:len(ch)]
    for j, (recs_, outs_) in enumerate(pmeta):
        ctx.evaluations += 1
        base = j * per
        dumps = {f: parse_dump(pout[base + 3 + len(FMTS) + k]) for k, f in enumerate(FMTS)}
        for pth in outs_.values():
            if os.path.exists(pth):
                os.remove(pth)
        if not pout[base + 1].startswith("rc=0"):
            ctx.count("pipeline_run_rejected")
            continue
        ref = dumps["fasta"]
        want = [(n_, q_) for n_, q_ in recs_ if q_]
        if ref is None or [(n_, q_.upper()) for n_, q_, g_ in ref] != [(n_, q_.upper()) for n_, q_ in want]:
            fails.append(("the FASTA written after a pipeline run does not read back to the input records", dict(records=recs_, read_back=(ref or [])[:6])))
            continue
        for f in ("clu", "msf"):
            got = dumps[f]
            if got is None or [(n_[:len(m_)] if False else n_, q_, g_) for n_, q_, g_ in got] != [(n_, q_, g_) for (n_, q_, g_), m_ in zip(ref, ref)]:
                fails.append(("read(write(A, %s)) differs from read(write(A, fasta)) for the alignment a pipeline run left in memory" % f, dict(records=recs_, fmt=f, fasta=ref[:6], read_back=(got or [])[:6])))
                break
        else:
            ctx.count("pipeline_roundtrip_ok")
    for why, rep in fails[:5]:
        ctx.violation(why, dict(kind="oracle", detail=rep))
    C.report_diffs(ctx, diffs, fails, "write+read")
    if not ok and not fails and not diffs:
        ctx.violation("proof obligations of C06 no longer check", dict(kind="proof", broken=[o for o in ctx.obligations if not o["ok"]],
                                                                        log=getattr(ctx, "build_errors", "")[-3000:]), no_input=True)
    return ctx.finish(LEVEL, CHECKER)


def replay(ctx, path):
    return C.replay_generic(path)
