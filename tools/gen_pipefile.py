#!/usr/bin/env python3
"""gen_pipefile.py <seed> [scale] [opname] : op lines `kalign_file <fmt> <type> <gpoBits> <gpeBits> <tgpeBits> <file1hex> ...` for the
file-to-file correspondence of `kalignFile` (harness/ops_pipefile.c  <->  lean/KalignModel/Model/PipelineFile.lean), to stdout.
Seeded, no other source of randomness.  `scale` (default 1) multiplies the number of ops of every kind.

Inputs: evolved DNA / RNA / protein families of 2..30 sequences (lower case, ambiguity codes, duplicates, empty records), a few
with >= 100 sequences (bisecting k-means path) and a few with >= 500 residues (parallel Hirschberg controller), presented as
FASTA / Clustal / MSF text: unaligned or gapped (random gap glyphs from ispunct), wrapped at various widths, blank lines,
blanks and digits inside the payload, CRLF; the records in one file or split over 2..4 files of mixed formats, with an empty or
unrecognised file among them, a missing file ("!"), files of different kinds (merge_msa refuses), files that fail to parse;
names of 1..200 characters incl. duplicates, prefixes of each other and (FASTA) descriptions with blanks and bytes >= 128;
all output formats (fasta, fa, msf, clu, clustal, none, unknown words); types -1..6 incl. mismatching ones; default and user
penalties; degenerate inputs (one sequence, only empty records, nothing recognised)."""
import os, random, sys
sys.path.insert(0, os.path.dirname(os.path.abspath(__file__)))
import gen_io as IO
import gen_pipe as P

OPNAME = "kalign_file"   # optional third argument, e.g. kalign_file_soft2 (same harness call, model with the run stage on SoftF32)

FMTS_OK = ["fasta", "fa", "msf", "clu", "clustal", "-", "msf", "clu", "fasta"]
FMTS_ODD = ["xyz", "aln", "FASTA", "msfclu", "fastaclu", "af", "x.fa", "CLU", "phylip"]
GLYPHS = ["-", "-", ".", "-.", "~", "*", IO.PUNCT.replace(">", "")]


def hx(b):
    if isinstance(b, str):
        b = b.encode("latin-1")
    return b.hex() if b else "-"


def gapped(rng, seqs, extra=None):
    """rows of one width: every sequence with '-' inserted at random positions"""
    width = max([len(s) for s in seqs] + [1]) + (rng.choice([0, 0, 1, 3, 10]) if extra is None else extra)
    rows = []
    for s in seqs:
        r = list(s)
        k = width - len(r)
        mode = rng.random()
        if mode < 0.3:
            r = r + ["-"] * k
        elif mode < 0.4:
            r = ["-"] * k + r
        else:
            for _ in range(k):
                r.insert(rng.randint(0, len(r)), "-")
        rows.append("".join(r))
    return rows


def fasta_names(rng, names):
    out = []
    for n in names:
        r = rng.random()
        if r < 0.15:
            n = n + " " + rng.choice(["description", "len=12 x", "Homo sapiens", "", " ", "a  b"])
        elif r < 0.2:
            n = n + rng.choice(["\xe9", "\xff\xfe", " \xb5"])
        out.append(n)
    return out


def present(rng, names, seqs, fmt, noise):
    """one file holding these records"""
    if fmt == "fa":
        rows = gapped(rng, seqs) if rng.random() < 0.5 else list(seqs)
        return IO.render_fasta(rng, fasta_names(rng, names), rows, rng.choice(GLYPHS).replace(">", "") or "-", noise,
                               rng.choice(["\n", "\n", "\n", "\r\n"]))
    rows = gapped(rng, seqs)
    glyphs = rng.choice(GLYPHS)
    if fmt == "clu":
        return IO.render_blocks(rng, names, rows, glyphs, IO.clu_header(rng), False, noise)
    return IO.render_blocks(rng, names, rows, glyphs, IO.msf_header(rng, names, len(rows[0])), True, noise)


def block_names(rng, n):
    names = IO.rand_names(rng, n)
    return [x.replace(" ", "_") or "x" for x in names]


def split_files(rng, names, seqs, nfiles, noise):
    """records split over nfiles files of mixed formats"""
    cuts = sorted(rng.sample(range(1, len(seqs)), min(nfiles - 1, len(seqs) - 1))) if len(seqs) > 1 else []
    parts = []
    a = 0
    for c in cuts + [len(seqs)]:
        parts.append((names[a:c], seqs[a:c]))
        a = c
    files = []
    for nm, sq in parts:
        fmt = rng.choice(["fa", "fa", "clu", "msf"])
        if fmt != "fa" and any(len(s) == 0 for s in sq) and rng.random() < 0.5:
            fmt = "fa"
        files.append(present(rng, nm, sq, fmt, noise))
    return files


def op(rng, kind, files, fmt=None, typ=None, pen=None):
    fmt = (rng.choice(FMTS_OK) if rng.random() < 0.93 else rng.choice(FMTS_ODD)) if fmt is None else fmt
    typ = P.pick_type(rng, kind) if typ is None else typ
    if typ < -100 or typ > 100:
        typ = -1
    pen = P.penalties(rng) if pen is None else pen
    return OPNAME + " %s %d %s %s" % (fmt, typ, " ".join(pen), " ".join("!" if f is None else hx(f) for f in files))


def gen(seed, scale=1):
    rng = random.Random(seed * 7919 + 23)
    ops = []
    kinds = ["dna", "rna", "protein"]
    # routine families, one file
    for _ in range(45 * scale):
        kind = rng.choice(kinds)
        n = rng.choice([2, 2, 3, 3, 4, 5, 6, 8, 10, 12, 15, 20, 25, 30])
        length = rng.choice([1, 2, 3, 5, 8, 12, 20, 30, 45, 60, 61, 90, 130])
        seqs = P.family(rng, kind, n, length, rng.choice([0.0, 0.03, 0.1, 0.2, 0.4]), rng.choice([0.0, 0.02, 0.05, 0.12]))
        seqs = P.spice(rng, kind, seqs, p_odd=0.0)
        fmt = rng.choice(["fa", "fa", "clu", "msf"])
        names = IO.rand_names(rng, len(seqs)) if fmt == "fa" else block_names(rng, len(seqs))
        ops.append(op(rng, kind, [present(rng, names, seqs, fmt, rng.choice([0.0, 0.3, 1.0]))]))
    # the same records in two presentations and one split over files: the three answers must agree (C04), the model must follow
    for _ in range(8 * scale):
        kind = rng.choice(kinds)
        n = rng.choice([2, 3, 5, 8, 13])
        seqs = P.family(rng, kind, n, rng.choice([5, 20, 70]), 0.15, 0.05)
        names = block_names(rng, n)
        f, t, pen = rng.choice(["fasta", "msf", "clu"]), P.pick_type(rng, kind), P.penalties(rng)
        for fm in ("fa", "clu", "msf"):
            ops.append(op(rng, kind, [present(rng, names, seqs, fm, rng.choice([0.0, 0.3]))], fmt=f, typ=t, pen=pen))
        ops.append(op(rng, kind, split_files(rng, names, seqs, rng.choice([2, 3]), 0.0), fmt=f, typ=t, pen=pen))
    # several files
    for _ in range(25 * scale):
        kind = rng.choice(kinds)
        n = rng.choice([2, 3, 4, 6, 9, 14, 22, 30])
        seqs = P.spice(rng, kind, P.family(rng, kind, n, rng.choice([3, 10, 25, 60, 100]), 0.15, 0.05), p_odd=0.0)
        names = block_names(rng, len(seqs))
        files = split_files(rng, names, seqs, rng.choice([2, 2, 3, 4]), rng.choice([0.0, 0.3]))
        r = rng.random()
        if r < 0.25:
            files.insert(rng.randint(0, len(files)), rng.choice(["", "\n", "x\n", "no format here\n", "\n>a\nACGT\n", " \n"]))
        elif r < 0.35:
            files.insert(rng.randint(0, len(files)), None)
        elif r < 0.45:
            other = "protein" if kind != "protein" else "dna"
            s2 = P.family(rng, other, rng.randint(1, 3), rng.choice([10, 40]))
            files.insert(rng.randint(0, len(files)), present(rng, block_names(rng, len(s2)), s2, rng.choice(["fa", "clu", "msf"]), 0.0))
        elif r < 0.5:
            files.insert(rng.randint(0, len(files)), rng.choice(["ACGT\n>a\nACGT\n", "MSF:\n Name: a Len: 4\n//\n\na ACGT\nb AC.T\n", ">\n", ">a\n"]))
        ops.append(op(rng, kind, files))
    # every type and every output format with default penalties on one DNA and one protein family
    d = P.family(rng, "dna", 6, 40)
    p = P.family(rng, "protein", 6, 40)
    dn, pn = block_names(rng, 6), block_names(rng, 6)
    df, pf = present(rng, dn, d, "fa", 0.0), present(rng, pn, p, "clu", 0.0)
    for t in range(-1, 7):
        ops.append(op(rng, "dna", [df], fmt=rng.choice(["fasta", "msf", "clu"]), typ=t, pen=[P.DEFAULT] * 3))
        ops.append(op(rng, "protein", [pf], fmt=rng.choice(["fasta", "msf", "clu"]), typ=t, pen=[P.DEFAULT] * 3))
    for f in FMTS_OK + FMTS_ODD:
        ops.append(op(rng, "dna", [df], fmt=f, typ=-1, pen=[P.DEFAULT] * 3))
    # widths around the block size of the writers
    for w in (59, 60, 61, 120, 121):
        seqs = P.family(rng, "protein", 3, w, 0.1, 0.0, keep_len=True)
        for f in ("fasta", "msf", "clu"):
            ops.append(op(rng, "protein", [present(rng, ["s1", "s2", "s3"], seqs, "fa", 0.0)], fmt=f, typ=-1, pen=[P.DEFAULT] * 3))
    # equal lengths: the canonical order is decided by the names
    for _ in range(6 * scale):
        kind = rng.choice(kinds)
        n = rng.choice([3, 9, 12, 21])
        seqs = P.family(rng, kind, n, rng.choice([6, 15, 33]), rng.choice([0.05, 0.2, 0.5]), 0.0, keep_len=True)
        names = IO.rand_names(rng, n)
        ops.append(op(rng, kind, [present(rng, names, seqs, "fa", 0.0)]))
    # mixtures near the detection boundary / undecidable
    for _ in range(6 * scale):
        a = P.family(rng, "dna", rng.randint(1, 6), rng.choice([8, 20, 40]))
        b = P.family(rng, "protein", rng.randint(1, 4), rng.choice([3, 6, 12]))
        seqs = a + b
        rng.shuffle(seqs)
        ops.append(op(rng, rng.choice(kinds), [present(rng, block_names(rng, len(seqs)), seqs, rng.choice(["fa", "clu"]), 0.0)]))
    for s in (["XXXX", "XXX"], ["BZX", "ZZBX", "XB"], ["J", "O"], ["AB", "AX"]):
        ops.append(op(rng, "dna", [present(rng, ["a", "b", "c"][:len(s)], s, "fa", 0.0)]))
    # degenerate inputs
    for txt in ("", "\n", ">a\nACGT\n", ">a\n>b\n", ">a\n\n>b\nACGT\n>c\n", ">a\nACGT\n>b\nAC\n", ">a\nA\n>b\nA\n", "x\ny\n",
                "CLUSTAL W\n\na ACGT\n", "CLUSTAL W\n\na ACGT\nb AC-T\n", ">a\nAC\x80GT\n>b\nACGT\n", ">a\n--\n>b\n..\n>c\nAC\n>d\nAG\n"):
        ops.append(op(rng, "dna", [txt], fmt=rng.choice(["fasta", "msf", "clu"]), typ=-1, pen=[P.DEFAULT] * 3))
    ops.append(op(rng, "dna", [None], fmt="fasta", typ=-1, pen=[P.DEFAULT] * 3))
    ops.append(op(rng, "dna", ["", "x\n"], fmt="fasta", typ=-1, pen=[P.DEFAULT] * 3))
    ops.append(op(rng, "dna", [">a\nACGT\n", None, ">b\nACGT\n"], fmt="fasta", typ=-1, pen=[P.DEFAULT] * 3))
    ops.append(op(rng, "dna", [">a\nACGT\n", "", ">b\nACGA\n"], fmt="msf", typ=-1, pen=[P.DEFAULT] * 3))
    ops.append(op(rng, "dna", [">a\nACGT\n", ">b\nMKVLW\n"], fmt="fasta", typ=-1, pen=[P.DEFAULT] * 3))
    # long sequences: parallel Hirschberg controller (>= 500 residues)
    for _ in range(2 * scale):
        kind = rng.choice(kinds)
        seqs = P.family(rng, kind, rng.choice([2, 3, 4]), rng.choice([500, 560, 700]), rng.choice([0.05, 0.15]), rng.choice([0.01, 0.03]))
        fmt = rng.choice(["fa", "clu", "msf"])
        ops.append(op(rng, kind, [present(rng, block_names(rng, len(seqs)), seqs, fmt, 0.0)], typ=rng.choice([-1, 5, 6]),
                      pen=[P.DEFAULT] * 3 if rng.random() < 0.7 else None))
    # many sequences: bisecting k-means (>= 100 non-empty sequences)
    for n in [100, rng.randint(101, 140)][: scale + 1]:
        kind = rng.choice(kinds)
        seqs = P.family(rng, kind, n, rng.choice([25, 40, 60]), rng.choice([0.05, 0.15, 0.3]), rng.choice([0.02, 0.06]))
        names = [x[:30] for x in block_names(rng, n)]
        files = [present(rng, names, seqs, rng.choice(["fa", "clu", "msf"]), 0.0)] if rng.random() < 0.5 else split_files(rng, names, seqs, 2, 0.0)
        ops.append(op(rng, kind, files, fmt=rng.choice(["fasta", "msf", "clu"]), typ=rng.choice([-1, 5, 6]),
                      pen=[P.DEFAULT] * 3 if rng.random() < 0.7 else None))
    for f in FMTS_OK + FMTS_ODD + ["fa", "mfa", "clumsf", "x", "cluster", "Fasta", "msf.gz"]:
        ops.append("check_format " + f)
    ops += ["check_format", "check_format a b", OPNAME, OPNAME + " fasta -1 bf800000 bf800000 bf800000", OPNAME + " fasta -1 bf800000 bf800000 bf800000 zz",
            OPNAME + " fasta 1000 bf800000 bf800000 bf800000 -", OPNAME + " fasta -1 bf80000 bf800000 bf800000 -"]
    return ops


if __name__ == "__main__":
    seed = int(sys.argv[1]) if len(sys.argv) > 1 else 1
    scale = int(sys.argv[2]) if len(sys.argv) > 2 else 1
    OPNAME = sys.argv[3] if len(sys.argv) > 3 else "kalign_file"
    sys.stdout.write("\n".join(gen(seed, scale)) + "\n")
