#!/usr/bin/env python3
"""gen_bpm.py SEED [--no-exhaustive] [--random N] [--trees N] [--matrices N] [--soft [--lenterm]] > opsfile

Op lines for slice B (bit-parallel edit distance, pairwise distances, UPGMA guide tree); feed to tools/corr.py.

 * exhaustive small cases: alphabet 2 (lengths <= 6) and 3 (lengths <= 4), every text with every pattern not
   longer than the text (plus the reversed roles for the shortest ones), all seven edit-distance ops;
 * random texts/patterns: pattern lengths around every multiple of 64 and around 1024 (and beyond: truncation),
   text lengths up to 3000, texts that contain a mutated copy of the pattern;
 * calc_distance / dist_matrix / tree on families with duplicates, contained sequences and near-duplicates;
 * upgma on random matrices with many ties and near-ties; upgma_exact (exact-arithmetic model against the real
   Float32 code) on inputs where an exact and a binary32 simulation pick the same pair with a safety margin.
"""
import itertools, random, struct, sys
from fractions import Fraction


def codes(l):
    return ",".join(map(str, l)) if l else "-"


ED_OPS = ["bpm_block", "bpm_block_dp", "dp_bpm_block", "bpm", "bpm_256", "dyn_256", "sellers"]


def ed_ops(t, p, ops=ED_OPS):
    return ["%s %s %s" % (o, codes(t), codes(p)) for o in ops]


def exhaustive():
    out = []
    for sigma, maxlen in ((2, 6), (3, 4)):
        strs = [list(s) for n in range(maxlen + 1) for s in itertools.product(range(sigma), repeat=n)]
        for t in strs:
            for p in strs:
                if len(p) <= len(t):
                    out += ed_ops(t, p, ["bpm_block_dp", "dp_bpm_block", "bpm", "bpm_256", "dyn_256"])
                elif len(p) <= 3:
                    out += ed_ops(t, p, ["bpm_block_dp", "dp_bpm_block", "bpm", "bpm_256"])
    return out


def mutate(rng, s, sigma, sub, indel):
    o = []
    for c in s:
        r = rng.random()
        if r < indel / 2:
            continue
        if r < indel:
            o.append(rng.randrange(sigma))
        o.append(rng.randrange(sigma) if rng.random() < sub else c)
    return o


def rand_pair(rng, m, n, sigma):
    p = [rng.randrange(sigma) for _ in range(m)]
    mode = rng.random()
    if mode < 0.15:
        t = [rng.randrange(sigma) for _ in range(n)]
    else:
        rate = rng.choice([0.0, 0.0, 0.01, 0.05, 0.2])
        core = mutate(rng, p, sigma, rate, rate / 2) if rate else list(p)
        if len(core) > n:
            core = core[:n]
        pre = rng.randint(0, n - len(core))
        t = [rng.randrange(sigma) for _ in range(pre)] + core
        t += [rng.randrange(sigma) for _ in range(n - len(t))]
    return t, p


def randoms(rng, count):
    out = []
    ms = []
    for k in range(1, 17):
        ms += [64 * k + d for d in (-2, -1, 0, 1, 2)]
    ms += [1, 2, 3, 31, 32, 33, 62, 63, 64, 65, 254, 255, 256, 257, 1020, 1021, 1022, 1023, 1024, 1025, 1026, 1027,
           1030, 1100, 1500, 2048, 2999]
    ms = sorted(set(ms))
    plan = list(ms)
    while len(plan) < count:
        plan.append(rng.choice(ms) if rng.random() < 0.7 else rng.randint(1, 1200))
    rng.shuffle(plan)
    for m in plan[:max(count, len(ms))]:
        sigma = rng.choice([2, 4, 13, 13])
        r = rng.random()
        if r < 0.3:
            n = m
        elif r < 0.6:
            n = m + rng.randint(0, 70)
        else:
            n = rng.randint(m, 3000)
        t, p = rand_pair(rng, m, n, sigma)
        ops = ["bpm_block", "bpm_block_dp", "dp_bpm_block"]
        if rng.random() < 0.5 or m <= 260:
            ops += ["bpm", "bpm_256", "dyn_256"]
        if m <= 300:
            ops += ["sellers"]
        out += ed_ops(t, p, ops)
    # several planted copies of the pattern of different quality, separated by junk long enough to push the running score far above the best hit
    # so far (band/threshold logic: blocks dropped and re-activated), the best copy last or in the middle
    for _ in range(max(12, count // 8)):
        m = rng.choice([65, 70, 100, 128, 155, 200, 255, 300, 640])
        sigma = rng.choice([4, 13])
        p = [rng.randrange(sigma) for _ in range(m)]
        t = []
        ncop = rng.randint(2, 5)
        quals = [rng.choice([0, 1, 2, 3, 6, 12]) for _ in range(ncop)]
        for q in quals:
            t += [rng.randrange(sigma) for _ in range(rng.choice([0, 30, 80, 200, 400]))]
            c = list(p)
            for _e in range(q):
                k = rng.randrange(len(c))
                r = rng.random()
                if r < 0.4:
                    c[k] = rng.randrange(sigma)
                elif r < 0.7 and len(c) > 1:
                    del c[k]
                else:
                    c.insert(k, rng.randrange(sigma))
            t += c
        t += [rng.randrange(sigma) for _ in range(rng.choice([0, 10, 100]))]
        if len(t) < len(p):
            t += [rng.randrange(sigma) for _ in range(len(p) - len(t))]
        out += ed_ops(t, p, ["bpm_block", "bpm_block_dp", "dp_bpm_block"] + (["bpm_256", "dyn_256"] if m <= 255 else []))
    # lane-structured patterns: whole 64-symbol lanes (blocks) made of a symbol that does not occur in the text keep their delta words
    # all-ones, so a carry produced in a lower lane has to ripple through one, two or more full lanes (the classical stress of multi-word
    # adders: bpm_256's lane adder, bpm_block's carries between blocks); lane 0 is cut from the text so that it does produce carries
    for _ in range(max(12, count // 6)):
        nl = rng.choice([2, 3, 4, 4, 4, 5, 8, 16])
        m = 64 * nl - rng.choice([0, 0, 1, 7, 33, 63])
        n = m + rng.randint(0, 300)
        t = [rng.randrange(12) for _ in range(n)]
        p = []
        absent = set(k for k in range(1, nl) if rng.random() < 0.6)
        for k in range(nl):
            if k in absent:
                p += [12] * 64
            else:
                a = rng.randint(0, max(0, n - 64))
                p += mutate(rng, t[a:a + 64], 12, rng.choice([0.0, 0.05]), 0.0)[:64]
                p += [rng.randrange(12) for _ in range(64 * (k + 1) - len(p))]
        p = p[:m]
        ops = ["bpm_block", "bpm_block_dp", "dp_bpm_block"]
        if m <= 256:
            ops += ["bpm_256", "dyn_256", "sellers"]
        out += ed_ops(t, p, ops)
    # pattern longer than the text, empty text, symbols that index the tables out of bounds
    for _ in range(20):
        m = rng.randint(1, 200)
        n = rng.randint(0, m)
        t, p = rand_pair(rng, m, max(n, 0), 13)
        t = t[:n]
        out += ed_ops(t, p, ["bpm_block", "bpm_block_dp", "dp_bpm_block", "bpm", "bpm_256", "sellers"])
    for _ in range(10):
        t, p = rand_pair(rng, rng.randint(1, 80), 90, 13)
        if rng.random() < 0.5:
            t[rng.randrange(len(t))] = rng.randint(13, 255)
        else:
            p[rng.randrange(len(p))] = rng.randint(13, 255)
        out += ed_ops(t, p)
    return out


def family(rng, n, L, sigma):
    base = [rng.randrange(sigma) for _ in range(L)]
    seqs = [base]
    while len(seqs) < n:
        src = rng.choice(seqs)
        r = rng.random()
        if r < 0.25:
            s = list(src)                                   # duplicate
        elif r < 0.4 and len(src) > 2:
            a = rng.randrange(len(src) - 1)                 # contained piece
            s = src[a:rng.randint(a + 1, len(src))]
        elif r < 0.6:
            s = list(src)
            s[rng.randrange(len(s))] = rng.randrange(sigma)  # one substitution, same length
        elif r < 0.85:
            s = mutate(rng, src, sigma, 0.1, 0.05) or [0]
        else:
            s = [rng.randrange(sigma) for _ in range(max(1, L + rng.randint(-3, 3)))]
        seqs.append(s)
    rng.shuffle(seqs)
    return seqs


def trees(rng, count):
    out = []
    for k in range(count):
        r = rng.random()
        if r < 0.6:
            n, L = rng.randint(1, 12), rng.randint(1, 60)
        elif r < 0.9:
            n, L = rng.randint(10, 40), rng.randint(20, 300)
        else:
            n, L = rng.choice([60, 98, 99]), rng.randint(3, 40)
        if k == 0:
            n, L = 6, 1100                                   # beyond the 1024 limit of the pattern
        sigma = rng.choice([2, 4, 13])
        seqs = family(rng, n, L, sigma)
        args = " ".join(codes(s) for s in seqs)
        out.append("dist_matrix " + args)
        out.append("tree " + args)
        for _ in range(3):
            a, b = rng.choice(seqs), rng.choice(seqs)
            out.append("calc_distance %s %s" % (codes(a), codes(b)))
    # the length term: averages around and above the cap of 10000
    for la, lb in ((9999, 10001), (10000, 10000), (12000, 9000), (19999, 1), (20001, 3)):
        a = [rng.randrange(4) for _ in range(la)]
        b = [rng.randrange(4) for _ in range(lb)]
        out.append("dist_matrix %s %s" % (codes(a), codes(b)))
    return out


def py_sellers(t, p):
    p = p[:1024]
    m = len(p)
    prev = list(range(m + 1))
    best = prev[m]
    for c in t:
        cur = [0] * (m + 1)
        for i in range(1, m + 1):
            cur[i] = min(prev[i - 1] + (0 if p[i - 1] == c else 1), prev[i] + 1, cur[i - 1] + 1)
        best = min(best, cur[m])
        prev = cur
    return best


def py_raw(a, b):
    return py_sellers(a, b) if len(a) > len(b) else py_sellers(b, a)


def exact_trees(rng, count):
    """`tree_exact`: exact distances + exact UPGMA (the model of the C12 theorem) against the real guide tree, on inputs
    where an exact and a binary32 simulation of the whole computation pick the same joins with a margin"""
    out = []
    kept = dropped = 0
    for _ in range(count):
        n = rng.randint(2, 14)
        L = rng.randint(2, 40)
        sigma = rng.choice([2, 4, 13])
        seqs = family(rng, n, L, sigma)
        if rng.random() < 0.6:        # several copies of one sequence
            s = rng.choice(seqs)
            for _ in range(rng.randint(1, 3)):
                seqs[rng.randrange(n)] = list(s)
        n = len(seqs)
        ex = [[None] * n for _ in range(n)]
        fl = [[None] * n for _ in range(n)]
        for x in range(n):
            for y in range(n):
                a, b = seqs[max(x, y)], seqs[min(x, y)]
                k = py_raw(a, b)
                s2 = (len(a) + len(b)) // 2
                ex[x][y] = Fraction(k) + Fraction(min(10000, s2), 10000)
                fl[x][y] = f32(float(k) + f32(min(10000.0, float(s2)) / 10000.0))
        je, marg = sim(ex, n, True, Fraction(1, 1000))
        jf, _ = sim(fl, n, False)
        if je == jf and (marg is None or marg > 1e-5):
            out.append("tree_exact " + " ".join(codes(s) for s in seqs))
            kept += 1
        else:
            dropped += 1
    sys.stderr.write("tree_exact: %d margin-safe cases emitted, %d dropped\n" % (kept, dropped))
    return out


def f32(x):
    return struct.unpack("f", struct.pack("f", x))[0]


def bits(x):
    return "%08x" % struct.unpack("I", struct.pack("f", x))[0]


D001 = f32(0.001)


def sim(dm, n, exact, delta=None):
    """the join sequence of upgma; exact: Fractions, else binary32 emulation. returns (joins, min margin)"""
    dm = [list(r) for r in dm]
    act = [True] * n
    joins = []
    margin = None
    d = (Fraction(D001) if delta is None else delta) if exact else D001
    for _ in range(n - 1):
        best = None
        cands = []
        for i in range(n - 1):
            if act[i]:
                for j in range(i + 1, n):
                    if act[j]:
                        cands.append(dm[i][j])
                        if best is None or dm[i][j] < dm[best[0]][best[1]]:
                            best = (i, j)
        a, b = best
        v = dm[a][b]
        for x in cands:
            if x != v:
                g = (x - v) / max(1, abs(v))
                margin = g if margin is None or g < margin else margin
        joins.append(best)
        act[b] = False
        for j in range(n):
            if j != b:
                if exact:
                    dm[a][j] = (dm[a][j] + dm[b][j]) / 2 + d
                else:
                    dm[a][j] = f32(f32(f32(dm[a][j] + dm[b][j]) * 0.5) + d)
        dm[a][a] = 0
        for j in range(n):
            dm[j][a] = dm[a][j]
    return joins, margin


def matrices(rng, count):
    out = []
    kept = dropped = 0
    for k in range(count):
        n = rng.randint(1, 14) if rng.random() < 0.8 else rng.randint(15, 60)
        mode = rng.random()
        if mode < 0.3:      # few distinct values: many exact ties
            vals = [f32(rng.choice([0.0, 0.25, 0.5, 1.0, 1.0, 2.0, 3.5]) + rng.choice([0.0, 0.001, 0.01])) for _ in range(8)]
            gen = lambda: rng.choice(vals)
        elif mode < 0.6:    # kalign-like: integer + length term
            gen = lambda: f32(rng.randint(0, 6) + rng.randint(1, 300) / 10000.0)
        elif mode < 0.8:    # near-ties: differences of a few ulps
            base = f32(rng.uniform(0.5, 4))
            gen = lambda: f32(base * (1 + rng.randint(-3, 3) * 2.0 ** -23))
        else:
            gen = lambda: f32(rng.uniform(-5, 50) if rng.random() < 0.9 else rng.uniform(-1e29, 1e29))
        m = [[0.0] * n for _ in range(n)]
        sym = rng.random() < 0.85
        for i in range(n):
            for j in range(n):
                if i == j:
                    m[i][j] = f32(rng.choice([0.0, 0.01]))
                elif i < j or not sym:
                    m[i][j] = gen()
                else:
                    m[i][j] = m[j][i]
        if mode >= 0.3 and mode < 0.6 and n >= 3 and rng.random() < 0.7:
            # a clade of copies: rows identical, mutual distance alpha, everything else at least alpha + 1/2
            c = rng.sample(range(n), rng.randint(2, min(n, 5)))
            alpha = f32(rng.randint(1, 5000) / 10000.0)
            for i in range(n):
                for j in range(n):
                    if i != j and i in c and j in c:
                        m[i][j] = alpha
                    elif i != j and (i in c) != (j in c):
                        x = m[min(i, j)][max(i, j)]
                        m[i][j] = f32(max(x, alpha + 0.5 + rng.randint(0, 3)))
            for i in c:
                for j in range(n):
                    if j not in c:
                        m[i][j] = m[c[0]][j]
                        m[j][i] = m[c[0]][j]
        line = "%d %s" % (n, ",".join(bits(m[i][j]) for i in range(n) for j in range(n)))
        out.append("upgma " + line)
        if sym and all(abs(x) < 1e6 for r in m for x in r):
            je, marg = sim([[Fraction(x) for x in r] for r in m], n, True)
            jf, _ = sim(m, n, False)
            if je == jf and (marg is None or marg > 1e-4):
                out.append("upgma_exact " + line)
                kept += 1
            else:
                dropped += 1
    sys.stderr.write("upgma_exact: %d margin-safe cases emitted, %d dropped\n" % (kept, dropped))
    return out


def main():
    args = sys.argv[1:]
    seed = int(args[0]) if args and not args[0].startswith("-") else 0
    nrand, ntree, nmat = 150, 25, 150
    if "--random" in args:
        nrand = int(args[args.index("--random") + 1])
    if "--trees" in args:
        ntree = int(args[args.index("--trees") + 1])
    if "--matrices" in args:
        nmat = int(args[args.index("--matrices") + 1])
    rng = random.Random(1000003 * seed + 17)
    out = []
    if "--soft" in args:
        # the SoftF32 twins (Model/TreeSoft.lean): the dist_matrix / tree / upgma lines of this generator under the op names
        # dist_matrix_soft / tree_soft / upgma_soft; --lenterm adds f32_lenterm for every s in 0..10010 and samples above
        ren = {"dist_matrix": "dist_matrix_soft", "tree": "tree_soft", "upgma": "upgma_soft"}
        for line in trees(rng, ntree) + matrices(rng, nmat):
            op, _, rest = line.partition(" ")
            if op in ren:
                out.append(ren[op] + " " + rest)
        if "--lenterm" in args:
            out += ["f32_lenterm %d" % s for s in range(0, 10011)]
            out += ["f32_lenterm %d" % rng.randrange(10011, 2 ** 31) for _ in range(200)]
            out += ["f32_lenterm 2147483647", "f32_lenterm 2147483648", "f32_lenterm -1", "f32_lenterm 1x", "f32_lenterm"]
        out += ["upgma_soft 2 00000000,00000000", "upgma_soft 1 7fc00000", "upgma_soft 0 -", "tree_soft", "dist_matrix_soft"]
        sys.stdout.write("\n".join(out) + "\n")
        return
    if "--no-exhaustive" not in args:
        out += exhaustive()
    out += randoms(rng, nrand)
    out += trees(rng, ntree)
    out += matrices(rng, nmat)
    out += exact_trees(rng, nmat // 2)
    out += ["bpm_256_ub 1,2 " + codes([1] * k) for k in (0, 1, 31, 32, 33, 255, 300)]
    out += ["bpm_block 1,2", "bpm_block 1,2 3 4", "bpm_block 1,x 2", "bpm_block 1,256 2", "upgma 2 00000000,00000000",
            "upgma 1 7fc00000", "upgma 0 -", "tree", "bpm_nosuch 1 2"]
    sys.stdout.write("\n".join(out) + "\n")


if __name__ == "__main__":
    main()
