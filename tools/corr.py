#!/usr/bin/env python3
"""corr.py <opsfile> [variant]: feed the same op lines to the real code (kvh, built from /repo) and to the Lean
model (kmodel) and print the disagreements.  Developer tool; the checks call lib.common.correspond directly."""
import os, sys
sys.path.insert(0, os.path.dirname(os.path.abspath(__file__)))
from lib import common as C

def main():
    ops = [l.rstrip("\n") for l in open(sys.argv[1]) if l.strip()]
    variant = sys.argv[2] if len(sys.argv) > 2 else "asan"
    ok, log = C.lake_build(["kmodel"])
    if not ok:
        print(log[-3000:]); return 2
    try:
        kvh = C.build_harness(variant)
    except C.BuildError as ex:
        print(str(ex)[:6000]); return 2
    diffs = C.correspond(kvh, ops)
    for d in diffs[:20]:
        print("DIFF #%d %s\n   impl : %s\n   model: %s\n   %s" % (d["index"], d["op"][:300], str(d["impl"])[:600], str(d["model"])[:600], d["note"][-800:]))
    print("%d ops, %d disagreements" % (len(ops), len(diffs)))
    return 1 if diffs else 0

if __name__ == "__main__":
    sys.exit(main())
