#!/usr/bin/env python3
"""writes MANIFEST.json from the table below (single source of truth for claimed checks)"""
import json, os, subprocess
V = os.path.dirname(os.path.dirname(os.path.abspath(__file__)))

CLAIMED = {
 "C01": dict(
   text="Lean theorems over the progressive-alignment model (any guide tree, any valid pairwise aligner): every merge preserves "
        "residues, equalises row lengths, creates no all-gap column; rows are found under their input index; expansion of a well-shaped "
        "Hirschberg path is a valid column list. Tied to the code by unit correspondence (update_gaps, make_seq, add_gap_info_to_path_n, "
        "mirror_path_n, make_linear_sequence), replay of every real merge through the model, and an integrity oracle on real outputs.",
   note="Premise `Aligner.Valid` (DP controller yields well-shaped paths) is monitored on every merge, proved only from `pathOK` onwards. "
        "Trusted: Lean kernel, translators, harness; qsort/fprintf by specification; k-means tree is an arbitrary tree in the theorem.",
   technique="Lean 4 induction over guide trees + weave algebra; differential correspondence against the C functions",
   ref="4 C01"),
}

PENDING = {}

def main():
    props = [json.loads(l) for l in open(os.path.join(V, "properties.jsonl"))]
    hooks_commits = []
    try:
        out = subprocess.check_output(["git", "-C", "/repo", "log", "--format=%h %s"]).decode().splitlines()
        hooks_commits = [l.split()[0] for l in out if l.split(" ", 1)[1].startswith("verif hooks")]
    except Exception:
        pass
    checks, na = [], []
    for p in props:
        i = p["id"]
        if i in CLAIMED:
            c = CLAIMED[i]
            checks.append(dict(property_id=i,
                               quick_cmd="python3 tools/check.py %s --tier quick" % i,
                               thorough_cmd="python3 tools/check.py %s --tier thorough" % i,
                               evidence_file="evidence/%s.json" % i,
                               replay_cmd_template="python3 tools/check.py %s --replay {path}" % i,
                               engine="lean-model+kvh-harness",
                               level_claimed=dict(category=c.get("category", "proof"), text=c["text"], design_ref="DESIGN.md section " + c["ref"]),
                               level_note=c["note"], technique=c["technique"]))
        else:
            na.append(dict(property_id=i, reason=PENDING.get(i, "check not built yet in this round (work in progress; no technique switch intended)")))
    m = dict(version=1,
             setup_cmd="python3 tools/setup.py",
             hooks=dict(guard="KALIGN_VERIF",
                        enable="checks compile /repo/lib/src/*.c and src/*.c themselves (gcc, ASan/UBSan, -fopenmp) with -DKALIGN_VERIF into the harness kvh; the hook callback pointer kalign_verif_cb is defined by the harness",
                        baseline_off_cmd="sh tools/baseline_off.sh",
                        source_commits=hooks_commits, add_only=True),
             engines=[dict(name="lean-model", path="lean/", serves_properties=sorted(CLAIMED), kind_free_text="Lean 4 model + theorems (core Lean, no Mathlib), lean_exe driver kmodel"),
                      dict(name="kvh-harness", path="harness/", serves_properties=sorted(CLAIMED), kind_free_text="C harness calling the real kalign code in-process; line protocol shared with kmodel")],
             checks=checks, not_applicable=na,
             notes="All checks: python3 tools/check.py <id> --tier quick|thorough; honours VERIF_SEED. Known findings / fixed defects: known_findings.json.")
    json.dump(m, open(os.path.join(V, "MANIFEST.json"), "w"), indent=1)
    print("claimed:", sorted(CLAIMED), "not_applicable:", [x["property_id"] for x in na])

if __name__ == "__main__":
    main()
