#!/usr/bin/env python3
"""writes MANIFEST.json from the table below (single source of truth for claimed checks)"""
import json, os, subprocess
V = os.path.dirname(os.path.dirname(os.path.abspath(__file__)))

CLAIMED = {
 "C01": dict(
   text="Lean theorems over the progressive-alignment model (any guide tree, any valid pairwise aligner): every merge preserves "
        "residues, equalises row lengths, creates no all-gap column; rows are found under their input index; expansion of a well-shaped "
        "Hirschberg path is a valid column list. Tied to the code by unit correspondence (update_gaps, make_seq, add_gap_info_to_path_n, "
        "mirror_path_n, make_linear_sequence), replay of every real merge through the model, and an integrity oracle on real outputs. "
        "The composed pipeline model kalignRun (the whole of kalign(): detection, canonical order, distances, guide tree incl. bisecting k-means, binary32 DP, weave, rank restoration) is tied to the public kalign() bit-for-bit (op kalign_sys) and satisfies kalignRun_integrity with `= .ok rows` as its only hypothesis. "
        "kalignFile_integrity / kalignFile_no_fault: the same for the file API (whole-program model kalignFile, tied by the kalign_file correspondence).",
   note="Premise `Aligner.Valid` (DP controller yields well-shaped paths) is monitored on every merge, proved only from `pathOK` onwards. "
        "Trusted: Lean kernel, translators, harness; qsort/fprintf by specification; k-means tree is an arbitrary tree in the theorem.",
   technique="Lean 4 induction over guide trees + weave algebra; differential correspondence against the C functions",
   ref="4 C01"),
}

CLAIMED["C10"] = dict(
   text="Lean theorem C10_subalignment_preserved: for every guide tree, every node v and every valid aligner, the final rows of v's members with "
        "their all-gap columns removed are exactly v's alignment at completion (one merge applies the same whole-column insertion to every member of a side). "
        "Tied to the code by the NODE_DONE hook: snapshot of member gap vectors at completion vs projection of the real final alignment, on UPGMA and k-means trees, "
        "threads 1/4/16 with schedule jitter, plus replay of every real merge through the model. "
        "recAln_subalignment_preserved states the property for the recAln of the composed pipeline model (tied by kalign_sys); Props/C10Pipeline closes the literal form without side hypotheses: kalignRun_subalignment_finalRow (every node completed in a successful run: members pairwise distinct, final rows minus all-gap columns = the node's alignment at completion), kalignRun_members_partition, kalignRun_column_mates_stay.",
   note="Premise `Aligner.Valid` monitored on every merge. Trusted: Lean kernel, harness hook dump, Python projection oracle.",
   technique="Lean 4 induction along the sub-tree relation over the weave algebra; hook-based snapshot/projection oracle",
   ref="4 C10")
CLAIMED["C09"] = dict(
   text="Decision logic proved outright over a model whose data is regenerated from the source on every run: default table by executing aln_param_init on "
        "the biotype x type grid, override guards and --type word chain by parsing. Theorems: an override >= 0 replaces exactly its own field (any carrier, any values), "
        "explicit default = implicit, single overrides, README defaults (dna/internal numbers, CorBLOSUM66_13plus / Gonnet250 reference copies), documented words select their "
        "type, mismatching types rejected. Tie: bit-exact unit correspondence of aln_param_init/set_aln_type; end-to-end PARAM-hook observation; CLI vs library; marginal two-group inputs (short overlap, overhangs; all types and override subsets) through the proved pipeline model and the code, a differing alignment scored under exactly the selected parameters (refsp) and reported with the input when it scores lower. "
        "The command-line front end is modelled too (Model/Cli.lean: glibc getopt_long_only, atoi, atof narrowed to float, early exits, input list; all tables regenerated into Gen/Cli.lean by translator T5) and tied to the real main() by the `cli` op (library entry points replaced by recorders): cli_override_exact / cli_run_config (last occurrence wins, independent of option order and file positions), cli_inputs_order, cli_type_words, cli_defaults, cli_early_exits, and cli_to_dp / cli_gpo_override_to_dp composing argv with C09_override_exact down to the DP parameters.",
   note="Out-of-range type values represented by executed samples (-1,5,6,99). RNA penalties are not pinned (README gives no numbers). Trusted: translators T1/T2, Lean kernel.",
   technique="Lean 4 `decide` over regenerated tables + generic case analysis; differential correspondence; end-to-end hook oracle",
   ref="4 C09")

CLAIMED["C13"] = dict(
   text="Lean theorems about the exact-arithmetic reading `detectExact` of detect_alphabet (letter sets and the four probabilities regenerated from the C text): "
        "P1 all residues in ACGTUN (either case) => nucleotide; P2 at least a quarter protein-only letters => protein; P3 invariance under permutation of the sequences. "
        "Tie: bit-exact unit correspondence of detect_alphabet vs the double-precision model on histograms around both premises and the decision boundary; "
        "exact-vs-double agreement measured; end-to-end biotype, --type acceptance and MSF header on plain / heavily gapped / shuffled+renamed / multi-file presentations, very long FASTA description lines, and the in-memory entry point (kalign_arr_to_msa, kalign()) called repeatedly in one process with the kinds alternating.",
   note="A-float: the C code computes in doubles with libm log; theorems are over rationals (cross-multiplied naturals). Trusted: translator T2 (letter strings, probabilities).",
   technique="Lean 4 product-of-powers inequality over regenerated constants; differential correspondence; end-to-end oracle",
   ref="4 C13")
CLAIMED["C14"] = dict(
   text="Lean `decide +kernel` theorems over the executed alphabet tables: codes are invariant under case change for the three alphabets kalign_run uses, U and T share a code "
        "in the nucleotide alphabet, every letter has a code < L; the detection letter sets are closed under case change and treat T and U alike; hence detection and code "
        "conversion are invariant under such respellings (C14_detect_respell_invariant, C14_convert_respell_invariant). Tie: unit correspondence of convert_msa_to_internal; "
        "end-to-end gap-pattern comparison of respelled inputs, all types, both APIs. "
        "kalignRun_codes_only / kalignRunWith_case_invariant / _TU_invariant state it for the composed pipeline model (hypothesis-free for the exact detector; the binary64 detector's decision equality is a hypothesis, `_partial`), tied to kalign() by the kalign_sys correspondence.",
   note="That later stages read residues only through codes is structural in the model and observed end to end. T<->U applies to inputs kalign classifies as nucleotide.",
   technique="Lean 4 kernel-checked table facts + list-map lemma; differential correspondence; end-to-end oracle",
   ref="4 C14")

CLAIMED["C02"] = dict(
   text="Fork-join model of kalign's OpenMP structure with declared footprints: generic determinacy (every linearisation of a safe program = its serial elision) and order theorems; "
        "instantiated for the merge tree (any tree with distinct labels: concurrent merges lie in disjoint subtrees), the Hirschberg halves (f vs b arrays), the k-means round and "
        "recursion (BROADCAST_MASK same-constant stores) and the distance matrix; corollaries: threads irrelevant, merge after children, meetup after both halves. The pragma text is "
        "regenerated on every run (structured skeleton + every raw `#pragma omp` line + thread-count use sites + writable globals) and pinned by `decide`; the map from directive "
        "lists to program shapes is computed. Tie/search: byte comparison against the no-OpenMP build for n_threads 1..64 with seeded schedule jitter at the hooks, trace "
        "validation of hook event logs as linearisations (children complete before a merge, halves finished before meetup, overlapping merges disjoint), TSan pass (thorough). Runs with OMP_MAX_ACTIVE_LEVELS=2 (the two Hirschberg halves then really overlap) on lengths at the work-space growth sizes, repeated, against the serial build.",
   note="A-omp: OpenMP runtime / compiler / memory model trusted; atoms assumed to be functions of their declared footprints (validated dynamically). A theorem cannot exhibit a racy "
        "execution; the schedule search tries to.",
   technique="Lean 4 fork-join determinacy proof over footprints + regenerated pragma skeleton pinned by `decide`; schedule-perturbation search and trace validation",
   ref="4 C02")
CLAIMED["C04"] = dict(
   text="Lean model of the readers on bytes (line splitting, format sniffing, read_fasta/clu/msf, merge) bit-for-bit tied to the C readers by correspondence (incl. a malformed "
        "stream); theorems: scanner keeps letters / counts punctuation as gaps; reading FASTA or Clustal presentations (any widths, blank lines, gap glyphs, padding, junk lines) "
        "yields the same names and residues; formats agree; letter histogram and detected kind depend on residues only. Oracle: real runs on re-presentations (gap densities to 50 "
        "per residue, widths, Clustal/MSF renderings, 2..5 files) vs the plain FASTA run. "
        "kalignFile_presentation_independent states the property for the whole-program model kalignFile (readers, dealign, kalignRun stages, writers), tied to kalign_read_input/kalign_run/kalign_write_msa and the CLI's run_kalign() byte-for-byte by the kalign_file correspondence. Format sniffing after repair 8e76171 (Props/C04Sniff): the first hint line decides; C04_fasta_sniffed / C04_clu_sniffed / C04_msf_sniffed, Presents.fasta_sniffed; the pre-repair rule kept as detectFormatOld with decide-witnesses.",
   note="MSF headers: proved for an explicit grammar of header lines (free text, any Name:/Len:/Check:/Weight: layout; msfHeader_grammar, read_msf_presentation) that covers "
        "what kalign writes and PileUp-style headers; names > 255 bytes / with blanks / a `//` inside a name line are outside it. Several files: read_split_files / "
        "split_same_as_one_file under the explicit class hypothesis that is the recorded finding C04-split-class.",
   technique="Lean 4 proofs over a byte-level reader model; differential correspondence; presentation oracle",
   ref="4 C04")
CLAIMED["C06"] = dict(
   text="Lean theorems fasta/clu/msf_roundtrip(+_input), sniff_written_*, roundtrip_any, cross_format: for every well-formed alignment (decidable AlnWF: names over [A-Za-z0-9_.|-], "
        "1..200 bytes, rows of equal length >= 1, every row has a residue) reading what the writer produced returns exactly names, residues and gap vectors in order, and the "
        "sniffer selects the right reader. Tie: bit-exact correspondence of writers and readers on generated alignments; oracle read(write(A)) on the real code for all formats and conversion through kalign (reader -> finalise -> writer -> reader) for all nine ordered format pairs. "
        "kalignFile_roundtrip: whatever the whole-program model writes reads back to exactly its names and rows (kalign_file correspondence ties kalignFile to the real code).",
   note="fprintf/getline/snprintf by specification; side conditions on version/basename/date (FileOK) are decidable and shown satisfiable.",
   technique="Lean 4 proofs (sorted line-buffer layout lemma, 60-column chunking); differential correspondence; round-trip oracle",
   ref="4 C06")
CLAIMED["C15"] = dict(
   text="Lean theorems fasta_shape, blocks_shape_clu/msf, block_columns, msf_len, msf_checksums, msf_type, gcg_spec about the writer model (tied bit-for-bit to the C writers); "
        "oracle: independent Python parser of the three formats on synthetic alignments through the real writers and on real kalign_run outputs (wrapping at 60, block structure, "
        "MSF length / per-row GCG checksums / total / type). "
        "kalignFile_output_shape: every output of the whole-program model kalignFile has the stated shape in its format (kalign_file correspondence ties kalignFile to the real code).",
   note="strftime date masked; independent parser trusted as oracle.",
   technique="Lean 4 proofs over the writer model; differential correspondence; independent-parser oracle",
   ref="4 C15")
CLAIMED["C16"] = dict(
   text="Lean state machine of the API (handles, read/run/write/compare/free/kalign, library globals = OpenMP thread count + mask flag, allocation ledger): globals are "
        "overwritten before use, every op's output in any history equals its output in a fresh process on the same argument objects (induction over op lists), after freeing all live "
        "handles the allocation ledger is empty for EVERY history incl. every failing read/run/write path (ledger_balanced, hypothesis-free since the three leaks the proof attempt "
        "located were repaired in /repo: 4036b80, 7d4bd68, 4c3a0a7). Frame obligations (writable globals, thread-count use sites) regenerated "
        "and pinned. Search: random API histories with several live handles in one sanitizer-instrumented process vs per-object replays in fresh processes; LeakSanitizer at exit; allocation ledger by allocator interposition (no-OpenMP build), "
        "incl. reads of files that cannot be opened (EMFILE).",
   note="Heap-reuse effects are what the functional model cannot exhibit; the history search looks for them. OpenMP pool excluded via LSan suppressions.",
   technique="Lean 4 induction over API histories + regenerated frame facts; differential history replay with LeakSanitizer",
   ref="4 C16")

CLAIMED["C03"] = dict(
   text="Lean theorems over the canonicalisation model (rank assignment, dropping empties, sort by (length desc, name) with strcmp): the sorted list is the same for every permutation "
        "when names are pairwise distinct (sort uniqueness), hence for ANY downstream pipeline that sees only the canonical (name, residues) list the rows found by name are the same "
        "(order_independent); input order is restored by rank; `rank` use sites regenerated from the source and pinned. Tie: unit correspondence of sort_by_len_name / essential "
        "check on adversarial keys; end-to-end column-membership comparison on shuffled inputs below and above 100 sequences, CANON/TASKS hook observation. "
        "kalignRun_order_independent states the property for the composed pipeline model (guide tree included), which is tied to kalign() by the kalign_sys correspondence.",
   note="qsort trusted to be a correct sort. n >= 100: bisecting k-means is modelled (Model/Kmeans.lean, bit-exact op table) with split2_partition / bisectingKmeans_leaves / kmeans_fn_of_canon; the task list is also observed on the code via the TASKS hook.",
   technique="Lean 4 sort-uniqueness proof (mergeSort on a strict total order) + frame fact by `decide`; differential correspondence; permutation oracle",
   ref="4 C03")
CLAIMED["C05"] = dict(
   category="proof",
   text="Proved on the fault-aware models: the reader model never takes an undefined-behaviour path on any byte string (single file and file lists), every ASCII letter maps to "
        "a code inside the tables it indexes (executed alphabets), expansion of well-shaped Hirschberg paths stays inside the path buffer, overflowing penalties are rejected, "
        "writers index rows in bounds. Memory safety of the C text itself is NOT proved: it is carried by (a) bit-exact correspondence of the reader model with the real readers on a "
        "malformed stream and (b) a sanitizer-instrumented search: ASan+UBSan+LSan CLI on structure-aware mutations x option strings x bad paths with hang detection, valgrind "
        "memcheck subset (thorough). "
        "Pipeline level (Props/C05Pipeline): kalignRun_never_fuel, C05_controller_never_faults, C05_path_read_in_bounds hold unconditionally (any score carrier, any comparison "
        "outcomes: all path/kernel/blit accesses in bounds, cut column in range); kalignRun_never_faults_partial reduces 'the composed model never reaches a fault value' to two "
        "named hypotheses about binary32 values (UPGMA sees finite entries; the meetup contract holds), which core Lean cannot decide. Index safety of the model itself (Props/C05Index): checked twins of the kernels, controllers, profile updates, do_align state vectors, "
        "UPGMA, k-means lanes and bpm_block -- every array access bounds-tested -- return exactly what the totalised model returns (C05_pipeline_indices_in_range: for every "
        "input, no precondition), so no default value hides an out-of-range index. Coverage-guided libFuzzer target as extra search. "
        "Software binary32 (Model/SoftFloat.lean: IEEE-754 binary32 in core Lean, tied bit-for-bit to C float by the f32 ops, 1.2M operand pairs, and to the whole program by "
        "kalign_sys_soft): Props/SoftFloat (laws, sentinel absorption, boundedness), C07Soft_seqseq_mon and monHyp_bounded (the Hirschberg meetup contract holds for all "
        "reachable operands with nsip <= 2^17, len_a+len_b < 2^19, no hypothesis about values), kalignRunSoft2_never_faults / kalignRunSoft2_errors: with DP scores and the < 100-sequence guide tree on SoftF32 (ops kalign_sys_soft2, dist_matrix_soft, "
        "upgma_soft, tree_soft), for every input with numseq <= 2^17 and numseq*maxlen < 2^19 the composed model never reaches a fault value -- no hypothesis about values. "
        "Whole program (Props/C05WholeProgram, op kalign_file_soft2): kalignFileSoft2_never_faults / _errors / _ok_shape -- for any input files (arbitrary bytes), type, penalties "
        "and format word the files-to-file model never faults (size bound on what the readers return), its only failures are the documented rejections, every output is well-formed.",
   note="PARTIAL by nature: heap behaviour of libc/libgomp, stack depth of recursions, OOM paths are not modelled; the theorem part covers readers/tables/path expansion only.",
   technique="Lean 4 proofs about fault-aware models + sanitizer-instrumented differential/fuzz search",
   ref="4 C05")
CLAIMED["C07"] = dict(
   text="Executable Lean model of the nine DP kernels, both Hirschberg controllers, profiles and do_align over a generic score carrier; the Float32 instance is bit-identical to the "
        "C code on every generated rectangle (unit correspondence). Theorems: (structure) aln_runner = aln_runner_serial, H1 path shape for any kernels passing the executable meetup "
        "contract; (scores, sequence-sequence kernels on the exact carrier) forward/backward kernel cells = maxima over partial alignments of explicitly defined readings "
        "(C07_ssForward_spec / C07_ssBackward_spec), meetup = first argmax over cuts (C07_ssMeet_*), every level's reading lies within proved slacks of the reference score "
        "(C07_level_bounds, C07_sub_level_bounds; the originally assumed lower bound is refuted by C07_claimed_lower_bound_fails), and C07_hirschberg_seqseq_opt / C07_alnRun_opt: "
        "if P beats every other alignment by gpo*nterm(P) + max(0,tgpe-gpe,tgpe-gpo) + max(0,gpe-tgpe) + len_b/2000, the controller (serial and parallel entry) returns exactly P. "
        "Groups of identical copies (Props/C07Prof): a profile built from k copies by make_profile/set_gap_penalties/diagonal updates in ANY merge order is k times the "
        "sequence (C07_profile_of_copies); on such profiles the sequence-profile and profile-profile kernels ARE the sequence-sequence kernels with all scores scaled by K = k*m "
        "and the tie-break term unscaled (C07_sp/pp_kernels_scaled), so optimality lifts with the margin K*(S_T(P) - slack) > K*S_T(Q) + columns "
        "(C07_hirschberg_seqprofile/profileprofile_copies_opt; C07_doAlign_*_opt in do_align's orientation incl. operand swap and mirror_path). Independent full-matrix "
        "reference DP (harness/ops_ref.c) as end-to-end oracle with the proved margin, incl. a stream for the task-parallel controller (>= 500 columns, 2..16 threads).",
   note="Optimality is proved on the exact score carrier and, for the dyadic parameter sets (default protein, DNA, DNA-internal, divergent protein), on binary32 itself "
        "(Props/C07Soft: every SoftF32 kernel cell equals the exact cell, the tie term is bounded, C07Soft_alnRun_opt with the margin enlarged by 1/2 score unit; SoftF32 is tied "
        "bit-for-bit to C float and to the pipeline). Groups of identical copies on binary32: Props/C07SoftGroups (kernel equalities sp/pp = scaled seq-seq on SoftF32, C07Soft_doAlign_*_opt), nothing partial. "
        "The RNA row (39.4 / 292.6) is not dyadic: there the binary32 instance is tied by correspondence and the certified oracle only. The profile-profile lift "
        "assumes a symmetric substitution matrix (proved for the protein table; checked for the others by decide). Known finding C07-terminal-gap-split (inconsistent "
        "terminal-gap objective; the proved margin quantifies it).",
   technique="Lean 4 proofs: DP kernel specifications, cut decomposition, per-level reading bounds, Hirschberg optimality under a margin; bit-exact Float32 model correspondence; "
             "independent-DP certified oracle",
   ref="4 C07")
CLAIMED["C08"] = dict(
   text="Lean theorems: every admissible default parameter set satisfies Φ (regenerated tables, `decide`); under Φ the gap-free diagonal of (s,s) strictly beats every other valid "
        "column list even under the most favourable reading of its gap costs (C08_diag_unique_opt, also scaled for groups); if every merge uses the diagonal the final rows are the "
        "input strings for any tree (C08_identical_msa_nogaps). That the modelled Hirschberg controller returns the diagonal on identical operands is proved from C07's optimality "
        "theorems (Props/C08Opt: C08_identical_pair_diag for a pair, C08_identical_groups_diag / _seq_group_ / _group_seq_ for k vs m copies, both entry points; "
        "C08_identical_pair_diag_table instantiates it on a regenerated table row via a decidable per-sequence check). Search: all-identical inputs (IUPAC, all-N, all-X, "
        "homopolymers), 2..500 copies, lengths to 5000, all types, threads 1..16, both APIs.",
   note="Direct proof (Props/C08Direct): by induction on the Hirschberg recursion for (seq, seq) the controller returns the diagonal for EVERY generated default row over every code that "
        "can occur (C08_diagCondD_tables by decide +kernel: protein incl. X, divergent protein, RNA / nucleotide-undefined, DNA-internal, plain DNA with tgpe = 0), exact carrier, no length "
        "bound, also for groups of copies; on binary32 (SoftF32, tied bit-for-bit to C float) for the dyadic rows with length bounds (C08DirectSoft, C08Soft_*). The older C08Opt margin hypothesis fails for sequences containing the wildcard code 22 (self score -1) and for the DNA row with tgpe = 0: there the diagonal is only searched "
        "end to end (all-N / all-X / IUPAC streams), not proved. Exact carrier (A-float). User penalties are outside the property.",
   technique="Lean 4 combinatorial inequality over regenerated matrices; end-to-end oracle",
   ref="4 C08")
CLAIMED["C17"] = dict(
   text="Lean theorems: compare_pair's six counters equal the cardinalities of the specification relations, score = 100*|rel R ∩ rel T|/|rel R| (exact rational), 0 <= score <= 100, "
        "score 100 for alignments equal up to row order and all-gap columns, invariance under row permutations for uniquely named NUL-free names. Tie: unit correspondence of "
        "compare_pair / kalign_msa_compare (counters and binary32 score bits); oracle: independent set-based implementation of the definition on generated pairs.",
   note="binary32 narrowing of the score is tied by correspondence only. Inputs outside the premise (different sequence sets, gap-free files) are outside the property.",
   technique="Lean 4 counting proofs + sort uniqueness; differential correspondence; independent-definition oracle",
   ref="4 C17")

CLAIMED["C11"] = dict(
   text="Lean model of bpm_block (blocks, carries, wildcard padding, W extra text columns, the provably dead Ukkonen band), bpm (64-bit) and bpm_256 (AVX2 lanes), tied "
        "bit-for-bit to the C routines. Theorems (all stages, no partial): Sellers' recurrence = min over substrings of Levenshtein distance; Myers cell rule; one block step "
        "with carry (carry identity proved at any width, no bv_decide); C11_bpm_block_correct: bpmBlock t p = levSub (p.take 1024) t for any text over the 13 symbols; "
        "C11_bpm64_correct, C11_bpm256_correct; the 256-bit add/shift lane emulations equal the wide operations. Oracle: real routines vs an independent plain DP in the "
        "harness on exhaustive small pairs and random pairs around every multiple of 64 and the caps, AVX2 and non-AVX2 builds; the kernels called from 4-16 threads at once against the value each pair gets alone.",
   note="Intel intrinsic semantics by specification; bpm_256 has UB (1 << 31 on int) for patterns >= 32 symbols - not used in production (BPM = bpm_block).",
   technique="Lean 4 proof of Myers' bit-vector algorithm (block variant) against Sellers/Levenshtein; three-way differential correspondence",
   ref="4 C11")
CLAIMED["C12"] = dict(
   text="Lean theorems: identical sequences are at raw distance 0 and a sequence that neither contains nor is contained in S (first 1024 symbols) at distance >= 1 "
        "(via the C11 spec); UPGMA clade theorem over exact arithmetic: with d = alpha inside C and >= alpha + 1/2 outside, fewer than 100 leaves, every join touching C "
        "before C is complete stays inside C (C12_upgma_clade_100), hence the copies form a clade (C12_copies_form_clade); identical groups align on the diagonal (C08) and "
        "move together afterwards (C10). Tie: bit-exact correspondence of calc_distance, the distance matrix, upgma and the whole n<100 guide tree; exact-vs-binary32 UPGMA "
        "agreement measured on margin-safe inputs. Oracle: duplicate groups in sets of 2..99 under the containment premise (independent substring test on full and reduced alphabet).",
   note="The guide-tree part is also proved on binary32 itself (Props/C12Soft: C12Soft_copies_form_clade / C12Soft_smallTree_clade over the SoftF32 twins of the distance matrix "
        "and UPGMA, tied bit-for-bit to the C routines by dist_matrix_soft / upgma_soft / tree_soft), so no float assumption is left there. For sequences longer than 1024 symbols the theorem needs non-containment of the 1024-prefixes (bpm_block's cap); "
        "the end-to-end claim for such inputs is searched, not proved.",
   technique="Lean 4 invariant proof over UPGMA iterations + C11 spec; differential correspondence; duplicate-rows oracle",
   ref="4 C12")

PENDING = {}

def main():
    props = [json.loads(l) for l in open(os.path.join(V, "properties.jsonl"))]
    hooks_commits = []
    try:
        out = subprocess.check_output(["git", "-C", "/repo", "log", "--format=%h %s"]).decode().splitlines()
        hooks_commits = [l.split()[0] for l in out if l.split(" ", 1)[1].startswith("verif hooks")]
    except Exception:
        pass
    checks, na = [], []
    for p in props:
        i = p["id"]
        if i in CLAIMED:
            c = CLAIMED[i]
            checks.append(dict(property_id=i,
                               quick_cmd="python3 tools/check.py %s --tier quick" % i,
                               thorough_cmd="python3 tools/check.py %s --tier thorough" % i,
                               evidence_file="evidence/%s.json" % i,
                               replay_cmd_template="python3 tools/check.py %s --replay {path}" % i,
                               engine="lean-model+kvh-harness",
                               level_claimed=dict(category=c.get("category", "proof"), text=c["text"], design_ref="DESIGN.md section 3 (" + c["ref"].split()[-1] + ")"),
                               level_note=c["note"], technique=c["technique"]))
        else:
            na.append(dict(property_id=i, reason=PENDING.get(i, "check not built yet in this round (work in progress; no technique switch intended)")))
    m = dict(version=1,
             setup_cmd="python3 tools/setup.py",
             hooks=dict(guard="KALIGN_VERIF",
                        enable="checks compile /repo/lib/src/*.c and src/*.c themselves (gcc, ASan/UBSan, -fopenmp) with -DKALIGN_VERIF into the harness kvh; the hook callback pointer kalign_verif_cb is defined by the harness",
                        baseline_off_cmd="sh tools/baseline_off.sh",
                        source_commits=hooks_commits, add_only=True),
             engines=[dict(name="lean-model", path="lean/", serves_properties=sorted(CLAIMED), kind_free_text="Lean 4 model + theorems (core Lean, no Mathlib), lean_exe driver kmodel"),
                      dict(name="kvh-harness", path="harness/", serves_properties=sorted(CLAIMED), kind_free_text="C harness calling the real kalign code in-process; line protocol shared with kmodel")],
             checks=checks, not_applicable=na,
             notes="All checks: python3 tools/check.py <id> --tier quick|thorough; honours VERIF_SEED. Known findings / fixed defects: known_findings.json.")
    json.dump(m, open(os.path.join(V, "MANIFEST.json"), "w"), indent=1)
    print("claimed:", sorted(CLAIMED), "not_applicable:", [x["property_id"] for x in na])

if __name__ == "__main__":
    main()
