#!/usr/bin/env python3
"""dp_fallthrough.py [seed] [n]: search for inputs on which aln_runner (serial call without `return`, then fall-through)
and aln_runner_serial produce different paths in the real code.  Every dp_runner op is run through both entry points."""
import os, sys
sys.path.insert(0, os.path.dirname(os.path.abspath(__file__)))
from lib import common as C
import gen_dp


def main():
    seed = int(sys.argv[1]) if len(sys.argv) > 1 else 1
    n = int(sys.argv[2]) if len(sys.argv) > 2 else 2000
    g = gen_dp.G(seed)
    ops = []
    while len(ops) < 2 * n:
        o = g.op_runner(big=0.02)
        t = o.split(" ")
        if g.r.random() < 0.5:   # force absurd penalties on half of the ss runs
            if t[2] == "ss":
                for k in (5, 6, 7):
                    if g.r.random() < 0.6:
                        t[k] = g.r.choice(gen_dp.SPECIAL)
        t[-1] = "0"
        t[1] = "par"; ops.append(" ".join(t))
        t[1] = "ser"; ops.append(" ".join(t))
    kvh = C.build_harness("asan")
    rc, out, err = C.run_lines(kvh, ops, env=C.SAN_ENV, timeout=3000)
    ndiff = ntr = nminus = 0
    for i in range(0, len(ops), 2):
        a, b = out[i].split(" "), out[i + 1].split(" ")
        if len(a) < 2:
            continue
        if ";-1:-1:" in a[1] or a[1].endswith(":-1:-1:ff7fffff") or ":-1:-1:" in a[1]:
            nminus += 1
        if a[1] != b[1]:
            ntr += 1
        if a[0] != b[0]:
            ndiff += 1
            print("PATH DIFFERS\n  %s\n  par: %s\n  ser: %s" % (ops[i][:400], out[i][:400], out[i + 1][:400]))
    print("%d pairs, %d with a transition -1, %d with different meetup traces (fall-through re-ran the body), %d with different paths"
          % (len(ops) // 2, nminus, ntr, ndiff))


if __name__ == "__main__":
    main()
