#!/bin/sh
# pinned test suite with the verification guard OFF (plain cmake build of /repo's working tree)
set -e
REPO=${KALIGN_REPO:-/repo}
B=$(mktemp -d /tmp/kalign_baseline.XXXXXX)
trap 'rm -rf "$B"' EXIT
cmake -G Ninja -S "$REPO" -B "$B" >"$B/cmake.log" 2>&1 || { cat "$B/cmake.log"; exit 2; }
cmake --build "$B" >"$B/build.log" 2>&1 || { tail -50 "$B/build.log"; exit 2; }
ctest --test-dir "$B" -j8 --timeout 900 </dev/null
