#!/usr/bin/env python3
"""gen_kmeans.py <seed> [scale] : op lines for the k-means guide-tree slice (harness/ops_kmeans.c), written to stdout.
Seeded, no other source of randomness.  `scale` (default 1) multiplies the number of ops of every kind.

Matrices (numseq x num_anchors binary32, given as bit patterns): clustered "distance + length bonus" values like the
ones d_estimation produces (integer edit distance + min(10000,(l1+l2)/2)/10000), small integer values (many exact ties),
all rows identical, two identical halves, values for which |dl - dr| < 1e-6 (tiny magnitudes, mirror-symmetric rows,
1-ulp perturbations), uniform random, matrices with inf/NaN/denormal entries, matrices with +inf entries only (these run
into the 500-iteration cap of split2), and two curated inputs on which all ten rounds of bisecting_kmeans improve `best`.  100..600 samples, 1..32 anchors."""
import random, struct, sys


def f32(x):
    """round a python float to binary32"""
    return struct.unpack("<f", struct.pack("<f", x))[0]


def bits(x):
    return "%08x" % struct.unpack("<I", struct.pack("<f", x))[0]


def vec(xs):
    return "".join(w if isinstance(w, str) else bits(w) for w in xs) if xs else "-"


def ints(xs):
    return ",".join(str(x) for x in xs) if xs else "-"


SPECIAL = ["7f800000", "ff800000", "7fc00000", "ffc00000", "00000001", "80000000", "00000000", "7f7fffff", "ff7fffff", "3f800000", "00800000"]


def nextafter32(x, up=True):
    (w,) = struct.unpack("<I", struct.pack("<f", x))
    if x == 0.0:
        return struct.unpack("<f", struct.pack("<I", 1 if up else 0x80000001))[0]
    if (x > 0) == up:
        w += 1
    else:
        w -= 1
    return struct.unpack("<f", struct.pack("<I", w))[0]


def matrix(rng, kind, n, na):
    """list of n rows of na entries (python floats that are exact binary32 values, or hex strings)"""
    def lenbonus():
        return min(10000.0, rng.randint(20, 900)) / 10000.0
    if kind == "clusters":
        k = rng.randint(2, 7)
        centres = [[rng.randint(0, 300) for _ in range(na)] for _ in range(k)]
        spread = rng.choice([0, 1, 3, 10, 40])
        rows = []
        for i in range(n):
            c = centres[rng.randrange(k)]
            lb = lenbonus()
            rows.append([f32(f32(float(max(0, v + rng.randint(-spread, spread)))) + lb) for v in c])
        return rows
    if kind == "ties":
        hi = rng.choice([1, 2, 3])
        return [[float(rng.randint(0, hi)) for _ in range(na)] for _ in range(n)]
    if kind == "identical":
        r = [f32(rng.uniform(0, 200)) for _ in range(na)]
        return [list(r) for _ in range(n)]
    if kind == "halves":
        base = matrix(rng, rng.choice(["clusters", "ties", "uniform"]), (n + 1) // 2, na)
        rows = [list(r) for r in base] + [list(r) for r in base]
        return rows[:n]
    if kind == "twopoints":
        a = [f32(rng.uniform(0, 50)) for _ in range(na)]
        b = [f32(rng.uniform(0, 50)) for _ in range(na)]
        pat = rng.choice(["alt", "blocks", "rand"])
        rows = []
        for i in range(n):
            pick = (i % 2 == 0) if pat == "alt" else (i < n // 2) if pat == "blocks" else (rng.random() < .5)
            rows.append(list(a if pick else b))
        return rows
    if kind == "tiny":
        s = rng.choice([1e-7, 1e-6, 3e-6, 1e-5])
        return [[f32(rng.uniform(0, s)) for _ in range(na)] for _ in range(n)]
    if kind == "mirror":
        # rows c +- d: the two centres are mirror images of each other about the mean
        c = [f32(rng.uniform(10, 100)) for _ in range(na)]
        rows = []
        for i in range(n):
            d = [f32(rng.choice([0.0, 0.5, 1.0, 2.0])) for _ in range(na)]
            sgn = 1.0 if i % 2 == 0 else -1.0
            rows.append([f32(cv + sgn * dv) for cv, dv in zip(c, d)])
        return rows
    if kind == "ulp":
        r = [f32(rng.uniform(0.5, 4.0)) for _ in range(na)]
        rows = []
        for i in range(n):
            row = list(r)
            for _ in range(rng.randint(0, 3)):
                j = rng.randrange(na)
                row[j] = nextafter32(row[j], rng.random() < .5)
            rows.append(row)
        return rows
    if kind == "uniform":
        return [[f32(rng.uniform(0, 1000)) for _ in range(na)] for _ in range(n)]
    if kind == "inf":
        # +inf entries (no NaN): cmp_floats(inf, inf) != 0, so split2 never sees its centres settle and runs into the
        # 500-iteration cap
        rows = matrix(rng, rng.choice(["clusters", "uniform"]), n, na)
        for _ in range(rng.randint(1, 3)):
            rows[rng.randrange(n)][rng.randrange(na)] = "7f800000"
        return rows
    if kind == "special":
        rows = matrix(rng, rng.choice(["clusters", "uniform", "ties"]), n, na)
        for _ in range(rng.randint(1, 6)):
            rows[rng.randrange(n)][rng.randrange(na)] = rng.choice(SPECIAL)
        return rows
    raise ValueError(kind)


# Curated "staircase" inputs (found once with the harness, reproducible from the constants below): a uniform random matrix
# whose rows are ordered so that the seed positions 0, 4*step, 8*step, ... hold samples with strictly decreasing split
# scores.  Every one of the ten rounds of bisecting_kmeans then improves `best` (the loop ends by `i < tries`, not by the
# early exit).  Breaking the chain at round r (swapping that seed with its non-seed neighbour) gives an early exit there.
STAIRCASE = {
    6: [71, 92, 57, 72, 27, 11, 82, 48, 84, 52, 78, 51, 68, 8, 83, 58, 93, 99, 41, 50, 65, 18, 91, 112, 1, 30, 64, 16, 67, 7, 96, 88, 0, 101, 2, 14, 9, 33, 40, 39, 13, 29, 110, 73, 74, 36, 80, 106, 59, 28, 76, 55, 54, 26, 42, 35, 98, 4, 114, 22, 31, 38, 46, 81, 43, 63, 90, 75, 108, 95, 37, 100, 104, 118, 17, 5, 66, 85, 44, 47, 113, 20, 3, 32, 12, 107, 109, 56, 119, 70, 53, 115, 79, 89, 117, 19, 34, 25, 49, 69, 62, 97, 23, 105, 21, 77, 103, 6, 10, 45, 87, 116, 94, 24, 111, 60, 102, 15, 61, 86],
    8: [27, 39, 81, 34, 87, 82, 3, 92, 71, 105, 97, 36, 62, 38, 102, 78, 110, 64, 12, 100, 6, 116, 107, 23, 117, 11, 52, 67, 9, 79, 98, 46, 5, 2, 63, 111, 65, 20, 101, 47, 118, 25, 68, 77, 109, 17, 29, 41, 14, 60, 72, 84, 53, 83, 8, 45, 89, 50, 103, 94, 37, 54, 73, 106, 93, 119, 86, 88, 80, 49, 58, 66, 112, 21, 15, 40, 16, 61, 104, 48, 19, 57, 44, 7, 42, 22, 74, 114, 90, 70, 56, 85, 1, 75, 91, 43, 35, 108, 30, 95, 113, 4, 18, 31, 0, 99, 55, 32, 28, 76, 33, 13, 10, 24, 51, 115, 26, 69, 59, 96],
}


def staircase(S, break_round=None):
    rng = random.Random(S)
    rng.choice(["uniform", "clusters"])          # (the calls made when the case was found)
    n = rng.choice([100, 120, 160])
    na = rng.choice([2, 3, 5, 8, 32])
    rows = matrix(rng, "uniform", n, na)
    order = list(STAIRCASE[S])
    if break_round is not None:
        p = 4 * break_round * (n // 40)
        order[p], order[p + 1] = order[p + 1], order[p]
    return n, na, [rows[i] for i in order]


KINDS = ["clusters", "ties", "identical", "halves", "twopoints", "tiny", "mirror", "ulp", "uniform", "special", "inf"]


def rows_tokens(rows):
    return " ".join(vec(r) for r in rows)


def main():
    seed = int(sys.argv[1])
    scale = float(sys.argv[2]) if len(sys.argv) > 2 else 1.0
    rng = random.Random(seed * 7919 + 17)
    out = []

    def rep(k):
        return max(1, int(round(k * scale)))

    # ---- edist
    for _ in range(rep(150)):
        n = rng.choice([0, 1, 2, 7, 8, 9, 15, 16, 17, 31, 32, 33, 64]) if rng.random() < .6 else rng.randint(0, 70)
        mode = rng.choice(["uni", "int", "big", "special", "close"])
        def val():
            if mode == "uni":
                return f32(rng.uniform(-100, 100))
            if mode == "int":
                return float(rng.randint(0, 400))
            if mode == "big":
                return f32(rng.uniform(-1, 1) * 10 ** rng.randint(-30, 30))
            if mode == "special":
                return rng.choice(SPECIAL) if rng.random() < .2 else f32(rng.uniform(-5, 5))
            return f32(rng.uniform(1, 2))
        a = [val() for _ in range(n)]
        b = [(x if (mode == "close" and rng.random() < .7) else val()) for x in a]
        op = rng.choice(["edist256", "edist_serial"])
        out.append("%s %s %s" % (op, vec(a), vec(b)))
        if op == "edist256":
            out.append("edist_serial %s %s" % (vec(a), vec(b)))
    for _ in range(rep(40)):
        cap = rng.choice([0, 8, 16, 24, 40])
        ln = rng.randint(0, cap + 9)
        a = [f32(rng.uniform(-10, 10)) for _ in range(cap + rng.choice([0, 0, 1, 7]))]
        b = [f32(rng.uniform(-10, 10)) for _ in range(cap + rng.choice([0, 0, 3, 8]))]
        out.append("edist256p %d %s %s" % (ln, vec(a), vec(b)))

    # ---- pick_anchor
    for _ in range(rep(60)):
        n = rng.choice([1, 2, 3, 31, 32, 33, 63, 64, 65, 100]) if rng.random() < .4 else rng.randint(1, 700)
        mode = rng.choice(["equal", "few", "few", "rand", "sorted", "rsorted"])
        if mode == "equal":
            lens = [rng.randint(0, 50)] * n
        elif mode == "few":
            pool = [rng.randint(0, 500) for _ in range(rng.randint(2, 5))]
            lens = [rng.choice(pool) for _ in range(n)]
        else:
            lens = [rng.randint(0, 2000) for _ in range(n)]
            if mode == "sorted":
                lens.sort()
            if mode == "rsorted":
                lens.sort(reverse=True)
        out.append("pick_anchor %s" % ints(lens))
    out.append("pick_anchor -")

    # ---- split2 on arbitrary sample lists (small ones, odd counts, duplicates, faults)
    for _ in range(rep(80)):
        kind = rng.choice(KINDS)
        nrows = rng.choice([1, 2, 3, 4, 5, 7, 10, 33, 101, 150])
        na = rng.choice([1, 2, 7, 8, 9, 16, 31, 32, rng.randint(1, 32)])
        rows = matrix(rng, kind, nrows, na)
        r = rng.random()
        if r < .5:
            smp = list(range(nrows))
        elif r < .8:
            smp = rng.sample(range(nrows), rng.randint(1, nrows))
        else:
            smp = [rng.randrange(nrows) for _ in range(rng.randint(1, nrows + 3))]
        seedp = rng.randrange(len(smp))
        r = rng.random()
        if r < .04:
            seedp = len(smp) + rng.randint(0, 2)
        elif r < .08:
            smp[rng.randrange(len(smp))] = nrows + rng.randint(0, 3)
        elif r < .10:
            smp = []
            seedp = 0
        op = "split2" if rng.random() < .7 else "split2_serial"
        out.append("%s %d %d %s %s" % (op, na, seedp, ints(smp), rows_tokens(rows)))

    # ---- whole trees: the same matrix with the default team, 1 thread, 8 threads and (sometimes) the non-AVX copy
    for kind in KINDS:
        for _ in range(rep(2)):
            heavy = kind in ("special", "tiny", "ulp", "inf")
            n = rng.randint(100, 140) if heavy else rng.choice([100, 101, 199, 200, 201, 400, 600, rng.randint(100, 600), rng.randint(100, 600)])
            na = rng.choice([1, 8, 31, 32, 32, 32, rng.randint(1, 32)])
            rows = rows_tokens(matrix(rng, kind, n, na))
            out.append("kmeans_tree %d %d %s" % (n, na, rows))
            out.append("kmeans_tree_t 1 %d %d %s" % (n, na, rows))
            out.append("kmeans_tree_t 8 %d %d %s" % (n, na, rows))
            if rng.random() < .5:
                out.append("kmeans_tree_serial %d %d %s" % (n, na, rows))
    for S in sorted(STAIRCASE):
        for br in [None] + rng.sample(range(1, 10), 2):
            n, na, rows = staircase(S, br)
            rows = rows_tokens(rows)
            out.append("kmeans_tree %d %d %s" % (n, na, rows))
            out.append("kmeans_tree_t 8 %d %d %s" % (n, na, rows))
            out.append("kmeans_tree_serial %d %d %s" % (n, na, rows))
    # fewer than 100 sequences: the stand-in alone
    for n in (1, 2, 3, 50, 99):
        out.append("kmeans_tree %d %d %s" % (n, min(n, 32), rows_tokens(matrix(rng, "uniform", n, min(n, 32)))))
    sys.stdout.write("\n".join(out) + "\n")


if __name__ == "__main__":
    main()
