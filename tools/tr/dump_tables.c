/* T1: tables by execution. Compiled against /repo's aln_param.c, alphabet.c, tldevel.c on every run. */
#include <stdio.h>
#include <stdlib.h>
#include <string.h>
#include <stdint.h>
#include "tldevel.h"
#include "aln_param.h"
#include "alphabet.h"

static void pf(float v)
{
        char buf[64];
        for(int p = 1; p <= 9; p++){
                snprintf(buf, sizeof buf, "%.*g", p, (double)v);
                if(strtof(buf, NULL) == v) break;
        }
        union { float f; uint32_t u; } x; x.f = v;
        printf("%s:%08x", buf, x.u);
}

int main(void)
{
        int types[] = {-1, 0, 1, 2, 3, 4, 5, 6, 99};
        for(int bt = 0; bt <= 2; bt++){
                for(unsigned k = 0; k < sizeof(types)/sizeof(types[0]); k++){
                        struct aln_param *ap = NULL;
                        int rc = aln_param_init(&ap, bt, 1, types[k], -1.0f, -1.0f, -1.0f);
                        printf("PARAM %d %d %d", bt, types[k], rc);
                        if(rc == OK && ap){
                                printf(" "); pf(ap->gpo); printf(" "); pf(ap->gpe); printf(" "); pf(ap->tgpe);
                                for(int i = 0; i < 23; i++) for(int j = 0; j < 23; j++){ printf(" "); pf(ap->subm[i][j]); }
                                aln_param_free(ap);
                        }
                        printf("\n");
                }
        }
        int ids[] = {ALPHA_defPROTEIN, ALPHA_ambigiousPROTEIN, ALPHA_defDNA, ALPHA_redPROTEIN, ALPHA_redPROTEIN2};
        for(unsigned k = 0; k < 5; k++){
                struct alphabet *a = create_alphabet(ids[k]);
                if(!a){ printf("ALPHA %d FAIL\n", ids[k]); continue; }
                printf("ALPHA %d %d", ids[k], a->L);
                for(int i = 0; i < 128; i++) printf(" %d", a->to_internal[i]);
                printf("\n");
                free(a);
        }
        return 0;
}
