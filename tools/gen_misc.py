#!/usr/bin/env python3
"""gen_misc.py <seed> [n_per_kind] : op lines for the slice-H ops (compare_pair, msa_compare, sort_len_name,
cmp_len_name, essential_check, essential_check1), written to stdout.  Seeded, no other source of randomness.

gen_misc.py --oracle <seed> [n] : additionally runs the real code (kvh) on the msa_compare lines whose two
alignments hold the same uniquely named sequences and compares the six counters and the score with an independent
set-based implementation of the definition (`rel`, 100*|rel R & rel T|/|rel R|)."""
import os, random, struct, sys

sys.path.insert(0, os.path.dirname(os.path.abspath(__file__)))

AA = "ACDEFGHIKLMNPQRSTVWYacgtnxBZX"
GAPS = "-----....*~_0#"


def hexname(b):
    return b.hex() if b else "-"


def rand_residues(rng, n):
    return "".join(rng.choice(AA) for _ in range(n))


def gapped(rng, res, width, gapchars="-"):
    """place the residues of `res` in order into a row of `width` columns"""
    cols = sorted(rng.sample(range(width), len(res)))
    if width == 1:
        gapchars = "-"          # the one-character token "." denotes the empty row
    row = [rng.choice(gapchars) for _ in range(width)]
    for c, ch in zip(cols, res):
        row[c] = ch
    return "".join(row)


def rand_names(rng, k, flavour=None):
    """k pairwise distinct names (as bytes); several adversarial flavours"""
    flavour = flavour or rng.choice(["plain", "plain", "prefix", "common", "long", "high", "empty"])
    names = set()
    base = bytes(rng.randrange(33, 127) for _ in range(rng.randint(1, 6)))
    while len(names) < k:
        if flavour == "plain":
            nm = bytes(rng.randrange(33, 127) for _ in range(rng.randint(1, 8)))
        elif flavour == "prefix":      # names that are prefixes of each other
            nm = (base * 24)[:rng.randint(0 if rng.random() < .2 else 1, 20)]
        elif flavour == "common":      # long common prefix, differ late (before byte 256)
            nm = base * 30 + bytes([rng.randrange(33, 127)]) + bytes(rng.randrange(33, 127) for _ in range(rng.randint(0, 3)))
        elif flavour == "long":        # long runs of one byte (around 256), long tails
            nm = bytes([rng.randrange(33, 127)]) * rng.randint(200, 256) + bytes(rng.randrange(33, 127) for _ in range(rng.randint(0, 40)))
        elif flavour == "high":        # bytes >= 0x80 (strncmp compares unsigned char)
            nm = bytes(rng.choice([1, 127, 128, 200, 255, 65, 97]) for _ in range(rng.randint(1, 4)))
        else:
            nm = bytes(rng.randrange(33, 127) for _ in range(rng.randint(0, 2)))
        names.add(nm)
    names = list(names)
    rng.shuffle(names)
    return names


def aln_tokens(names, rows):
    return "%d %s" % (len(rows), " ".join("%s:%s" % (hexname(n), r if r else ".") for n, r in zip(names, rows)))


def insert_allgap(rng, rows, maxins=6):
    w = len(rows[0])
    for _ in range(rng.randint(0, maxins)):
        if w >= 120:
            break
        p = rng.randint(0, w)
        rows = [r[:p] + rng.choice(GAPS if w else "-") + r[p:] for r in rows]
        w += 1
    return rows


def rand_alignment(rng, k=None, maxw=120):
    k = k or rng.randint(2, 12)
    w = rng.randint(1, maxw)
    mode = rng.random()
    seqs = []
    for _ in range(k):
        if mode < 0.15:
            n = rng.randint(0, min(w, 3))
        elif mode < 0.3:
            n = w
        else:
            n = rng.randint(0, w)
        seqs.append(rand_residues(rng, n))
    gc = "-" if rng.random() < .6 else GAPS
    rows = [gapped(rng, s, w, gc) for s in seqs]
    return seqs, rows, w


def cmp_pair_case(rng, kind=None):
    """returns (names_R, rows_R, names_T, rows_T, same_sequences)"""
    kind = kind or rng.choice(["identical", "modgap", "perturbed", "unrelated", "foreign", "dupname", "count", "late", "narrow"])
    seqs, rows, w = rand_alignment(rng, maxw=rng.choice([4, 12, 40, 120]))
    k = len(rows)
    names = rand_names(rng, k)
    if kind == "identical":
        return names, rows, list(names), list(rows), True
    if kind == "modgap":
        perm = list(range(k)); rng.shuffle(perm)
        r2 = insert_allgap(rng, rows)
        t2 = insert_allgap(rng, rows)
        perm2 = list(range(k)); rng.shuffle(perm2)
        return [names[i] for i in perm2], [r2[i] for i in perm2], [names[i] for i in perm], [t2[i] for i in perm], True
    if kind == "perturbed":
        w2 = w
        t = list(rows)
        for i in rng.sample(range(k), rng.randint(1, k)):
            t[i] = gapped(rng, seqs[i], w2, GAPS)
        perm = list(range(k)); rng.shuffle(perm)
        return names, rows, [names[i] for i in perm], [t[i] for i in perm], True
    if kind == "unrelated":
        w2 = rng.randint(max(1, max(len(s) for s in seqs)), 120)
        t = [gapped(rng, s, w2, GAPS) for s in seqs]
        perm = list(range(k)); rng.shuffle(perm)
        return names, rows, [names[i] for i in perm], [t[i] for i in perm], True
    if kind == "narrow":   # zero-width / residue-free alignments
        w1, w2 = rng.choice([(0, 0), (0, 3), (3, 0), (2, 2)])
        return names, [rng.choice(GAPS) * w1] * k, list(names), [rng.choice(GAPS[:5]) * w2] * k, True
    if kind == "foreign":  # different sequences (residue counts differ): faults when the test row has more residues
        seqs2, rows2, _ = rand_alignment(rng, k)
        return names, rows, rand_names(rng, k) if rng.random() < .5 else list(names), rows2, False
    if kind == "count":    # different numbers of rows
        k2 = rng.randint(1, 12)
        seqs2, rows2, _ = rand_alignment(rng, k2)
        if rng.random() < .5:  # same residue counts as far as possible, so that only the row count decides
            rows2 = [gapped(rng, seqs[i % k], max(1, max(len(s) for s in seqs)), "-") for i in range(k2)]
        return names, rows, rand_names(rng, k2), rows2, False
    if kind == "late":     # distinct names that agree in their first 256 bytes (uniquely named since the strcmp repair)
        stem = bytes([rng.randrange(33, 127)]) * 256
        nm = list(names)
        i, j = rng.sample(range(k), 2)
        nm[i] = stem + b"A"; nm[j] = stem + rng.choice([b"B", b"", b"AA"])
        perm = list(range(k)); rng.shuffle(perm)
        t = insert_allgap(rng, rows) if rng.random() < .5 else [gapped(rng, s, len(rows[0]), GAPS) for s in seqs]
        return nm, rows, [nm[q] for q in perm], [t[q] for q in perm], True
    # dupname
    nm = list(names)
    i, j = rng.sample(range(k), 2)
    nm[j] = nm[i]
    if rng.random() < .5:
        return nm, rows, list(names), list(rows), False
    return names, rows, nm, list(rows), False


def msa_compare_op(case):
    nr, rr, nt, rt, _ = case
    return "msa_compare %s %s" % (aln_tokens(nr, rr), aln_tokens(nt, rt))


def compare_pair_op(rng):
    mode = rng.random()
    w1 = rng.randint(0 if rng.random() < .1 else 1, rng.choice([3, 10, 120]))
    w2 = rng.randint(0 if rng.random() < .1 else 1, rng.choice([3, 10, 120]))
    s1 = rand_residues(rng, rng.randint(0, min(w1, w2)))
    s2 = rand_residues(rng, rng.randint(0, min(w1, w2)))
    a1, a2 = gapped(rng, s1, w1, GAPS), gapped(rng, s2, w1, GAPS)
    if mode < .6:
        b1, b2 = gapped(rng, s1, w2, GAPS), gapped(rng, s2, w2, GAPS)
    elif mode < .8:     # fewer / more residues in B
        b1 = gapped(rng, rand_residues(rng, rng.randint(0, w2)), w2, GAPS)
        b2 = gapped(rng, rand_residues(rng, rng.randint(0, w2)), w2, GAPS)
    elif mode < .9:     # rows of one alignment of different width
        b1 = gapped(rng, s1, w2, GAPS)
        b2 = b1 + "-"
    else:
        a1, a2, b1, b2 = a1, a2, a1, a2
    f = lambda r: r if r else "."
    return "compare_pair %s %s %s %s" % (f(a1), f(a2), f(b1), f(b2))


def sort_items(rng):
    k = rng.randint(1, 14)
    flavour = rng.choice(["ties", "prefix", "common", "late", "empty", "high", "mixed", "alltie"])
    lens = [rng.randint(0, 4) if rng.random() < .7 else rng.randint(0, 1000) for _ in range(k)]
    if flavour == "ties":
        names = [bytes(rng.randrange(97, 100) for _ in range(rng.randint(0, 2))) for _ in range(k)]
        lens = [rng.randint(1, 2) for _ in range(k)]
    elif flavour == "alltie":
        names = [b"x"] * k
        lens = [5] * k
    elif flavour == "late":   # differ only after byte 256
        stem = bytes(rng.randrange(33, 127) for _ in range(256))
        names = [stem + bytes(rng.randrange(33, 127) for _ in range(rng.randint(0, 3))) for _ in range(k)]
        lens = [rng.randint(1, 2) for _ in range(k)]
    elif flavour == "mixed":
        names = [rng.choice(rand_names(rng, 3)) for _ in range(k)]
    else:
        names = rand_names(rng, k, flavour)
        if rng.random() < .5:
            lens = [7] * k
    return list(zip(lens, names))


def sort_op(rng):
    return "sort_len_name " + " ".join("%d:%s" % (l, hexname(n)) for l, n in sort_items(rng))


def cmp_op(rng):
    it = sort_items(rng)
    a, b = rng.choice(it), rng.choice(it)
    return "cmp_len_name %d:%s %d:%s" % (a[0], hexname(a[1]), b[0], hexname(b[1]))


def essential_op(rng):
    k = rng.randint(1, 12)
    p0 = rng.choice([0, .1, .5, .9, 1])
    lens = [0 if rng.random() < p0 else rng.randint(1, 300) for _ in range(k)]
    return "%s %s" % ("essential_check" if rng.random() < .8 else "essential_check1", " ".join(map(str, lens)))


MALFORMED = [
    "compare_pair A B C", "compare_pair A B C D E", "msa_compare 2 61:A 62:C 2 61:A", "msa_compare 2 61:A 62:CC 2 61:A 62:C",
    "msa_compare 0 0", "msa_compare 2 6:A 62:C 2 61:A 62:C", "msa_compare 2 00:A 62:C 2 61:A 62:C", "msa_compare 1 61:A 1 61:A x",
    "sort_len_name", "sort_len_name 3", "sort_len_name x:61", "sort_len_name 3:6", "sort_len_name 3:00", "cmp_len_name 3:61",
    "essential_check", "essential_check x", "essential_check -1 2", "essential_check1", "msa_compare 2 61:A:B 62:C 2 61:A 62:C",
]


def ops(rng, n=60):
    out = []
    for _ in range(n):
        out.append(compare_pair_op(rng))
    for kind in ["identical", "modgap", "perturbed", "unrelated", "foreign", "dupname", "count", "late", "narrow"]:
        for _ in range(max(1, n // 4)):
            out.append(msa_compare_op(cmp_pair_case(rng, kind)))
    for _ in range(n):
        out.append(sort_op(rng))
        out.append(cmp_op(rng))
    for _ in range(max(1, n // 2)):
        out.append(essential_op(rng))
    out.extend(MALFORMED)
    return out


# ---------------------------------------------------------------------------------------------
# independent oracle: the definition with Python sets
# ---------------------------------------------------------------------------------------------

def rel(names, rows):
    """{((s,p),(t,q or None))} for s != t"""
    out = set()
    cols = []
    for r in rows:
        idx, c = [], 0
        for ch in r:
            if ch.isascii() and ch.isalpha():
                idx.append(c); c += 1
            else:
                idx.append(None)
        cols.append(idx)
    for s, cs in zip(names, cols):
        for t, ct in zip(names, cols):
            if s == t:
                continue
            for col, p in enumerate(cs):
                if p is not None:
                    out.add(((s, p), (t, ct[col])))
    return out


def oracle_line(case):
    nr, rr, nt, rt, _ = case
    R, T = rel(nr, rr), rel(nt, rt)
    I = R & T
    al = lambda X: sum(1 for e in X if e[1][1] is not None)
    c = [al(R), len(R) - al(R), al(I), len(I) - al(I), al(T), len(T) - al(T)]
    den = len(R)
    if den == 0:
        bits = 0x7fc00000
    else:
        x = 100.0 * float(len(I)) / float(den)
        bits = struct.unpack("<I", struct.pack("<f", x))[0]
    return "0 %08x %s" % (bits, ",".join(map(str, c)))


def main():
    args = sys.argv[1:]
    oracle = False
    if args and args[0] == "--oracle":
        oracle = True; args = args[1:]
    seed = int(args[0]) if args else 1
    n = int(args[1]) if len(args) > 1 else 60
    rng = random.Random(seed)
    if not oracle:
        print("\n".join(ops(rng, n)))
        return 0
    from lib import common as C
    cases = []
    for kind in ["identical", "modgap", "perturbed", "unrelated", "narrow", "late"]:
        for _ in range(n):
            cases.append(cmp_pair_case(rng, kind))
    cases = [c for c in cases if len(set(c[0])) == len(c[0])]
    kvh = C.build_harness("asan")
    rc, outl, err = C.run_lines(kvh, [msa_compare_op(c) for c in cases], env=C.SAN_ENV)
    bad = 0
    for c, got in zip(cases, outl):
        want = oracle_line(c)
        if got != want:
            bad += 1
            if bad <= 5:
                print("ORACLE-DIFF %s\n  impl  : %s\n  oracle: %s" % (msa_compare_op(c)[:300], got, want))
    print("%d cases, %d oracle disagreements" % (len(cases), bad))
    return 1 if bad else 0


if __name__ == "__main__":
    sys.exit(main())
