#!/usr/bin/env python3
"""dp_stats.py <opsfile> : run the ops of the DP slice through the real code (kvh) and count what they hit:
result classes per op, meetup transitions (from dp_step / dp_meet results and the traces of dp_runner / dp_align),
controller branches derived from the traces (serial vs parallel body, degenerate returns of the children, zero-row
forward passes, the default branch of aln_continue)."""
import collections, os, sys
sys.path.insert(0, os.path.dirname(os.path.abspath(__file__)))
from lib import common as C


def children(sa, ea, sb, eb, c, t):
    mid = (ea - sa) // 2 + sa
    if t == 1:
        return [(sa, mid - 1, sb, c - 1), (mid + 1, ea, c + 1, eb)]
    if t == 2:
        return [(sa, mid - 1, sb, c - 1), (mid, ea, c + 1, eb)]
    if t == 3:
        return [(sa, mid - 1, sb, c - 1), (mid + 1, ea, c, eb)]
    if t == 5:
        return [(sa, mid, sb, c - 1), (mid + 1, ea, c + 1, eb)]
    if t == 6:
        return [(sa, mid - 1, sb, c), (mid + 1, ea, c, eb)]
    if t == 7:
        return [(sa, mid - 1, sb, c), (mid + 1, ea, c + 1, eb)]
    return []


def main():
    ops = [l.rstrip("\n") for l in open(sys.argv[1]) if l.strip()]
    kvh = C.build_harness("asan")
    rc, out, err = C.run_lines(kvh, ops, env=C.SAN_ENV, timeout=3000)
    cls = collections.Counter()
    trans = collections.Counter()
    br = collections.Counter()
    fams = collections.Counter()
    lens = collections.Counter()
    for op, o in zip(ops, out):
        tok = op.split(" ")
        name = tok[0]
        kind = o if o in ("bad-op", "fault", "param-fail") else "value"
        cls[(name, kind)] += 1
        if kind != "value":
            continue
        traces = []
        if name in ("dp_step", "dp_meet"):
            m, t, _ = o.split(" ")
            trans[("%s t=%s" % (name, t)) + (" @endb" if name == "dp_step" and int(m) == (int(tok[13]) if tok[13] != "L" else -1) else "")] += 1
            fams[(name, tok[1])] += 1
        if name in ("dp_fwd", "dp_bwd"):
            fams[(name, tok[1])] += 1
            sb = int(tok[12]); eb = tok[13]
            br["%s startb%s0 endb%slen_b" % (name, "=" if sb == 0 else ">", "=" if eb == "L" else "?")] += 1
        if name == "dp_runner":
            parts = o.split(" ")
            traces.append((tok[1], parts[1]))
            fams[(name + ":" + tok[1], tok[2])] += 1
            n = parts[0].count(",") + 1
            lens["runner len_a %s" % ("<500" if n < 500 else ">=500")] += 1
        if name == "dp_align":
            for part in o.split(" "):
                f = part.split("/")
                traces.append(("par", f[3]))
                codes = [int(x) for x in f[1].split(",")]
                for cde in set(codes):
                    br["gap-info code %d" % cde] += codes.count(cde)
        for entry, tr in traces:
            if tr == "-":
                br["runner returns at once (degenerate rectangle)"] += 1
                continue
            for e in tr.split(";"):
                sa, ea, sb, eb, c, t, _ = e.split(":")
                sa, ea, sb, eb, c, t = map(int, (sa, ea, sb, eb, c, t))
                trans["controller t=%d%s" % (t, " @endb" if c == eb else "")] += 1
                small = ea - sa < 500
                br["body via %s" % ("aln_runner_serial" if (small or entry == "ser") else "aln_runner (parallel body)")] += 1
                if (ea - sa) // 2 == 0:
                    br["forward pass with zero rows (mid == starta)"] += 1
                if t not in (1, 2, 3, 5, 6, 7):
                    br["aln_continue default branch (t=%d), enda-starta=%s" % (t, "1" if ea - sa == 1 else ">=2 (fall-through re-runs)")] += 1
                for k, (a0, a1, b0, b1) in enumerate(children(sa, ea, sb, eb, c, t)):
                    side = "left" if k == 0 else "right"
                    if a0 >= a1 and b0 >= b1:
                        br["%s child returns: a and b exhausted" % side] += 1
                    elif a0 >= a1:
                        br["%s child returns: starta>=enda only" % side] += 1
                    elif b0 >= b1:
                        br["%s child returns: startb>=endb only" % side] += 1
                    else:
                        br["%s child recurses" % side] += 1
                    if a1 < a0:
                        br["%s child with enda = starta-1" % side] += 1
                    if b1 < b0:
                        br["%s child with endb = startb-1" % side] += 1
    for title, cnt in (("result classes", cls), ("operand families", fams), ("lengths", lens), ("transitions", trans), ("branches", br)):
        print("== " + title)
        for k in sorted(cnt, key=str):
            print("  %-70s %d" % (k, cnt[k]))
    if rc != 0:
        print("kvh exit code", rc, err[-2000:])


if __name__ == "__main__":
    main()
