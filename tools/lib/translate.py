"""Translators: regenerate KalignModel/Gen/*.lean from /repo's current sources (DESIGN.md 2.2)."""
import os
from . import common as C


def write_if_changed(path, txt):
    old = open(path).read() if os.path.exists(path) else None
    if old != txt:
        os.makedirs(os.path.dirname(path), exist_ok=True)
        with open(path + ".tmp", "w") as f:
            f.write(txt)
        os.replace(path + ".tmp", path)
        return True
    return False


def run(ctx=None):
    with C.LakeLock():
        pass
    return {}
