"""System-level runs of the real pipeline through the harness (`run` / `kalign_arr` ops)."""
import os, re
from concurrent.futures import ThreadPoolExecutor
from . import common as C
from . import gen

TYPES = {"dna": 0, "internal": 1, "rna": 2, "protein": 3, "divergent": 4, "undef": 5}


class Case:
    """one end-to-end run: records -> alignment"""
    _n = 0

    def __init__(self, records, type_=5, gpo=-1, gpe=-1, tgpe=-1, threads=1, fmt="fasta", api="file",
                 evlog=False, jitter=0, infiles=None, intext=None, tag=""):
        Case._n += 1
        self.id = Case._n
        self.records, self.type, self.gpo, self.gpe, self.tgpe = records, type_, gpo, gpe, tgpe
        self.threads, self.fmt, self.api, self.want_ev, self.jitter = threads, fmt, api, evlog, jitter
        self.infiles, self.intext, self.tag = infiles, intext, tag
        self.status = None
        self.rows = None
        self.outtext = None
        self.events = None
        self.stderr = ""
        self.crashed = False

    def describe(self):
        small = sum(len(n) + len(q) for n, q in self.records) <= 3000000      # a replay must be able to re-run the case: keep the whole input unless it is huge
        return dict(records=self.records if small else self.records[:40] + [("...", "%d more" % (len(self.records) - 40))],
                    type=self.type, gpo=self.gpo, gpe=self.gpe, tgpe=self.tgpe,
                    threads=self.threads, fmt=self.fmt, api=self.api, jitter=self.jitter, tag=self.tag,
                    intext=self.intext, status=self.status, stderr_tail=self.stderr[-1500:])

    def key(self):
        return (tuple(self.records), self.type, self.gpo, self.gpe, self.tgpe, self.fmt, self.api)


def _pen(x):
    return repr(float(x)) if x != -1 else "-1"


def run_cases(kvh, cases, env=None, timeout=900, par=None):
    """executes the cases; fills status/rows/outtext/events"""
    sc = C.scratch()
    d = os.path.join(sc, "cases")
    os.makedirs(d, exist_ok=True)
    par = par or max(1, min(C.NCPU, len(cases)))
    chunks = [cases[i::par] for i in range(par)]
    env = dict(C.SAN_ENV if env is None else env)

    def prep(c):
        base = os.path.join(d, "c%d" % c.id)
        c._out = base + ".out"
        c._ev = base + ".ev" if c.want_ev else "-"
        if c.api == "arr":
            seqs = [s if s else "." for _, s in c.records]
            return "kalign_arr %d %s %s %s %d %s %d %s" % (c.type, _pen(c.gpo), _pen(c.gpe), _pen(c.tgpe), c.threads,
                                                            c._ev, c.jitter, " ".join(seqs))
        if c.infiles is None:
            inp = base + ".in"
            with open(inp, "w", encoding=getattr(c, "enc", None)) as f:
                f.write(c.intext if c.intext is not None else gen.fasta_text(c.records))
            files = [inp]
        else:
            files = []
            for k, txt in enumerate(c.infiles):
                p = "%s.in%d" % (base, k)
                with open(p, "wb") as f:
                    f.write(txt if isinstance(txt, bytes) else txt.encode(getattr(c, "enc", None) or "utf-8"))
                files.append(p)
        return "run %s %s %d %s %s %s %d %s %d %s" % (c._out, c.fmt, c.type, _pen(c.gpo), _pen(c.gpe), _pen(c.tgpe),
                                                     c.threads, c._ev, c.jitter, " ".join(files))

    def work(chunk):
        if not chunk:
            return
        lines = [prep(c) for c in chunk]
        rc, out, err = C.run_lines(kvh, lines, env=env, timeout=timeout)
        for i, c in enumerate(chunk):
            c.stderr = err[-6000:]
            if i < len(out) and out[i] != "":
                c.status = out[i]
            else:
                c.status = None
                c.crashed = True
                c.stderr = err
                # a crash kills the rest of the chunk: rerun the remaining ones separately
                rest = chunk[i + 1:]
                if rest:
                    work(rest)
                break
        for c in chunk:
            if c.status is None:
                continue
            if c.api == "arr":
                m = re.match(r"rc=(\d+) len=(-?\d+)(.*)$", c.status)
                c.rc = int(m.group(1))
                rows = m.group(3).split()
                ne = [n for n, s in c.records if s]
                c.rows = list(zip(ne, ["" if r == "." else r for r in rows])) if c.rc == 0 else None
            else:
                kv = dict(x.split("=") for x in c.status.split())
                c.kv = {k: int(v) for k, v in kv.items()}
                c.rc = 0 if (c.kv["read"] == 0 and c.kv["run"] == 0 and c.kv["write"] == 0) else 1
                if c.rc == 0 and os.path.exists(c._out):
                    c.outtext = open(c._out, encoding=getattr(c, "enc", None), errors="replace").read()
            if c.want_ev and c._ev != "-" and os.path.exists(c._ev):
                c.events = open(c._ev).read().split("\n")
            for p in (getattr(c, "_out", None), c._ev):
                if p and p != "-" and os.path.exists(p):
                    os.remove(p)

    with ThreadPoolExecutor(par) as ex:
        list(ex.map(work, chunks))
    return cases


def parse_output(c):
    """rows (name,row) of a file-API case using the independent parsers"""
    if c.api == "arr":
        return c.rows
    if c.outtext is None:
        return None
    # an output the independent parser cannot read is a result like any other (it will differ from every expectation); it must never take
    # the check machinery down
    try:
        if c.fmt.startswith("fa"):
            return gen.parse_fasta(c.outtext)
        if c.fmt.startswith("clu"):
            return gen.parse_clustal(c.outtext)[0]
        if c.fmt.startswith("msf"):
            return gen.parse_msf(c.outtext)[0]
    except Exception as ex:
        c.parse_error = str(ex)
        return [("<output of case %d not parseable as %s: %s>" % (c.id, c.fmt, str(ex)[:200]), "")]
    return None


def parse_nd(events):
    """ND events -> list of dict(task,a,b,len_a,len_b,codes,A=[(rank,gaps)],B=[...]) in log order"""
    out = []
    for ln in events or []:
        if not ln.startswith("ND "):
            continue
        head, *sides = ln.split(" | ")
        t = head.split()
        codes = [] if t[7] == "-" else [int(x) for x in t[7].split(",")]
        mem = []
        for s in sides:
            ms = []
            for tok in s.split():
                r, g = tok.split(":")
                ms.append((int(r), [int(x) for x in g.split(",")]))
            mem.append(ms)
        out.append(dict(task=int(t[2]), a=int(t[3]), b=int(t[4]), len_a=int(t[5]), len_b=int(t[6]), codes=codes,
                        A=mem[0], B=mem[1]))
    return out
