"""Shared machinery of the kalign verification checks.

Everything here derives its paths from __file__ (checks are also run from snapshots of /verif).
Scratch space lives under a per-run mkdtemp outside /repo and /verif and is removed at exit.
"""
import atexit, fcntl, hashlib, json, os, random, re, shutil, subprocess, sys, tempfile, time
from concurrent.futures import ThreadPoolExecutor

VERIF = os.path.dirname(os.path.dirname(os.path.dirname(os.path.abspath(__file__))))
REPO = os.environ.get("KALIGN_REPO") or "/repo"


def _ensure_dev_null():
    """a sandbox accident (someone unlinking /dev/null as root, after which `> /dev/null` creates a regular file) makes every
    `stdin=DEVNULL` child read garbage as an extra kalign input; put the character device back when we can, refuse to run otherwise"""
    import stat
    try:
        if stat.S_ISCHR(os.stat("/dev/null").st_mode):
            return
    except OSError:
        pass
    try:
        if os.path.lexists("/dev/null"):
            os.remove("/dev/null")
        os.mknod("/dev/null", 0o666 | stat.S_IFCHR, os.makedev(1, 3))
        os.chmod("/dev/null", 0o666)
    except OSError as ex:
        raise SystemExit("internal error: /dev/null is not a character device and cannot be repaired (%s)" % ex)


_ensure_dev_null()
LEAN = os.path.join(VERIF, "lean")
HARNESS = os.path.join(VERIF, "harness")
EVID = os.path.join(VERIF, "evidence")
REPLAYS = os.path.join(VERIF, "replays")
CORPUS = os.path.join(VERIF, "corpus")
GUARD = "KALIGN_VERIF"
NCPU = os.cpu_count() or 4

_scratch = None


def scratch():
    global _scratch
    if _scratch is None:
        base = os.environ.get("KVH_TMP", tempfile.gettempdir())
        _scratch = tempfile.mkdtemp(prefix="kvh_", dir=base)
        atexit.register(lambda: shutil.rmtree(_scratch, ignore_errors=True))
    return _scratch


def sh(cmd, timeout=600, cwd=None, env=None, input=None, check=False):
    """run a command with stdin closed (the kalign CLI blocks on a non-tty stdin)"""
    e = dict(os.environ)
    if env:
        e.update(env)
    kw = dict(stdout=subprocess.PIPE, stderr=subprocess.PIPE, cwd=cwd, env=e, timeout=timeout)
    if input is None:
        kw["stdin"] = subprocess.DEVNULL
    else:
        kw["input"] = input
    try:
        p = subprocess.run(cmd, **kw)
    except subprocess.TimeoutExpired as ex:
        class R:  # noqa
            returncode = -999
            stdout = ex.stdout or b""
            stderr = (ex.stderr or b"") + b"\nTIMEOUT"
        p = R()
    if check and p.returncode != 0:
        raise RuntimeError("command failed: %s\n%s" % (cmd, p.stderr.decode(errors="replace")[-4000:]))
    return p


# ----------------------------------------------------------------------------------------------
# building the real code
# ----------------------------------------------------------------------------------------------

def repo_version():
    txt = open(os.path.join(REPO, "CMakeLists.txt")).read()
    v = []
    for k in ("MAJOR", "MINOR", "PATCH"):
        m = re.search(r"KALIGN_LIBRARY_VERSION_%s\s+(\d+)" % k, txt)
        v.append(m.group(1) if m else "0")
    return ".".join(v)


def lib_sources():
    """library source list as lib/CMakeLists.txt states it (so that added/removed files follow the repo)"""
    txt = open(os.path.join(REPO, "lib", "CMakeLists.txt")).read()
    m = re.search(r"set\(source_files(.*?)\)", txt, re.S)
    out = []
    for ln in m.group(1).splitlines():
        ln = ln.strip()
        if ln.startswith("#") or not ln:
            continue
        if ln.endswith(".c"):
            out.append(os.path.join(REPO, "lib", ln))
    return out


# library files that are #included into a shim translation unit of the harness (to reach `static` functions)
SHIMS = {
    "msa_io.c": "shim_msa_io.c",
    "msa_cmp.c": "shim_msa_cmp.c",
    "msa_sort.c": "shim_msa_sort.c",
    "aln_run.c": "shim_aln_run.c",
    "bisectingKmeans.c": "shim_kmeans.c",
    "aln_controller.c": "shim_controller.c",
    "bpm.c": "shim_bpm.c",
    "weave_alignment.c": "shim_weave.c",
    "sequence_distance.c": "shim_seqdist.c",
}
# CLI sources reached through shims (src/run_kalign.c is #included by harness/shim_run_kalign.c)

# which shim files each op file needs (for the degraded build)
OPS_DEPS = {
    "ops_misc.c": ["shim_msa_cmp.c", "shim_msa_sort.c"],
    "ops_io.c": ["shim_msa_io.c"],
    "ops_dp.c": ["shim_controller.c", "shim_aln_run.c"],
    "ops_param.c": ["shim_run_kalign.c"],
    "ops_bpm.c": ["shim_kmeans.c", "shim_bpm.c", "shim_seqdist.c"],
    "ops_kmeans.c": ["shim_kmeans.c", "shim_kmeans_serial.c"],
    "ops_pipe.c": [],
    "ops_pipefile.c": ["shim_run_kalign.c"],
    "ops_cli.c": ["shim_run_kalign.c"],
    "ops_f32.c": [],
    "ops_weave.c": ["shim_weave.c"],
    "ops_ref.c": [],
    "ops_sys.c": [],
}
DEGRADED = {}
CURRENT_CTX = None

VARIANTS = {
    # name: (compiler, cflags, ldflags)
    "asan": ("gcc", ["-O1", "-g", "-fsanitize=address,undefined", "-fno-sanitize-recover=all", "-fno-omit-frame-pointer",
                     "-fopenmp", "-DHAVE_OPENMP", "-mavx2", "-DHAVE_AVX2", "-ffp-contract=off"],
             ["-fsanitize=address,undefined", "-fopenmp", "-lm"]),
    "plain": ("gcc", ["-O2", "-g", "-fopenmp", "-DHAVE_OPENMP", "-mavx2", "-DHAVE_AVX2", "-ffp-contract=off"],
              ["-fopenmp", "-lm"]),
    "noomp": ("gcc", ["-O2", "-g", "-mavx2", "-DHAVE_AVX2", "-ffp-contract=off", "-Wno-unknown-pragmas", "-DKV_MEMCOUNT", "-fno-builtin-malloc", "-fno-builtin-free"], ["-lm"]),
    "noavx": ("gcc", ["-O2", "-g", "-fopenmp", "-DHAVE_OPENMP", "-ffp-contract=off"], ["-fopenmp", "-lm"]),
    "cov": ("gcc", ["-O0", "-g", "--coverage", "-fopenmp", "-DHAVE_OPENMP", "-mavx2", "-DHAVE_AVX2", "-ffp-contract=off"], ["--coverage", "-fopenmp", "-lm"]),
    "tsan": ("clang-14", ["-O1", "-g", "-fsanitize=thread", "-fopenmp", "-DHAVE_OPENMP", "-mavx2", "-DHAVE_AVX2",
                          "-ffp-contract=off"], ["-fsanitize=thread", "-fopenmp", "-lm"]),
}


class BuildError(Exception):
    pass


def build_harness(variant="asan", hooks=True, extra_defs=()):
    """compile /repo's current library sources + the harness into one executable; returns its path"""
    comp, cflags, ldflags = VARIANTS[variant]
    out = os.path.join(scratch(), "build_%s%s" % (variant, "" if hooks else "_nohook"))
    os.makedirs(out, exist_ok=True)
    exe = os.path.join(out, "kvh")
    if os.path.exists(exe):
        if CURRENT_CTX is not None and exe in DEGRADED and exe not in getattr(CURRENT_CTX, "_deg_noted", set()):
            CURRENT_CTX._deg_noted = getattr(CURRENT_CTX, "_deg_noted", set()) | {exe}
            note_degraded(CURRENT_CTX, exe)
        return exe
    common = list(cflags) + ["-std=gnu11", "-w",
                             '-DKALIGN_PACKAGE_VERSION="%s"' % repo_version(), '-DKALIGN_PACKAGE_NAME="kalign"',
                             "-I" + os.path.join(REPO, "lib", "include"), "-I" + os.path.join(REPO, "lib", "src"),
                             "-I" + os.path.join(REPO, "src"), "-I" + HARNESS]
    if hooks:
        common.append("-D" + GUARD)
    common += list(extra_defs)
    jobs = []
    shim_for = dict(SHIMS)
    for src in lib_sources():
        base = os.path.basename(src)
        if base in shim_for and os.path.exists(os.path.join(HARNESS, shim_for[base])):
            continue
        if base == "test.c":
            continue
        jobs.append((src, os.path.join(out, "lib_" + base[:-2] + ".o"), []))
    # CLI: main renamed
    jobs.append((os.path.join(REPO, "src", "parameters.c"), os.path.join(out, "cli_parameters.o"), []))
    for f in sorted(os.listdir(HARNESS)):
        if f.endswith(".c"):
            jobs.append((os.path.join(HARNESS, f), os.path.join(out, "h_" + f[:-2] + ".o"), []))

    def cc(job):
        src, obj, extra = job
        p = sh([comp] + common + extra + ["-c", src, "-o", obj], timeout=300)
        return (src, p.returncode, p.stderr.decode(errors="replace"))

    with ThreadPoolExecutor(NCPU) as ex:
        res = list(ex.map(cc, jobs))
    bad = [(s, e) for s, rc, e in res if rc != 0]
    if bad:
        # a shim or op file that reaches into `static` functions may stop compiling after a refactoring of the library.
        # Degrade instead of giving up: compile the library file behind a broken shim directly, replace the op tables that
        # depend on it by empty tables (their unit ops then answer `bad-op`, i.e. the correspondence is reported broken) and keep
        # the public-API ops, so that the oracle search can still run.
        badh = {os.path.basename(s_) for s_, _ in bad if s_.startswith(HARNESS)}
        if len(badh) != len(bad):
            raise BuildError("\n".join("%s:\n%s" % (s_, e[-3000:]) for s_, e in bad))
        rev = {v: k for k, v in SHIMS.items()}
        extra_shims = {"shim_run_kalign.c": None}
        stub_tables, drop = set(), set(badh)
        for opsf, deps in OPS_DEPS.items():
            if opsf in badh or any(d in badh for d in deps):
                stub_tables.add(opsf)
                drop.add(opsf)
        jobs2 = [j for j in jobs if os.path.basename(j[0]) not in drop]
        for sh_ in badh:
            if sh_ in rev:
                src = os.path.join(REPO, "lib", "src", rev[sh_])
                if os.path.exists(src):       # (a renamed or split source file is picked up from lib/CMakeLists.txt by lib_sources())
                    jobs2.append((src, os.path.join(out, "lib_" + rev[sh_][:-2] + ".o"), []))
        stub = os.path.join(out, "stub_tables.c")
        with open(stub, "w") as f:
            f.write('#include "kvh.h"\n')
            for opsf in sorted(stub_tables):
                f.write("struct kv_op kv_%s[] = { {NULL, NULL} };\n" % opsf[:-2])
            if "ops_sys.c" in stub_tables:
                raise BuildError("\n".join("%s:\n%s" % (s_, e[-3000:]) for s_, e in bad))
        jobs2.append((stub, os.path.join(out, "h_stub_tables.o"), []))
        with ThreadPoolExecutor(NCPU) as ex:
            res2 = list(ex.map(cc, [j for j in jobs2 if not os.path.exists(j[1]) or j[0] == stub or j[1].startswith(os.path.join(out, "lib_"))]))
        bad2 = [(s_, e) for s_, rc, e in res2 if rc != 0]
        if bad2:
            raise BuildError("\n".join("%s:\n%s" % (s_, e[-3000:]) for s_, e in bad + bad2))
        jobs = jobs2
        DEGRADED[exe] = dict(broken=sorted(badh), stubbed=sorted(stub_tables), log="\n".join("%s:\n%s" % (s_, e[-1500:]) for s_, e in bad))
    p = sh([comp] + [j[1] for j in jobs] + ["-o", exe] + ldflags, timeout=300)
    if p.returncode != 0:
        # a library function an op file calls directly may have become `static` (or was renamed): stub the tables of the op files with
        # undefined references and link again; the checks that use those ops then report the broken tie, the others are not affected
        err = p.stderr.decode(errors="replace")
        badobjs = set(re.findall(r"h_(ops_\w+)\.o: in function", err)) if "undefined reference" in err else set()
        badshims = {b + ".c" for b in re.findall(r"h_(shim_\w+)\.o: in function", err)} if "undefined reference" in err else set()
        badops = {b + ".c" for b in badobjs if b + ".c" in OPS_DEPS}
        badops |= {o for o, deps in OPS_DEPS.items() if any(d in badshims for d in deps)}
        if not (badops or badshims) or "ops_sys.c" in badops:
            DEGRADED.pop(exe, None)
            raise BuildError("link failed:\n" + err[-3000:])
        rev_ = {v: k for k, v in SHIMS.items()}
        extra_objs = []
        for sh_ in sorted(badshims):
            if sh_ in rev_:
                src_ = os.path.join(REPO, "lib", "src", rev_[sh_])
                if os.path.exists(src_):
                    obj_ = os.path.join(out, "lib_" + rev_[sh_][:-2] + ".o")
                    r_ = sh([comp] + common + ["-c", src_, "-o", obj_], timeout=300)
                    if r_.returncode == 0:
                        extra_objs.append(obj_)
        badops |= badshims
        prev = DEGRADED.get(exe, dict(broken=[], stubbed=[], log=""))
        stubbed = set(prev["stubbed"]) | {o for o in badops if o.startswith("ops_")}
        stub = os.path.join(out, "stub_tables.c")
        with open(stub, "w") as f:
            f.write('#include "kvh.h"\n')
            for opsf in sorted(stubbed):
                f.write("struct kv_op kv_%s[] = { {NULL, NULL} };\n" % opsf[:-2])
        q = sh([comp] + common + ["-c", stub, "-o", os.path.join(out, "h_stub_tables.o")], timeout=300)
        keep = [j[1] for j in jobs if os.path.basename(j[1]) not in {"h_" + o[:-2] + ".o" for o in badops} and os.path.basename(j[1]) != "h_stub_tables.o"]
        p = sh([comp] + keep + extra_objs + [os.path.join(out, "h_stub_tables.o"), "-o", exe] + ldflags, timeout=300)
        if q.returncode != 0 or p.returncode != 0:
            DEGRADED.pop(exe, None)
            raise BuildError("link failed:\n" + err[-2000:] + "\nrelink without %s failed:\n" % sorted(badops) + p.stderr.decode(errors="replace")[-1500:])
        DEGRADED[exe] = dict(broken=sorted(set(prev["broken"]) | badops), stubbed=sorted(stubbed), log=(prev["log"] + "\n" + err)[-6000:])
    if CURRENT_CTX is not None and exe in DEGRADED:
        CURRENT_CTX._deg_noted = getattr(CURRENT_CTX, "_deg_noted", set()) | {exe}
        note_degraded(CURRENT_CTX, exe)
    return exe


def build_cli(variant="asan"):
    """the kalign command-line program from /repo's current sources (no hooks)"""
    comp, cflags, ldflags = VARIANTS[variant]
    out = os.path.join(scratch(), "cli_%s" % variant)
    os.makedirs(out, exist_ok=True)
    exe = os.path.join(out, "kalign")
    if os.path.exists(exe):
        return exe
    common = list(cflags) + ["-std=gnu11", "-w",
                             '-DKALIGN_PACKAGE_VERSION="%s"' % repo_version(), '-DKALIGN_PACKAGE_NAME="kalign"',
                             "-I" + os.path.join(REPO, "lib", "include"), "-I" + os.path.join(REPO, "lib", "src"),
                             "-I" + os.path.join(REPO, "src")]
    srcs = [s for s in lib_sources() if os.path.basename(s) != "test.c"]
    srcs += [os.path.join(REPO, "src", "parameters.c"), os.path.join(REPO, "src", "run_kalign.c")]
    jobs = [(s, os.path.join(out, os.path.basename(s)[:-2] + ".o")) for s in srcs]

    def cc(job):
        p = sh([comp] + common + ["-c", job[0], "-o", job[1]], timeout=300)
        return (job[0], p.returncode, p.stderr.decode(errors="replace"))

    with ThreadPoolExecutor(NCPU) as ex:
        res = list(ex.map(cc, jobs))
    bad = [(s, e) for s, rc, e in res if rc != 0]
    if bad:
        raise BuildError("\n".join("%s:\n%s" % (s, e[-3000:]) for s, e in bad))
    p = sh([comp] + [j[1] for j in jobs] + ["-o", exe] + ldflags, timeout=300)
    if p.returncode != 0:
        raise BuildError("link failed:\n" + p.stderr.decode(errors="replace")[-3000:])
    return exe


SAN_ENV = {"ASAN_OPTIONS": "detect_leaks=0:abort_on_error=0:allocator_may_return_null=1",
           "UBSAN_OPTIONS": "print_stacktrace=1:halt_on_error=1"}
SAN_ENV_LEAK = {"ASAN_OPTIONS": "detect_leaks=1:abort_on_error=0", "UBSAN_OPTIONS": "print_stacktrace=1:halt_on_error=1",
                "LSAN_OPTIONS": "suppressions=" + os.path.join(HARNESS, "lsan.supp") + ":print_suppressions=0"}


# ----------------------------------------------------------------------------------------------
# Lean side
# ----------------------------------------------------------------------------------------------

class LakeLock:
    def __enter__(self):
        os.makedirs(os.path.join(LEAN, ".lake"), exist_ok=True)
        self.f = open(os.path.join(LEAN, ".lake", "verif.lock"), "w")
        fcntl.flock(self.f, fcntl.LOCK_EX)
        return self

    def __exit__(self, *a):
        fcntl.flock(self.f, fcntl.LOCK_UN)
        self.f.close()


def lake_build(targets, timeout=3000):
    """returns (ok, log)"""
    with LakeLock():
        p = sh(["lake", "build"] + list(targets), cwd=LEAN, timeout=timeout)
    log = p.stdout.decode(errors="replace") + p.stderr.decode(errors="replace")
    return p.returncode == 0, log


def kmodel_path():
    return os.path.join(LEAN, ".lake", "build", "bin", "kmodel")


FORBIDDEN = re.compile(r"\bsorry\b|\badmit\b|^\s*axiom\s|native_decide|implemented_by|\bunsafe\s|maxHeartbeats\s+0|bv_decide")
ALLOWED_AXIOMS = {"propext", "Quot.sound", "Classical.choice"}


def strip_lean_comments(src):
    # remove block comments (nested) and line comments
    out = []
    i, depth, n = 0, 0, len(src)
    while i < n:
        if src.startswith("/-", i):
            depth += 1
            i += 2
        elif depth and src.startswith("-/", i):
            depth -= 1
            i += 2
        elif depth:
            if src[i] == "\n":
                out.append("\n")
            i += 1
        elif src.startswith("--", i):
            while i < n and src[i] != "\n":
                i += 1
        else:
            out.append(src[i])
            i += 1
    return "".join(out)


def lean_closure(module):
    """transitive imports of a module inside KalignModel (file paths)"""
    seen, todo = [], [module]
    while todo:
        m = todo.pop()
        if m in seen:
            continue
        path = os.path.join(LEAN, m.replace(".", "/") + ".lean")
        if not os.path.exists(path):
            continue
        seen.append(m)
        for ln in open(path):
            mm = re.match(r"\s*(?:public\s+)?import\s+(KalignModel[\w.]*)", ln)
            if mm:
                todo.append(mm.group(1))
    return seen


def grep_forbidden(module, allow_bv_decide_in=()):
    hits = []
    for m in lean_closure(module):
        path = os.path.join(LEAN, m.replace(".", "/") + ".lean")
        src = strip_lean_comments(open(path).read())
        for k, ln in enumerate(src.splitlines(), 1):
            mm = FORBIDDEN.search(ln)
            if mm:
                if "bv_decide" in mm.group(0) and m in allow_bv_decide_in:
                    continue
                hits.append("%s:%d: %s" % (m, k, ln.strip()[:120]))
    return hits


def audit_axioms(prop):
    """run the Audit module of a property; returns dict theorem -> list of axioms, plus raw log"""
    path = os.path.join("KalignModel", "Audit", prop + ".lean")
    with LakeLock():
        p = sh(["lake", "env", "lean", path], cwd=LEAN, timeout=1200)
    txt = p.stdout.decode(errors="replace") + p.stderr.decode(errors="replace")
    res = {}
    # "'Kalign.foo' depends on axioms: [propext, Quot.sound]" / "'Kalign.foo' does not depend on any axioms"
    for m in re.finditer(r"^'(\S+)' depends on axioms: \[([^\]]*)\]", txt, re.S | re.M):
        res[m.group(1)] = [a.strip() for a in m.group(2).replace("\n", " ").split(",") if a.strip()]
    for m in re.finditer(r"^'(\S+)' does not depend on any axioms", txt, re.M):
        res[m.group(1)] = []
    return p.returncode == 0, res, txt


# ----------------------------------------------------------------------------------------------
# correspondence runs
# ----------------------------------------------------------------------------------------------

def run_lines(exe, lines, env=None, timeout=600):
    for l_ in lines:
        t_ = l_.split(" ", 1)[0]
        if t_:
            OPS_USED.add(t_)
    data = ("\n".join(lines) + "\n").encode()
    p = sh([exe], input=data, env=env, timeout=timeout)
    return p.returncode, p.stdout.decode(errors="replace").split("\n"), p.stderr.decode(errors="replace")


def correspond(kvh, lines, env=None, timeout=900, chunks=None):
    """feed the same op lines to the real code (kvh) and to the Lean model (kmodel);
    returns list of disagreements: dict(index, op, impl, model, note)"""
    if not lines:
        return []
    env = dict(SAN_ENV if env is None else env)
    nchunk = chunks or min(NCPU, max(1, len(lines) // 200))
    size = (len(lines) + nchunk - 1) // nchunk
    parts = [lines[i:i + size] for i in range(0, len(lines), size)]

    def one(part):
        rc1, o1, e1 = run_lines(kvh, part, env=env, timeout=timeout)
        rc2, o2, e2 = run_lines(kmodel_path(), part, timeout=timeout)
        return rc1, o1, e1, rc2, o2, e2

    with ThreadPoolExecutor(NCPU) as ex:
        rs = list(ex.map(one, parts))
    diffs = []
    base = 0
    for part, (rc1, o1, e1, rc2, o2, e2) in zip(parts, rs):
        for i, op in enumerate(part):
            a = o1[i] if i < len(o1) and (i < len(o1) - 1 or o1[i] != "") else None
            b = o2[i] if i < len(o2) and (i < len(o2) - 1 or o2[i] != "") else None
            if a is None:
                diffs.append(dict(index=base + i, op=op, impl="<no output: rc=%s>" % rc1, model=b, note=e1[-3000:]))
                break
            if b is None:
                diffs.append(dict(index=base + i, op=op, impl=a, model="<no output: rc=%s>" % rc2, note=e2[-2000:]))
                break
            if a != b:
                diffs.append(dict(index=base + i, op=op, impl=a, model=b, note=""))
        base += len(part)
    return diffs


# ----------------------------------------------------------------------------------------------
# evidence / violations / known findings
# ----------------------------------------------------------------------------------------------

def load_known():
    p = os.path.join(VERIF, "known_findings.json")
    if not os.path.exists(p):
        return {"findings": [], "fixed": []}
    return json.load(open(p))


class Ctx:
    """per-run context handed to the property modules"""

    def __init__(self, prop, tier, seed):
        self.prop, self.tier, self.seed = prop, tier, seed
        self.rng = random.Random((seed * 1000003) ^ int(hashlib.sha1(prop.encode()).hexdigest()[:8], 16))
        self.t0 = time.time()
        self.violations = []   # (what, replay_obj, no_input)
        self.known_hits = []
        self.obligations = []  # dict(name, ok, axioms)
        self.cov = {}
        self.samples = []
        self.evaluations = 0
        self.nontrivial = set()
        self.assumptions = []
        self.trusted = []
        self.notes = []
        self.known = load_known()
        self.quick = tier == "quick"
        self.escalated = False

    # --- counting
    def count(self, key, n=1):
        self.cov[key] = self.cov.get(key, 0) + n

    def sample(self, obj, cap=6):
        if len(self.samples) < cap:
            self.samples.append(obj)

    def nontriv(self, key):
        self.nontrivial.add(hashlib.sha1(repr(key).encode()).hexdigest()[:16])

    # --- violations
    def violation(self, what, replay, no_input=False, key=None):
        """key: stable identifier used to match entries of known_findings.json"""
        for kf in self.known.get("findings", []):
            if kf.get("property") == self.prop and key is not None and kf.get("key") == key:
                if kf["key"] not in [k for k, _ in self.known_hits]:
                    self.known_hits.append((kf["key"], kf.get("what", what)))
                return
        self.violations.append((what, replay, no_input))

    def finish(self, level="proof", checker_cmd="", explanation=""):
        degraded_verdict(self)
        if (self.violations and all(v[2] for v in self.violations) and not self.escalated and self.tier == "quick"
                and os.environ.get("VERIF_NO_ESCALATE") != "1"):
            # a proof obligation or a correspondence broke but the normal budget found no failing input:
            # search again with the thorough budget before reporting no-failing-input-found
            return 99
        wall = time.time() - self.t0
        os.makedirs(EVID, exist_ok=True)
        ob = len(self.obligations)
        dis = sum(1 for o in self.obligations if o["ok"])
        cov = dict(obligations=ob, discharged=dis, checker_cmd=checker_cmd,
                   trusted_base=self.trusted, evaluations=self.evaluations,
                   distinct_nontrivial=len(self.nontrivial), samples=self.samples[:8] or ["<none>"],
                   rule=self.cov.pop("_rule", ""), explanation=explanation,
                   obligations_detail=self.obligations, counters=self.cov, notes=self.notes)
        ev = dict(property_id=self.prop, tier=self.tier, seed=self.seed, level=level, coverage=cov,
                  assumptions=self.assumptions, wall_s=round(wall, 2), violations=len(self.violations))
        rc = 0
        for key, what in self.known_hits:
            print("KNOWN-FINDING: property=%s %s" % (self.prop, what))
        if self.violations:
            rc = 1
            d = os.path.join(REPLAYS, self.prop)
            os.makedirs(d, exist_ok=True)
            for what, replay, no_input in self.violations[:5]:
                n = 0
                while os.path.exists(os.path.join(d, "%d.json" % n)):
                    n += 1
                path = os.path.join(d, "%d.json" % n)
                replay = dict(replay)
                replay.setdefault("property", self.prop)
                replay.setdefault("what", what)
                replay.setdefault("seed", self.seed)
                replay.setdefault("tier", self.tier)
                json.dump(replay, open(path, "w"), indent=1, default=str)
                rel = os.path.relpath(path, VERIF)
                print("VIOLATION property=%s replay=%s%s" % (self.prop, rel, " no-failing-input-found" if no_input else ""))
                print("  " + what[:400])
        with open(os.path.join(EVID, self.prop + ".json"), "w") as f:
            json.dump(ev, f, indent=1, default=str)
        print("[%s] tier=%s seed=%d obligations=%d/%d evaluations=%d nontrivial=%d violations=%d known=%d wall=%.1fs" % (
            self.prop, self.tier, self.seed, dis, ob, self.evaluations, len(self.nontrivial), len(self.violations),
            len(self.known_hits), wall))
        return rc


def lean_obligations(ctx, prop, theorems, allow_axioms=(), allow_bv_decide_in=(), module=None):
    """build Props.<prop>, audit axioms, grep forbidden constructs.
    theorems: list of fully-qualified names expected in the audit output.
    returns True iff every obligation is discharged."""
    mod = "KalignModel.Props." + (module or prop)
    audit_src = "import %s\n" % mod + "".join("#print axioms %s\n" % t for t in theorems)
    apath = os.path.join(LEAN, "KalignModel", "Audit", prop + ".lean")
    if not os.path.exists(apath) or open(apath).read() != audit_src:
        os.makedirs(os.path.dirname(apath), exist_ok=True)
        open(apath, "w").write(audit_src)
    ok, log = lake_build([mod, "kmodel"])
    ctx.notes.append("lake build %s kmodel: %s" % (mod, "ok" if ok else "FAILED"))
    all_ok = True
    if not ok:
        tail = "\n".join([l for l in log.splitlines() if "error" in l.lower() or "✖" in l][:20])
        for t in theorems:
            ctx.obligations.append(dict(name=t, ok=False, axioms=None, why="build failed"))
        ctx.build_log = log
        ctx.build_errors = tail
        return False
    aok, axs, txt = audit_axioms(prop)
    hits = grep_forbidden(mod, allow_bv_decide_in=allow_bv_decide_in)
    allowed = set(ALLOWED_AXIOMS) | set(allow_axioms)
    for t in theorems:
        if t not in axs:
            ctx.obligations.append(dict(name=t, ok=False, axioms=None, why="not reported by audit"))
            all_ok = False
            continue
        bad = [a for a in axs[t] if a not in allowed and not any(a.endswith(s) for s in allow_axioms)]
        ctx.obligations.append(dict(name=t, ok=not bad, axioms=axs[t]))
        if bad:
            all_ok = False
    if hits:
        ctx.obligations.append(dict(name="no sorry/admit/axiom/native_decide/implemented_by/unsafe in closure", ok=False, hits=hits[:20]))
        all_ok = False
    else:
        ctx.obligations.append(dict(name="no sorry/admit/axiom/native_decide/implemented_by/unsafe in closure of " + mod, ok=True, axioms=[]))
    if not aok:
        ctx.obligations.append(dict(name="audit module elaborates", ok=False, log=txt[-2000:]))
        all_ok = False
    if ctx.tier == "thorough" and all_ok:
        # independent re-check of the compiled module by the toolchain's olean checker
        with LakeLock():
            p = sh(["lake", "env", "leanchecker", mod], cwd=LEAN, timeout=1800)
        lc_ok = p.returncode == 0
        ctx.obligations.append(dict(name="leanchecker " + mod, ok=lc_ok, axioms=[], log=(p.stdout + p.stderr).decode(errors="replace")[-600:]))
        all_ok = all_ok and lc_ok
    ctx.build_log = log
    ctx.build_errors = "" if all_ok else txt[-2000:]
    return all_ok


def note_degraded(ctx, exe):
    """if the harness had to be built without some shims, the unit correspondence through them is broken: record it"""
    d = DEGRADED.get(exe)
    if d:
        ctx.degraded = d
        ctx.notes.append("harness built in degraded form: %s do not compile/link against the current sources; op tables %s are stubbed" % (
            ", ".join(d["broken"]), ", ".join(d["stubbed"])))
    return d


def ops_of_table(opsfile):
    """op names registered in harness/<opsfile> (entries `{"name", fn}` of its kv_op table)"""
    try:
        txt = open(os.path.join(HARNESS, opsfile)).read()
    except OSError:
        return set()
    return set(re.findall(r'\{\s*"(\w+)"\s*,\s*\w+\s*\}', txt))


def degraded_verdict(ctx):
    """a stubbed op table is a broken tie only for a check that sent ops of that table"""
    d = getattr(ctx, "degraded", None)
    if not d or getattr(ctx, "_deg_judged", False):
        return
    ctx._deg_judged = True
    used = set(OPS_USED)
    hit = {}
    for t in d["stubbed"]:
        u = sorted(ops_of_table(t) & used)
        if u:
            hit[t] = u
    if hit:
        ctx.violation("harness shims no longer compile against the current sources (%s): the unit correspondence through %s is broken" % (
            ", ".join(d["broken"]), ", ".join("%s [%s]" % (t, ",".join(u[:6])) for t, u in sorted(hit.items()))),
            dict(kind="harness-build", broken=d["broken"], log=d["log"][-4000:]), no_input=True)
    elif not hit:
        ctx.notes.append("stubbed op tables %s are not used by this check: not a broken tie here" % ", ".join(d["stubbed"]))


OPS_USED = set()


def gen_ops(script, seed, *args, prefixes=None, outfile=None):
    """op lines from one of the tools/gen_*.py generators (deterministic per seed)"""
    cmd = [sys.executable, os.path.join(VERIF, "tools", script), str(seed)] + [str(a) for a in args]
    if outfile:
        cmd.append(outfile)
    p = sh(cmd, timeout=600, env={"VERIF_SEED": str(seed)})
    if p.returncode != 0:
        raise RuntimeError("%s failed: %s" % (script, p.stderr.decode(errors="replace")[-1500:]))
    txt = open(outfile).read() if outfile else p.stdout.decode()
    lines = [l for l in txt.split("\n") if l.strip()]
    if prefixes:
        lines = [l for l in lines if l.split()[0] in prefixes]
    return lines


def unit_correspondence(ctx, kvh, lines, what):
    """run a unit correspondence suite; returns the list of disagreements (also counted in ctx)"""
    diffs = correspond(kvh, lines)
    ctx.count("unit_ops_" + what, len(lines))
    ctx.evaluations += len(lines)
    kinds = {}
    for l in lines:
        k = l.split()[0]
        kinds[k] = kinds.get(k, 0) + 1
    ctx.cov.setdefault("unit_op_kinds", {}).update(kinds)
    return diffs


def pipeline_theorems(prefixes):
    """names from Props/Pipeline.theorems whose last component starts with one of the prefixes"""
    p = os.path.join(LEAN, "KalignModel", "Props", "Pipeline.theorems")
    if not os.path.exists(p):
        return []
    names = [l.strip() for l in open(p) if l.strip() and not l.startswith("#")]
    return [n for n in names if any(n.split(".")[-1].startswith(x) for x in prefixes)]


def pipefile_theorems(prefixes):
    p = os.path.join(LEAN, "KalignModel", "Props", "PipelineFile.theorems")
    if not os.path.exists(p):
        return []
    names = [l.strip() for l in open(p) if l.strip() and not l.startswith("#")]
    return [n for n in names if any(n.split(".")[-1].startswith(x) for x in prefixes)]


def pipefile_correspondence(ctx, kvh, seeds, scale=1):
    """whole-program tie: the composed Lean model `kalignFile` (readers incl. several files, dealign, kalignRun stages, writers) against the real
    kalign_read_input / kalign_run (1 and 4 threads) / kalign_write_msa and the CLI's run_kalign() on the same file bytes; output bytes compared"""
    lines = []
    for sd in seeds:
        lines += gen_ops("gen_pipefile.py", sd, scale)
    diffs = correspond(kvh, lines, chunks=NCPU, timeout=1800)
    ctx.count("unit_ops_pipefile", len(lines))
    ctx.evaluations += len(lines)
    ctx.cov.setdefault("unit_op_kinds", {})["kalign_file"] = ctx.cov.get("unit_op_kinds", {}).get("kalign_file", 0) + len(lines)
    return diffs


def pipeline_correspondence(ctx, kvh, seeds, scale=1, keep=None):
    """whole-pipeline tie: the composed Lean model `kalignRun` (detection, canonical order, distances, guide tree incl. bisecting k-means, binary32
    DP, weave, rank restoration) against the real kalign() on the same array inputs (the harness runs it with 1 and with 8 threads)"""
    lines = []
    for sd in seeds:
        lines += gen_ops("gen_pipe.py", sd, scale)
    if keep is not None:
        lines = lines[:keep]
    diffs = correspond(kvh, lines, chunks=NCPU, timeout=1800)
    ctx.count("unit_ops_pipeline", len(lines))
    ctx.evaluations += len(lines)
    ctx.cov.setdefault("unit_op_kinds", {})["kalign_sys"] = ctx.cov.get("unit_op_kinds", {}).get("kalign_sys", 0) + len(lines)
    return diffs


def report_diffs(ctx, diffs, fails, what):
    if diffs and not fails:
        d = diffs[0]
        ctx.violation("model and implementation disagree on %s (%d disagreements); the search found no input violating the property" % (d["op"].split()[0], len(diffs)),
                      dict(kind="correspondence", broken="unit correspondence of " + what, first=[dict(index=x["index"], op=x["op"][:3000], impl=str(x["impl"])[:1500],
                                                                                                         model=str(x["model"])[:1500], note=x["note"][-1500:]) for x in diffs[:5]]), no_input=True)


TRUSTED_COMMON = [
    "Lean 4.33.0 kernel (axioms per theorem listed in obligations_detail)",
    "translators tools/translate.py (Gen/*.lean regenerated from /repo on this run)",
    "correspondence harness harness/*.c + tools (differential testing: what was not run is not tied)",
    "gcc 12.2 / glibc / libgomp; C library functions modelled by their specification",
]


def replay_generic(path):
    """re-run what a replay file describes against /repo's current tree: correspondence ops are fed again to kvh and kmodel,
    end-to-end cases are re-run through the harness; prints what is observed now"""
    from . import sysrun
    r = json.load(open(path))
    print("property:", r.get("property"), "| what:", r.get("what"))
    kvh = build_harness("asan")
    ok_, log = lake_build(["kmodel"])
    shown = False
    for d in r.get("first", []) or []:
        if isinstance(d, dict) and "op" in d:
            diffs = correspond(kvh, [d["op"]])
            print("op   :", d["op"][:400])
            print("  then: impl=%s model=%s" % (str(d.get("impl"))[:200], str(d.get("model"))[:200]))
            print("  now : %s" % ("agree" if not diffs else "impl=%s model=%s" % (str(diffs[0]["impl"])[:200], str(diffs[0]["model"])[:200])))
            shown = True
    def find_cases(o, acc):
        if isinstance(o, dict):
            if "records" in o and "type" in o:
                acc.append(o)
            for v in o.values():
                find_cases(v, acc)
        elif isinstance(o, list):
            for v in o:
                find_cases(v, acc)
    cases = []
    find_cases(r, cases)
    for c in cases[:4]:
        recs = [tuple(x) for x in c["records"] if x[0] != "..."]
        cs = sysrun.Case(recs, c.get("type", 5), c.get("gpo", -1), c.get("gpe", -1), c.get("tgpe", -1), c.get("threads", 1), c.get("fmt", "fasta"),
                         c.get("api", "file"), intext=c.get("intext"))
        sysrun.run_cases(kvh, [cs])
        print("case (%d records, type %s, api %s, threads %s): status now = %s" % (len(recs), cs.type, cs.api, cs.threads, cs.status))
        rows = None
        try:
            rows = sysrun.parse_output(cs)
        except Exception as ex:
            print("  output not parseable:", ex)
        for n, row in (rows or [])[:12]:
            print("  %-12s %s" % (n[:12], row[:150]))
        shown = True
    if not shown:
        print(json.dumps(r, indent=1)[:6000])
    return 0
