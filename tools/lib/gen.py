"""Input generators and independent parsers of the three alignment formats (oracle side)."""
import re

DNA = "ACGT"
RNA = "ACGU"
AA = "ACDEFGHIKLMNPQRSTVWY"
IUPAC = "RYSWKMBDHVN"
AA_AMB = "BZX"


def rand_seq(rng, alphabet, n):
    return "".join(rng.choice(alphabet) for _ in range(n))


def mutate(rng, s, alphabet, sub=0.1, indel=0.03, maxindel=6):
    out = []
    i = 0
    while i < len(s):
        r = rng.random()
        if r < indel / 2:
            i += rng.randint(1, maxindel)          # deletion
            continue
        if r < indel:
            out.append(rand_seq(rng, alphabet, rng.randint(1, maxindel)))  # insertion
        c = s[i]
        if rng.random() < sub:
            c = rng.choice(alphabet)
        out.append(c)
        i += 1
    t = "".join(out)
    return t if t else rng.choice(alphabet)


def family(rng, kind="dna", nseq=5, length=60, sub=0.1, indel=0.03, spice=True, names=None):
    """evolved family: a random root mutated along a random tree; returns list of (name, seq)"""
    alpha = {"dna": DNA, "rna": RNA, "protein": AA}[kind]
    root = rand_seq(rng, alpha, max(1, length))
    seqs = [root]
    while len(seqs) < nseq:
        parent = rng.choice(seqs)
        seqs.append(mutate(rng, parent, alpha, sub, indel))
    rng.shuffle(seqs)
    seqs = seqs[:nseq]
    if spice:
        out = []
        for s in seqs:
            s = list(s)
            mode = rng.random()
            if mode < 0.25 and len(s) > 3:   # ambiguity codes
                amb = IUPAC if kind != "protein" else AA_AMB
                for _ in range(rng.randint(1, max(1, len(s) // 15))):
                    s[rng.randrange(len(s))] = rng.choice(amb)
            if rng.random() < 0.3:          # lower-case stretches
                a = rng.randrange(len(s))
                b = min(len(s), a + rng.randint(1, 20))
                s[a:b] = [c.lower() for c in s[a:b]]
            out.append("".join(s))
        seqs = out
    if names is None:
        names = ["s%d" % (i + 1) for i in range(len(seqs))]
    return list(zip(names, seqs))


def name_pool(rng, n, maxlen=30, charset="abcdefghijklmnopqrstuvwxyzABCDEFGHIJKLMNOPQRSTUVWXYZ0123456789_.|-"):
    out = set()
    res = []
    while len(res) < n:
        l = rng.randint(1, maxlen)
        nm = "".join(rng.choice(charset) for _ in range(l))
        if nm[0] in ">" or nm in out:
            continue
        out.add(nm)
        res.append(nm)
    return res


def fasta_text(records, width=60):
    out = []
    for n, s in records:
        out.append(">" + n)
        if width <= 0:
            out.append(s)
        else:
            for i in range(0, len(s), width):
                out.append(s[i:i + width])
            if not s:
                pass
    return "\n".join(out) + "\n"


# ---------------------------------------------------------------- independent parsers (oracle)

def parse_fasta(txt):
    recs = []
    for ln in txt.split("\n"):
        if ln.startswith(">"):
            recs.append([ln[1:], []])
        elif recs is not None and ln != "" and recs:
            recs[-1][1].append(ln)
    return [(n, "".join(p)) for n, p in recs]


def fasta_lines(txt):
    """list of (name, [lines]) to check wrapping"""
    recs = []
    for ln in txt.split("\n"):
        if ln.startswith(">"):
            recs.append((ln[1:], []))
        elif recs and ln != "":
            recs[-1][1].append(ln)
    return recs


def parse_blocks(lines):
    """blocks of `name  chunk` lines separated by blank lines -> (order, dict name->[chunks], blocks)"""
    blocks, cur = [], []
    for ln in lines:
        if ln.strip() == "":
            if cur:
                blocks.append(cur)
                cur = []
        else:
            cur.append(ln)
    if cur:
        blocks.append(cur)
    return blocks


def parse_clustal(txt):
    lines = txt.split("\n")
    if not lines or "multiple sequence alignment" not in lines[0] and "CLUSTAL" not in lines[0]:
        raise ValueError("no clustal header")
    blocks = parse_blocks(lines[1:])
    order, rows = [], {}
    shape = []
    for b in blocks:
        names_here = []
        for ln in b:
            m = re.match(r"^(\S+)\s+(\S+)\s*$", ln)
            if not m:
                raise ValueError("bad clustal line: %r" % ln)
            n, chunk = m.group(1), m.group(2)
            names_here.append((n, chunk))
            if n not in rows:
                rows[n] = []
                order.append(n)
            rows[n].append(chunk)
        shape.append(names_here)
    return [(n, "".join(rows[n])) for n in order], shape, lines[0]


def parse_msf(txt):
    lines = txt.split("\n")
    hdr = {"names": [], "type_line": None, "msf": None}
    i = 0
    while i < len(lines):
        ln = lines[i]
        if ln.startswith("!!"):
            hdr["type_line"] = ln.strip()
        m = re.search(r"MSF:\s*(\d+)\s+Type:\s*(\S)\s+(.*?)\s+Check:\s*(\d+)\s+\.\.", ln)
        if m:
            hdr["msf"] = dict(len=int(m.group(1)), type=m.group(2), check=int(m.group(4)))
        m = re.match(r"^\s*Name:\s*(\S+)\s+Len:\s*(\d+)\s+Check:\s*(\d+)\s+Weight:\s*(\S+)", ln)
        if m:
            hdr["names"].append(dict(name=m.group(1), len=int(m.group(2)), check=int(m.group(3))))
        if ln.strip() == "//":
            i += 1
            break
        i += 1
    else:
        raise ValueError("no // in msf")
    blocks = parse_blocks(lines[i:])
    order, rows, shape = [], {}, []
    for b in blocks:
        here = []
        for ln in b:
            m = re.match(r"^(\S+)\s+(.*\S)\s*$", ln)
            if not m:
                raise ValueError("bad msf line: %r" % ln)
            n, chunk = m.group(1), m.group(2).replace(" ", "")
            here.append((n, chunk))
            if n not in rows:
                rows[n] = []
                order.append(n)
            rows[n].append(chunk)
        shape.append(here)
    return [(n, "".join(rows[n])) for n in order], shape, hdr


def gcg_checksum(row):
    chk = 0
    for i, c in enumerate(row):
        chk = (chk + (i % 57 + 1) * ord(c.upper())) % 10000
    return chk


def degap(row):
    return "".join(c for c in row if c.isalpha())


def integrity(inputs, rows, names=None):
    """C01 predicate. inputs: list of (name, residues) in input order (empty ones included);
    rows: list of (name, row) as returned. returns None or a description of the failure"""
    exp = [(n, s) for n, s in inputs if len(s) > 0]
    if len(rows) != len(exp):
        return "row count %d != non-empty inputs %d" % (len(rows), len(exp))
    L = None
    for k, ((en, es), (rn, rr)) in enumerate(zip(exp, rows)):
        if names is not False and rn != en:
            return "row %d: name %r != input name %r" % (k, rn, en)
        if degap(rr) != es:
            return "row %d (%s): residues differ from input" % (k, en)
        bad = [c for c in rr if not c.isalpha() and c != "-"]
        if bad:
            return "row %d: foreign character %r" % (k, bad[0])
        if L is None:
            L = len(rr)
        elif len(rr) != L:
            return "row %d: length %d != %d" % (k, len(rr), L)
    if L:
        for c in range(L):
            if all(r[1][c] == "-" for r in rows):
                return "column %d is all gaps" % c
    return None


def detect_kind(records):
    """independent re-statement of kalign's DNA/protein decision on the residue letters: 'dna', 'protein' or None (tie)"""
    import math
    both = set("acgtunACGTUN")
    prot = set("acdefghiklmnpqrstuvwyACDEFGHIKLMNPQRSTUVWY")
    d = p = 0.0
    for _, s in records:
        for ch in s:
            d += math.log(0.9999 / 12.0) if ch in both else math.log(0.0001 / 116.0)
            p += math.log(0.9999 / 42.0) if ch in prot else math.log(0.0001 / 88.0)
    if abs(d - p) < 1e-9:
        return None
    return "dna" if d > p else "protein"


def fit_type(t, kind, records):
    """an explicit alignment type is only admissible when kalign detects the kind it belongs to; short or ambiguity-rich sets may be
    classified as the other kind (and the type then rightly rejected): fall back to 'undefined' (5) in that case"""
    want = "protein" if kind == "protein" else "dna"
    return t if detect_kind(records) == want else 5
