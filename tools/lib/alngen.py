"""random finished alignments (as kalign can produce them) for the I/O properties"""
from . import gen

NAMECH = "abcdefghijklmnopqrstuvwxyzABCDEFGHIJKLMNOPQRSTUVWXYZ0123456789_.|-"


def rand_alignment(rng, thorough=False):
    kind = rng.choice(["dna", "protein"])
    alpha = gen.DNA + "N" if kind == "dna" else gen.AA + "BZX"
    nrows = rng.choice([1, 2, 3, 5, 12, 40] + ([120] if thorough else []))
    width = rng.choice([1, 2, 10, 59, 60, 61, 100, 119, 120, 121, 180, 200] + ([400, 600] if thorough else []))
    names = []
    mode = rng.random()
    while len(names) < nrows:
        L = rng.choice([1, 2, 5, 10, 30] + ([100, 200] if rng.random() < 0.2 else []))
        nm = "".join(rng.choice(NAMECH) for _ in range(L))
        if mode < 0.2 and names and rng.random() < 0.7:   # names that are prefixes of each other
            base = names[rng.randrange(len(names))]
            if len(base) + len(nm) <= 200:
                nm = base + nm
        if mode > 0.9:
            nm = rng.choice(["-", ".", "a|b", "123", "_", "--", "x.y|z-w"]) + ("" if rng.random() < 0.5 else str(len(names)))
        if mode > 0.8 and mode <= 0.9:
            # names made of the words the format sniffer and the readers look for (all within the allowed name characters)
            nm = rng.choice(["CLUSTAL", "CLUSTALW_ref", "sp|Q1|CLUSTAL_x", "CLUSTAL.O", "MSF", "PileUp", "Name", "Len", "Check", "Weight", "Kalign", "kalign",
                             "multiple", "alignment", "GDC", "Type", "N", "P", ".."]) + ("" if rng.random() < 0.4 else "_%d" % len(names))
        if nm in names or nm.startswith(">"):
            continue
        names.append(nm)
    rows = []
    for i in range(nrows):
        dens = rng.choice([0.0, 0.1, 0.5, 0.9])
        r = [("-" if rng.random() < dens else rng.choice(alpha)) for _ in range(width)]
        if all(c == "-" for c in r):
            r[rng.randrange(width)] = rng.choice(alpha)     # kalign drops empty sequences: every row has a residue
        if rng.random() < 0.3:
            r = [c.lower() if rng.random() < 0.5 else c for c in r]
        rows.append("".join(r))
    if kind == "protein" and rng.random() < 0.08 and width >= 10:
        # residues that spell a format keyword (all are amino-acid letters)
        word = rng.choice(["CLUSTALW", "CLUSTAL", "MSF", "NAME", "CHECK", "PILEUP"])[:width]
        j, k0 = rng.randrange(nrows), rng.randrange(0, width - len(word) + 1)
        rows[j] = rows[j][:k0] + word + rows[j][k0 + len(word):]
    # no all-gap column (C01)
    for k in range(width):
        if all(r[k] == "-" for r in rows):
            j = rng.randrange(nrows)
            rows[j] = rows[j][:k] + rng.choice(alpha) + rows[j][k + 1:]
    return kind, list(zip(names, rows))


def long_row_alignment(rng):
    """rows with >= 512 residues: a gap run directly after residue 512 / 1024, and a row of exactly 512 residues followed by
    trailing gaps (the readers grow their buffers in steps of 512)"""
    kind = rng.choice(["dna", "protein"])
    alpha = gen.DNA if kind == "dna" else gen.AA
    k = rng.choice([1, 1, 2])
    n = 512 * k
    g = rng.randint(1, 9)
    tail = rng.randint(0, 40)
    r1 = gen.rand_seq(rng, alpha, n) + "-" * g + gen.rand_seq(rng, alpha, tail)
    r2 = gen.rand_seq(rng, alpha, n) + "-" * (g + tail)
    r3 = gen.rand_seq(rng, alpha, n + g + tail)
    r4 = "-" * rng.randint(1, 5)
    r4 = r4 + gen.rand_seq(rng, alpha, n + g + tail - len(r4))
    rows = [r1, r2, r3, r4][:rng.randint(2, 4)]
    names = ["L%d_%s" % (i, "".join(rng.choice(NAMECH) for _ in range(rng.randint(1, 8)))) for i in range(len(rows))]
    return kind, list(zip(names, rows))


def many_lines_alignment(rng, j):
    """alignments whose block-format files need more than 1024 / 2048 output lines, with even and odd numbers of rows and few or many blocks
    (the writers collect their lines in a buffer that grows in steps of 1024; the first row's lines alternate with the block separators)"""
    kind = rng.choice(["dna", "protein"])
    alpha = gen.DNA if kind == "dna" else gen.AA
    B = 1024 if j % 4 < 3 else 2048
    if j % 2 == 0:
        n = rng.choice([2, 4, 8, 16, 40]) + (j // 2) % 2                      # few rows, hundreds of blocks
    else:
        n = B - rng.choice([8, 9, 10, 11, 12, 20, 24, 25, 60, 61]) + (j // 2) % 2      # about B rows, few blocks
    nblocks = max(1, (B - n - 7 + 1) // 2 + rng.randint(1, 4))
    width = 60 * nblocks - rng.choice([0, 0, 1, 30, 59])
    rows = []
    for i in range(n):
        r = gen.rand_seq(rng, alpha, width)
        if rng.random() < 0.5:
            a = rng.randrange(width)
            b = min(width, a + rng.randint(1, 40))
            r = r[:a] + "-" * (b - a) + r[b:]
        rows.append(("r%d" % i, r))
    return kind, rows


def aln_args(aln):
    return " ".join("%s:%s" % (n.encode().hex(), r) for n, r in aln)


def gaps_of(row):
    g, cur = [], 0
    for c in row:
        if c == "-":
            cur += 1
        else:
            g.append(cur)
            cur = 0
    g.append(cur)
    return g
