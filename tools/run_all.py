#!/usr/bin/env python3
"""run every claimed check (quick by default) and print a summary; developer convenience"""
import json, os, subprocess, sys, time
from concurrent.futures import ThreadPoolExecutor
V = os.path.dirname(os.path.dirname(os.path.abspath(__file__)))
tier = sys.argv[1] if len(sys.argv) > 1 else "quick"
par = int(sys.argv[2]) if len(sys.argv) > 2 else 3
m = json.load(open(os.path.join(V, "MANIFEST.json")))

def one(c):
    t = time.time()
    cmd = c["quick_cmd"] if tier == "quick" else c["thorough_cmd"]
    p = subprocess.run(cmd, shell=True, cwd=V, stdout=subprocess.PIPE, stderr=subprocess.STDOUT, stdin=subprocess.DEVNULL, timeout=7200)
    out = p.stdout.decode(errors="replace")
    last = [l for l in out.splitlines() if l.startswith("[")][-1:] or [out[-300:]]
    return c["property_id"], p.returncode, time.time() - t, last[0], [l for l in out.splitlines() if l.startswith(("VIOLATION", "KNOWN-FINDING"))]

with ThreadPoolExecutor(par) as ex:
    for pid, rc, dt, last, lines in ex.map(one, m["checks"]):
        print("%s rc=%d %.0fs %s" % (pid, rc, dt, last))
        for l in lines:
            print("    " + l[:200])
