#!/usr/bin/env python3
"""coverage.py [seed]: measure which lines of /repo's library the correspondence suites execute (generator quality, Cedar's lesson).
Builds the harness with gcov instrumentation, feeds it the op streams of all generators (quick sizes) plus the whole-pipeline ops,
runs gcov and prints per-file line coverage and the uncovered lines of the modelled files.  Developer tool; writes coverage/SUMMARY.txt."""
import os, re, shutil, subprocess, sys
sys.path.insert(0, os.path.dirname(os.path.abspath(__file__)))
from lib import common as C


def main():
    seed = int(sys.argv[1]) if len(sys.argv) > 1 else 1
    kvh = C.build_harness("cov")
    bdir = os.path.dirname(kvh)
    for f in os.listdir(bdir):
        if f.endswith(".gcda"):
            os.remove(os.path.join(bdir, f))
    streams = []
    streams.append(("dp", C.gen_ops("gen_dp.py", seed, 500, outfile=os.path.join(C.scratch(), "cov_dp.ops"))))
    streams.append(("io", C.gen_ops("gen_io.py", seed, 400)))
    streams.append(("misc", C.gen_ops("gen_misc.py", seed, 400)))
    streams.append(("bpm", C.gen_ops("gen_bpm.py", seed, "--random", 300, "--trees", 8, "--matrices", 15)))
    streams.append(("kmeans", C.gen_ops("gen_kmeans.py", seed)))
    streams.append(("pipe", C.gen_ops("gen_pipe.py", seed, 1)))
    for f in sorted(os.listdir(C.CORPUS)):
        streams.append(("corpus:" + f, [l.strip() for l in open(os.path.join(C.CORPUS, f)) if l.strip()][:400]))
    n = 0
    for name, lines in streams:
        size = max(1, len(lines) // C.NCPU + 1)
        parts = [lines[i:i + size] for i in range(0, len(lines), size)]
        from concurrent.futures import ThreadPoolExecutor
        with ThreadPoolExecutor(C.NCPU) as ex:
            list(ex.map(lambda part: C.run_lines(kvh, part, env={}, timeout=1800), parts))
        n += len(lines)
        print("ran %-28s %6d ops" % (name, len(lines)))
    out = os.path.join(C.VERIF, "coverage")
    shutil.rmtree(out, ignore_errors=True)
    os.makedirs(out)
    rows = []
    for f in sorted(os.listdir(bdir)):
        if not f.endswith(".gcda"):
            continue
        p = subprocess.run(["gcov", "-o", bdir, os.path.join(bdir, f)], cwd=out, stdout=subprocess.PIPE, stderr=subprocess.STDOUT)
    for g in sorted(os.listdir(out)):
        if not g.endswith(".gcov"):
            continue
        txt = open(os.path.join(out, g), errors="replace").read().splitlines()
        src = next((l.split("Source:")[1] for l in txt[:3] if "Source:" in l), g)
        if "/lib/src/" not in src and "/src/run_kalign.c" not in src and "/src/parameters.c" not in src:
            os.remove(os.path.join(out, g))
            continue
        ex = sum(1 for l in txt if re.match(r"\s*\d+\*?:", l))
        un = [l for l in txt if re.match(r"\s*#####:", l)]
        tot = ex + len(un)
        rows.append((src.replace(C.REPO + "/", ""), ex, tot, un))
    rows.sort()
    with open(os.path.join(out, "SUMMARY.txt"), "w") as fo:
        for src, ex, tot, un in rows:
            line = "%-40s %5d / %5d lines  %5.1f%%" % (src, ex, tot, 100.0 * ex / max(1, tot))
            print(line)
            fo.write(line + "\n")
        fo.write("\nuncovered lines\n")
        for src, ex, tot, un in rows:
            fo.write("\n== %s\n" % src)
            for l in un:
                fo.write(l + "\n")
    for g in os.listdir(out):
        if g.endswith(".gcov"):
            os.remove(os.path.join(out, g))
    print("total ops", n, "-> coverage/SUMMARY.txt")


if __name__ == "__main__":
    main()
