#!/usr/bin/env python3
"""coverage.py [seed]: measure which lines of /repo's library the correspondence suites execute (generator quality, Cedar's lesson).
Builds the harness with gcov instrumentation, feeds it the op streams of all generators (quick sizes) plus the whole-pipeline ops,
runs gcov and prints per-file line coverage and the uncovered lines of the modelled files.  Developer tool; writes coverage/SUMMARY.txt."""
import os, re, shutil, subprocess, sys
sys.path.insert(0, os.path.dirname(os.path.abspath(__file__)))
from lib import common as C


def main():
    seed = int(sys.argv[1]) if len(sys.argv) > 1 else 1
    kvh = C.build_harness("cov")
    bdir = os.path.dirname(kvh)
    for f in os.listdir(bdir):
        if f.endswith(".gcda"):
            os.remove(os.path.join(bdir, f))
    streams = []
    streams.append(("dp", C.gen_ops("gen_dp.py", seed, 500, outfile=os.path.join(C.scratch(), "cov_dp.ops"))))
    streams.append(("io", C.gen_ops("gen_io.py", seed, 1)))
    streams.append(("misc", C.gen_ops("gen_misc.py", seed, 400)))
    streams.append(("bpm", C.gen_ops("gen_bpm.py", seed, "--random", 300, "--trees", 8, "--matrices", 15)))
    streams.append(("kmeans", C.gen_ops("gen_kmeans.py", seed)))
    streams.append(("pipe", C.gen_ops("gen_pipe.py", seed, 1)))
    streams.append(("pipefile", C.gen_ops("gen_pipefile.py", seed, 1)))
    streams.append(("cli", C.gen_ops("gen_cli.py", seed, 100)))
    for f in sorted(os.listdir(C.CORPUS)):
        streams.append(("corpus:" + f, [l.strip() for l in open(os.path.join(C.CORPUS, f)) if l.strip()][:400]))
    n = 0
    for name, lines in streams:
        size = max(1, len(lines) // C.NCPU + 1)
        parts = [lines[i:i + size] for i in range(0, len(lines), size)]
        from concurrent.futures import ThreadPoolExecutor
        with ThreadPoolExecutor(C.NCPU) as ex:
            list(ex.map(lambda part: C.run_lines(kvh, part, env={}, timeout=1800), parts))
        n += len(lines)
        print("ran %-28s %6d ops" % (name, len(lines)))
    out = os.path.join(C.VERIF, "coverage")
    shutil.rmtree(out, ignore_errors=True)
    os.makedirs(out)
    # one gcov run per object file into its own directory (a library file #included by a shim is reported under the shim's object; inline
    # helpers appear under several objects): merge per source line, executed if executed anywhere
    merged = {}
    for k, f in enumerate(sorted(os.listdir(bdir))):
        if not f.endswith(".gcda"):
            continue
        od = os.path.join(out, "g%d" % k)
        os.makedirs(od)
        subprocess.run(["gcov", "-o", bdir, os.path.join(bdir, f)], cwd=od, stdout=subprocess.PIPE, stderr=subprocess.STDOUT)
        for g in os.listdir(od):
            if not g.endswith(".gcov"):
                continue
            txt = open(os.path.join(od, g), errors="replace").read().splitlines()
            src = next((l.split("Source:")[1] for l in txt[:3] if "Source:" in l), g)
            src = os.path.normpath(os.path.join(bdir, src)) if not os.path.isabs(src) else src
            if "/lib/src/" not in src and not src.endswith("/src/run_kalign.c") and not src.endswith("/src/parameters.c"):
                continue
            d = merged.setdefault(src, {})
            for l in txt:
                m = re.match(r"\s*([0-9]+\*?|#####|-):\s*(\d+):(.*)$", l)
                if not m or m.group(1) == "-":
                    continue
                ln = int(m.group(2))
                hit = m.group(1) != "#####"
                prev = d.get(ln, (False, m.group(3)))
                d[ln] = (prev[0] or hit, m.group(3))
        shutil.rmtree(od)
    rows = []
    for src, d in merged.items():
        ex = sum(1 for v in d.values() if v[0])
        un = ["%6d:%s" % (ln, v[1]) for ln, v in sorted(d.items()) if not v[0]]
        rows.append((src.replace(C.REPO + "/", ""), ex, len(d), un))
    rows.sort()
    with open(os.path.join(out, "SUMMARY.txt"), "w") as fo:
        for src, ex, tot, un in rows:
            line = "%-40s %5d / %5d lines  %5.1f%%" % (src, ex, tot, 100.0 * ex / max(1, tot))
            print(line)
            fo.write(line + "\n")
        fo.write("\nuncovered lines\n")
        for src, ex, tot, un in rows:
            fo.write("\n== %s\n" % src)
            for l in un:
                fo.write(l + "\n")
    print("total ops", n, "-> coverage/SUMMARY.txt")


if __name__ == "__main__":
    main()
