#!/usr/bin/env python3
"""gen_pipe.py <seed> [scale] [opname] : op lines `kalign_sys <type> <gpoBits> <gpeBits> <tgpeBits> <seq>...` for the system-level
correspondence of the composed pipeline model (harness/ops_pipe.c  <->  lean/KalignModel/Model/Pipeline.lean), to stdout.
Seeded, no other source of randomness.  `scale` (default 1) multiplies the number of ops of every kind.

Inputs: evolved DNA / RNA / protein families (2..40 sequences routinely) with lower case, ambiguity codes, duplicates,
equal lengths (the canonical order is then decided by the names SEQ<i>: "SEQ10" < "SEQ2"), zero-length members, length-1
members, mixtures of nucleotide and protein sequences (detection near the decision boundary), non-letter residues;
a few inputs with 100..160 sequences (bisecting k-means path) and a few with sequences of 500..700 residues (parallel
Hirschberg controller, `enda - starta >= 500`); all `type` values -1..6 (and a few others), default and user penalties
(0, -0.0, small, large, above the 1e6 cap, inf, NaN); degenerate inputs (one sequence, all empty, fewer than two non-empty)."""
import random, struct, sys

OPNAME = "kalign_sys"

DNA = "ACGT"
RNA = "ACGU"
AA = "ACDEFGHIKLMNPQRSTVWY"
IUPAC = "RYSWKMBDHVN"
AA_AMB = "BZXUO"


def bits(x):
    return "%08x" % struct.unpack("<I", struct.pack("<f", x))[0]


def rand_seq(rng, alpha, n):
    return "".join(rng.choice(alpha) for _ in range(n))


def mutate(rng, s, alpha, sub, indel, maxindel=5, keep_len=False):
    out = []
    i = 0
    while i < len(s):
        r = rng.random()
        if not keep_len:
            if r < indel / 2:
                i += rng.randint(1, maxindel)
                continue
            if r < indel:
                out.append(rand_seq(rng, alpha, rng.randint(1, maxindel)))
        c = s[i]
        if rng.random() < sub:
            c = rng.choice(alpha)
        out.append(c)
        i += 1
    t = "".join(out)
    return t if t else rng.choice(alpha)


def family(rng, kind, nseq, length, sub=0.12, indel=0.04, keep_len=False):
    alpha = {"dna": DNA, "rna": RNA, "protein": AA}[kind]
    seqs = [rand_seq(rng, alpha, max(1, length))]
    while len(seqs) < nseq:
        seqs.append(mutate(rng, rng.choice(seqs), alpha, sub, indel, keep_len=keep_len))
    rng.shuffle(seqs)
    return seqs


def spice(rng, kind, seqs, p_lower=0.3, p_amb=0.25, p_dup=0.2, p_empty=0.15, p_one=0.05, p_odd=0.04):
    out = []
    for s in seqs:
        s = list(s)
        if rng.random() < p_amb and len(s) > 2:
            amb = AA_AMB if kind == "protein" else IUPAC
            for _ in range(rng.randint(1, max(1, len(s) // 8))):
                s[rng.randrange(len(s))] = rng.choice(amb)
        if rng.random() < p_odd and len(s) > 2:
            s[rng.randrange(len(s))] = rng.choice("*-.1_?@~")
        r = rng.random()
        if r < p_lower / 2:
            s = [c.lower() for c in s]
        elif r < p_lower:
            a = rng.randrange(len(s)); b = rng.randrange(a, len(s) + 1)
            s = s[:a] + [c.lower() for c in s[a:b]] + s[b:]
        out.append("".join(s))
    if rng.random() < p_dup and out:
        for _ in range(rng.randint(1, 3)):
            out.insert(rng.randrange(len(out) + 1), rng.choice(out))
    if rng.random() < p_empty:
        for _ in range(rng.randint(1, 3)):
            out.insert(rng.randrange(len(out) + 1), "")
    if rng.random() < p_one:
        out.insert(rng.randrange(len(out) + 1), rng.choice(DNA if kind != "protein" else AA))
    return out


DEFAULT = "bf800000"   # -1.0: keep the table value
PEN_POOL = [0.0, 0.5, 1.0, 2.0, 5.0, 5.5, 8.0, 16.0, 55.0, 100.0, 217.0, 1000.0, 999999.0, 1.0e6]
PEN_ODD = ["80000000", "7fc00000", "7f800000", "ff800000", "49742410", "4b189680", "00000001", "c0a00000", "7f7fffff"]
#            -0.0        NaN         +inf        -inf        1000001.0   1.0e7       denormal    -5.0        FLT_MAX


def penalties(rng):
    r = rng.random()
    if r < 0.55:
        return [DEFAULT] * 3
    if r < 0.9:
        return [bits(rng.choice(PEN_POOL)) if rng.random() < 0.7 else DEFAULT for _ in range(3)]
    return [rng.choice(PEN_ODD) if rng.random() < 0.5 else DEFAULT for _ in range(3)]


def pick_type(rng, kind):
    r = rng.random()
    if r < 0.7:
        return rng.choice([-1, 5, 6]) if rng.random() < 0.6 else (rng.choice([2, 3, 4]) if kind != "protein" else rng.choice([0, 1]))
    if r < 0.95:
        return rng.randint(-1, 6)
    return rng.choice([7, 99, -2, -100, 100, 10])


def line(rng, kind, seqs, typ=None, pen=None):
    typ = pick_type(rng, kind) if typ is None else typ
    pen = penalties(rng) if pen is None else pen
    return OPNAME + " %d %s %s" % (typ, " ".join(pen), " ".join(s if s else "." for s in seqs))


def gen(seed, scale=1):
    rng = random.Random(seed * 7919 + 17)
    ops = []
    kinds = ["dna", "rna", "protein"]
    # routine families
    for _ in range(60 * scale):
        kind = rng.choice(kinds)
        n = rng.choice([2, 2, 3, 3, 4, 5, 6, 8, 10, 12, 15, 20, 25, 30, 40])
        length = rng.choice([1, 2, 3, 5, 8, 12, 20, 30, 45, 60, 90, 130])
        sub = rng.choice([0.0, 0.03, 0.1, 0.2, 0.4])
        indel = rng.choice([0.0, 0.02, 0.05, 0.12])
        seqs = family(rng, kind, n, length, sub, indel)
        ops.append(line(rng, kind, spice(rng, kind, seqs)))
    # equal lengths: canonical order by name (SEQ1, SEQ10, SEQ11, ..., SEQ2, ...)
    for _ in range(14 * scale):
        kind = rng.choice(kinds)
        n = rng.choice([3, 9, 10, 11, 12, 13, 21, 25])
        seqs = family(rng, kind, n, rng.choice([6, 15, 33]), rng.choice([0.05, 0.2, 0.5]), 0.0, keep_len=True)
        ops.append(line(rng, kind, spice(rng, kind, seqs, p_empty=0.3, p_one=0.0)))
    # all identical / two identical
    for _ in range(6 * scale):
        kind = rng.choice(kinds)
        s = family(rng, kind, 1, rng.choice([1, 4, 17, 64]))[0]
        ops.append(line(rng, kind, [s] * rng.choice([2, 3, 7])))
    # mixtures near the detection boundary
    for _ in range(10 * scale):
        a = family(rng, "dna", rng.randint(1, 6), rng.choice([8, 20, 40]))
        b = family(rng, "protein", rng.randint(1, 4), rng.choice([3, 6, 12]))
        seqs = a + b
        rng.shuffle(seqs)
        ops.append(line(rng, rng.choice(kinds), spice(rng, "dna", seqs, p_amb=0.1)))
    # letters outside both detection sets only / undecidable
    for s in (["XXXX", "XXX"], ["BZX", "ZZBX", "XB"], ["acgt", "ACGU", "NNNN"], ["**", "*-*"], ["J", "O"], ["AB", "AX"]):
        ops.append(line(rng, "dna", s))
    # every type with default penalties on one DNA and one protein family
    d = spice(rng, "dna", family(rng, "dna", 6, 40))
    p = spice(rng, "protein", family(rng, "protein", 6, 40))
    for t in range(-1, 7):
        ops.append(line(rng, "dna", d, typ=t, pen=[DEFAULT] * 3))
        ops.append(line(rng, "protein", p, typ=t, pen=[DEFAULT] * 3))
    # degenerate inputs
    ops.append(line(rng, "dna", ["ACGT"]))
    ops.append(line(rng, "dna", [""]))
    ops.append(line(rng, "dna", ["", ""]))
    ops.append(line(rng, "dna", ["", "ACGT", ""]))
    ops.append(line(rng, "dna", ["", "ACGT", "", "A"], typ=-1, pen=[DEFAULT] * 3))
    ops.append(line(rng, "protein", ["W", "W"], typ=-1, pen=[DEFAULT] * 3))
    ops.append(line(rng, "protein", ["W", "K", "", "MKV"], typ=-1, pen=[DEFAULT] * 3))
    # long sequences: parallel Hirschberg controller (>= 500 residues)
    for _ in range(3 * scale):
        kind = rng.choice(kinds)
        n = rng.choice([2, 3, 4])
        seqs = family(rng, kind, n, rng.choice([500, 560, 700]), rng.choice([0.05, 0.15]), rng.choice([0.01, 0.03]))
        if rng.random() < 0.5:
            seqs.append(family(rng, kind, 1, rng.choice([30, 200]))[0])
        ops.append(line(rng, kind, spice(rng, kind, seqs, p_empty=0.1), typ=rng.choice([-1, 5, 6]), pen=[DEFAULT] * 3 if rng.random() < 0.7 else None))
    # many sequences: bisecting k-means (>= 100 non-empty sequences), incl. exactly 99 / 100 / 101
    sizes = [100, 101, rng.randint(102, 160)] if scale > 0 else []
    for n in sizes[: 2 * scale + 1]:
        kind = rng.choice(kinds)
        seqs = family(rng, kind, n, rng.choice([25, 40, 60]), rng.choice([0.05, 0.15, 0.3]), rng.choice([0.02, 0.06]))
        ops.append(line(rng, kind, spice(rng, kind, seqs, p_dup=0.0, p_empty=0.0, p_one=0.0), typ=rng.choice([-1, 5, 6]), pen=[DEFAULT] * 3 if rng.random() < 0.7 else None))
    kind = rng.choice(kinds)
    seqs = family(rng, kind, 99, 30, 0.1, 0.03)
    ops.append(line(rng, kind, seqs + [""] * 3, typ=-1, pen=[DEFAULT] * 3))
    return ops


if __name__ == "__main__":
    seed = int(sys.argv[1]) if len(sys.argv) > 1 else 1
    scale = int(sys.argv[2]) if len(sys.argv) > 2 else 1
    OPNAME = sys.argv[3] if len(sys.argv) > 3 else "kalign_sys"   # e.g. kalign_sys_soft (same harness call, SoftF32 model)
    print("\n".join(gen(seed, scale)))
