#!/usr/bin/env python3
"""check.py <property-id> [--tier quick|thorough] [--replay path]

One entry point for all properties (see DESIGN.md 2.4):
  1. regenerate KalignModel/Gen/*.lean from /repo's current sources (translators)
  2. build the property's theorems, audit their axioms, grep for sorry/admit/axiom/...
  3. build the harness from /repo's working tree, run corpus + seeded correspondence suites
  4. run the property's oracle search on the implementation
  5. write evidence/<id>.json; exit 1 with a VIOLATION line on a violation
"""
import argparse, importlib, os, sys, traceback

sys.path.insert(0, os.path.dirname(os.path.abspath(__file__)))
from lib import common as C  # noqa: E402


def main():
    import faulthandler
    # watchdog against hangs inside the machinery itself (subprocesses have their own timeouts)
    faulthandler.dump_traceback_later(int(os.environ.get("VERIF_WATCHDOG_S", "5400")), exit=True)
    ap = argparse.ArgumentParser()
    ap.add_argument("prop")
    ap.add_argument("--tier", default=os.environ.get("VERIF_TIER", "quick"))
    ap.add_argument("--replay", default=None)
    a = ap.parse_args()
    tier = a.tier if a.tier in ("quick", "thorough") else "quick"
    try:
        seed = int(os.environ.get("VERIF_SEED", "1"))
    except ValueError:
        seed = 1
    prop = a.prop.upper()
    mod = importlib.import_module("props." + prop.lower())
    ctx = C.Ctx(prop, tier, seed)
    if a.replay:
        return mod.replay(ctx, a.replay)
    try:
        from lib import translate
        try:
            translate.run(ctx)
        except translate.TranslateError as ex:
            # a translator no longer understands the source: the regenerated part of the model is stale, the tie is broken --
            # for the properties whose theorems or correspondence read that part. Keep going with the last generated Gen/
            # so that the search can still look for a failing input.
            import re as _re
            mods = _re.findall(r"KalignModel\.Props\.\w+", getattr(mod, "CHECKER", "")) or ["KalignModel.Props." + prop]
            uses = translate.gen_sections_of(mods) | set(getattr(mod, "GEN_USES", ()))
            failed = getattr(ex, "sections", None)
            relevant = sorted(set(failed) & uses) if failed is not None else ["?"]
            if relevant:
                msg = "; ".join("%s: %s" % (k, failed[k]) for k in relevant) if failed is not None else str(ex)
                ctx.translate_error = msg
                ctx.violation("translator cannot regenerate the model from the current sources: " + msg[:600],
                              dict(kind="translator", error=msg[:3000]), no_input=True)
            else:
                ctx.notes.append("translator sections %s could not be regenerated; this property's theorems and correspondence read only %s -- not a broken tie here"
                                 % (sorted(failed), sorted(uses)))
        C.CURRENT_CTX = ctx
        rc = mod.run(ctx)
        if rc == 99:
            print("[%s] a proof obligation or correspondence no longer checks; searching for a failing input with the enlarged budget ..." % prop)
            ctx2 = C.Ctx(prop, tier, seed)
            if getattr(ctx, "translate_error", None):
                ctx2.translate_error = ctx.translate_error
                ctx2.violation("translator cannot regenerate the model from the current sources: " + ctx.translate_error[:600],
                               dict(kind="translator", error=ctx.translate_error[:3000]), no_input=True)
            ctx2.escalated = True
            ctx2.quick = False
            ctx2.t0 = ctx.t0
            ctx2.notes.append("escalated search: thorough budget used after a broken obligation/correspondence in the quick run")
            C.CURRENT_CTX = ctx2
            rc = mod.run(ctx2)
    except C.BuildError as ex:
        # the harness no longer compiles against /repo: the tie is broken
        ctx.violation("harness does not build against the current sources: " + str(ex)[:1500],
                      dict(kind="harness-build", log=str(ex)[-6000:]), no_input=True)
        ctx.escalated = True
        rc = ctx.finish(level=getattr(mod, "LEVEL", "proof"), checker_cmd=getattr(mod, "CHECKER", ""))
    except Exception:
        # the machinery itself tripped -- in practice over an output of the code it did not expect (all checks run clean on the unchanged tree
        # over many seeds). The property is then not shown to hold on this tree: report it as such, with the traceback as the replay.
        tb = traceback.format_exc()
        traceback.print_exc()
        try:
            ctx3 = C.Ctx(prop, tier, seed)
            ctx3.escalated = True
            ctx3.violation("the check machinery failed while judging this tree (unexpected output of the code?): " + tb.strip().splitlines()[-1][:300],
                           dict(kind="machinery", traceback=tb[-6000:]), no_input=True)
            return ctx3.finish(level=getattr(mod, "LEVEL", "proof"), checker_cmd=getattr(mod, "CHECKER", ""))
        except Exception:
            traceback.print_exc()
            print("internal error in check machinery (not a verdict about the code)")
            return 2
    return rc


if __name__ == "__main__":
    sys.exit(main())
