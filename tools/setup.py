#!/usr/bin/env python3
"""setup: regenerate Gen/ from /repo, build the whole Lean library and the model driver (offline)."""
import os, sys
sys.path.insert(0, os.path.dirname(os.path.abspath(__file__)))
from lib import common as C
from lib import translate


def main():
    translate.run(None)
    ok, log = C.lake_build(["KalignModel", "kmodel"])
    print(log[-3000:])
    if not ok:
        print("setup: lake build failed")
        return 1
    # also build every Props module that exists (not necessarily imported by the root)
    props = sorted(f[:-5] for f in os.listdir(os.path.join(C.LEAN, "KalignModel", "Props")) if f.endswith(".lean"))
    ok2, log2 = C.lake_build(["KalignModel.Props." + p for p in props])
    print(log2[-2000:])
    return 0 if ok2 else 1


if __name__ == "__main__":
    sys.exit(main())
