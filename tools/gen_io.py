#!/usr/bin/env python3
"""gen_io.py <seed> [scale] : op lines for the file-I/O slice (harness/ops_io.c <-> lean/KalignModel/Driver/Io.lean).

Streams
  (a) alignments (widths 1..400 incl. the multiples of 60 and their neighbours, 1..40 rows, a few > 512 rows, names of
      1..200 characters over [A-Za-z0-9_.|-] incl. adversarial ones) written in each format (`write`) and written + read
      back (`write_read`);
  (b) re-presentations of the same records for C04: other gap glyphs from ispunct, arbitrary line widths, blank lines,
      leading/trailing blanks, rendered here as FASTA / Clustal / MSF text and read (`read`, `read_as`);
  (c) a malformed stream: truncated files, missing headers, punctuation before the first '>', `Len:` before `Name:`,
      non-ASCII bytes, control characters, > 512 rows per block, empty lines only, ...
plus unit ops (`detect_format`, `parse_format`, `gcg`) and multi-file reads (merge_msa).
Deterministic for a given seed.  Usage: python3 tools/gen_io.py 1 > /tmp/io1.ops ; python3 tools/corr.py /tmp/io1.ops
"""
import os, random, sys
sys.path.insert(0, os.path.dirname(os.path.abspath(__file__)))
from lib import common as C

NAMECH = "ABCDEFGHIJKLMNOPQRSTUVWXYZabcdefghijklmnopqrstuvwxyz0123456789_.|-"
DNA = "ACGT"
AA = "ACDEFGHIKLMNPQRSTVWY"
PUNCT = "".join(chr(c) for c in range(33, 127) if not chr(c).isalnum())
WIDTHS = [1, 2, 3, 10, 59, 60, 61, 119, 120, 121, 179, 180, 181, 240, 300, 399, 400]
VER = C.repo_version()


def hx(b):
    if isinstance(b, str):
        b = b.encode("latin-1")
    return b.hex() if b else "-"


def rand_name(rng, maxlen=200):
    r = rng.random()
    if r < 0.08:
        return rng.choice(["-", ".", "a|b", "|", "_", "--", "..", "0", "12345", "sp|P12345|X_Y", "a.b-c|d_e", "CLUSTAL", "MSF", "Name", "Len",
                           "multiple", "Kalign", "x" * 200, "A" * 199, "Z" * 60])
    if r < 0.15:
        n = rng.randint(1, 12)
        return "".join(rng.choice("0123456789") for _ in range(n))
    if r < 0.25:
        n = rng.randint(100, maxlen)
    else:
        n = rng.randint(1, 25)
    return "".join(rng.choice(NAMECH) for _ in range(n))


def rand_names(rng, n):
    names = []
    mode = rng.random()
    for i in range(n):
        if mode < 0.15 and names and rng.random() < 0.6:
            # names that are prefixes / extensions of each other
            b = rng.choice(names)
            nm = (b + rng.choice(NAMECH))[:200] if rng.random() < 0.5 else (b[:max(1, len(b) - 1)])
        elif mode < 0.25 and names and rng.random() < 0.3:
            nm = rng.choice(names)          # duplicates
        else:
            nm = rand_name(rng)
        names.append(nm)
    return names


def rand_alignment(rng, nrows=None, width=None):
    if width is None:
        width = rng.choice(WIDTHS) if rng.random() < 0.6 else rng.randint(1, 400)
    if nrows is None:
        nrows = rng.randint(1, 40) if rng.random() < 0.8 else rng.randint(1, 4)
    alpha = DNA if rng.random() < 0.5 else AA
    lower = rng.random()
    gapf = rng.choice([0.0, 0.05, 0.2, 0.5, 0.9])
    rows = []
    for i in range(nrows):
        r = []
        for j in range(width):
            if rng.random() < gapf:
                r.append("-")
            else:
                c = rng.choice(alpha)
                if rng.random() < (0.3 if lower < 0.3 else 0.0):
                    c = c.lower()
                r.append(c)
        if rng.random() < 0.05:
            r = ["-"] * width               # all-gap row
        rows.append("".join(r))
    return rand_names(rng, nrows), rows, width, (1 if alpha == DNA else 0)


def rand_base(rng):
    r = rng.random()
    if r < 0.1:
        return rng.choice(["out.msf", "a", "x" * 200, "CLUSTAL", "Name:Len:", "MSF:", "!!AA_MULTIPLE_ALIGNMENT", ">x", "a:b", "Check:", "Type:"])
    n = rng.randint(1, 30)
    return "".join(rng.choice(NAMECH + ":;,+=") for _ in range(n))


def write_ops(rng, names, rows, alnlen, bio, fmts=("fasta", "msf", "clu"), both=True):
    L = rng.choice([5, 13, 21, 23, 255]) if rng.random() < 0.5 else (5 if bio == 1 else 23)
    base = hx(rand_base(rng))
    recs = " ".join("%s:%s" % (hx(n), r if r else ".") for n, r in zip(names, rows))
    out = []
    for f in fmts:
        tail = "%s %s %d %d %d %s %s" % (f, VER, bio, L, alnlen, base, recs)
        out.append("write " + tail.rstrip())
        if both:
            out.append("write_read " + tail.rstrip())
    return out


# ---------------------------------------------------------------------------------------------- renderers (stream b)

def gapify(rng, row, glyphs):
    return "".join(rng.choice(glyphs) if c == "-" else c for c in row)


def wrap(rng, s, mode):
    """split s into pieces: fixed width or random widths"""
    out = []
    if mode == "one":
        return [s]
    if mode == "fixed":
        w = rng.choice([1, 7, 10, 50, 60, 61, 80, 1000])
        return [s[i:i + w] for i in range(0, len(s), w)] or [""]
    i = 0
    while i < len(s):
        w = rng.randint(1, 90)
        out.append(s[i:i + w])
        i += w
    return out or [""]


def noise_ws(rng, piece, p):
    """blanks inside / around a sequence piece"""
    if rng.random() >= p:
        return piece
    out = []
    for c in piece:
        out.append(c)
        if rng.random() < 0.1:
            out.append(rng.choice([" ", "  ", "1", "42"]))
    return "".join(out) + rng.choice(["", " ", "   "])


def render_fasta(rng, names, rows, glyphs="-", p_noise=0.3, eol="\n"):
    L = []
    mode = rng.choice(["one", "fixed", "random"])
    for n, r in zip(names, rows):
        L.append(">" + n)
        if rng.random() < 0.2:
            L.append("")
        for piece in wrap(rng, gapify(rng, r, glyphs), mode):
            lead = rng.choice(["", "", " ", "   "]) if rng.random() < p_noise else ""
            L.append(lead + noise_ws(rng, piece, p_noise))
            if rng.random() < 0.1 * p_noise:
                L.append(rng.choice(["", " ", "  "]))
    s = eol.join(L)
    if rng.random() < 0.8:
        s += eol
    return s


def render_blocks(rng, names, rows, glyphs, header, msf, p_noise=0.3):
    """Clustal (msf=False) or MSF body layout with arbitrary block widths"""
    n = len(rows)
    width = len(rows[0]) if rows else 0
    L = list(header)
    pad = max([len(x) for x in names] + [0]) + rng.randint(1, 8)
    i = 0
    first = True
    while i < width or first:
        first = False
        w = rng.choice([10, 50, 60, 61, 100]) if rng.random() < 0.5 else rng.randint(1, 120)
        for k in range(n):
            piece = gapify(rng, rows[k][i:i + w], glyphs)
            if msf and rng.random() < p_noise:
                piece = " ".join(piece[a:a + 10] for a in range(0, len(piece), 10))
            sep = " " * (pad - len(names[k])) if rng.random() < 0.8 else " "
            tail = rng.choice(["", "", " ", " %d" % min(width, i + w)]) if rng.random() < p_noise else ""
            L.append(names[k] + sep + piece + tail)
        if not msf and rng.random() < 0.5:
            L.append(" " * pad + "".join(rng.choice(" *:.") for _ in range(min(w, max(0, width - i)))))
        for _ in range(rng.randint(1, 3)):
            L.append("")
        i += w
    s = "\n".join(L)
    if rng.random() < 0.8:
        s += "\n"
    return s


def clu_header(rng):
    h = rng.choice(["CLUSTAL W (1.83) multiple sequence alignment", "CLUSTAL O(1.2.4) multiple sequence alignment",
                    "Kalign (%s) multiple sequence alignment" % VER, "CLUSTAL W", "CLUSTAL O", "MUSCLE multiple sequence alignment"])
    return [h] + [""] * rng.randint(0, 3)


def msf_header(rng, names, width, typ="N"):
    magic = rng.choice(["!!AA_MULTIPLE_ALIGNMENT 1.0", "!!NA_MULTIPLE_ALIGNMENT 1.0", "PileUp", ""])
    L = [magic, "", " x.msf  MSF: %d  Type: %s  January 01, 2000 00:00  Check: 0 .." % (width, typ), ""]
    mx = max([len(n) for n in names] + [1])
    for n in names:
        L.append(" Name: %-*s  Len: %5d  Check: %4d  Weight:  1.00" % (mx, n, width, 0))
    L += ["", "//", ""]
    return L


def records_ok_for_blocks(names):
    return all(n and " " not in n for n in names)


# ---------------------------------------------------------------------------------------------- stream (c)

def mutate_bytes(rng, b):
    b = bytearray(b)
    k = rng.randint(1, 4)
    for _ in range(k):
        if not b:
            break
        r = rng.random()
        p = rng.randrange(len(b))
        if r < 0.3:
            b[p] = rng.choice([0, 9, 13, 127, 128, 200, 255, 10, 32, 62, 47, 45])
        elif r < 0.5:
            del b[p:p + rng.randint(1, 20)]
        elif r < 0.7:
            b[p:p] = bytes(rng.choice([0, 9, 10, 13, 32, 45, 46, 62, 128, 255]) for _ in range(rng.randint(1, 5)))
        elif r < 0.85:
            b = b[:p]                       # truncate
        else:
            q = rng.randrange(len(b))
            b[p], b[q] = b[q], b[p]
    return bytes(b)


MALFORMED_FIXED = [
    b"", b"\n", b"\n\n\n", b" \n \n", b">", b">\n", b">a", b">a\n", b">a\n>b\n", b"A\n>x\nACGT\n>y\nAC\n",
    b"--\n>a\nACGT\n>b\nACGT\n", b"\n--\n>a\nACGT\n>b\nACGT\n", b"\nAC\n>a\nACGT\n>b\nACGT\n", b"  \n12\n>a\nACGT\n>b\nACGT\n",
    b">a\nAC\tGT\n>b\nAC\rGT\n", b">a\x00b\nACGT\n>b\nAC\x00GT\n", b">a\nAC\x80\xffGT\n>b\nACGT\n", b">a b c\nACGT\n>b\tx\nACGT\n",
    b">a\r\nACGT\r\n>b\r\nAC-T\r\n", b">a\nACGT\n>b\nAC-T", b">a\n\n\n>b\n\n", b">>a\nAC\n>>b\nGT\n", b">a\n>b\nACGT\n>c\nAC\n",
    b"CLUSTAL W\n", b"CLUSTAL W\n\na ACGT\nb AC-T\n", b"CLUSTAL W\na ACGT\nb AC-T\n", b"CLUSTAL W\n\nACGT\nAC-T\n",
    b"CLUSTAL W\n\na ACGT\nb AC-T\n\na AC\n", b"CLUSTAL W\n\na ACGT\nb AC-T\n\nb AC\na GG\nc TT\n", b"\nCLUSTAL W\n\na ACGT\nb AC-T\n",
    b"CLUSTAL O\n\n" + b"x" * 254 + b" ACGT\n" + b"y" * 255 + b" ACGT\n" + b"z" * 256 + b" ACGT\n" + b"w" * 300 + b" AC\n",
    b"CLUSTAL O\n\n" + b"x" * 254 + b"\n" + b"y" * 255 + b"\n" + b"z" * 256 + b"\n" + b"w" * 300 + b"\n",
    b"!!AA_MULTIPLE_ALIGNMENT 1.0\n", b"MSF:\n//\n", b"MSF:\n Name: a Len: 4\n Name: b Len: 4\n//\n\na ACGT\nb AC.T\n",
    b"MSF:\n Name: a Len: 4\n Name: b Len: 4\n\na ACGT\nb AC.T\n", b"MSF:\n Name: a Len: 4\n Name: b Len: 4\n//\n\na ACGT\nb AC.T\nc ACGT\n",
    b"MSF:\n Len: 4 Name: a\n Len: 4 Name: b\n//\n\na ACGT\nb AC.T\n", b"MSF:\n Name:a Len:4\n Name:b Len:4\n//\na ACGT\nb AC.T\n",
    b"MSF:\n Name: a\n Len: 4\n Name: Len:\n Name:   Len:\n//\n\na ACGT\nb AC.T\n", b"MSF:\n Name: abc Len: 4\n Name: b Len: 4\n//\na ACGT\nb AC.T\n",
    b"MSF:\n Name: a Len: 4 //\n Name: b Len: 4\n//\na ACGT\nb AC.T\n", b"MSF: Name: Len:\n//\nACGT\n",
    b"MSF:\n Name: " + b"n" * 300 + b" Len: 4\n Name: b Len: 4\n//\n" + b"n" * 300 + b" ACGT\nb ACGT\n",
    b"MSF:\n Name: a Len: 4\n Name: b Len: 4\n//\n\na ACGT\nb AC.T\n\na A\n\n\nb C\n",
    b">a\nMSF:\nACGT\n>b\nAC\n", b">a\nCLUSTAL W\n>b\nAC\n", b"MSF: CLUSTAL W\n\na ACGT\nb ACGT\n", b">a multiple sequence alignment\nACGT\n>b\nACGT\n",
    b"x\n" * 100 + b">a\nACGT\n>b\nACGT\n", b"x\n" * 99 + b">a\nACGT\n>b\nACGT\n", b"xx\n" * 100 + b">a\nACGT\n>b\nACGT\n", b"xx\n" * 99 + b">a\nACGT\n>b\nACGT\n",
    b">a\nACGT\n" + b"xx\n" * 100 + b"CLUSTAL W\n>b\nACGT\n",
    b"\x7f>a\nACGT\n>b\nACGT\n", b"\xff\n>a\nACGT\n>b\nACGT\n", b"\xff\xfe>a\nACGT\n>b\nACGT\n",
]


def many_rows_block(rng, n, kind):
    names = ["r%d" % i for i in range(n)]
    rows = ["".join(rng.choice("ACGT-") for _ in range(7)) for _ in range(n)]
    if kind == "clu":
        return render_blocks(rng, names, rows, "-", ["CLUSTAL W"], False, 0.0)
    if kind == "msf":
        return render_blocks(rng, names, rows, "-.", msf_header(rng, names, 7), True, 0.0)
    return render_fasta(rng, names, rows, "-", 0.0)


# ---------------------------------------------------------------------------------------------- main

def gen(seed, scale=1.0):
    rng = random.Random(seed * 7919 + 13)
    ops = []
    N = lambda k: max(1, int(k * scale))
    # unit ops
    for _ in range(N(30)):
        n = rng.choice([0, 1, 2, 56, 57, 58, 59, 60, 114, 115, 400]) if rng.random() < 0.5 else rng.randint(0, 300)
        row = "".join(rng.choice("ACGTacgtNn-WYZz") for _ in range(n))
        ops.append("gcg " + (row if row else "."))
    for f in ["fasta", "fa", "msf", "clu", "clustal", "aln", "x", "-", "FASTA", "msfasta", "cluster", "af", "mfa", "clumsf", "fastaclu"]:
        ops.append("parse_format " + f)
    # (a)
    for k in range(N(60)):
        names, rows, w, bio = rand_alignment(rng)
        alnlen = w if rng.random() < 0.9 else rng.randint(0, w)
        ops += write_ops(rng, names, rows, alnlen, bio)
    for w in WIDTHS:
        names, rows, _, bio = rand_alignment(rng, nrows=rng.randint(2, 5), width=w)
        ops += write_ops(rng, names, rows, w, bio)
    for n in ([513, 600] if scale >= 1 else [513]):
        names, rows, w, bio = rand_alignment(rng, nrows=n, width=rng.choice([7, 61, 130]))
        names = [x[:20] for x in names]
        ops += write_ops(rng, names, rows, w, bio)
    ops += write_ops(rng, [], [], 0, 0)
    ops += write_ops(rng, ["a", "b"], ["", ""], 0, 1)
    ops += write_ops(rng, ["", ""], ["AC", "A-"], 2, 1)
    ops += write_ops(rng, ["n" * 255, "n" * 256, "n" * 257, "m" * 300], ["ACGT", "A-GT", "AC-T", "ACG-"], 4, 1)
    ops += write_ops(rng, ["a b", "c\td", "\xe9\xff", ">x"], ["ACGT", "A-GT", "AC-T", "ACG-"], 4, 1)
    ops += write_ops(rng, ["a", "b"], ["ACGT", "A-GT"], 4, 1, fmts=("xyz", "-", "fa", "clustal", "msfclu"), both=False)
    # (b)
    for k in range(N(80)):
        names, rows, w, bio = rand_alignment(rng, nrows=rng.randint(2, 12))
        glyphs = rng.choice(["-", ".", "-.", "~", "*", PUNCT.replace(">", ""), PUNCT])
        r = rng.random()
        if r < 0.4:
            txt = render_fasta(rng, names, rows, glyphs, rng.choice([0.0, 0.3, 1.0]), rng.choice(["\n", "\n", "\r\n"]))
            ops.append("read " + hx(txt))
            ops.append("read_as 1 " + hx(txt))
        elif r < 0.7:
            names = [n.replace(" ", "_") or "x" for n in names]
            txt = render_blocks(rng, names, rows, glyphs, clu_header(rng), False, rng.choice([0.0, 0.3]))
            ops.append("read " + hx(txt))
            ops.append("read_as 3 " + hx(txt))
        else:
            txt = render_blocks(rng, names, rows, glyphs, msf_header(rng, names, w), True, rng.choice([0.0, 0.3]))
            ops.append("read " + hx(txt))
            ops.append("read_as 2 " + hx(txt))
        if rng.random() < 0.3:
            ops.append("read_as %d %s" % (rng.choice([1, 2, 3]), hx(txt)))
        ops.append("detect_format " + hx(txt))
    # multi-file reads (merge_msa)
    for k in range(N(12)):
        files = []
        for _ in range(rng.randint(2, 4)):
            names, rows, w, bio = rand_alignment(rng, nrows=rng.randint(1, 5), width=rng.randint(1, 80))
            r = rng.random()
            if r < 0.1:
                files.append(rng.choice(["", "\n", "x\n", "no format here\n"]))
            elif r < 0.6:
                files.append(render_fasta(rng, names, rows, "-", 0.0))
            elif r < 0.8:
                files.append(render_blocks(rng, names, rows, "-", clu_header(rng), False, 0.0))
            else:
                files.append(render_blocks(rng, names, rows, ".", msf_header(rng, names, w), True, 0.0))
        ops.append("read " + " ".join(hx(f) for f in files))
    # (c)
    for b in MALFORMED_FIXED:
        ops.append("read " + hx(b))
        for t in (1, 2, 3):
            ops.append("read_as %d %s" % (t, hx(b)))
        ops.append("detect_format " + hx(b))
    for kind in ("fa", "clu", "msf"):
        for n in (512, 513, 1025):
            txt = many_rows_block(rng, n, kind)
            ops.append("read " + hx(txt))
    # msf: more rows in the header than in the blocks and vice versa, > 512 body rows with few names
    ops.append("read " + hx("MSF:\n Name: a Len: 1\n Name: b Len: 1\n//\n" + "".join("r%d ACGT\n" % i for i in range(600))))
    ops.append("read " + hx("MSF:\n" + "".join(" Name: r%d Len: 1\n" % i for i in range(600)) + "//\nr0 ACGT\n"))
    for k in range(N(150)):
        names, rows, w, bio = rand_alignment(rng, nrows=rng.randint(1, 6), width=rng.randint(1, 130))
        r = rng.random()
        if r < 0.4:
            txt = render_fasta(rng, names, rows, "-.", 0.3)
        elif r < 0.7:
            txt = render_blocks(rng, names, rows, "-.", clu_header(rng), False, 0.3)
        else:
            txt = render_blocks(rng, names, rows, "-.", msf_header(rng, names, w), True, 0.3)
        b = mutate_bytes(rng, txt.encode("latin-1"))
        ops.append("read " + hx(b))
        ops.append("read_as %d %s" % (rng.choice([1, 2, 3]), hx(b)))
    for k in range(N(40)):
        n = rng.randint(0, 200)
        pool = [10, 10, 32, 62, 45, 46, 65, 67, 71, 84, 97, 47, 58, 0, 9, 13, 127, 128, 255] + list(b"Name:Len:MSF://CLUSTAL W")
        b = bytes(rng.choice(pool) for _ in range(n))
        ops.append("read " + hx(b))
        ops.append("read_as %d %s" % (rng.choice([1, 2, 3]), hx(b)))
    ops += ["read", "read zz", "read_as 4 -", "write fasta", "gcg A*", "write fasta %s 0 0 5 61 61:ACG" % VER,
            "write fasta %s 0 0 1 2f 61:ACG" % VER, "write fasta %s 3 0 1 61 61:ACG" % VER]
    return ops


if __name__ == "__main__":
    seed = int(sys.argv[1]) if len(sys.argv) > 1 else 1
    scale = float(sys.argv[2]) if len(sys.argv) > 2 else 1.0
    sys.stdout.write("\n".join(gen(seed, scale)) + "\n")
