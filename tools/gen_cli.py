#!/usr/bin/env python3
"""gen_cli.py <seed> [n] : op lines `cli <stdinTty> <failAt> <hex(argv1)> ...` for the command-line front end
(harness/ops_cli.c, lean Driver/Cli.lean), written to stdout.  Seeded, no other source of randomness.

Streams (about n lines each, default n = 150):
  valid      mostly well-formed command lines: every option of the table in random order and random spelling
             (--name v, -name v, --name=v, -name=v, unambiguous prefixes, -c v, -cv, clusters of short flags), repeated
             options, file names before / between / after the options, `--`
  malformed  unknown and ambiguous options, missing and unexpected arguments, bad format / type words, thread counts
             0 / -1 / junk, byte soup
  numbers    the strings given to atoi / atof: signs, blanks, trailing junk, many digits, exponents, values next to the
             binary32/binary64 rounding boundaries, subnormals, overflow, hexadecimal floats, inf / nan
`nan(...)` (payload syntax of glibc) is the one form the model does not cover; it is not generated."""
import random, struct, sys

LONG = [("showw", 0), ("set", 1), ("format", 1), ("type", 1), ("gpo", 1), ("gpe", 1), ("tgpe", 1), ("nthreads", 1),
        ("input", 1), ("infile", 1), ("in", 1), ("output", 1), ("outfile", 1), ("out", 1), ("help", 0), ("version", 0), ("quiet", 0)]
SHORT_ARG = "iofn"
SHORT_FLAG = "hqvV"
KIND = {"set": "int", "format": "fmt", "type": "type", "gpo": "flt", "gpe": "flt", "tgpe": "flt", "nthreads": "thr",
        "input": "file", "infile": "file", "in": "file", "output": "file", "outfile": "file", "out": "file",
        "i": "file", "o": "file", "f": "fmt", "n": "thr"}


def hx(b):
    if isinstance(b, str):
        b = b.encode()
    return b.hex() if b else "-"


def unambiguous_prefixes(name):
    out = []
    names = [n for n, _ in LONG]
    for k in range(1, len(name) + 1):
        p = name[:k]
        if p in names or sum(1 for n in names if n.startswith(p)) == 1:
            out.append(p)
    return out


def f32(x):
    return struct.unpack("<f", struct.pack("<I", x))[0]


def f64(x):
    return struct.unpack("<d", struct.pack("<Q", x))[0]


def dec_exact(num, e2):
    """exact decimal expansion of num * 2^e2"""
    if e2 >= 0:
        return str(num << e2)
    n = num * 5 ** (-e2)
    s = str(n).rjust(-e2 + 1, "0")
    return (s[:e2] + "." + s[e2:]).rstrip("0").rstrip(".")


def float_string(rng):
    k = rng.randrange(22)
    if k == 0:
        return rng.choice(["0", "5", "8", "5.5", "0.5", "10", "55", "1.0", "2.5", "12.25", "100", "0.0", "1000000", "1000001", "1e6", "999999.97"])
    if k == 1:
        return "%d.%s" % (rng.randrange(0, 200), "".join(rng.choice("0123456789") for _ in range(rng.randrange(0, 12))))
    if k == 2:
        return "%s%d.%de%s%d" % (rng.choice(["", "-", "+"]), rng.randrange(10), rng.randrange(1000), rng.choice(["", "-", "+"]), rng.randrange(0, 50))
    if k == 3:      # a binary32 value or the midpoint to its neighbour, written exactly in decimal, possibly nudged
        b = rng.choice([rng.randrange(1, 0x7f7fffff), rng.randrange(0x3f000000, 0x42000000), rng.randrange(1, 0x00800010)])
        e = (b >> 23) & 0xff
        m = b & 0x7fffff
        if e == 0:
            num, q = m, -149
        else:
            num, q = m | 0x800000, e - 150
        num, q = 2 * num + 1, q - 1             # midpoint between b and b+1
        s = dec_exact(num, q)
        r = rng.randrange(4)
        if r == 1:
            s = s + "0000000000000000000001" if "." in s else s + ".0000000000000000000001"
        elif r == 2 and "." in s and s[-1] != "0":
            s = s[:-1] + str(int(s[-1]) - 1) + "9999999999999999999"
        elif r == 3:                              # a double-rounding trap: just above the midpoint by less than half a double ulp
            s = dec_exact(num * (1 << 30) + 1, q - 30)
        return s
    if k == 4:      # binary64 midpoints (tests the first rounding)
        b = rng.choice([rng.randrange(1, 0x7fefffffffffffff), rng.randrange(0x3ff0000000000000, 0x4030000000000000)])
        e = (b >> 52) & 0x7ff
        m = b & ((1 << 52) - 1)
        if e == 0:
            num, q = m, -1074
        else:
            num, q = m | (1 << 52), e - 1075
        if q < -400 or q > 300:
            return "%r" % f64(b)
        num, q = 2 * num + rng.choice([0, 1, 1]), q - 1
        s = dec_exact(num, q)
        if rng.random() < .3:
            s += "1" if "." in s else ".0000001"
        return s
    if k == 5:
        return rng.choice(["1e38", "3.4028235e38", "3.4028236e38", "3.40282356779733661637539395458142568448e38", "3.5e38", "1e39", "1e308",
                           "1.7976931348623157e308", "1.7976931348623159e308", "1e309", "1e400", "1e401", "1e99999999999999999999", "0e99999999999",
                           "1e-45", "7e-46", "7.1e-46", "1.4e-45", "2.1e-45", "2.2e-45", "1e-38", "1.17549435e-38", "1.1754942e-38", "5e-324", "2e-324", "3e-324",
                           "1e-400", "1e-401", "1e-99999999999999999", "0.000000000000000000000000000000000000000000001",
                           "340282356779733661637539395458142568448", "340282346638528859811704183484516925440", "340282356779733661637539395458142568447.9"])
    if k == 6:
        return rng.choice(["inf", "INF", "Infinity", "-inf", "+INFINITY", "infinit", "infx", "in", "nan", "NaN", "-nan", "+nan", "nanx", "nan(", "nan(1", "nan)", "na", "n", "i"])
    if k == 7:
        return rng.choice(["0x1p0", "0x1.8p1", "0X1P-1", "0x.8", "0x.", "0x", "0xg", "0x1p", "0x1p+", "0x1.fffffep127", "0x1.ffffffp127", "0x1.fffffefp127", "0x1p128",
                           "0x1p-149", "0x1p-150", "0x1.000001p-150", "0x1.8p-150", "0x1p-1074", "0x1p-1075", "0x0p5", "-0x0.0p0", "0x10", "0xA.8", "0xabcdefp-10",
                           "0x1.000001p0", "0x1.000001000000001p0", "0x1.0000010000000001p0", "0x1.000003p0", "0x1p99999999999", "0x1p-99999999999", "0x.0000000001p40", "-0x1.8", "0xp1", "0x.p1", "0x1.p1"])
    if k == 8:
        return rng.choice(["", " ", "-", "+", ".", "-.", ".e5", "e5", "-.5", "5.", "5.e2", "5e", "5e+", "5e-", "5e1x", ".5.5", "1,5", "--5", "+-5", "-+5", "5-", "abc", "-abc", "-0", "-0.0", "+0", "00012", "1e+05", "1E5", "1e 5", "0.1e1"])
    if k == 9:
        return rng.choice([" ", "\t", "\n", "\v", "\f", "\r", "  \t"]) + float_string(rng)
    if k == 10:
        return float_string(rng) + rng.choice(["x", " ", "f", "F", "e", ".", "..", "p1", "\x01", "\xff"])
    if k == 11:
        return rng.choice(["-", "+", ""]) + float_string(rng).lstrip("+-")
    if k == 12:
        return "".join(rng.choice("0123456789") for _ in range(rng.randrange(1, 60))) + rng.choice(["", ".", ".5", "e-%d" % rng.randrange(70), "e%d" % rng.randrange(30)])
    if k == 13:
        return "0." + "0" * rng.randrange(0, 50) + "".join(rng.choice("0123456789") for _ in range(rng.randrange(1, 30))) + rng.choice(["", "e%d" % rng.randrange(60), "e-%d" % rng.randrange(10)])
    if k == 14:
        return "%r" % f32(rng.randrange(0, 0x7f800000))
    if k == 15:
        return "%.*g" % (rng.randrange(1, 20), f64(rng.randrange(0x3000000000000000, 0x4800000000000000)))
    if k == 16:
        return "-%d" % rng.randrange(0, 100)
    if k == 17:
        return "%d.%03d" % (rng.randrange(0, 60), rng.randrange(1000))
    if k == 18:
        return "0x%x.%xp%d" % (rng.randrange(1 << rng.randrange(1, 70)), rng.randrange(1 << rng.randrange(1, 70)), rng.randrange(-200, 200))
    if k == 19:
        return "%de%d" % (rng.randrange(1, 10 ** rng.randrange(1, 25)), rng.randrange(-70, 45))
    return str(rng.choice([1, 2, 3, 4, 5, 6, 7, 8, 9, 10, 11, 12, 15, 20, 25, 50]))


def int_string(rng):
    k = rng.randrange(12)
    if k < 4:
        return str(rng.choice([1, 1, 2, 3, 4, 8, 16, 64, 128]))
    if k == 4:
        return rng.choice(["0", "-1", "-0", "+0", "-4", "00", "-2147483648", "2147483647", "2147483648", "4294967296", "4294967297", "-4294967295",
                           "9223372036854775807", "9223372036854775808", "-9223372036854775808", "-9223372036854775809", "99999999999999999999999",
                           "-99999999999999999999999", "18446744073709551617", "4294967300", "8589934593"])
    if k == 5:
        return rng.choice(["", " ", "abc", "x4", "-", "+", "--4", "+-4", "- 4", "4x", "4 5", "4.9", "0x10", "1e3", "٣", "\xff", " \t\n\v\f\r7", "\x1c4", "\x0b+5", "+ 5"])
    if k == 6:
        return rng.choice(["", " ", "  ", "\t", "\n "]) + rng.choice(["", "+", "-"]) + str(rng.randrange(0, 40)) + rng.choice(["", "x", " ", ".5", "e2"])
    if k == 7:
        return "+%d" % rng.randrange(0, 20)
    if k == 8:
        return "0" * rng.randrange(1, 30) + str(rng.randrange(0, 20))
    if k == 9:
        return str(rng.randrange(-10 ** 12, 10 ** 12))
    if k == 10:
        return str(rng.randrange(-(1 << 70), 1 << 70))
    return str(rng.randrange(1, 33))


FMT_OK = ["fasta", "fa", "msf", "clu", "clustal", "afa", "FASTA.fasta", "xfay", "sofa", "msfx", "aclu"]
FMT_BAD = ["", "FASTA", "Msf", "CLU", "f", "a", "phylip", "ms", "cl", "fsata", "stockholm", "xyz", "m sf", "\xc3\xa9"]
TYPE_OK = ["dna", "rna", "internal", "protein", "divergent", "xdnay", "protein_dna", "divergent-rna", "internal-protein", "rnadna", "dnarna", "proteindivergent"]
TYPE_BAD = ["", "DNA", "Rna", "prot", "diverge", "intern", "d", "nucleotide", "aa", "dn a", "pRotein", "0", "5", "\xff"]


def file_name(rng):
    k = rng.randrange(14)
    if k < 7:
        return rng.choice(["a.fa", "b.fa", "seqs.fasta", "in.msf", "x", "y", "data/BB11001.tfa", "out.afa", "1", "f=g", "a b", "é.fa"])
    if k == 7:
        return "-"
    if k == 8:
        return ""
    if k == 9:
        return "".join(chr(rng.randrange(33, 127)) for _ in range(rng.randrange(1, 9))).lstrip("-") or "q"
    if k == 10:
        return bytes(rng.randrange(1, 256) for _ in range(rng.randrange(1, 6))).lstrip(b"-") or b"z"
    if k == 11:
        return rng.choice(["=", "=x", "x=", "a-b", "a--b", ".", "..", "/dev/null", "*"])
    return "f%d" % rng.randrange(100)


def value_for(rng, kind, bad=0.1):
    if kind == "flt":
        return float_string(rng) if rng.random() < .8 else rng.choice(["5", "8", "5.5", "0", "55", "1", "2", "10"])
    if kind in ("thr", "int"):
        s = int_string(rng)
        if kind == "thr" and rng.random() > bad:
            return str(rng.randrange(1, 17))
        return s
    if kind == "fmt":
        return rng.choice(FMT_BAD) if rng.random() < bad else rng.choice(FMT_OK)
    if kind == "type":
        return rng.choice(TYPE_BAD) if rng.random() < bad else rng.choice(TYPE_OK)
    return file_name(rng) if rng.random() < .9 else rng.choice(["-x", "--", "--gpo", "-q", "-h"])


def spell_long(rng, name, has_arg, val):
    dash = rng.choice(["--", "--", "-"])
    cands = unambiguous_prefixes(name)
    p = name if rng.random() < .6 else rng.choice(cands)
    if dash == "-" and len(p) == 1 and p in SHORT_ARG + SHORT_FLAG:
        dash = "--"            # `-f` would be the short option (same meaning here, but keep the streams apart)
    if not has_arg:
        return [dash + p]
    if rng.random() < .35:
        return [enc(dash + p + "=") + enc(val)]
    return [dash + p, val]


def enc(x):
    return x.encode() if isinstance(x, str) else x


def option_item(rng, bad=0.1):
    """one option (with its value) in a random spelling: list of argv elements"""
    if rng.random() < .65:
        name, ha = rng.choice(LONG)
        if name in ("help", "version", "showw") and rng.random() < .85:
            name, ha = rng.choice([l for l in LONG if l[1]])
        if name == "quiet" and rng.random() < .3:
            name, ha = "gpo", 1
        val = value_for(rng, KIND.get(name, "file"), bad) if ha else None
        return spell_long(rng, name, ha, val)
    if rng.random() < .8:
        c = rng.choice(SHORT_ARG)
        val = value_for(rng, KIND[c], bad)
        if rng.random() < .3 and len(enc(val)) > 0:
            return [enc("-" + c) + enc(val)]                # attached: may turn into a long option (`-nthreads`), that is fine
        return ["-" + c, val]
    flags = "".join(rng.choice("qqqqqhvV") if rng.random() < .25 else "q" for _ in range(rng.randrange(1, 4)))
    if rng.random() < .3:
        c = rng.choice(SHORT_ARG)
        val = value_for(rng, KIND[c], bad)
        return [enc("-" + flags + c) + enc(val)] if rng.random() < .5 and len(enc(val)) else ["-" + flags + c, val]
    return ["-" + flags]


def valid_line(rng):
    items = []
    for _ in range(rng.choice([0, 1, 1, 2, 2, 3, 3, 4, 5, 6, 8, 12])):
        items.append(option_item(rng, bad=0.06))
    for _ in range(rng.choice([0, 1, 1, 1, 2, 3, 5])):
        f = file_name(rng)
        items.append([f])
    rng.shuffle(items)
    argv = [e for it in items for e in it]
    if rng.random() < .15:
        tail = [rng.choice([file_name(rng), "-q", "--gpo", "-h", "--", "-n0", "--version"]) for _ in range(rng.randrange(0, 4))]
        argv += ["--"] + tail
    return argv


def malformed_line(rng):
    argv = valid_line(rng) if rng.random() < .7 else []
    k = rng.randrange(16)
    pos = rng.randrange(len(argv) + 1)
    if k == 0:
        ins = [rng.choice(["-x", "-z", "--foo", "-foo", "--gpx", "--types", "-typ3", "--nthread5", "-W", "-W", "-;", "-:", "--:", "-1", "-9", "-?", "--?", "-qx", "-hqz", "-Vx", "-q1"])]
    elif k == 1:
        ins = [rng.choice(["--gp", "-gp", "--g", "-g", "--t", "-t", "--s", "-s", "--i", "--o", "--ou", "--in=", "--inp", "--inf", "--i=x", "-o=x", "-i=x", "--=x", "-=x", "--=", "-=", "--o=1"])]
        if rng.random() < .5:
            ins.append(value_for(rng, "flt"))
    elif k == 2:        # missing argument at the end
        argv = argv + [rng.choice(["--gpo", "-gpe", "--tgpe", "-i", "-o", "-f", "-n", "--type", "--format", "--nthreads", "--set", "-qi", "-hqn", "--in", "--out", "-outp"])]
        ins = []
    elif k == 3:        # argument given to a flag
        ins = [rng.choice(["--quiet=1", "-quiet=1", "--help=", "--version=x", "-showw=1", "--h=1", "-q=1", "-h=", "-v=2", "-V=2", "--q="])]
    elif k == 4:
        ins = ["--format", rng.choice(FMT_BAD)] if rng.random() < .5 else ["-f" + rng.choice(["x", "FASTA", "phylip", "sta"])]
    elif k == 5:
        ins = [rng.choice(["--type", "-type", "--ty"]), rng.choice(TYPE_BAD)] if rng.random() < .5 else ["--type=" + rng.choice(TYPE_BAD + TYPE_OK)]
    elif k == 6:
        ins = rng.choice([["-n", "0"], ["-n0"], ["-n-1"], ["-n", "-1"], ["--nthreads=0"], ["-nthreads", "abc"], ["-n", ""], ["-n="], ["-n=4"], ["-n=0"], ["--n", "x"], ["-nt", "-5"],
                          ["-n", "4294967296"], ["-n", "4294967297"], ["-n", "99999999999999999999"], ["-n", "-99999999999999999999"], ["-n", "2147483648"]])
    elif k == 7:
        ins = [bytes(rng.randrange(1, 256) for _ in range(rng.randrange(1, 8)))]
    elif k == 8:
        ins = [b"-" + bytes(rng.randrange(1, 256) for _ in range(rng.randrange(1, 5)))]
    elif k == 9:
        ins = [b"--" + bytes(rng.choice(b"ghinopqstuvfe=:;-x") for _ in range(rng.randrange(1, 7)))]
    elif k == 10:
        ins = [b"-" + bytes(rng.choice(b"ghinopqstuvVfe=:;-x4") for _ in range(rng.randrange(1, 6)))]
    elif k == 11:
        ins = rng.choice([["--gpo", "--"], ["-o", "--"], ["--gpo", "-5"], ["--gpe", "--gpe"], ["-i", "-i"], ["-f", "-f"], ["--type", "--type=dna"], ["-ofile"], ["-output.fa"], ["-infile.fa"],
                          ["-f=clu"], ["-f", "=clu"], ["-format=clu"], ["-i-"], ["-i", "-"], ["-"], [""], ["--", "--"], ["-n4x"], ["-hq"], ["-qh"], ["-hqV"], ["-vq"], ["-help"], ["-he"], ["-qu"],
                          ["-ver"], ["-sh"], ["-se", "3"], ["--set=2"], ["-showw"], ["--sho"], ["-inp", "a"], ["-outf", "b"], ["--outp=c"], ["-tg", "1"], ["--ty=rna"], ["-gpo=2"], ["-tgpe", "-1"]])
    elif k == 12:
        argv = []
        ins = rng.choice([[], ["-q"], ["--"], ["-q", "--"], ["--gpo", "5"], ["-n", "3", "-q"], ["-h"], ["-v"], ["-V"], ["--version"], ["-showw"], ["--showw"], ["-h", "-n", "0"], ["-n", "0", "-V"],
                          ["-showw", "-h"], ["-h", "-showw", "-q"], ["-V", "--foo"], ["--foo", "-V"], ["-V", "--gpo"], ["-h", "-f", "xyz", "a"], ["-f", "xyz", "--type", "foo", "a"], ["--type", "foo", "a"],
                          ["-n", "0", "-f", "xyz", "a"], ["-i", "a", "-i", "b"], ["-i", "a", "--in", "b", "--input=c", "d"]])
    elif k == 13:
        ins = [rng.choice(["--gpo", "--gpe", "--tgpe"]), rng.choice(["nan", "inf", "-inf", "abc", "", "1e400", "-1e400", "1e-400", "-0", "0x10", "1000001", "1e6", "1.0e6", "999999.9999"])]
    elif k == 14:
        ins = [rng.choice(["-i", "-o", "-f", "-n", "--gpo"])] * rng.randrange(2, 4)
    else:
        ins = [rng.choice(["-h", "--help", "-help", "-v", "-V", "--version", "-version", "-showw", "--showw", "-q", "--quiet"])]
    argv = argv[:pos] + ins + argv[pos:]
    return argv


def numbers_line(rng):
    argv = []
    for _ in range(rng.randrange(1, 4)):
        o = rng.choice(["gpo", "gpe", "tgpe", "gpo", "gpe", "tgpe", "n", "set"])
        if o == "n":
            v = int_string(rng)
            argv += rng.choice([["-n", v], ["--nthreads", v], [enc("--nthreads=") + enc(v)]])
        elif o == "set":
            argv += ["--set", int_string(rng)]
        else:
            v = float_string(rng)
            argv += rng.choice([["--" + o, v], ["-" + o, v], [enc("--" + o + "=") + enc(v)]])
    argv.insert(rng.randrange(len(argv) + 1) if rng.random() < .3 else len(argv), "a.fa")
    return argv


def line(rng, argv):
    tty = 1 if rng.random() < .7 else 0
    fail = -1 if rng.random() < .85 else rng.randrange(0, 6)
    out = []
    for a in argv:
        b = enc(a)
        if b"\x00" in b:
            b = b.replace(b"\x00", b"\x01")
        out.append(hx(b))
    return "cli %d %d%s" % (tty, fail, "".join(" " + x for x in out))


def main():
    seed = int(sys.argv[1]) if len(sys.argv) > 1 else 1
    n = int(sys.argv[2]) if len(sys.argv) > 2 else 150
    rng = random.Random(seed * 7919 + 13)
    for _ in range(n):
        print(line(rng, valid_line(rng)))
    for _ in range(n):
        print(line(rng, malformed_line(rng)))
    for _ in range(n):
        print(line(rng, numbers_line(rng)))


if __name__ == "__main__":
    main()
