#!/usr/bin/env python3
"""seed_verify.py <agent out dir> <name>: independently confirm a seeded change (applies to /repo HEAD, compiles, the 12 pinned
tests pass with it, the demonstration fails with it and passes without it) in scratch worktrees, then store it as seeded/<name>/."""
import json, os, shutil, subprocess, sys
V = os.path.dirname(os.path.dirname(os.path.abspath(__file__)))


def sh(cmd, **kw):
    p = subprocess.run(cmd, shell=True, stdout=subprocess.PIPE, stderr=subprocess.STDOUT, stdin=subprocess.DEVNULL, **kw)
    return p.returncode, p.stdout.decode(errors="replace")


def main():
    out, name = os.path.abspath(sys.argv[1]), sys.argv[2]
    patch = os.path.join(out, "patch.diff")
    demo = next((os.path.join(out, f) for f in ("demo.sh", "demo.py") if os.path.exists(os.path.join(out, f))), None)
    assert os.path.exists(patch) and demo, "patch.diff / demo missing"
    base = "/tmp/sv_%s" % name
    shutil.rmtree(base, ignore_errors=True)
    os.makedirs(base)
    ran = []
    try:
        for w in ("orig", "mut"):
            rc, o = sh("git -C /repo worktree add -q %s/%s HEAD" % (base, w))
            assert rc == 0, o
        rc, o = sh("git -C %s/mut apply %s" % (base, patch))
        ran.append("git apply patch.diff -> rc %d" % rc)
        assert rc == 0, "patch does not apply to HEAD: " + o[-400:]
        for w in ("orig", "mut"):
            rc, o = sh("cmake -G Ninja -S %s/%s -B %s/b_%s >/dev/null 2>&1 && cmake --build %s/b_%s 2>&1 | tail -5" % (base, w, base, w, base, w))
            ran.append("cmake build %s -> rc %d" % (w, rc))
            assert rc == 0, "build of %s failed: %s" % (w, o[-800:])
        rc, o = sh("ctest --test-dir %s/b_mut -j8 --timeout 900" % base)
        passed = "100% tests passed" in o
        ran.append("ctest with the change -> %s" % ("12/12 passed" if passed else "FAILED"))
        assert passed, "pinned tests fail with the change:\n" + o[-1500:]
        runner = "bash" if demo.endswith(".sh") else "python3"
        rc0, o0 = sh("timeout 1800 %s %s %s/b_orig" % (runner, demo, base), cwd=out)
        rc1, o1 = sh("timeout 1800 %s %s %s/b_mut" % (runner, demo, base), cwd=out)
        ran.append("demo on unchanged build -> rc %d; demo on changed build -> rc %d" % (rc0, rc1))
        assert rc0 == 0, "demo fails on the unchanged tree:\n" + o0[-1500:]
        assert rc1 != 0, "demo passes on the changed tree"
        dst = os.path.join(V, "seeded", name)
        shutil.rmtree(dst, ignore_errors=True)
        os.makedirs(dst)
        for f in os.listdir(out):
            p = os.path.join(out, f)
            if os.path.isfile(p) and os.path.getsize(p) < 2_000_000:
                shutil.copy(p, dst)
        meta = json.load(open(os.path.join(dst, "meta.json"))) if os.path.exists(os.path.join(dst, "meta.json")) else {}
        meta["verified_by_me"] = ran
        meta["demo_output_changed_build_tail"] = o1[-600:]
        json.dump(meta, open(os.path.join(dst, "meta.json"), "w"), indent=1)
        print("VERIFIED", name, ran)
        return 0
    except AssertionError as ex:
        print("NOT VERIFIED", name, str(ex)[:2000])
        return 1
    finally:
        for w in ("orig", "mut"):
            sh("git -C /repo worktree remove --force %s/%s" % (base, w))
        shutil.rmtree(base, ignore_errors=True)


if __name__ == "__main__":
    sys.exit(main())
