#!/usr/bin/env python3
"""harmless_eval.py <patch.diff> [name]: apply a behaviour-preserving patch in the scratch worktree $KALIGN_REPO (never /repo), run every
check's quick tier, print which checks raise an alarm (each one is a false alarm or a `no-failing-input-found` verdict on a harmless
rewrite), restore the worktree and the evidence directory.  Results are appended to harmless/RESULTS.md."""
import os, shutil, subprocess, sys, tempfile, time
V = os.path.dirname(os.path.dirname(os.path.abspath(__file__)))


def sh(cmd, **kw):
    return subprocess.run(cmd, shell=True, stdout=subprocess.PIPE, stderr=subprocess.STDOUT, stdin=subprocess.DEVNULL, **kw)


def main():
    repo = os.environ.get("KALIGN_REPO")
    assert repo and os.path.abspath(repo) != "/repo", "set KALIGN_REPO to a scratch worktree"
    patch = os.path.abspath(sys.argv[1])
    name = sys.argv[2] if len(sys.argv) > 2 else os.path.basename(patch)
    assert sh("git -C %s status --porcelain --untracked-files=no" % repo).stdout.strip() == b"", "scratch worktree has local changes"
    bak = tempfile.mkdtemp(prefix="evbak_")
    shutil.copytree(os.path.join(V, "evidence"), os.path.join(bak, "evidence"))
    t0 = time.time()
    try:
        p = sh("git -C %s apply %s" % (repo, patch))
        if p.returncode != 0:
            print("patch does not apply:", p.stdout.decode()[-500:])
            return 2
        q = sh("timeout 7200 python3 tools/run_all.py quick 3", cwd=V)
        out = q.stdout.decode(errors="replace")
    finally:
        sh("git -C %s checkout -- ." % repo)
        shutil.rmtree(os.path.join(V, "evidence"))
        shutil.copytree(os.path.join(bak, "evidence"), os.path.join(V, "evidence"))
        shutil.rmtree(bak)
    alarms = []
    lines = out.splitlines()
    for i, l in enumerate(lines):
        if l.startswith("C") and " rc=" in l and " rc=0 " not in l:
            detail = [x.strip() for x in lines[i + 1:i + 4] if x.startswith("    ")]
            alarms.append((l.split()[0], l.split()[1], detail))
    os.makedirs(os.path.join(V, "harmless"), exist_ok=True)
    with open(os.path.join(V, "harmless", "RESULTS.md"), "a") as f:
        f.write("| %s | %s | %d s |\n" % (name, "; ".join("%s %s %s" % (a, b, " / ".join(d)[:300].replace("|", "\\|")) for a, b, d in alarms) or "no alarm", time.time() - t0))
    print(name, "->", alarms or "no alarm")
    return 0


if __name__ == "__main__":
    sys.exit(main())
