#!/usr/bin/env python3
"""seed_eval.py <seeded/dir> [check ids...]: apply seeded/<dir>/patch.diff to /repo, run the given checks (default: the
property in meta.json; `all` = every claimed check), record which checks raise a VIOLATION, undo the patch.
Evidence files are restored afterwards (evidence must come from the unchanged tree)."""
import json, os, shutil, subprocess, sys, tempfile, time
V = os.path.dirname(os.path.dirname(os.path.abspath(__file__)))
REPO = os.environ.get("KALIGN_REPO") or "/repo"


def sh(cmd, **kw):
    return subprocess.run(cmd, shell=True, stdout=subprocess.PIPE, stderr=subprocess.STDOUT, stdin=subprocess.DEVNULL, **kw)


def main():
    d = os.path.abspath(sys.argv[1])
    meta = json.load(open(os.path.join(d, "meta.json")))
    ids = sys.argv[2:] or [meta["property"]]
    if ids == ["all"]:
        ids = [c["property_id"] for c in json.load(open(os.path.join(V, "MANIFEST.json")))["checks"]]
    tier = os.environ.get("VERIF_TIER", "quick")
    assert sh("git -C %s status --porcelain --untracked-files=no" % REPO).stdout.strip() == b"", "/repo has local changes"
    bak = tempfile.mkdtemp(prefix="evbak_")
    shutil.copytree(os.path.join(V, "evidence"), os.path.join(bak, "evidence"))
    res = {}
    try:
        p = sh("git -C %s apply %s" % (REPO, os.path.join(d, "patch.diff")))
        if p.returncode != 0:
            print("patch does not apply:", p.stdout.decode()[-500:])
            return 2
        for i in ids:
            t = time.time()
            q = sh("timeout 5400 python3 tools/check.py %s --tier %s" % (i, tier), cwd=V)
            out = q.stdout.decode(errors="replace")
            viol = [l for l in out.splitlines() if l.startswith("VIOLATION")]
            why = [l.strip() for l in out.splitlines() if l.startswith("  ")][:3]
            res[i] = dict(rc=q.returncode, violations=viol[:3], why=why, wall_s=round(time.time() - t, 1))
            print(i, "rc=%d" % q.returncode, viol[:1], why[:1])
    finally:
        sh("git -C %s checkout -- ." % REPO)
        shutil.rmtree(os.path.join(V, "evidence"))
        shutil.copytree(os.path.join(bak, "evidence"), os.path.join(V, "evidence"))
        shutil.rmtree(bak)
    meta.setdefault("evaluated", {})[tier] = res
    # the latest evaluation of a check replaces what was recorded for it before (checks change)
    meta["caught_by"] = sorted((set(meta.get("caught_by", [])) - set(res)) | {i for i, r in res.items() if r["rc"] == 1 and r["violations"]})
    meta["caught_with_input"] = sorted((set(meta.get("caught_with_input", [])) - set(res)) |
                                       {i for i, r in res.items() if r["rc"] == 1 and any("no-failing-input-found" not in v for v in r["violations"])})
    json.dump(meta, open(os.path.join(d, "meta.json"), "w"), indent=1)
    return 0


if __name__ == "__main__":
    sys.exit(main())
