#!/usr/bin/env python3
"""seed_index.py: regenerate seeded/INDEX.md from seeded/*/meta.json and seeded/NOTES.md"""
import json, os
V = os.path.dirname(os.path.dirname(os.path.abspath(__file__)))
S = os.path.join(V, "seeded")


def cell(x, n):
    x = " ".join(str(x).split()).replace("|", "\\|")
    return x if len(x) <= n else x[:n - 1] + "…"


rows = []
for d in sorted(os.listdir(S)):
    m = os.path.join(S, d, "meta.json")
    if not os.path.exists(m):
        continue
    j = json.load(open(m))
    rows.append("| %s | %s | %s | %s | %s | %s |" % (d, j.get("property", "?"), cell(j.get("summary", ""), 260), cell(j.get("needs", ""), 200),
                                                  ", ".join(j.get("caught_with_input", [])) or "—", ", ".join(j.get("caught_by", [])) or "—"))
out = ["# Seeded changes (independent sub-agents; each verified by tools/seed_verify.py: applies, compiles, 12/12 pinned tests pass, demo distinguishes)", "",
       "`caught with input` = checks (quick tier) that exit 1 with a concrete failing input/run as replay; `caught` also counts `no-failing-input-found` verdicts "
       "(broken proof obligation, translator or correspondence).", "",
       "| seeded change | property | what it is | needs | caught with input | caught |", "|---|---|---|---|---|---|"] + rows + [""]
notes = os.path.join(S, "NOTES.md")
if os.path.exists(notes):
    out.append(open(notes).read())
open(os.path.join(S, "INDEX.md"), "w").write("\n".join(out))
print("%d seeded changes; not caught with input: %s" % (len(rows), [r.split("|")[1].strip() for r in rows if r.split("|")[-3].strip() == "—"]))
