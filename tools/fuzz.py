#!/usr/bin/env python3
"""fuzz.py [seconds] [jobs]: coverage-guided search (libFuzzer + ASan + UBSan, clang 14) for inputs on which kalign faults (C05 search
support; never a proof).  Builds harness/fuzz/fuzz_read_run.c against /repo's working tree without OpenMP, seeds the corpus with the
structure-aware generator of the C05 check, runs, and prints crash artefacts (minimised by libFuzzer) if any.  Exit 1 if a crash was found."""
import os, random, shutil, subprocess, sys, tempfile
sys.path.insert(0, os.path.dirname(os.path.abspath(__file__)))
from lib import common as C
from lib import gen


def main():
    secs = int(sys.argv[1]) if len(sys.argv) > 1 else 120
    jobs = int(sys.argv[2]) if len(sys.argv) > 2 else 8
    work = tempfile.mkdtemp(prefix="kvfuzz_")
    try:
        srcs = [s for s in C.lib_sources()]
        exe = os.path.join(work, "fuzz")
        cmd = ["clang", "-O1", "-g", "-fsanitize=fuzzer,address,undefined", "-fno-sanitize-recover=undefined", "-std=gnu11", "-w", "-mavx2",
               '-DKALIGN_PACKAGE_VERSION="%s"' % C.repo_version(), '-DKALIGN_PACKAGE_NAME="kalign"',
               "-I" + os.path.join(C.REPO, "lib", "include"), "-I" + os.path.join(C.REPO, "lib", "src"),
               os.path.join(C.VERIF, "harness", "fuzz", "fuzz_read_run.c")] + srcs + ["-lm", "-o", exe]
        p = subprocess.run(cmd, stdout=subprocess.PIPE, stderr=subprocess.STDOUT)
        if p.returncode != 0:
            print(p.stdout.decode(errors="replace")[-4000:])
            return 2
        corpus = os.path.join(work, "corpus")
        os.makedirs(corpus)
        rng = random.Random(int(os.environ.get("VERIF_SEED", "1")))
        from props import c04
        k = 0
        for kind in ("dna", "rna", "protein"):
            for n in (2, 3, 6):
                recs = gen.family(rng, kind, n, rng.choice([8, 30, 70]))
                rows = c04.gap_rows(rng, recs, 0.1)
                for render in (c04.render_fasta, c04.render_clustal, c04.render_msf):
                    for opt in (0, 1, 2, 0x80 | (rng.randrange(8) << 4) | rng.randrange(4)):
                        open(os.path.join(corpus, "s%d" % k), "wb").write(bytes([opt]) + render(rng, rows).encode())
                        k += 1
        crashes = os.path.join(work, "crashes") + "/"
        os.makedirs(crashes)
        env = dict(os.environ, KV_FUZZ_TMP=work, ASAN_OPTIONS="detect_leaks=1:allocator_may_return_null=1", UBSAN_OPTIONS="print_stacktrace=1")
        log = os.path.join(work, "log")
        q = subprocess.run([exe, corpus, "-max_total_time=%d" % secs, "-jobs=%d" % jobs, "-workers=%d" % jobs, "-max_len=6000", "-timeout=20", "-rss_limit_mb=4096",
                            "-artifact_prefix=" + crashes, "-print_final_stats=1"], cwd=work, env=env, stdout=open(log, "w"), stderr=subprocess.STDOUT, stdin=subprocess.DEVNULL)
        found = sorted(os.listdir(crashes))
        cov = ""
        for f in sorted(os.listdir(work)):
            if f.startswith("fuzz-") and f.endswith(".log"):
                txt = open(os.path.join(work, f), errors="replace").read()
                lines = [l for l in txt.splitlines() if " cov: " in l]
                if lines:
                    cov = lines[-1][:160]
        print("libFuzzer: %d s x %d jobs, corpus seeds %d, last status: %s" % (secs, jobs, k, cov))
        keep = os.path.join(C.VERIF, "replays", "fuzz")
        for f in found:
            os.makedirs(keep, exist_ok=True)
            shutil.copy(os.path.join(crashes, f), os.path.join(keep, f))
            print("ARTEFACT", os.path.join(keep, f), os.path.getsize(os.path.join(keep, f)), "bytes")
        if found:
            # show the first report
            for f in sorted(os.listdir(work)):
                if f.startswith("fuzz-") and f.endswith(".log"):
                    txt = open(os.path.join(work, f), errors="replace").read()
                    if "ERROR" in txt or "runtime error" in txt:
                        i = max(txt.find("ERROR"), 0)
                        print(txt[max(0, i - 300):i + 2500])
                        break
        return 1 if found else 0
    finally:
        shutil.rmtree(work, ignore_errors=True)


if __name__ == "__main__":
    sys.exit(main())
