/* shared between ops_dp.c and the shims of aln_controller.c / aln_run.c */
#ifndef KVH_DP_H
#define KVH_DP_H
struct msa; struct aln_tasks; struct aln_mem;
struct kv_trace_entry { int sa, ea, sb, eb, meet, t; float score; };
extern struct kv_trace_entry *kv_trace;
extern int kv_trace_n;
void kv_trace_reset(void);
/* aln_run.c: static do_align */
int kv_do_align(struct msa* msa, struct aln_tasks* t, struct aln_mem* m, int task_id);
#endif
