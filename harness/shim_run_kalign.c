/* reach the static functions of the CLI (set_aln_type, run_kalign) and rename main.

   For the `cli` op (ops_cli.c) the front end is run as it is, but what it reaches is observed instead of executed:
   `isatty`, `exit` and the four library entry points used by run_kalign.c are renamed (only inside this translation unit)
   to the wrappers below.  With kv_cli_active == 0 every wrapper forwards to the real function. */
#include <stdio.h>
#include <stdlib.h>
#include <string.h>
#include <unistd.h>
#include <getopt.h>
#include "tldevel.h"
#include "tlmisc.h"
#include "kalign/kalign.h"
#include "parameters.h"

int kv_cli_active = 0;      /* 1: observe, do not execute */
int kv_cli_tty = 1;         /* answer of isatty() while active */
int kv_cli_fail_at = -1;    /* index (0-based, in call order) of the library call that reports FAIL; -1: none */
int kv_cli_ncalls = 0;
FILE *kv_cli_log = NULL;

static void kv_cli_hex(const char *s)
{
        if(!s){ fputs("NULL", kv_cli_log); return; }
        if(!*s){ fputc('-', kv_cli_log); return; }
        for(const unsigned char *p = (const unsigned char*)s; *p; p++) fprintf(kv_cli_log, "%02x", *p);
}
static int kv_cli_result(void)
{
        int r = (kv_cli_ncalls == kv_cli_fail_at) ? FAIL : OK;
        kv_cli_ncalls++;
        fflush(kv_cli_log);
        return r;
}
static int kv_cli_isatty(int fd){ return kv_cli_active ? kv_cli_tty : isatty(fd); }
static void kv_cli_exit(int st)
{
        if(kv_cli_active){
                fprintf(kv_cli_log, "%sX,%d", kv_cli_ncalls ? ";" : "", st);
                fflush(kv_cli_log);
                _exit(0);
        }
        exit(st);
}
static int kv_cli_read_input(char *infile, struct msa **msa, int quiet)
{
        if(!kv_cli_active) return kalign_read_input(infile, msa, quiet);
        fprintf(kv_cli_log, "%sR,", kv_cli_ncalls ? ";" : "");
        kv_cli_hex(infile);
        fprintf(kv_cli_log, ",%d", quiet);
        int r = kv_cli_result();
        if(r == OK && !*msa) *msa = (struct msa*)&kv_cli_active;        /* a non-NULL token, never dereferenced */
        return r;
}
static int kv_cli_run(struct msa *msa, int n_threads, int type, float gpo, float gpe, float tgpe)
{
        if(!kv_cli_active) return kalign_run(msa, n_threads, type, gpo, gpe, tgpe);
        union { float f; unsigned u; } a, b, c;
        a.f = gpo; b.f = gpe; c.f = tgpe;
        fprintf(kv_cli_log, "%sA,%d,%d,%08x,%08x,%08x", kv_cli_ncalls ? ";" : "", n_threads, type, a.u, b.u, c.u);
        return kv_cli_result();
}
static int kv_cli_write_msa(struct msa *msa, char *outfile, char *format)
{
        if(!kv_cli_active) return kalign_write_msa(msa, outfile, format);
        fprintf(kv_cli_log, "%sW,", kv_cli_ncalls ? ";" : "");
        kv_cli_hex(outfile);
        fputc(',', kv_cli_log);
        kv_cli_hex(format);
        return kv_cli_result();
}
static void kv_cli_free_msa(struct msa *msa)
{
        if(!kv_cli_active) kalign_free_msa(msa);
}

#define main kalign_cli_main
#define isatty kv_cli_isatty
#define exit kv_cli_exit
#define kalign_read_input kv_cli_read_input
#define kalign_run kv_cli_run
#define kalign_write_msa kv_cli_write_msa
#define kalign_free_msa kv_cli_free_msa
#include "run_kalign.c"
#undef main
#undef isatty
#undef exit
#undef kalign_read_input
#undef kalign_run
#undef kalign_write_msa
#undef kalign_free_msa
int kv_set_aln_type(char *in, int *type){ return set_aln_type(in, type); }
int kv_cli_main(int argc, char **argv){ return kalign_cli_main(argc, argv); }
int kv_run_kalign(struct parameters *param){ return run_kalign(param); }
