/* reach the static functions of the CLI (set_aln_type, run_kalign) and rename main */
#define main kalign_cli_main
#include "run_kalign.c"
#undef main
int kv_set_aln_type(char *in, int *type){ return set_aln_type(in, type); }
int kv_cli_main(int argc, char **argv){ return kalign_cli_main(argc, argv); }
int kv_run_kalign(struct parameters *param){ return run_kalign(param); }
