/* shim: sequence_distance.c is compiled inside this translation unit so that calc_distance / d_estimation stay reachable whether or not the
   library declares them static */
#include "sequence_distance.c"
float kv_calc_distance(uint8_t *a, uint8_t *b, int la, int lb){ return calc_distance(a, b, la, lb); }
float **kv_d_estimation(struct msa *msa, int *samples, int n, int pair){ return d_estimation(msa, samples, n, pair); }
