/* live-block counting by interposing the allocator (only in builds with -DKV_MEMCOUNT, i.e. without sanitizers).
   The C16 check repeats a complete API history in one process and requires the number of live blocks to stay constant. */
#ifdef KV_MEMCOUNT
#include <stddef.h>
#include <errno.h>
extern void *__libc_malloc(size_t);
extern void __libc_free(void *);
extern void *__libc_calloc(size_t, size_t);
extern void *__libc_realloc(void *, size_t);
extern void *__libc_memalign(size_t, size_t);
long kv_live_blocks = 0;
void *malloc(size_t n){ void *p = __libc_malloc(n); if(p) __atomic_add_fetch(&kv_live_blocks, 1, __ATOMIC_RELAXED); return p; }
void free(void *p){ if(p) __atomic_sub_fetch(&kv_live_blocks, 1, __ATOMIC_RELAXED); __libc_free(p); }
void *calloc(size_t a, size_t b){ void *p = __libc_calloc(a, b); if(p) __atomic_add_fetch(&kv_live_blocks, 1, __ATOMIC_RELAXED); return p; }
void *realloc(void *q, size_t n){
        void *p = __libc_realloc(q, n);
        if(!q && p) __atomic_add_fetch(&kv_live_blocks, 1, __ATOMIC_RELAXED);
        else if(q && n == 0 && !p) __atomic_sub_fetch(&kv_live_blocks, 1, __ATOMIC_RELAXED);
        return p;
}
void *memalign(size_t al, size_t n){ void *p = __libc_memalign(al, n); if(p) __atomic_add_fetch(&kv_live_blocks, 1, __ATOMIC_RELAXED); return p; }
void *aligned_alloc(size_t al, size_t n){ return memalign(al, n); }
int posix_memalign(void **out, size_t al, size_t n){ void *p = memalign(al, n); if(!p) return ENOMEM; *out = p; return 0; }
#else
long kv_live_blocks = -1;
#endif
