/* file-to-file correspondence op of the model `kalignFile` (lean/KalignModel/Model/PipelineFile.lean):
   what run_kalign() (src/run_kalign.c) does, through the public API, on real files.

   kalign_file <fmt> <type> <gpoBits> <gpeBits> <tgpeBits> <file1hex> [<file2hex> ...]
     fmt       the --format argument (printable ASCII without blanks, at most 64 bytes), "-" = no argument (NULL)
     type      decimal integer in -100..100 (at most 4 characters), the `type` argument of kalign_run
     *Bits     binary32 bit patterns (8 hex digits) of the penalty arguments
     fileNhex  content of the N-th input file as hex, "-" = an empty file, "!" = a path that does not exist; 1..64 files
   -> "rc=<read>,<run>,<write> out=<hex of the output file>"
      every input is written to a file of a private scratch directory; kalign_read_input on each in turn (0 = all OK, 1 = one
      returned FAIL: the later stages are not run and print "-"), kalign_run with 1 thread, kalign_write_msa to a scratch
      file.  out = "-" when no file was written (or it is empty).  The run-dependent header fields are masked (mask_out):
      MSF third line " <basename>  MSF: ..  Type: c  <date>  Check: .." -> " FILE  MSF: ..  Type: c  DATE  Check: ..",
      Clustal first line "Kalign (<version>) multiple ..." -> "Kalign (VER) multiple ...".
   The same is done again on a fresh read with 4 threads ("thread-mismatch ..." if rc triple or output differ) and once
   through the static run_kalign() itself with a `struct parameters` (nthreads = 1; "cli-mismatch ..." if its return code
   is not "all three stages OK" exactly when ours is, or its output file differs).  All scratch files are removed.

   check_format <fmt>   check_msa_format_string(fmt) ("-" = NULL) -> "ok" | "fail"   (model: checkFormatString) */
#include "kvh.h"
#include <unistd.h>
#include <sys/stat.h>
#include "tldevel.h"
#include "kalign/kalign.h"
#include "parameters.h"

int kv_run_kalign(struct parameters *param);

static char pf_tmpdir[512] = "";

static void pf_rm_tmpdir(void)
{
        if(pf_tmpdir[0]){ rmdir(pf_tmpdir); }
}

static const char *pf_get_tmpdir(void)
{
        if(!pf_tmpdir[0]){
                const char *base = getenv("KVH_TMP");
                if(!base){ base = "/tmp"; }
                snprintf(pf_tmpdir, sizeof(pf_tmpdir), "%s/kvhpf_XXXXXX", base);
                if(!mkdtemp(pf_tmpdir)){ perror("mkdtemp"); exit(3); }
                atexit(pf_rm_tmpdir);
        }
        return pf_tmpdir;
}

static int pf_write_file(const char *path, const unsigned char *b, int n)
{
        FILE *f = fopen(path, "wb");
        if(!f){ return 1; }
        if(n && fwrite(b, 1, n, f) != (size_t)n){ fclose(f); return 1; }
        fclose(f);
        return 0;
}

static unsigned char *pf_slurp(const char *path, int *n)
{
        FILE *f = fopen(path, "rb");
        if(!f){ *n = -1; return NULL; }
        fseek(f, 0, SEEK_END);
        long sz = ftell(f);
        fseek(f, 0, SEEK_SET);
        unsigned char *b = malloc(sz + 1);
        if(sz && fread(b, 1, sz, f) != (size_t)sz){ fclose(f); free(b); *n = -1; return NULL; }
        fclose(f);
        b[sz] = 0;
        *n = (int)sz;
        return b;
}

static int pf_parse_type(const char *s, int *out)
{
        size_t l = strlen(s);
        if(l == 0 || l > 4) return 1;
        const char *p = s;
        if(*p == '-') p++;
        if(!*p) return 1;
        for(const char *q = p; *q; q++){ if(*q < '0' || *q > '9') return 1; }
        long v = strtol(s, NULL, 10);
        if(v > 100 || v < -100) return 1;
        *out = (int)v;
        return 0;
}

static int pf_parse_bits(const char *s, float *out)
{
        if(strlen(s) != 8) return 1;
        uint32_t w = 0;
        for(int i = 0; i < 8; i++){
                int c = s[i], v;
                if(c >= '0' && c <= '9') v = c - '0';
                else if(c >= 'a' && c <= 'f') v = c - 'a' + 10;
                else if(c >= 'A' && c <= 'F') v = c - 'A' + 10;
                else return 1;
                w = (w << 4) | (uint32_t)v;
        }
        union { float f; uint32_t u; } x; x.u = w;
        *out = x.f;
        return 0;
}

static int pf_tok_ok(const char *s)
{
        size_t l = strlen(s);
        if(l == 0 || l > 64) return 0;
        for(; *s; s++){ unsigned char c = (unsigned char)*s; if(c < 33 || c > 126) return 0; }
        return 1;
}

/* first occurrence of needle (length k) in b[from..to), or -1 */
static int pf_find(const unsigned char *b, int from, int to, const char *needle)
{
        int k = (int)strlen(needle);
        for(int i = from; i + k <= to; i++){ if(memcmp(b + i, needle, k) == 0) return i; }
        return -1;
}

/* the twin of `maskOut` (Model/PipelineFile.lean); takes ownership of b */
static unsigned char *mask_out(unsigned char *b, int *n)
{
        int N = *n;
        if(N >= 8 && memcmp(b, "Kalign (", 8) == 0){
                int p = pf_find(b, 8, N, ") multiple sequence alignment");
                if(p < 0) return b;
                if(memchr(b, '\n', p)) return b;
                unsigned char *o = malloc(N + 16);
                memcpy(o, "Kalign (VER", 11);
                memcpy(o + 11, b + p, N - p);
                *n = 11 + N - p;
                free(b);
                return o;
        }
        if(N >= 23 && (memcmp(b, "!!AA_MULTIPLE_ALIGNMENT", 23) == 0 || memcmp(b, "!!NA_MULTIPLE_ALIGNMENT", 23) == 0)){
                int n1 = pf_find(b, 0, N, "\n"); if(n1 < 0) return b;
                int n2 = pf_find(b, n1 + 1, N, "\n"); if(n2 < 0) return b;
                int s = n2 + 1;
                int e = pf_find(b, s, N, "\n"); if(e < 0) return b;
                int p1 = pf_find(b, s, e, "  MSF: "); if(p1 < 0) return b;
                int t = pf_find(b, p1, e, "  Type: "); if(t < 0) return b;
                if(t + 11 > e) return b;
                int c = pf_find(b, t + 11, e, "  Check: "); if(c < 0) return b;
                if(b[s] != ' ' || p1 - s < 2) return b;
                unsigned char *o = malloc(N + 16);
                int k = 0;
                memcpy(o, b, s); k = s;
                memcpy(o + k, " FILE", 5); k += 5;
                memcpy(o + k, b + p1, t + 11 - p1); k += t + 11 - p1;
                memcpy(o + k, "DATE", 4); k += 4;
                memcpy(o + k, b + c, N - c); k += N - c;
                *n = k;
                free(b);
                return o;
        }
        return b;
}

struct pf_result { int rc[3]; unsigned char *out; int n; };

/* read all, run, write; rc[i] = 0 OK, 1 FAIL, -1 not reached */
static void pf_stages(char **paths, int nfiles, int threads, int type, float gpo, float gpe, float tgpe,
                      char *format, char *outpath, struct pf_result *r)
{
        struct msa *msa = NULL;
        r->rc[0] = 0; r->rc[1] = -1; r->rc[2] = -1; r->out = NULL; r->n = -1;
        unlink(outpath);
        for(int i = 0; i < nfiles; i++){
                if(kalign_read_input(paths[i], &msa, 1) != OK){ r->rc[0] = 1; break; }
        }
        if(r->rc[0] == 0){
                r->rc[1] = kalign_run(msa, threads, type, gpo, gpe, tgpe) == OK ? 0 : 1;
                if(r->rc[1] == 0){
                        r->rc[2] = kalign_write_msa(msa, outpath, format) == OK ? 0 : 1;
                        if(r->rc[2] == 0){
                                r->out = pf_slurp(outpath, &r->n);
                                if(r->out){ r->out = mask_out(r->out, &r->n); }
                        }
                }
        }
        if(msa){ kalign_free_msa(msa); }
        unlink(outpath);
}

static void pf_print_rc(FILE *out, const int *rc)
{
        for(int i = 0; i < 3; i++){
                if(i) fputc(',', out);
                if(rc[i] < 0) fputc('-', out); else fprintf(out, "%d", rc[i]);
        }
}

static int pf_same(const struct pf_result *a, const struct pf_result *b)
{
        for(int i = 0; i < 3; i++){ if(a->rc[i] != b->rc[i]) return 0; }
        if((a->out == NULL) != (b->out == NULL)) return 0;
        if(a->out && (a->n != b->n || memcmp(a->out, b->out, a->n) != 0)) return 0;
        return 1;
}

static int op_kalign_file(int argc, char **argv, FILE *out)
{
        if(argc < 6 || argc > 5 + 64) return 1;
        int type; float gpo, gpe, tgpe;
        if(!pf_tok_ok(argv[0])) return 1;
        if(pf_parse_type(argv[1], &type) || pf_parse_bits(argv[2], &gpo) || pf_parse_bits(argv[3], &gpe) || pf_parse_bits(argv[4], &tgpe)) return 1;
        char *format = strcmp(argv[0], "-") == 0 ? NULL : argv[0];
        int nfiles = argc - 5;
        unsigned char **bufs = calloc(nfiles, sizeof(*bufs));
        int *lens = calloc(nfiles, sizeof(int));
        int *missing = calloc(nfiles, sizeof(int));
        char **paths = calloc(nfiles, sizeof(char*));
        int bad = 0;
        for(int i = 0; i < nfiles; i++){
                if(strcmp(argv[5 + i], "!") == 0){ missing[i] = 1; continue; }
                if(kv_unhex(argv[5 + i], &bufs[i], &lens[i])){ bad = 1; break; }
        }
        if(!bad){
                char outpath[700];
                snprintf(outpath, sizeof(outpath), "%s/kf_out", pf_get_tmpdir());
                for(int i = 0; i < nfiles; i++){
                        paths[i] = malloc(700);
                        snprintf(paths[i], 700, "%s/kf_in_%d", pf_get_tmpdir(), i);
                        unlink(paths[i]);
                        if(!missing[i] && pf_write_file(paths[i], bufs[i], lens[i])){ perror("write_file"); exit(3); }
                }
                struct pf_result r1, r4, rc;
                pf_stages(paths, nfiles, 1, type, gpo, gpe, tgpe, format, outpath, &r1);
                pf_stages(paths, nfiles, 4, type, gpo, gpe, tgpe, format, outpath, &r4);
                /* the same through run_kalign() */
                struct parameters *param = init_param();
                param->infile = malloc(sizeof(char*) * nfiles);
                for(int i = 0; i < nfiles; i++){ param->infile[i] = paths[i]; }
                param->num_infiles = nfiles;
                param->outfile = outpath;
                param->format = format;
                param->type = type;
                param->gpo = gpo; param->gpe = gpe; param->tgpe = tgpe;
                param->nthreads = 1;
                param->quiet = 1;
                unlink(outpath);
                int crc = kv_run_kalign(param) == OK ? 0 : 1;
                free_parameters(param);
                rc.rc[0] = rc.rc[1] = rc.rc[2] = 0; rc.out = NULL; rc.n = -1;
                if(crc == 0){
                        rc.out = pf_slurp(outpath, &rc.n);
                        if(rc.out){ rc.out = mask_out(rc.out, &rc.n); }
                }
                unlink(outpath);
                int ours_ok = (r1.rc[0] == 0 && r1.rc[1] == 0 && r1.rc[2] == 0);
                int cli_same = (ours_ok == (crc == 0));
                if(cli_same && ours_ok){
                        cli_same = r1.out && rc.out && r1.n == rc.n && memcmp(r1.out, rc.out, r1.n) == 0;
                }
                if(!pf_same(&r1, &r4)){
                        fprintf(out, "thread-mismatch rc1="); pf_print_rc(out, r1.rc);
                        fprintf(out, " rc4="); pf_print_rc(out, r4.rc);
                        fprintf(out, " n1=%d n4=%d", r1.n, r4.n);
                }else if(!cli_same){
                        fprintf(out, "cli-mismatch rc="); pf_print_rc(out, r1.rc);
                        fprintf(out, " cli=%d n=%d ncli=%d", crc, r1.n, rc.n);
                }else{
                        fprintf(out, "rc="); pf_print_rc(out, r1.rc);
                        fprintf(out, " out=");
                        if(r1.out && r1.n > 0){ kv_print_hex(out, r1.out, r1.n); }else{ fputc('-', out); }
                }
                free(r1.out); free(r4.out); free(rc.out);
                for(int i = 0; i < nfiles; i++){ unlink(paths[i]); free(paths[i]); }
        }
        for(int i = 0; i < nfiles; i++){ free(bufs[i]); }
        free(bufs); free(lens); free(missing); free(paths);
        return bad;
}

/* check_format <fmt> : check_msa_format_string (src/parameters.c; run by main before run_kalign), "-" = NULL -> "ok" | "fail" */
static int op_check_format(int argc, char **argv, FILE *out)
{
        if(argc != 1 || !pf_tok_ok(argv[0])) return 1;
        int rc = check_msa_format_string(strcmp(argv[0], "-") == 0 ? NULL : argv[0]);
        fprintf(out, rc == OK ? "ok" : "fail");
        return 0;
}

struct kv_op kv_ops_pipefile[] = {
        {"kalign_file", op_kalign_file},
        {"kalign_file_soft2", op_kalign_file},   /* model side: SoftF32 run stage (Model/PipelineFileSoft.lean) */
        {"check_format", op_check_format},
        {NULL, NULL}
};
