/* unit/step ops around the dynamic-programming core: kernels (aln_seqseq.c, aln_seqprofile.c,
   aln_profileprofile.c), controller (aln_controller.c), profiles (aln_setup.c) and do_align (aln_run.c).
   All floats cross the protocol as binary32 bit patterns.

   common argument groups
     P      := <biotype> <type> <gpo> <gpe> <tgpe>      penalties as 8 hex digits; a value >= 0 overrides
     OPND   := S<codes>            one sequence (codes < 23, "S-" = empty)
             | R<nsip>:<hex>       raw profile, 64*(len+2) floats, used as is
             | G<codes>/<codes>/.. group: profile built by a chain of real do_align calls ((s0+s1)+s2)+..
     prepared profile of an operand (what a kernel sees): S -> make_profile_n; G -> chain profile followed by
     set_gap_penalties_n(.., nsip of the other operand); R -> as given
     FAM    := ss | sp | pp   (ss: both S; sp: second S; pp: any)
     ST     := 24 hex digits (a, ga, gb)
*/
#include "kvh.h"
#include <float.h>
#include "tldevel.h"
#include "msa_struct.h"
#include "task.h"
#include "aln_struct.h"
#include "aln_param.h"
#include "aln_mem.h"
#include "aln_setup.h"
#include "aln_controller.h"
#include "aln_seqseq.h"
#include "aln_seqprofile.h"
#include "aln_profileprofile.h"
#include "kvh_dp.h"

/* ---------------------------------------------------------------- parsing helpers */

static int p_int(const char *s, int *out)
{
        char *e; long v;
        if(!*s) return 1;
        v = strtol(s, &e, 10);
        if(*e || e == s) return 1;
        if(s[0] == '+' || s[0] == ' ') return 1;
        *out = (int)v; return 0;
}
static int hexv(int c){ if(c>='0'&&c<='9') return c-'0'; if(c>='a'&&c<='f') return c-'a'+10; if(c>='A'&&c<='F') return c-'A'+10; return -1; }
/* n floats from 8n hex digits */
static int p_floats_n(const char *s, size_t nchar, float *out)
{
        if(nchar % 8) return 1;
        for(size_t i = 0; i < nchar / 8; i++){
                uint32_t w = 0;
                for(int k = 0; k < 8; k++){ int h = hexv((unsigned char)s[8*i+k]); if(h < 0) return 1; w = (w << 4) | (uint32_t)h; }
                memcpy(&out[i], &w, 4);
        }
        return 0;
}
static int p_float(const char *s, float *out){ if(strlen(s) != 8) return 1; return p_floats_n(s, 8, out); }
static void pr_float(FILE *o, float x){ uint32_t w; memcpy(&w, &x, 4); fprintf(o, "%08x", w); }
static void pr_floats(FILE *o, const float *v, size_t n){ if(!n){ fputc('-', o); return; } for(size_t i = 0; i < n; i++) pr_float(o, v[i]); }
static uint32_t fnv(const float *v, size_t n)
{
        uint32_t h = 2166136261u;
        for(size_t i = 0; i < n; i++){ uint32_t w; memcpy(&w, &v[i], 4); h = (h ^ w) * 16777619u; }
        return h;
}

/* codes list (possibly empty "-"), every code < 23 */
static int p_codes(const char *s, uint8_t **seq, int *len)
{
        struct kv_ints l;
        /* strict: digits and commas only */
        if(strcmp(s, "-") != 0){
                if(!*s) return 1;
                for(const char *p = s; *p; p++){
                        if(!((*p >= '0' && *p <= '9') || *p == ',')) return 1;
                        if(*p == ',' && (p == s || p[1] == ',' || p[1] == 0)) return 1;
                }
        }
        if(kv_parse_ints(s, &l)) return 1;
        uint8_t *q = malloc(l.n + 1);
        for(int i = 0; i < l.n; i++){
                if(l.v[i] < 0 || l.v[i] >= 23){ free(q); kv_free_ints(&l); return 1; }
                q[i] = (uint8_t)l.v[i];
        }
        *seq = q; *len = l.n;
        kv_free_ints(&l);
        return 0;
}

/* P: 5 tokens. returns 0 ok, 1 bad-op, 2 aln_param_init failed */
static int p_param(char **argv, struct aln_param **ap)
{
        int bt, ty; float gpo, gpe, tgpe;
        static const int types[] = {-1,0,1,2,3,4,5,6,99};
        if(p_int(argv[0], &bt) || p_int(argv[1], &ty)) return 1;
        if(p_float(argv[2], &gpo) || p_float(argv[3], &gpe) || p_float(argv[4], &tgpe)) return 1;
        if(bt < 0 || bt > 2) return 1;
        int okty = 0;
        for(unsigned i = 0; i < sizeof(types)/sizeof(types[0]); i++) if(types[i] == ty) okty = 1;
        if(!okty) return 1;
        *ap = NULL;
        if(aln_param_init(ap, bt, 1, ty, gpo, gpe, tgpe) != OK){ *ap = NULL; return 2; }
        return 0;
}

/* ---------------------------------------------------------------- a small real msa for do_align */

struct dpmsa { struct msa *msa; struct aln_tasks *t; int n; };

static void dpmsa_free(struct dpmsa *d)
{
        if(!d->msa) return;
        for(int i = 0; i < d->n; i++){ free(d->msa->sequences[i]->gaps); free(d->msa->sequences[i]->s); free(d->msa->sequences[i]); }
        for(int i = 0; i < d->msa->num_profiles; i++) free(d->msa->sip[i]);
        free(d->msa->sequences); free(d->msa->sip); free(d->msa->nsip); free(d->msa->plen); free(d->msa);
        if(d->t) free_tasks(d->t);
        d->msa = NULL; d->t = NULL;
}
/* takes ownership of the seqs[i] buffers */
static void dpmsa_make(struct dpmsa *d, int n, uint8_t **seqs, int *lens)
{
        struct msa *msa = calloc(1, sizeof(struct msa));
        msa->numseq = n; msa->num_profiles = 2*n - 1; msa->alloc_numseq = n; msa->quiet = 1;
        msa->sequences = calloc(n, sizeof(struct msa_seq*));
        msa->sip = calloc(msa->num_profiles, sizeof(int*));
        msa->nsip = calloc(msa->num_profiles, sizeof(int));
        msa->plen = calloc(msa->num_profiles, sizeof(int));
        for(int i = 0; i < n; i++){
                msa->sequences[i] = calloc(1, sizeof(struct msa_seq));
                msa->sequences[i]->s = seqs[i];
                msa->sequences[i]->len = lens[i];
                msa->sequences[i]->gaps = calloc(lens[i] + 1, sizeof(int));
                msa->sip[i] = malloc(sizeof(int)); msa->sip[i][0] = i;
                msa->nsip[i] = 1;
        }
        d->msa = msa; d->n = n; d->t = NULL;
        alloc_tasks(&d->t, n > 1 ? n : 2);
}
/* run task k = (a,b,c) through the real do_align; m is returned for inspection (caller frees) */
static struct aln_mem *dpmsa_task(struct dpmsa *d, struct aln_param *ap, int k, int a, int b, int c, int run_parallel)
{
        struct aln_mem *m = NULL;
        d->t->list[k]->a = a; d->t->list[k]->b = b; d->t->list[k]->c = c;
        alloc_aln_mem(&m, 256);
        m->ap = ap; m->mode = ALN_MODE_FULL; m->run_parallel = (uint8_t)run_parallel;
        d->msa->run_parallel = (uint8_t)run_parallel;
        kv_do_align(d->msa, d->t, m, k);
        return m;
}

/* ---------------------------------------------------------------- operands */

struct opnd { int kind; int len; int nsip; uint8_t *seq; float *prof; };

static void opnd_free(struct opnd *o){ free(o->seq); free(o->prof); o->seq = NULL; o->prof = NULL; }

/* returns 0 ok, 1 bad-op */
static int opnd_parse(struct aln_param *ap, const char *tok, struct opnd *o)
{
        memset(o, 0, sizeof(*o));
        o->kind = tok[0];
        if(tok[0] == 'S'){
                if(p_codes(tok + 1, &o->seq, &o->len)) return 1;
                o->nsip = 1;
                if(make_profile_n(ap, o->seq, o->len, &o->prof) != OK){ opnd_free(o); return 1; }
                return 0;
        }
        if(tok[0] == 'R'){
                const char *c = strchr(tok, ':');
                if(!c) return 1;
                char buf[16]; size_t l = (size_t)(c - tok - 1);
                if(l == 0 || l > 8) return 1;
                memcpy(buf, tok + 1, l); buf[l] = 0;
                for(size_t i = 0; i < l; i++) if(buf[i] < '0' || buf[i] > '9') return 1;
                o->nsip = atoi(buf);
                size_t nch = strlen(c + 1);
                if(nch % 8 || (nch / 8) % 64 || nch / 8 < 128) return 1;
                o->prof = malloc(sizeof(float) * (nch / 8));
                if(p_floats_n(c + 1, nch, o->prof)){ opnd_free(o); return 1; }
                o->len = (int)(nch / 8 / 64) - 2;
                return 0;
        }
        if(tok[0] == 'G'){
                int n = 1;
                for(const char *p = tok + 1; *p; p++) if(*p == '/') n++;
                if(n < 2) return 1;
                uint8_t **seqs = calloc(n, sizeof(uint8_t*)); int *lens = calloc(n, sizeof(int));
                char *dup = strdup(tok + 1); int bad = 0, k = 0;
                char *save = NULL;
                /* strtok_r would skip empty fields; split by hand */
                char *p = dup;
                while(k < n){
                        char *e = strchr(p, '/'); if(e) *e = 0;
                        if(p_codes(p, &seqs[k], &lens[k]) || lens[k] < 1) { bad = 1; if(seqs[k] && lens[k] < 1){ free(seqs[k]); seqs[k] = NULL; } }
                        k++;
                        if(!e) break;
                        p = e + 1;
                }
                (void)save;
                if(bad || k != n){ for(int i = 0; i < n; i++) free(seqs[i]); free(seqs); free(lens); free(dup); return 1; }
                struct dpmsa d; dpmsa_make(&d, n, seqs, lens);
                d.t->n_tasks = n;          /* so that no task of the chain is the last one: update_n always runs */
                int cur = 0;
                for(int i = 1; i < n; i++){
                        struct aln_mem *m = dpmsa_task(&d, ap, i - 1, cur, i, n + i - 1, 0);
                        free_aln_mem(m);
                        cur = n + i - 1;
                }
                o->len = d.msa->plen[cur]; o->nsip = n;
                o->prof = malloc(sizeof(float) * 64 * (o->len + 2));
                memcpy(o->prof, d.t->profile[cur], sizeof(float) * 64 * (o->len + 2));
                dpmsa_free(&d);
                free(seqs); free(lens); free(dup);
                return 0;
        }
        return 1;
}
static void opnd_prepare(struct opnd *o, int other_nsip)
{
        if(o->kind == 'G') set_gap_penalties_n(o->prof, o->len, other_nsip);
}

/* FAM P OPND OPND sip : 9 tokens -> aln_mem with operands installed (lens set, arrays sized).
   returns 0 ok, 1 bad-op, 2 param-fail */
struct dpctx { struct aln_param *ap; struct opnd A, B; struct aln_mem *m; int fam; };

static void dpctx_free(struct dpctx *c)
{
        if(c->m) free_aln_mem(c->m);
        opnd_free(&c->A); opnd_free(&c->B);
        if(c->ap) aln_param_free(c->ap);
        memset(c, 0, sizeof(*c));
}
static int dpctx_make(char **argv, struct dpctx *c)
{
        int sip, rc;
        memset(c, 0, sizeof(*c));
        if(strcmp(argv[0], "ss") == 0) c->fam = 0; else if(strcmp(argv[0], "sp") == 0) c->fam = 1; else if(strcmp(argv[0], "pp") == 0) c->fam = 2; else return 1;
        if(p_int(argv[8], &sip) || sip < 0 || sip > 1000000) return 1;
        rc = p_param(argv + 1, &c->ap);
        if(rc) return rc;
        if(opnd_parse(c->ap, argv[6], &c->A)){ dpctx_free(c); return 1; }
        if(opnd_parse(c->ap, argv[7], &c->B)){ dpctx_free(c); return 1; }
        if((c->fam == 0 && (c->A.kind != 'S' || c->B.kind != 'S')) || (c->fam == 1 && c->B.kind != 'S')){ dpctx_free(c); return 1; }
        if(c->A.len < 1 || c->B.len < 1){ dpctx_free(c); return 1; }
        opnd_prepare(&c->A, c->B.nsip); opnd_prepare(&c->B, c->A.nsip);
        alloc_aln_mem(&c->m, 256);
        struct aln_mem *m = c->m;
        m->ap = c->ap; m->mode = ALN_MODE_FULL; m->run_parallel = 0;
        m->len_a = c->A.len; m->len_b = c->B.len;
        init_alnmem(m);
        m->sip = sip;
        if(c->fam == 0){ m->seq1 = c->A.seq; m->seq2 = c->B.seq; m->prof1 = NULL; m->prof2 = NULL; }
        else if(c->fam == 1){ m->seq1 = NULL; m->seq2 = c->B.seq; m->prof1 = c->A.prof; m->prof2 = NULL; }
        else { m->seq1 = NULL; m->seq2 = NULL; m->prof1 = c->A.prof; m->prof2 = c->B.prof; }
        return 0;
}
static int p_state(const char *s, struct states *st)
{
        float v[3];
        if(strlen(s) != 24 || p_floats_n(s, 24, v)) return 1;
        st->a = v[0]; st->ga = v[1]; st->gb = v[2];
        return 0;
}
static void pr_cells(FILE *out, const struct states *s, int from, int to)
{
        for(int j = from; j <= to; j++){
                if(j > from) fputc(',', out);
                pr_float(out, s[j].a); pr_float(out, s[j].ga); pr_float(out, s[j].gb);
        }
}
static int finish(struct dpctx *c, int rc, FILE *out)
{
        if(rc == 2){ fputs("param-fail", out); rc = 0; }
        return rc;
}

/* ---------------------------------------------------------------- profile ops */

/* dp_make_profile P S<codes> -> floats */
static int op_make_profile(int argc, char **argv, FILE *out)
{
        if(argc != 6) return 1;
        struct aln_param *ap = NULL; struct opnd o;
        int rc = p_param(argv, &ap);
        if(rc == 2){ fputs("param-fail", out); return 0; }
        if(rc) return 1;
        if(argv[5][0] != 'S' || opnd_parse(ap, argv[5], &o)){ aln_param_free(ap); return 1; }
        pr_floats(out, o.prof, (size_t)64 * (o.len + 2));
        opnd_free(&o); aln_param_free(ap);
        return 0;
}

/* dp_set_gap P OPND nsip -> floats */
static int op_set_gap(int argc, char **argv, FILE *out)
{
        if(argc != 7) return 1;
        struct aln_param *ap = NULL; struct opnd o; int nsip;
        if(p_int(argv[6], &nsip) || nsip < 0 || nsip > 1000000) return 1;
        int rc = p_param(argv, &ap);
        if(rc == 2){ fputs("param-fail", out); return 0; }
        if(rc) return 1;
        if(opnd_parse(ap, argv[5], &o)){ aln_param_free(ap); return 1; }
        set_gap_penalties_n(o.prof, o.len, nsip);
        pr_floats(out, o.prof, (size_t)64 * (o.len + 2));
        opnd_free(&o); aln_param_free(ap);
        return 0;
}

/* dp_update P OPND OPND <codes> sipa sipb <full:0|1> -> floats | hash | fault */
static int op_update(int argc, char **argv, FILE *out)
{
        if(argc != 11) return 1;
        struct aln_param *ap = NULL; struct opnd A, B; struct kv_ints codes; int sipa, sipb, full;
        if(p_int(argv[8], &sipa) || p_int(argv[9], &sipb) || p_int(argv[10], &full)) return 1;
        if(sipa < 0 || sipb < 0 || sipa > 1000000 || sipb > 1000000 || (full != 0 && full != 1)) return 1;
        for(const char *p = argv[7]; *p; p++) if(!((*p >= '0' && *p <= '9') || *p == ',' || (*p == '-' && p == argv[7] && !p[1]))) return 1;
        if(kv_parse_ints(argv[7], &codes)) return 1;
        int rc = p_param(argv, &ap);
        if(rc == 2){ fputs("param-fail", out); kv_free_ints(&codes); return 0; }
        if(rc){ kv_free_ints(&codes); return 1; }
        if(opnd_parse(ap, argv[5], &A)){ aln_param_free(ap); kv_free_ints(&codes); return 1; }
        if(opnd_parse(ap, argv[6], &B)){ opnd_free(&A); aln_param_free(ap); kv_free_ints(&codes); return 1; }
        opnd_prepare(&A, B.nsip); opnd_prepare(&B, A.nsip);
        /* would update_n leave a profile or copy an uninitialised column? */
        int na = 0, nb = 0, fault = 0, ncol = 0;
        for(int i = 0; i < codes.n && codes.v[i] != 3; i++){
                int c = codes.v[i], hit = 0;
                if(c == 0){ if(na + 1 > A.len + 1 || nb + 1 > B.len + 1) fault = 1; na++; nb++; hit = 1; }
                if(c & 1){ if(nb + 1 > B.len + 1) fault = 1; nb++; hit = 1; }
                if(c & 2){ if(na + 1 > A.len + 1) fault = 1; na++; hit = 1; }
                if(!hit) fault = 1;
                ncol++;
        }
        if(na + 1 > A.len + 1 || nb + 1 > B.len + 1) fault = 1;
        if(fault){ fputs("fault", out); }
        else{
                int *path = malloc(sizeof(int) * (ncol + 3));
                path[0] = ncol;
                for(int i = 0; i < ncol; i++) path[i + 1] = codes.v[i];
                path[ncol + 1] = 3;
                float *newp = malloc(sizeof(float) * 64 * (ncol + 2));
                update_n(A.prof, B.prof, newp, ap, path, sipa, sipb);
                if(full) pr_floats(out, newp, (size_t)64 * (ncol + 2));
                else fprintf(out, "%08x", fnv(newp, (size_t)64 * (ncol + 2)));
                free(newp); free(path);
        }
        opnd_free(&A); opnd_free(&B); aln_param_free(ap); kv_free_ints(&codes);
        return 0;
}

/* ---------------------------------------------------------------- kernel ops */

static int p_rect(char **argv, struct dpctx *c, int *sa, int *ea, int *sb, int *eb, int need_b)
{
        /* "L" as enda / endb stands for len_a / len_b (group lengths are only known after their alignment) */
        if(p_int(argv[0], sa) || p_int(argv[2], sb)) return 1;
        if(strcmp(argv[1], "L") == 0) *ea = c->m->len_a; else if(p_int(argv[1], ea)) return 1;
        if(strcmp(argv[3], "L") == 0) *eb = c->m->len_b; else if(p_int(argv[3], eb)) return 1;
        if(*sa < 0 || *sa > *ea || *ea > c->m->len_a) return 1;
        if(*sb < 0 || *eb > c->m->len_b) return 1;
        if(need_b ? (*sb >= *eb) : (*sb > *eb)) return 1;
        return 0;
}

/* dp_fwd|dp_bwd FAM P OPND OPND sip starta enda startb endb ST -> cells startb..endb */
static int op_kernel(int argc, char **argv, FILE *out, int backward)
{
        if(argc != 14) return 1;
        struct dpctx c; int sa, ea, sb, eb; struct states st;
        if(p_state(argv[13], &st)) return 1;
        int rc = dpctx_make(argv, &c);
        if(rc) return finish(&c, rc, out);
        if(p_rect(argv + 9, &c, &sa, &ea, &sb, &eb, 1)){ dpctx_free(&c); return 1; }
        struct aln_mem *m = c.m;
        m->startb = sb; m->endb = eb;
        if(!backward){
                m->starta = sa; m->enda = ea; m->f[0] = st;
                if(c.fam == 0) aln_seqseq_foward(m); else if(c.fam == 1) aln_seqprofile_foward(m); else aln_profileprofile_foward(m);
                pr_cells(out, m->f, sb, eb);
        }else{
                m->starta_2 = sa; m->enda_2 = ea; m->b[0] = st;
                if(c.fam == 0) aln_seqseq_backward(m); else if(c.fam == 1) aln_seqprofile_backward(m); else aln_profileprofile_backward(m);
                pr_cells(out, m->b, sb, eb);
        }
        dpctx_free(&c);
        return 0;
}
static int op_fwd(int argc, char **argv, FILE *out){ return op_kernel(argc, argv, out, 0); }
static int op_bwd(int argc, char **argv, FILE *out){ return op_kernel(argc, argv, out, 1); }

static void pr_meet(FILE *out, int meet, int t, float score){ fprintf(out, "%d %d ", meet, t); pr_float(out, score); }

static void call_meetup(struct dpctx *c, int old_cor[], int *meet, int *t, float *score)
{
        if(c->fam == 0) aln_seqseq_meetup(c->m, old_cor, meet, t, score);
        else if(c->fam == 1) aln_seqprofile_meetup(c->m, old_cor, meet, t, score);
        else aln_profileprofile_meetup(c->m, old_cor, meet, t, score);
}

/* dp_meet FAM P OPND OPND sip startb endb mid <f cells> <b cells> -> meet t score */
static int op_meet(int argc, char **argv, FILE *out)
{
        if(argc != 14) return 1;
        struct dpctx c; int sb, eb, mid;
        if(p_int(argv[9], &sb) || p_int(argv[10], &eb) || p_int(argv[11], &mid)) return 1;
        int rc = dpctx_make(argv, &c);
        if(rc) return finish(&c, rc, out);
        struct aln_mem *m = c.m;
        if(sb < 0 || sb >= eb || eb > m->len_b || mid < 0 || mid > m->len_a){ dpctx_free(&c); return 1; }
        size_t n = (size_t)(eb - sb + 1);
        if(strlen(argv[12]) != n * 24 || strlen(argv[13]) != n * 24){ dpctx_free(&c); return 1; }
        float *fv = malloc(sizeof(float) * 3 * n), *bv = malloc(sizeof(float) * 3 * n);
        if(p_floats_n(argv[12], n * 24, fv) || p_floats_n(argv[13], n * 24, bv)){ free(fv); free(bv); dpctx_free(&c); return 1; }
        for(size_t k = 0; k < n; k++){
                m->f[sb + k].a = fv[3*k]; m->f[sb + k].ga = fv[3*k+1]; m->f[sb + k].gb = fv[3*k+2];
                m->b[sb + k].a = bv[3*k]; m->b[sb + k].ga = bv[3*k+1]; m->b[sb + k].gb = bv[3*k+2];
        }
        free(fv); free(bv);
        m->startb = sb; m->endb = eb;
        int old_cor[5] = {0, m->len_a, sb, eb, mid}; int meet, t; float score;
        call_meetup(&c, old_cor, &meet, &t, &score);
        pr_meet(out, meet, t, score);
        dpctx_free(&c);
        return 0;
}

/* dp_step FAM P OPND OPND sip starta enda startb endb ST(f0) ST(b0) -> meet t score   (forward, backward, meetup) */
static int op_step(int argc, char **argv, FILE *out)
{
        if(argc != 15) return 1;
        struct dpctx c; int sa, ea, sb, eb; struct states f0, b0;
        if(p_state(argv[13], &f0) || p_state(argv[14], &b0)) return 1;
        int rc = dpctx_make(argv, &c);
        if(rc) return finish(&c, rc, out);
        if(p_rect(argv + 9, &c, &sa, &ea, &sb, &eb, 1) || sa >= ea){ dpctx_free(&c); return 1; }
        struct aln_mem *m = c.m;
        int mid = (ea - sa) / 2 + sa;
        int old_cor[5] = {sa, ea, sb, eb, mid}; int meet, t; float score;
        m->starta = sa; m->enda = mid; m->starta_2 = mid; m->enda_2 = ea; m->startb = sb; m->endb = eb;
        m->f[0] = f0; m->b[0] = b0;
        if(c.fam == 0){ aln_seqseq_foward(m); aln_seqseq_backward(m); }
        else if(c.fam == 1){ aln_seqprofile_foward(m); aln_seqprofile_backward(m); }
        else { aln_profileprofile_foward(m); aln_profileprofile_backward(m); }
        call_meetup(&c, old_cor, &meet, &t, &score);
        pr_meet(out, meet, t, score);
        dpctx_free(&c);
        return 0;
}

/* ---------------------------------------------------------------- controller ops */

static void pr_trace(FILE *out)
{
        if(kv_trace_n == 0){ fputc('-', out); return; }
        for(int i = 0; i < kv_trace_n; i++){
                struct kv_trace_entry *e = &kv_trace[i];
                if(i) fputc(';', out);
                fprintf(out, "%d:%d:%d:%d:%d:%d:", e->sa, e->ea, e->sb, e->eb, e->meet, e->t);
                pr_float(out, e->score);
        }
}
static int p_kind(const char *s, struct states *st)
{
        st->a = -FLT_MAX; st->ga = -FLT_MAX; st->gb = -FLT_MAX;
        if(strcmp(s, "A") == 0) st->a = 0.0F; else if(strcmp(s, "GA") == 0) st->ga = 0.0F; else if(strcmp(s, "GB") == 0) st->gb = 0.0F; else return 1;
        return 0;
}

/* dp_runner <par|ser> FAM P OPND OPND sip starta enda startb endb <fkind> <bkind> <mon:0|1>
   -> <path[1..len_a]> <trace> [mon=1]
   The meetup contract is evaluated by the model on the (identical) trace; this side states that it holds. */
static int op_runner(int argc, char **argv, FILE *out)
{
        if(argc != 17) return 1;
        struct dpctx c; int sa, ea, sb, eb, mon, par; struct states f0, b0;
        if(strcmp(argv[0], "par") == 0) par = 1; else if(strcmp(argv[0], "ser") == 0) par = 0; else return 1;
        if(p_kind(argv[14], &f0) || p_kind(argv[15], &b0) || p_int(argv[16], &mon) || (mon != 0 && mon != 1)) return 1;
        int rc = dpctx_make(argv + 1, &c);
        if(rc) return finish(&c, rc, out);
        if(p_rect(argv + 10, &c, &sa, &ea, &sb, &eb, 0)){ dpctx_free(&c); return 1; }
        struct aln_mem *m = c.m;
        m->starta = sa; m->enda = ea; m->startb = sb; m->endb = eb;
        m->f[0] = f0; m->b[0] = b0;
        m->run_parallel = (uint8_t)par;
        kv_trace_reset();
        if(par) aln_runner(m); else aln_runner_serial(m);
        kv_print_ints(out, m->path + 1, m->len_a);
        fputc(' ', out);
        pr_trace(out);
        if(mon) fputs(" mon=1", out);
        dpctx_free(&c);
        return 0;
}

/* dp_align <run_parallel:0|1> P nseq <codes>*nseq <a0,b0,a1,b1,..>
   tasks k = (a_k, b_k, nseq+k) through the real do_align, the last one being the last task of the tree.
   -> per task  <raw path>/<gap-info path>/<profile hash | ->/<trace>/mon=1 */
static int op_align(int argc, char **argv, FILE *out)
{
        if(argc < 8) return 1;
        int par, n;
        if(p_int(argv[0], &par) || (par != 0 && par != 1) || p_int(argv[6], &n) || n < 2 || n > 64 || argc != 8 + n) return 1;
        struct kv_ints tl;
        for(const char *p = argv[7 + n]; *p; p++) if(!((*p >= '0' && *p <= '9') || *p == ',')) return 1;
        if(kv_parse_ints(argv[7 + n], &tl)) return 1;
        int nt = tl.n / 2;
        if(tl.n % 2 || nt < 1 || nt > n - 1){ kv_free_ints(&tl); return 1; }
        /* every operand exists and is used once */
        int used[200] = {0}, bad = 0;
        for(int k = 0; k < nt && !bad; k++){
                int a = tl.v[2*k], b = tl.v[2*k+1];
                if(a < 0 || b < 0 || a == b || a >= n + k || b >= n + k || used[a] || used[b]) bad = 1;
                else { used[a] = 1; used[b] = 1; }
        }
        if(bad){ kv_free_ints(&tl); return 1; }
        struct aln_param *ap = NULL;
        int rc = p_param(argv + 1, &ap);
        if(rc == 2){ fputs("param-fail", out); kv_free_ints(&tl); return 0; }
        if(rc){ kv_free_ints(&tl); return 1; }
        uint8_t **seqs = calloc(n, sizeof(uint8_t*)); int *lens = calloc(n, sizeof(int));
        for(int i = 0; i < n && !bad; i++) if(p_codes(argv[7 + i], &seqs[i], &lens[i]) || lens[i] < 1) bad = 1;
        if(bad){ for(int i = 0; i < n; i++) free(seqs[i]); free(seqs); free(lens); aln_param_free(ap); kv_free_ints(&tl); return 1; }
        struct dpmsa d; dpmsa_make(&d, n, seqs, lens);
        d.t->n_tasks = nt;
        for(int k = 0; k < nt; k++){
                int a = tl.v[2*k], b = tl.v[2*k+1], cc = n + k;
                int la = d.msa->nsip[a] == 1 ? d.msa->sequences[a]->len : d.msa->plen[a];
                kv_trace_reset();
                struct aln_mem *m = dpmsa_task(&d, ap, k, a, b, cc, par);
                if(k) fputc(' ', out);
                kv_print_ints(out, m->tmp_path + 1, la);
                fputc('/', out);
                kv_print_ints(out, m->path + 1, m->path[0]);
                fputc('/', out);
                if(k != nt - 1) fprintf(out, "%08x", fnv(d.t->profile[cc], (size_t)64 * (m->path[0] + 2))); else fputc('-', out);
                fputc('/', out);
                pr_trace(out);
                fputs("/mon=1", out);
                free_aln_mem(m);
        }
        dpmsa_free(&d);
        free(seqs); free(lens); aln_param_free(ap); kv_free_ints(&tl);
        return 0;
}

struct kv_op kv_ops_dp[] = {
        {"dp_make_profile", op_make_profile},
        {"dp_set_gap", op_set_gap},
        {"dp_update", op_update},
        {"dp_fwd", op_fwd},
        {"dp_bwd", op_bwd},
        {"dp_meet", op_meet},
        {"dp_step", op_step},
        {"dp_runner", op_runner},
        {"dp_align", op_align},
        {NULL, NULL}
};
