#include "kvh.h"
struct kv_op kv_ops_dp[] = { {NULL, NULL} };
