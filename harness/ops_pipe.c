/* system-level correspondence op of the composed pipeline model (lean/KalignModel/Model/Pipeline.lean):
   the real kalign() through the public array API, no hooks, no shims.

   kalign_sys <type> <gpoBits> <gpeBits> <tgpeBits> <seq>...
     type      decimal integer in -100..100 (at most 4 characters)
     *Bits     binary32 bit patterns (8 hex digits) of the penalty arguments
     seq       residues (printable ASCII without blanks), "." = empty sequence; at most 4000 sequences
   -> "rc=0 len=<alnlen> <row>..."  rows of the non-empty inputs in input order
      "rc=1 len=-1"                 kalign() failed
   kalign() is called with 1 thread and again with 8 threads; the two results must be identical
   (otherwise the line is "thread-mismatch ..."), the rows are printed once. */
#include "kvh.h"
#include "tldevel.h"
#include "kalign/kalign.h"

static int parse_type(const char *s, int *out)
{
        size_t l = strlen(s);
        if(l == 0 || l > 4) return 1;
        const char *p = s;
        if(*p == '-') p++;
        if(!*p) return 1;
        for(const char *q = p; *q; q++){ if(*q < '0' || *q > '9') return 1; }
        long v = strtol(s, NULL, 10);
        if(v > 100 || v < -100) return 1;
        *out = (int)v;
        return 0;
}

static int parse_bits(const char *s, float *out)
{
        if(strlen(s) != 8) return 1;
        uint32_t w = 0;
        for(int i = 0; i < 8; i++){
                int c = s[i], v;
                if(c >= '0' && c <= '9') v = c - '0';
                else if(c >= 'a' && c <= 'f') v = c - 'a' + 10;
                else if(c >= 'A' && c <= 'F') v = c - 'A' + 10;
                else return 1;
                w = (w << 4) | (uint32_t)v;
        }
        union { float f; uint32_t u; } x; x.u = w;
        *out = x.f;
        return 0;
}

static int tok_ok(const char *s)
{
        if(!*s) return 0;
        for(; *s; s++){ unsigned char c = (unsigned char)*s; if(c < 33 || c > 126) return 0; }
        return 1;
}

static void free_rows(char **aln, int rows)
{
        if(!aln) return;
        for(int i = 0; i < rows; i++) free(aln[i]);
        free(aln);
}

static int op_kalign_sys(int argc, char **argv, FILE *out)
{
        if(argc < 5) return 1;
        int type; float gpo, gpe, tgpe;
        if(parse_type(argv[0], &type) || parse_bits(argv[1], &gpo) || parse_bits(argv[2], &gpe) || parse_bits(argv[3], &tgpe)) return 1;
        int n = argc - 4;
        if(n > 4000) return 1;
        for(int i = 0; i < n; i++){ if(!tok_ok(argv[4+i])) return 1; }
        char **seqs = malloc(sizeof(char*) * n);
        int *lens = malloc(sizeof(int) * n);
        int rows = 0;
        for(int i = 0; i < n; i++){
                seqs[i] = strcmp(argv[4+i], ".") == 0 ? (char*)"" : argv[4+i];
                lens[i] = (int)strlen(seqs[i]);
                if(lens[i] > 0) rows++;
        }
        char **aln1 = NULL, **aln8 = NULL; int alen1 = 0, alen8 = 0;
        int rc1 = kalign(seqs, lens, n, 1, type, gpo, gpe, tgpe, &aln1, &alen1);
        int rc8 = kalign(seqs, lens, n, 8, type, gpo, gpe, tgpe, &aln8, &alen8);
        int same = (rc1 == rc8);
        if(same && rc1 == OK){
                same = (alen1 == alen8) && aln1 && aln8;
                for(int i = 0; same && i < rows; i++){ if(strcmp(aln1[i], aln8[i]) != 0) same = 0; }
        }
        if(!same){
                fprintf(out, "thread-mismatch rc1=%d rc8=%d len1=%d len8=%d", rc1, rc8, alen1, alen8);
        }else{
                fprintf(out, "rc=%d len=%d", rc1 == OK ? 0 : 1, rc1 == OK ? alen1 : -1);
                if(rc1 == OK && aln1){
                        for(int i = 0; i < rows; i++){ fprintf(out, " %s", alen1 ? aln1[i] : "."); }
                }
        }
        if(rc1 == OK) free_rows(aln1, rows);
        if(rc8 == OK) free_rows(aln8, rows);
        free(seqs); free(lens);
        return 0;
}

struct kv_op kv_ops_pipe[] = {
        {"kalign_sys", op_kalign_sys},
        {"kalign_sys_soft", op_kalign_sys},   /* model side: SoftF32 carrier (Model/PipelineSoft.lean) */
        {"kalign_sys_soft2", op_kalign_sys},  /* model side: SoftF32 carrier + SoftF32 upgma guide tree (Model/TreeSoft.lean) */
        {NULL, NULL}
};
