/* unit ops around msa_io.c (readers, writers, format detection), msa_misc.c (GCG checksums), msa_op.c (detect_aligned,
   detect_alphabet, merge_msa through kalign_read_input).

   read <hex> [<hex> ...]          kalign_read_input on one temp file per argument, all into the same msa (merge_msa)
   read_as <fmt> <hex>             read_file_stdin + read_fasta(1)/read_msf(2)/read_clu(3) + detect_alphabet + detect_aligned
   detect_format <hex>             detect_alignment_format on the lines of the file
   parse_format <token>            parse_format_argument ("-" = NULL pointer)
   write <fmt> <version> <biotype> <L> <alnlen> <basename_hex> [<name_hex>:<row> ...]
                                   kalign_write_msa of an msa built here (aligned = ALN_STATUS_FINAL); hex of the file, date masked
   write_read <fmt> <version> <biotype> <L> <alnlen> <basename_hex> [<name_hex>:<row> ...]
                                   the same file read back by kalign_read_input
   gcg <row>                       GCGchecksum
   dump format (read, read_as, write_read):
     fmt=<f,..> n=<numseq> aligned=<status> bio=<biotype> L=<L> lf=<byte:count,..|-> |[ <name_hex> <residues|.> <gaps> [; ...]]
   or `null` (OK, *msa == NULL) or `fail` (FAIL returned). */
#include "kvh.h"
#include <unistd.h>
#include <fcntl.h>
#include <ctype.h>
#include <sys/stat.h>
#include <sys/wait.h>
#include <dirent.h>
#include "tldevel.h"
#include "msa_struct.h"
#include "msa_alloc.h"
#include "msa_io.h"
#include "msa_op.h"
int GCGchecksum(char *seq, int len);      /* (declared here, not via msa_misc.h: a renamed header is not a change of behaviour) */

int kv_io_detect_format(char *path, int *type);
int kv_io_read_as(char *path, int type, struct msa **out);
int kv_io_parse_format(char *format, int *type);

static char tmpdir[512] = "";

static void rm_tmpdir(void)
{
        if(tmpdir[0]){ rmdir(tmpdir); }
}

static const char *get_tmpdir(void)
{
        if(!tmpdir[0]){
                const char *base = getenv("KVH_TMP");
                if(!base){ base = "/tmp"; }
                snprintf(tmpdir, sizeof(tmpdir), "%s/kvhio_XXXXXX", base);
                if(!mkdtemp(tmpdir)){ perror("mkdtemp"); exit(3); }
                atexit(rm_tmpdir);
        }
        return tmpdir;
}

static int write_file(const char *path, const unsigned char *b, int n)
{
        FILE *f = fopen(path, "wb");
        if(!f){ return 1; }
        if(n && fwrite(b, 1, n, f) != (size_t)n){ fclose(f); return 1; }
        fclose(f);
        return 0;
}

static unsigned char *slurp(const char *path, int *n)
{
        FILE *f = fopen(path, "rb");
        if(!f){ *n = -1; return NULL; }
        fseek(f, 0, SEEK_END);
        long sz = ftell(f);
        fseek(f, 0, SEEK_SET);
        unsigned char *b = malloc(sz + 1);
        if(sz && fread(b, 1, sz, f) != (size_t)sz){ fclose(f); free(b); *n = -1; return NULL; }
        fclose(f);
        b[sz] = 0;
        *n = (int)sz;
        return b;
}

static void dump_msa(FILE *out, const char *fmt, struct msa *m)
{
        fprintf(out, "fmt=%s n=%d aligned=%d bio=%d L=%d lf=", fmt, m->numseq, m->aligned, (int)m->biotype, (int)m->L);
        int any = 0;
        for(int i = 0; i < 128; i++){
                if(m->letter_freq[i]){
                        fprintf(out, "%s%d:%d", any ? "," : "", i, m->letter_freq[i]);
                        any = 1;
                }
        }
        if(!any){ fputc('-', out); }
        fprintf(out, " |");
        for(int i = 0; i < m->numseq; i++){
                struct msa_seq *s = m->sequences[i];
                if(i){ fprintf(out, " ;"); }
                fputc(' ', out);
                kv_print_hex(out, (unsigned char*)s->name, (int)strlen(s->name));
                fputc(' ', out);
                if(s->len == 0){ fputc('.', out); }
                for(int j = 0; j < s->len; j++){ fputc(s->seq[j], out); }
                fputc(' ', out);
                kv_print_ints(out, s->gaps, s->len + 1);
        }
}

/* kalign_read_input on every file in turn; prints the dump */
static void read_files(FILE *out, char **paths, int n)
{
        struct msa *msa = NULL;
        char fmts[1024]; int fl = 0;
        int rc = OK;
        fmts[0] = 0;
        for(int i = 0; i < n; i++){
                int t = 0;
                kv_io_detect_format(paths[i], &t);
                if(fl < 1000){ fl += snprintf(fmts + fl, sizeof(fmts) - fl, "%s%d", i ? "," : "", t); }
        }
        for(int i = 0; i < n; i++){
                rc = kalign_read_input(paths[i], &msa, 1);
                if(rc != OK){ break; }
        }
        if(rc != OK){
                fprintf(out, "fail");
        }else if(!msa){
                fprintf(out, "null");
        }else{
                dump_msa(out, fmts, msa);
        }
        if(msa){ kalign_free_msa(msa); }
}

static int op_read(int argc, char **argv, FILE *out)
{
        if(argc < 1 || argc > 64) return 1;
        unsigned char **bufs = calloc(argc, sizeof(*bufs));
        int *lens = calloc(argc, sizeof(int));
        char **paths = calloc(argc, sizeof(char*));
        int bad = 0;
        for(int i = 0; i < argc; i++){
                if(kv_unhex(argv[i], &bufs[i], &lens[i])){ bad = 1; break; }
        }
        if(!bad){
                for(int i = 0; i < argc; i++){
                        paths[i] = malloc(600);
                        snprintf(paths[i], 600, "%s/in_%d", get_tmpdir(), i);
                        if(write_file(paths[i], bufs[i], lens[i])){ perror("write_file"); exit(3); }
                }
                read_files(out, paths, argc);
                for(int i = 0; i < argc; i++){ unlink(paths[i]); free(paths[i]); }
        }
        for(int i = 0; i < argc; i++){ free(bufs[i]); }
        free(bufs); free(lens); free(paths);
        return bad;
}

static int op_read_as(int argc, char **argv, FILE *out)
{
        if(argc != 2) return 1;
        int type = 0;
        if(strcmp(argv[0], "1") == 0) type = FORMAT_FA;
        else if(strcmp(argv[0], "2") == 0) type = FORMAT_MSF;
        else if(strcmp(argv[0], "3") == 0) type = FORMAT_CLU;
        else return 1;
        unsigned char *b = NULL; int n = 0;
        if(kv_unhex(argv[1], &b, &n)) return 1;
        char path[600];
        snprintf(path, sizeof(path), "%s/in_0", get_tmpdir());
        if(write_file(path, b, n)){ perror("write_file"); exit(3); }
        struct msa *m = NULL;
        int rc = kv_io_read_as(path, type, &m);
        if(rc != OK){
                fprintf(out, "fail");
        }else{
                dump_msa(out, argv[0], m);
                kalign_free_msa(m);
        }
        unlink(path);
        free(b);
        return 0;
}

static int op_detect_format(int argc, char **argv, FILE *out)
{
        if(argc != 1) return 1;
        unsigned char *b = NULL; int n = 0;
        if(kv_unhex(argv[0], &b, &n)) return 1;
        char path[600];
        snprintf(path, sizeof(path), "%s/in_0", get_tmpdir());
        if(write_file(path, b, n)){ perror("write_file"); exit(3); }
        int t = 0;
        int rc = kv_io_detect_format(path, &t);
        if(rc != OK){ fprintf(out, "fail"); }else{ fprintf(out, "%d", t); }
        unlink(path);
        free(b);
        return 0;
}

static int op_parse_format(int argc, char **argv, FILE *out)
{
        if(argc != 1) return 1;
        int t = 0;
        int rc = kv_io_parse_format(strcmp(argv[0], "-") == 0 ? NULL : argv[0], &t);
        if(rc != OK){ fprintf(out, "fail"); }else{ fprintf(out, "%d", t); }
        return 0;
}

static int row_ok(const char *r)
{
        for(; *r; r++){
                unsigned char c = (unsigned char)*r;
                if(!((c >= 'A' && c <= 'Z') || (c >= 'a' && c <= 'z') || c == '-')) return 0;
        }
        return 1;
}

/* basename: 1..200 printable non-blank ASCII bytes without '/', not "." or ".." */
static int basename_ok(const unsigned char *b, int n)
{
        if(n < 1 || n > 200) return 0;
        for(int i = 0; i < n; i++){ if(b[i] <= 32 || b[i] >= 127 || b[i] == '/') return 0; }
        if(n == 1 && b[0] == '.') return 0;
        if(n == 2 && b[0] == '.' && b[1] == '.') return 0;
        return 1;
}

/* decimal digits only, at most 7 of them; -1 otherwise */
static long strict_nat(const char *s)
{
        size_t l = strlen(s);
        if(l < 1 || l > 7) return -1;
        for(size_t i = 0; i < l; i++){ if(s[i] < '0' || s[i] > '9') return -1; }
        return strtol(s, NULL, 10);
}

static void free_built(struct msa *m)
{
        if(!m) return;
        for(int i = 0; i < m->numseq; i++){
                if(m->sequences[i]){
                        free(m->sequences[i]->name); free(m->sequences[i]->seq); free(m->sequences[i]->gaps);
                        free(m->sequences[i]);
                }
        }
        free(m->sequences);
        free(m);
}

/* parse the common arguments of write / write_read; returns NULL on a malformed op */
static struct msa *build_msa(int argc, char **argv, char *path, int pathlen)
{
        if(argc < 6) return NULL;
        long bio = strict_nat(argv[2]); if(bio < 0 || bio > 2) return NULL;
        long L = strict_nat(argv[3]); if(L < 0 || L > 255) return NULL;
        long alnlen = strict_nat(argv[4]); if(alnlen < 0 || alnlen > 1000000) return NULL;
        unsigned char *bn = NULL; int bnl = 0;
        if(kv_unhex(argv[5], &bn, &bnl)) return NULL;
        if(!basename_ok(bn, bnl)){ free(bn); return NULL; }
        snprintf(path, pathlen, "%s/%.*s", get_tmpdir(), bnl, (char*)bn);
        free(bn);
        int n = argc - 6;
        struct msa *m = calloc(1, sizeof(struct msa));
        m->numseq = n; m->alloc_numseq = n; m->num_profiles = 0;
        m->aligned = ALN_STATUS_FINAL; m->alnlen = (int)alnlen; m->biotype = (uint8_t)bio; m->L = (uint8_t)L; m->quiet = 1;
        m->sequences = calloc(n ? n : 1, sizeof(struct msa_seq*));
        int bad = 0;
        for(int i = 0; i < n && !bad; i++){
                char *colon = strchr(argv[6+i], ':');
                if(!colon){ bad = 1; break; }
                *colon = 0;
                const char *row = colon + 1;
                if(strcmp(row, ".") == 0){ row = ""; }
                unsigned char *nm = NULL; int nl = 0;
                int r = kv_unhex(argv[6+i], &nm, &nl);
                *colon = ':';
                if(r){ bad = 1; break; }
                if(memchr(nm, 0, nl) || !row_ok(row) || (long)strlen(row) < alnlen){ free(nm); bad = 1; break; }
                struct msa_seq *s = calloc(1, sizeof(struct msa_seq));
                s->name = malloc(nl + 1); memcpy(s->name, nm, nl); s->name[nl] = 0;
                free(nm);
                int rl = (int)strlen(row);
                s->seq = malloc(rl + 1); memcpy(s->seq, row, rl + 1);
                int res = 0;
                for(int j = 0; j < rl; j++){ if(row[j] != '-') res++; }
                s->len = res; s->alloc_len = res + 1; s->rank = i;
                s->gaps = calloc(res + 2, sizeof(int));
                m->sequences[i] = s;
        }
        if(bad){ free_built(m); return NULL; }
        return m;
}

/* replace the strftime text of the MSF header line (third line) by DATE */
static unsigned char *mask_date(unsigned char *b, int *n)
{
        if(*n < 24 || (memcmp(b, "!!AA_MULTIPLE_ALIGNMENT", 23) != 0 && memcmp(b, "!!NA_MULTIPLE_ALIGNMENT", 23) != 0)) return b;
        int s = 0, line = 0;
        while(s < *n && line < 2){ if(b[s] == '\n') line++; s++; }
        int e = s;
        while(e < *n && b[e] != '\n') e++;
        /* b[s..e) = " <base>  MSF: <len>  Type: <c>  <date>  Check: <chk>  .." ; base has no blanks */
        int t = -1, c = -1;
        for(int i = s; i + 8 <= e; i++){ if(memcmp(b + i, "  Type: ", 8) == 0){ t = i; break; } }
        for(int i = e - 9; i >= s; i--){ if(memcmp(b + i, "  Check: ", 9) == 0){ c = i; break; } }
        if(t < 0 || c < 0 || t + 11 > c) return b;
        int ds = t + 11;
        unsigned char *o = malloc(*n + 8);
        memcpy(o, b, ds);
        memcpy(o + ds, "DATE", 4);
        memcpy(o + ds + 4, b + c, *n - c);
        *n = ds + 4 + (*n - c);
        free(b);
        return o;
}

static int op_write(int argc, char **argv, FILE *out)
{
        char path[1024];
        struct msa *m = build_msa(argc, argv, path, sizeof(path));
        if(!m) return 1;
        if(strcmp(argv[1], KALIGN_PACKAGE_VERSION) != 0){ fprintf(out, "version-mismatch:%s", KALIGN_PACKAGE_VERSION); free_built(m); return 0; }
        int rc = kalign_write_msa(m, path, strcmp(argv[0], "-") == 0 ? NULL : argv[0]);
        if(rc != OK){
                fprintf(out, "fail");
        }else{
                int n = 0;
                unsigned char *b = slurp(path, &n);
                if(!b){ fprintf(out, "nofile"); }
                else{
                        b = mask_date(b, &n);
                        kv_print_hex(out, b, n);
                        free(b);
                }
        }
        unlink(path);
        free_built(m);
        return 0;
}

static int op_write_read(int argc, char **argv, FILE *out)
{
        char path[1024];
        struct msa *m = build_msa(argc, argv, path, sizeof(path));
        if(!m) return 1;
        if(strcmp(argv[1], KALIGN_PACKAGE_VERSION) != 0){ fprintf(out, "version-mismatch:%s", KALIGN_PACKAGE_VERSION); free_built(m); return 0; }
        int rc = kalign_write_msa(m, path, strcmp(argv[0], "-") == 0 ? NULL : argv[0]);
        if(rc != OK){
                fprintf(out, "fail");
        }else{
                char *paths[1] = { path };
                read_files(out, paths, 1);
        }
        unlink(path);
        free_built(m);
        return 0;
}

static int op_gcg(int argc, char **argv, FILE *out)
{
        if(argc != 1) return 1;
        const char *row = strcmp(argv[0], ".") == 0 ? "" : argv[0];
        if(!row_ok(row)) return 1;
        int n = (int)strlen(row);
        char *c = malloc(n + 1);
        memcpy(c, row, n + 1);
        fprintf(out, "%d", GCGchecksum(c, n));
        free(c);
        return 0;
}

/* Run an op in a forked child so that a crash of the library code (signal, sanitizer abort) costs one result line
   (`fault`) instead of the harness process.  The sanitizer report of the child stays on stderr. */
static void clean_tmpdir(void)
{
        DIR *d = opendir(get_tmpdir());
        if(!d) return;
        struct dirent *e;
        char path[1024];
        while((e = readdir(d))){
                if(strcmp(e->d_name, ".") == 0 || strcmp(e->d_name, "..") == 0) continue;
                snprintf(path, sizeof(path), "%s/%s", get_tmpdir(), e->d_name);
                unlink(path);
        }
        closedir(d);
}

static int forked(kv_op_fn fn, int argc, char **argv, FILE *out)
{
        int pfd[2];
        get_tmpdir();
        fflush(out); fflush(stdout); fflush(stderr);
        if(pipe(pfd) != 0){ perror("pipe"); exit(3); }
        pid_t pid = fork();
        if(pid < 0){ perror("fork"); exit(3); }
        if(pid == 0){
                close(pfd[0]);
                FILE *o = fdopen(pfd[1], "w");
                int r = fn(argc, argv, o);
                fflush(o); fflush(stdout); fflush(stderr);
                _exit(r ? 3 : 0);
        }
        close(pfd[1]);
        size_t cap = 1 << 16, n = 0;
        char *buf = malloc(cap);
        ssize_t k;
        while((k = read(pfd[0], buf + n, cap - n)) > 0){
                n += (size_t)k;
                if(n == cap){ cap *= 2; buf = realloc(buf, cap); }
        }
        close(pfd[0]);
        int st = 0;
        waitpid(pid, &st, 0);
        int rc = 0;
        if(WIFEXITED(st) && WEXITSTATUS(st) == 0){
                fwrite(buf, 1, n, out);
        }else if(WIFEXITED(st) && WEXITSTATUS(st) == 3){
                rc = 1;
        }else{
                fprintf(out, "fault");
                clean_tmpdir();
        }
        free(buf);
        return rc;
}

static int f_read(int argc, char **argv, FILE *out){ return forked(op_read, argc, argv, out); }
static int f_read_as(int argc, char **argv, FILE *out){ return forked(op_read_as, argc, argv, out); }
static int f_detect_format(int argc, char **argv, FILE *out){ return forked(op_detect_format, argc, argv, out); }
static int f_write(int argc, char **argv, FILE *out){ return forked(op_write, argc, argv, out); }
static int f_write_read(int argc, char **argv, FILE *out){ return forked(op_write_read, argc, argv, out); }

struct kv_op kv_ops_io[] = {
        {"read", f_read},
        {"read_as", f_read_as},
        {"detect_format", f_detect_format},
        {"parse_format", op_parse_format},
        {"write", f_write},
        {"write_read", f_write_read},
        {"gcg", op_gcg},
        {NULL, NULL}
};
