/* unit ops around weave_alignment.c / aln_setup.c / msa_op.c (make_linear_sequence) */
#include "kvh.h"
#include "tldevel.h"
#include "msa_struct.h"
#include "aln_struct.h"
#include "aln_param.h"
#include "aln_mem.h"
#include "aln_setup.h"
#include "msa_op.h"
#include "weave_alignment.h"

int kv_update_gaps(int old_len, int *gis, int *newgaps);
int kv_make_seq(struct msa *msa, int a, int b, int *path);

/* update_gaps <gis> <newgaps> */
static int op_update_gaps(int argc, char **argv, FILE *out)
{
        if(argc != 2) return 1;
        struct kv_ints g, ng;
        if(kv_parse_ints(argv[0], &g)) return 1;
        if(kv_parse_ints(argv[1], &ng)){ kv_free_ints(&g); return 1; }
        if(g.n < 1){ kv_free_ints(&g); kv_free_ints(&ng); return 1; }
        kv_update_gaps(g.n - 1, g.v, ng.v);
        kv_print_ints(out, g.v, g.n);
        kv_free_ints(&g); kv_free_ints(&ng);
        return 0;
}

/* make_seq <codes> <na> <nb> <gaps>*(na+nb)
   builds an msa whose profiles 0 (members 0..na-1) and 1 (members na..na+nb-1) are merged. */
static int op_make_seq(int argc, char **argv, FILE *out)
{
        if(argc < 3) return 1;
        struct kv_ints codes;
        if(kv_parse_ints(argv[0], &codes)) return 1;
        int na = atoi(argv[1]), nb = atoi(argv[2]);
        if(na < 1 || nb < 1 || argc != 3 + na + nb){ kv_free_ints(&codes); return 1; }
        int n = na + nb;
        struct msa msa; memset(&msa, 0, sizeof(msa));
        msa.numseq = n; msa.num_profiles = 2*n - 1;
        msa.sequences = calloc(n, sizeof(struct msa_seq*));
        struct kv_ints *gs = calloc(n, sizeof(struct kv_ints));
        int bad = 0;
        for(int i = 0; i < n; i++){
                msa.sequences[i] = calloc(1, sizeof(struct msa_seq));
                if(kv_parse_ints(argv[3+i], &gs[i]) || gs[i].n < 1){ bad = 1; gs[i].n = 0; continue; }
                msa.sequences[i]->gaps = gs[i].v;
                msa.sequences[i]->len = gs[i].n - 1;
        }
        /* sip: use profile ids n (=a) and n+1 (=b) so that they are proper internal nodes */
        msa.sip = calloc(msa.num_profiles + 2, sizeof(int*));
        msa.nsip = calloc(msa.num_profiles + 2, sizeof(int));
        int a = 0, b = 1;
        int *sa = malloc(sizeof(int)*na), *sb = malloc(sizeof(int)*nb);
        for(int i = 0; i < na; i++) sa[i] = i;
        for(int i = 0; i < nb; i++) sb[i] = na + i;
        int *keep0 = msa.sip[a], *keep1 = msa.sip[b];
        (void)keep0; (void)keep1;
        msa.sip[a] = sa; msa.nsip[a] = na;
        msa.sip[b] = sb; msa.nsip[b] = nb;
        if(!bad){
                /* path[0] = number of columns, then codes, then 3 */
                int *path = malloc(sizeof(int) * (codes.n + 3));
                path[0] = codes.n;
                for(int i = 0; i < codes.n; i++) path[i+1] = codes.v[i];
                path[codes.n + 1] = 3;
                kv_make_seq(&msa, a, b, path);
                free(path);
                int first = 1;
                for(int j = na; j--;){ if(!first) fputc(' ', out); first = 0; kv_print_ints(out, gs[sa[j]].v, gs[sa[j]].n); }
                for(int j = nb; j--;){ fputc(' ', out); kv_print_ints(out, gs[sb[j]].v, gs[sb[j]].n); }
        }
        for(int i = 0; i < n; i++){ kv_free_ints(&gs[i]); free(msa.sequences[i]); }
        free(gs); free(msa.sequences); free(sa); free(sb); free(msa.sip); free(msa.nsip);
        kv_free_ints(&codes);
        return bad;
}

/* add_gap_info <len_b> <path[1..len_a]> */
static int op_add_gap_info(int argc, char **argv, FILE *out)
{
        if(argc != 2) return 1;
        int len_b = atoi(argv[0]);
        struct kv_ints p;
        if(kv_parse_ints(argv[1], &p)) return 1;
        int len_a = p.n;
        if(len_a < 1 || len_b < 0){ kv_free_ints(&p); return 1; }
        int has_aligned = 0;
        for(int i = 0; i < len_a; i++) if(p.v[i] != -1) has_aligned = 1;
        if(!has_aligned){
                /* the terminal-flag loops of the real function would run over the terminator;
                   not executed here (the sanitizer verdict for this case is taken in the C05 suite) */
                fputs("fault", out); kv_free_ints(&p); return 0;
        }
        struct aln_mem *m = NULL;
        alloc_aln_mem(&m, 256);
        m->len_a = len_a; m->len_b = len_b;
        resize_aln_mem(m);
        m->path[0] = 0;
        for(int i = 0; i < len_a; i++) m->path[i+1] = p.v[i];
        add_gap_info_to_path_n(m);
        kv_print_ints(out, m->path + 1, m->path[0]);
        free_aln_mem(m);
        kv_free_ints(&p);
        return 0;
}

/* mirror_path <len_a> <apath[1..len_b]> */
static int op_mirror_path(int argc, char **argv, FILE *out)
{
        if(argc != 2) return 1;
        int len_a = atoi(argv[0]);
        struct kv_ints p;
        if(kv_parse_ints(argv[1], &p)) return 1;
        int len_b = p.n;
        struct aln_mem *m = NULL;
        alloc_aln_mem(&m, 256);
        m->len_a = len_a; m->len_b = len_b;
        resize_aln_mem(m);
        for(int i = 0; i < len_b; i++) m->path[i+1] = p.v[i];
        mirror_path_n(m, len_a, len_b);
        kv_print_ints(out, m->path + 1, len_a);
        free_aln_mem(m);
        kv_free_ints(&p);
        return 0;
}

/* make_linear <residues|.> <gaps> */
static int op_make_linear(int argc, char **argv, FILE *out)
{
        if(argc != 2) return 1;
        struct kv_ints g;
        if(kv_parse_ints(argv[1], &g)) return 1;
        const char *res = strcmp(argv[0], ".") == 0 ? "" : argv[0];
        int len = (int)strlen(res);
        if(g.n != len + 1){ kv_free_ints(&g); return 1; }
        int tot = len;
        for(int i = 0; i < g.n; i++) tot += g.v[i];
        struct msa_seq s; memset(&s, 0, sizeof(s));
        s.seq = (char*)res; s.len = len; s.gaps = g.v;
        char *lin = malloc(tot + 1);
        make_linear_sequence(&s, lin);
        fputs(tot ? lin : ".", out);
        free(lin); kv_free_ints(&g);
        return 0;
}

struct kv_op kv_ops_weave[] = {
        {"update_gaps", op_update_gaps},
        {"make_seq", op_make_seq},
        {"add_gap_info", op_add_gap_info},
        {"mirror_path", op_mirror_path},
        {"make_linear", op_make_linear},
        {NULL, NULL}
};
