/* kvh: correspondence harness for kalign; line protocol shared with the Lean driver `kmodel`. */
#ifndef KVH_H
#define KVH_H
#include <stdio.h>
#include <stdlib.h>
#include <string.h>
#include <stdint.h>

#define KV_MAXTOK 4096

struct kv_ints { int n; int *v; };

/* parse "1,2,-3" or "-" (empty). returns 0 on success */
int kv_parse_ints(const char *s, struct kv_ints *out);
void kv_free_ints(struct kv_ints *l);
void kv_print_ints(FILE *o, const int *v, int n);
/* hex <-> bytes */
int kv_unhex(const char *s, unsigned char **out, int *n);
void kv_print_hex(FILE *o, const unsigned char *b, int n);

typedef int (*kv_op_fn)(int argc, char **argv, FILE *out);
struct kv_op { const char *name; kv_op_fn fn; };

/* op tables exported by the op files */
extern struct kv_op kv_ops_weave[];
extern struct kv_op kv_ops_param[];
extern struct kv_op kv_ops_io[];
extern struct kv_op kv_ops_bpm[];
extern struct kv_op kv_ops_dp[];
extern struct kv_op kv_ops_sys[];
extern struct kv_op kv_ops_misc[];
extern struct kv_op kv_ops_ref[];
extern struct kv_op kv_ops_kmeans[];
extern struct kv_op kv_ops_pipe[];
extern struct kv_op kv_ops_pipefile[];
extern struct kv_op kv_ops_cli[];
extern struct kv_op kv_ops_f32[];

#endif
