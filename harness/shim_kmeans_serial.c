/* second copy of bisectingKmeans.c, compiled with HAVE_AVX2 undefined (the non-AVX build: edist_serial, plain malloc),
   with its two external symbols renamed so that it links next to shim_kmeans.c. */
#include <string.h>
#undef HAVE_AVX2
#include "tldevel.h"
#include "msa_struct.h"
#include "sequence_distance.h"
#define KMP(x) kvh_kms_##x
#define build_tree_kmeans kvh_kms_build_tree_kmeans
#define upgma kvh_kms_upgma
float** kvh_kms_d_estimation_hook(struct msa* msa, int* samples, int num_samples, int pair);
#define d_estimation kvh_kms_d_estimation_hook
#include "bisectingKmeans.c"
#undef d_estimation
#include "kvh_kmeans_wrap.h"
