/* unit ops of slice B: bpm.c, sequence_distance.c (pair=1), bisectingKmeans.c (upgma, label_internal,
   create_tasks), task.c (sort_tasks) */
#include "kvh.h"
#include <stdint.h>
struct msa;
float kv_calc_distance(uint8_t *a, uint8_t *b, int la, int lb);
float **kv_d_estimation(struct msa *msa, int *samples, int n, int pair);
#include <math.h>
#include "tldevel.h"
#include "msa_struct.h"
#include "bpm.h"
#include "sequence_distance.h"
#include "task.h"
#include "bisectingKmeans.h"

int kv_label_internal(void *n, int label);
void kv_create_tasks(void *n, struct aln_tasks *t);
void *kv_upgma(float **dm, int *samples, int numseq);

/* code list -> bytes; returns 1 on malformed input or a value outside 0..255 */
static int parse_codes(const char *s, uint8_t **out, int *n)
{
        struct kv_ints l;
        if(kv_parse_ints(s, &l)) return 1;
        /* reject anything kv_parse_ints tolerates but the Lean side does not (empty items, signs, junk) */
        if(strcmp(s, "-") != 0){
                for(const char *p = s; *p; p++){
                        if(!((*p >= '0' && *p <= '9') || *p == ',')){ kv_free_ints(&l); return 1; }
                        if(*p == ',' && (p == s || p[1] == ',' || p[1] == 0)){ kv_free_ints(&l); return 1; }
                }
        }
        uint8_t *b = malloc(l.n + 1);
        for(int i = 0; i < l.n; i++){
                if(l.v[i] < 0 || l.v[i] > 255){ free(b); kv_free_ints(&l); return 1; }
                b[i] = (uint8_t)l.v[i];
        }
        *out = b; *n = l.n;
        kv_free_ints(&l);
        return 0;
}

static int any_big(const uint8_t *s, int n){ for(int i = 0; i < n; i++) if(s[i] >= 13) return 1; return 0; }

/* independent plain DP (Sellers): min over substrings of t of the edit distance to p */
static int plain_dp(const uint8_t *t, int n, const uint8_t *p, int m)
{
        int *prev = malloc(sizeof(int) * (m + 1)), *cur = malloc(sizeof(int) * (m + 1));
        for(int i = 0; i <= m; i++) prev[i] = i;
        int best = prev[m];
        for(int j = 1; j <= n; j++){
                cur[0] = 0;
                for(int i = 1; i <= m; i++){
                        int v = prev[i-1] + (p[i-1] == t[j-1] ? 0 : 1);
                        if(prev[i] + 1 < v) v = prev[i] + 1;
                        if(cur[i-1] + 1 < v) v = cur[i-1] + 1;
                        cur[i] = v;
                }
                if(cur[m] < best) best = cur[m];
                int *x = prev; prev = cur; cur = x;
        }
        free(prev); free(cur);
        return best;
}

enum { K_BLOCK, K_BPM, K_256, K_DYN, K_SELLERS, K_BLOCK_DP, K_DP_BLOCK };

static int run2(int kind, int argc, char **argv, FILE *out)
{
        if(argc != 2) return 1;
        uint8_t *t, *p; int n, m;
        if(parse_codes(argv[0], &t, &n)) return 1;
        if(parse_codes(argv[1], &p, &m)){ free(t); return 1; }
        int fault = 0;
        long r = 0;
        switch(kind){
        case K_BLOCK: case K_BLOCK_DP:
                if(any_big(t, n)) fault = 1; else r = bpm_block(t, p, n, m);
                break;
        case K_DP_BLOCK:
                if(any_big(t, n)) fault = 1; else r = plain_dp(t, n, p, m > 1024 ? 1024 : m);
                break;
        case K_SELLERS:
                r = plain_dp(t, n, p, m);
                break;
        case K_BPM: {
                int mm = m > 63 ? 63 : m;
                if(mm == 0 || any_big(p, mm) || any_big(t, n)) fault = 1; else r = bpm(t, p, n, m);
                break; }
        case K_256: {
                int mm = m > 255 ? 255 : m;
                if(any_big(p, mm) || any_big(t, n)) fault = 1;
                else {
#ifdef HAVE_AVX2
                        set_broadcast_mask(); r = bpm_256(t, p, n, m);
#else
                        /* bpm_256 does not exist in builds without AVX2 */
                        fputs("noavx", out); free(t); free(p); return 0;
#endif
                }
                break; }
        case K_DYN: {
                int mm = m > 255 ? 255 : m;
                if(mm == 0 && n > 0) fault = 1; else r = dyn_256(t, p, n, m);
                break; }
        }
        if(fault) fputs("fault", out); else fprintf(out, "%ld", r);
        free(t); free(p);
        return 0;
}
/* bpm_mt <nthreads> <reps> <t1> <p1> <t2> <p2> ... : every pair through bpm_block / bpm (m <= 63) / bpm_256 (m <= 255, AVX2 builds) once in one thread
   (reference values), then <reps> times from each of <nthreads> threads at the same time (each thread starts at another pair): the kernels are pure
   functions of their arguments -> "ok calls=<n>" or "mismatch kernel=<k> pair=<i> alone=<v> concurrent=<w> calls=<n>" */
#include <pthread.h>
struct mt_job { int npairs, reps, tid; uint8_t **t, **p; int *n, *m; long *ref; long calls; int bad_kernel, bad_pair; long bad_val; };
static long mt_call(int k, uint8_t *t, uint8_t *p, int n, int m)
{
        if(k == 0) return bpm_block(t, p, n, m);
        if(k == 1) return bpm(t, p, n, m);
#ifdef HAVE_AVX2
        return bpm_256(t, p, n, m);
#else
        return -1;
#endif
}
static int mt_applies(int k, int m)
{
        if(k == 1) return m >= 1 && m <= 63;
#ifdef HAVE_AVX2
        if(k == 2) return m >= 1 && m <= 255;
#else
        if(k == 2) return 0;
#endif
        return 1;
}
static void *mt_worker(void *arg)
{
        struct mt_job *j = arg;
        for(int r = 0; r < j->reps && j->bad_kernel < 0; r++){
                for(int q = 0; q < j->npairs; q++){
                        int i = (q + j->tid * 3) % j->npairs;
                        for(int k = 0; k < 3; k++){
                                if(!mt_applies(k, j->m[i])) continue;
                                long v = mt_call(k, j->t[i], j->p[i], j->n[i], j->m[i]);
                                j->calls++;
                                if(v != j->ref[3 * i + k] && j->bad_kernel < 0){ j->bad_kernel = k; j->bad_pair = i; j->bad_val = v; }
                        }
                }
        }
        return NULL;
}
static int op_bpm_mt(int argc, char **argv, FILE *out)
{
        if(argc < 4 || (argc - 2) % 2) return 1;
        int nt = atoi(argv[0]), reps = atoi(argv[1]), np = (argc - 2) / 2;
        if(nt < 1 || nt > 64 || reps < 1) return 1;
        uint8_t **t = calloc(np, sizeof(*t)), **p = calloc(np, sizeof(*p));
        int *n = calloc(np, sizeof(int)), *m = calloc(np, sizeof(int));
        long *ref = calloc(3 * np, sizeof(long));
        int bad = 0;
        for(int i = 0; i < np && !bad; i++){
                if(parse_codes(argv[2 + 2 * i], &t[i], &n[i]) || parse_codes(argv[3 + 2 * i], &p[i], &m[i])) bad = 1;
                else if(any_big(t[i], n[i]) || any_big(p[i], m[i]) || m[i] < 1 || m[i] > n[i]) bad = 1;
        }
        if(bad){ fputs("fault", out); goto done; }
#ifdef HAVE_AVX2
        set_broadcast_mask();
#endif
        for(int i = 0; i < np; i++) for(int k = 0; k < 3; k++) if(mt_applies(k, m[i])) ref[3 * i + k] = mt_call(k, t[i], p[i], n[i], m[i]);
        {
                pthread_t th[64]; struct mt_job job[64];
                for(int a = 0; a < nt; a++){
                        job[a] = (struct mt_job){ np, reps, a, t, p, n, m, ref, 0, -1, -1, 0 };
                        pthread_create(&th[a], NULL, mt_worker, &job[a]);
                }
                long calls = 0; int first = -1;
                for(int a = 0; a < nt; a++){ pthread_join(th[a], NULL); calls += job[a].calls; if(job[a].bad_kernel >= 0 && first < 0) first = a; }
                if(first < 0) fprintf(out, "ok calls=%ld", calls);
                else fprintf(out, "mismatch kernel=%s pair=%d alone=%ld concurrent=%ld calls=%ld", (const char*[]){"bpm_block", "bpm", "bpm_256"}[job[first].bad_kernel],
                             job[first].bad_pair, ref[3 * job[first].bad_pair + job[first].bad_kernel], job[first].bad_val, calls);
        }
done:
        for(int i = 0; i < np; i++){ free(t[i]); free(p[i]); }
        free(t); free(p); free(n); free(m); free(ref);
        return 0;
}
static int op_bpm_block(int c, char **v, FILE *o){ return run2(K_BLOCK, c, v, o); }
static int op_bpm(int c, char **v, FILE *o){ return run2(K_BPM, c, v, o); }
static int op_bpm_256(int c, char **v, FILE *o){ return run2(K_256, c, v, o); }
static int op_dyn_256(int c, char **v, FILE *o){ return run2(K_DYN, c, v, o); }
static int op_sellers(int c, char **v, FILE *o){ return run2(K_SELLERS, c, v, o); }
static int op_bpm_block_dp(int c, char **v, FILE *o){ return run2(K_BLOCK_DP, c, v, o); }
static int op_dp_bpm_block(int c, char **v, FILE *o){ return run2(K_DP_BLOCK, c, v, o); }

int kv_bpm_256_shift_ub(int m);
/* bpm_256_ub <t> <p> : does bpm_256 execute the undefined `1 << 31` (bpm.c:201)? */
static int op_bpm_256_ub(int argc, char **argv, FILE *out)
{
        if(argc != 2) return 1;
        uint8_t *t, *p; int n, m;
        if(parse_codes(argv[0], &t, &n)) return 1;
        if(parse_codes(argv[1], &p, &m)){ free(t); return 1; }
        fputs(kv_bpm_256_shift_ub(m) ? "ub" : "ok", out);
        free(t); free(p);
        return 0;
}

static void print_f32(FILE *o, float f){ uint32_t w; memcpy(&w, &f, 4); fprintf(o, "%08x", w); }

/* calc_distance <a> <b> */
static int op_calc_distance(int argc, char **argv, FILE *out)
{
        if(argc != 2) return 1;
        uint8_t *a, *b; int la, lb;
        if(parse_codes(argv[0], &a, &la)) return 1;
        if(parse_codes(argv[1], &b, &lb)){ free(a); return 1; }
        /* the text is the longer one (b on ties) */
        int bad = (la > lb) ? any_big(a, la) : any_big(b, lb);
        if(bad) fputs("fault", out); else print_f32(out, kv_calc_distance(a, b, la, lb));
        free(a); free(b);
        return 0;
}

/* builds an msa carrying only what the tree code reads */
static struct msa *mk_msa(int n, char **argv)
{
        struct msa *msa = calloc(1, sizeof(struct msa));
        msa->numseq = n; msa->num_profiles = 2*n - 1; msa->quiet = 1;
        msa->sequences = calloc(n, sizeof(struct msa_seq*));
        for(int i = 0; i < n; i++){
                msa->sequences[i] = calloc(1, sizeof(struct msa_seq));
                if(parse_codes(argv[i], &msa->sequences[i]->s, &msa->sequences[i]->len)){
                        for(int j = 0; j <= i; j++){ free(msa->sequences[j]->s); free(msa->sequences[j]); }
                        free(msa->sequences); free(msa);
                        return NULL;
                }
        }
        return msa;
}
static void rm_msa(struct msa *msa)
{
        for(int i = 0; i < msa->numseq; i++){ free(msa->sequences[i]->s); free(msa->sequences[i]); }
        free(msa->sequences); free(msa);
}
static int msa_big(struct msa *msa)
{
        for(int i = 0; i < msa->numseq; i++) if(any_big(msa->sequences[i]->s, msa->sequences[i]->len)) return 1;
        return 0;
}

/* dist_matrix <seq>... : d_estimation(msa, samples, n, 1) */
static int op_dist_matrix(int argc, char **argv, FILE *out)
{
        if(argc < 1 || argc > 200) return 1;
        struct msa *msa = mk_msa(argc, argv);
        if(!msa) return 1;
        int n = argc;
        if(msa_big(msa)){ fputs("fault", out); rm_msa(msa); return 0; }
        int *samples = malloc(sizeof(int) * n);
        for(int i = 0; i < n; i++) samples[i] = i;
        float **dm = kv_d_estimation(msa, samples, n, 1);
        for(int i = 0; i < n; i++) for(int j = 0; j < n; j++){ if(i || j) fputc(',', out); print_f32(out, dm[i][j]); }
        gfree(dm);
        free(samples); rm_msa(msa);
        return 0;
}

static void print_tasks(FILE *out, struct aln_tasks *t)
{
        if(t->n_tasks == 0){ fputc('-', out); return; }
        for(int i = 0; i < t->n_tasks; i++)
                fprintf(out, i ? " %d,%d,%d" : "%d,%d,%d", t->list[i]->a, t->list[i]->b, t->list[i]->c);
}

/* upgma <n> <n*n words> : upgma, label_internal, create_tasks, sort_tasks */
static int op_upgma(int argc, char **argv, FILE *out)
{
        if(argc != 2) return 1;
        char *e;
        long n = strtol(argv[0], &e, 10);
        if(e == argv[0] || *e || n < 1 || n > 200) return 1;
        for(const char *p = argv[0]; *p; p++) if(*p < '0' || *p > '9') return 1;
        size_t len = strlen(argv[1]);
        if(len != (size_t)(n*n*9 - 1)) return 1;
        float **dm = malloc(sizeof(float*) * n);
        for(int i = 0; i < n; i++) dm[i] = malloc(sizeof(float) * n);
        int bad = 0;
        for(long k = 0; k < n*n && !bad; k++){
                const char *w = argv[1] + 9*k;
                uint32_t x = 0;
                for(int d = 0; d < 8; d++){
                        int c = w[d], v;
                        if(c >= '0' && c <= '9') v = c - '0'; else if(c >= 'a' && c <= 'f') v = c - 'a' + 10;
                        else if(c >= 'A' && c <= 'F') v = c - 'A' + 10; else { bad = 1; break; }
                        x = x * 16 + v;
                }
                if(k < n*n - 1 && w[8] != ',') bad = 1;
                if((x & 0x7fffffffu) > 0x7149f2cau) bad = 1;
                float f; memcpy(&f, &x, 4);
                dm[k / n][k % n] = f;
        }
        if(!bad){
                int *samples = malloc(sizeof(int) * n);
                for(int i = 0; i < n; i++) samples[i] = i;
                struct aln_tasks *t = NULL;
                alloc_tasks(&t, n);
                void *root = kv_upgma(dm, samples, n);
                kv_label_internal(root, n);
                kv_create_tasks(root, t);
                free(root);
                if(t->n_tasks) sort_tasks(t, TASK_ORDER_TREE);
                print_tasks(out, t);
                free_tasks(t);
                free(samples);
        }
        for(int i = 0; i < n; i++) free(dm[i]);
        free(dm);
        return bad;
}

/* tree <seq>... : build_tree_kmeans + sort_tasks for fewer than 100 sequences */
static int op_tree(int argc, char **argv, FILE *out)
{
        if(argc < 1 || argc > 200) return 1;
        struct msa *msa = mk_msa(argc, argv);
        if(!msa) return 1;
        if(argc >= 100){ rm_msa(msa); return 1; }
        if(msa_big(msa)){ fputs("fault", out); rm_msa(msa); return 0; }
        struct aln_tasks *t = NULL;
        alloc_tasks(&t, msa->numseq);
        build_tree_kmeans(msa, &t);
        if(t->n_tasks) sort_tasks(t, TASK_ORDER_TREE);
        print_tasks(out, t);
        free_tasks(t);
        rm_msa(msa);
        return 0;
}

struct kv_op kv_ops_bpm[] = {
        {"bpm_block", op_bpm_block},
        {"bpm", op_bpm},
        {"bpm_256", op_bpm_256},
        {"bpm_mt", op_bpm_mt},
        {"bpm_256_ub", op_bpm_256_ub},
        {"dyn_256", op_dyn_256},
        {"sellers", op_sellers},
        {"bpm_block_dp", op_bpm_block_dp},
        {"dp_bpm_block", op_dp_bpm_block},
        {"calc_distance", op_calc_distance},
        {"dist_matrix", op_dist_matrix},
        {"upgma", op_upgma},
        {"upgma_exact", op_upgma},
        {"tree", op_tree},
        {"dist_matrix_soft", op_dist_matrix},   /* model side: SoftF32 twins (Model/TreeSoft.lean) */
        {"upgma_soft", op_upgma},
        {"tree_soft", op_tree},
        {"tree_exact", op_tree},   /* Lean side: exact distances + exact UPGMA; emitted only for margin-safe inputs */
        {NULL, NULL}
};
