/* kvh main loop: reads one op per line from stdin (or the file given as argv[1]),
   calls the real kalign code in-process, prints one result line per op. */
#include "kvh.h"
#include <unistd.h>

int kv_parse_ints(const char *s, struct kv_ints *out)
{
        out->n = 0; out->v = NULL;
        if(strcmp(s, "-") == 0){
                out->v = malloc(sizeof(int));
                return 0;
        }
        int n = 1;
        for(const char *p = s; *p; p++){ if(*p == ',') n++; }
        out->v = malloc(sizeof(int) * (n + 1));
        const char *p = s;
        for(int i = 0; i < n; i++){
                char *e;
                long x = strtol(p, &e, 10);
                if(e == p){ free(out->v); out->v = NULL; return 1; }
                out->v[i] = (int)x;
                p = e;
                if(*p == ',') p++;
        }
        out->n = n;
        return 0;
}
void kv_free_ints(struct kv_ints *l){ free(l->v); l->v = NULL; l->n = 0; }
void kv_print_ints(FILE *o, const int *v, int n)
{
        if(n == 0){ fputc('-', o); return; }
        for(int i = 0; i < n; i++){ fprintf(o, i ? ",%d" : "%d", v[i]); }
}
static int hv(int c){ if(c>='0'&&c<='9') return c-'0'; if(c>='a'&&c<='f') return c-'a'+10; if(c>='A'&&c<='F') return c-'A'+10; return -1; }
int kv_unhex(const char *s, unsigned char **out, int *n)
{
        size_t l = strlen(s);
        if(strcmp(s, "-") == 0){ *out = calloc(1, 1); *n = 0; return 0; }
        if(l % 2) return 1;
        unsigned char *b = malloc(l/2 + 1);
        for(size_t i = 0; i < l/2; i++){
                int a = hv(s[2*i]), c = hv(s[2*i+1]);
                if(a < 0 || c < 0){ free(b); return 1; }
                b[i] = (unsigned char)(a*16 + c);
        }
        b[l/2] = 0;
        *out = b; *n = (int)(l/2);
        return 0;
}
void kv_print_hex(FILE *o, const unsigned char *b, int n)
{
        if(n == 0){ fputc('-', o); return; }
        for(int i = 0; i < n; i++) fprintf(o, "%02x", b[i]);
}

static struct kv_op *tables[] = { kv_ops_weave, kv_ops_param, kv_ops_io, kv_ops_bpm, kv_ops_dp, kv_ops_sys, kv_ops_misc, kv_ops_ref, kv_ops_kmeans, kv_ops_pipe, kv_ops_pipefile, kv_ops_cli, kv_ops_f32, NULL };

int main(int argc, char **argv)
{
        FILE *in = stdin;
        if(argc > 1){ in = fopen(argv[1], "r"); if(!in){ perror(argv[1]); return 2; } }
        /* the library logs to stdout: keep a private stream for result lines and send fd 1 to stderr */
        fflush(stdout);
        FILE *res = fdopen(dup(1), "w");
        dup2(2, 1);
        char *line = NULL; size_t cap = 0; ssize_t nr;
        char **tok = malloc(sizeof(char*) * KV_MAXTOK);
        while((nr = getline(&line, &cap, in)) != -1){
                while(nr > 0 && (line[nr-1] == '\n' || line[nr-1] == '\r')) line[--nr] = 0;
                int nt = 0;
                for(char *p = strtok(line, " "); p && nt < KV_MAXTOK; p = strtok(NULL, " ")) tok[nt++] = p;
                if(nt == 0){ fputs("bad-op\n", res); fflush(res); continue; }
                kv_op_fn fn = NULL;
                for(int t = 0; tables[t] && !fn; t++){
                        for(struct kv_op *o = tables[t]; o->name; o++){
                                if(strcmp(o->name, tok[0]) == 0){ fn = o->fn; break; }
                        }
                }
                if(!fn){ fputs("bad-op\n", res); fflush(res); continue; }
                fflush(stdout);
                if(fn(nt - 1, tok + 1, res) != 0){ fputs("bad-op", res); }
                fputc('\n', res);
                fflush(res);
        }
        free(line); free(tok);
        if(in != stdin) fclose(in);
        return 0;
}
