#include "kvh.h"
struct kv_op kv_ops_param[] = { {NULL, NULL} };
