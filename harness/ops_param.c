/* unit ops: aln_param_init, set_aln_type, detect_alphabet, detect_aligned, convert_msa_to_internal */
#include "kvh.h"
#include "tldevel.h"
#include "msa_struct.h"
#include "msa_alloc.h"
#include "msa_op.h"
#include "aln_param.h"
#include "alphabet.h"

int kv_set_aln_type(char *in, int *type);

static uint32_t fbits(float f){ union { float f; uint32_t u; } x; x.f = f; return x.u; }
static float bitsf(const char *s){ union { float f; uint32_t u; } x; x.u = (uint32_t)strtoul(s, NULL, 16); return x.f; }

static int op_param_init(int argc, char **argv, FILE *out)
{
        if(argc != 5) return 1;
        struct aln_param *ap = NULL;
        int rc = aln_param_init(&ap, atoi(argv[0]), 1, atoi(argv[1]), bitsf(argv[2]), bitsf(argv[3]), bitsf(argv[4]));
        if(rc != OK || !ap){ fputs("FAIL", out); return 0; }
        uint32_t h = 2166136261u;
        for(int i = 0; i < 23; i++) for(int j = 0; j < 23; j++){ h = (h ^ fbits(ap->subm[i][j])) * 16777619u; }
        fprintf(out, "%08x %08x %08x %08x", fbits(ap->gpo), fbits(ap->gpe), fbits(ap->tgpe), h);
        aln_param_free(ap);
        return 0;
}

static int op_set_aln_type(int argc, char **argv, FILE *out)
{
        if(argc != 1) return 1;
        int t = -77, rc;
        if(strcmp(argv[0], "NULL") == 0){
                rc = kv_set_aln_type(NULL, &t);
        }else{
                unsigned char *b; int n;
                if(kv_unhex(argv[0], &b, &n)) return 1;
                rc = kv_set_aln_type((char*)b, &t);
                free(b);
        }
        if(rc != OK) fputs("FAIL", out); else fprintf(out, "%d", t);
        return 0;
}

static int op_detect_alphabet(int argc, char **argv, FILE *out)
{
        if(argc != 1) return 1;
        struct kv_ints h;
        if(kv_parse_ints(argv[0], &h)) return 1;
        if(h.n != 128){ kv_free_ints(&h); return 1; }
        struct msa *m = NULL;
        alloc_msa(&m, 1);
        m->quiet = 1;
        for(int i = 0; i < 128; i++) m->letter_freq[i] = h.v[i];
        int rc = detect_alphabet(m);
        if(rc != OK) fputs("FAIL", out); else fprintf(out, "%d", m->biotype);
        kalign_free_msa(m);
        kv_free_ints(&h);
        return 0;
}

static int op_detect_aligned(int argc, char **argv, FILE *out)
{
        if(argc < 1) return 1;
        struct msa *m = NULL;
        alloc_msa(&m, argc);
        m->quiet = 1;
        int bad = 0;
        for(int i = 0; i < argc && !bad; i++){
                char *c = strchr(argv[i], ':');
                if(!c){ bad = 1; break; }
                *c = 0;
                int len = atoi(argv[i]);
                struct kv_ints g;
                if(kv_parse_ints(c + 1, &g) || g.n != len + 1 || len + 1 > 512){ bad = 1; break; }
                m->sequences[i]->len = len;
                for(int j = 0; j <= len; j++) m->sequences[i]->gaps[j] = g.v[j];
                kv_free_ints(&g);
        }
        if(!bad){
                m->numseq = argc;
                detect_aligned(m);
                fprintf(out, "%d", m->aligned);
        }
        m->numseq = 0;
        kalign_free_msa(m);
        return bad;
}

static int op_convert(int argc, char **argv, FILE *out)
{
        if(argc != 2) return 1;
        int id = atoi(argv[0]);
        if(id != 5 && id != 13 && id != 23 && id != 21 && id != 8) return 1;
        int len = (int)strlen(argv[1]);
        struct msa *m = NULL;
        alloc_msa(&m, 1);
        m->quiet = 1; m->numseq = 1;
        while(m->sequences[0]->alloc_len < len + 2){ resize_msa_seq(m->sequences[0]); }
        m->sequences[0]->len = len;
        memcpy(m->sequences[0]->seq, argv[1], len + 1);
        FILE *save = stderr; (void)save;
        convert_msa_to_internal(m, id);
        int *v = malloc(sizeof(int) * (len + 1));
        for(int i = 0; i < len; i++) v[i] = m->sequences[0]->s[i];
        kv_print_ints(out, v, len);
        free(v);
        m->numseq = 0;
        kalign_free_msa(m);
        return 0;
}

struct kv_op kv_ops_param[] = {
        {"param_init", op_param_init},
        {"set_aln_type", op_set_aln_type},
        {"detect_alphabet", op_detect_alphabet},
        {"detect_aligned", op_detect_aligned},
        {"convert", op_convert},
        {NULL, NULL}
};
