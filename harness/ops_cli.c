/* cli <stdinTty 0|1> <failAt> <hex(argv1)> <hex(argv2)> ...
   runs the real main() of src/run_kalign.c (argv[0] = "kalign") in a forked child with the library entry points replaced by
   recorders (see shim_run_kalign.c) and prints
       exit=<status> calls=<log>
   log = `-` or the calls in order, `;`-separated:
       R,<hex(infile)|NULL>,<quiet>            kalign_read_input
       A,<nthreads>,<type>,<gpo>,<gpe>,<tgpe>  kalign_run (floats as binary32 bits)
       W,<hex(outfile)|NULL>,<hex(format)|NULL> kalign_write_msa
   (hex of the empty string is `-`).  failAt >= 0: the failAt-th call (0-based) returns FAIL; -1: every call returns OK.
   A child that dies without reporting its exit status gives `fault`. */
#include "kvh.h"
#include <unistd.h>
#include <fcntl.h>
#include <getopt.h>
#include <sys/wait.h>

extern int kv_cli_active, kv_cli_tty, kv_cli_fail_at, kv_cli_ncalls;
extern FILE *kv_cli_log;
int kv_cli_main(int argc, char **argv);

static int op_cli(int argc, char **argv, FILE *out)
{
        if(argc < 2) return 1;
        if(strcmp(argv[0], "0") != 0 && strcmp(argv[0], "1") != 0) return 1;
        char *e = NULL;
        long failat = strtol(argv[1], &e, 10);
        if(e == argv[1] || *e || failat < -1 || failat > 1000000) return 1;
        int n = argc - 2;
        char **av = calloc((size_t)n + 2, sizeof(char*));
        av[0] = strdup("kalign");
        int bad = 0;
        for(int i = 0; i < n && !bad; i++){
                unsigned char *b = NULL; int len = 0;
                if(kv_unhex(argv[i + 2], &b, &len)){ bad = 1; break; }
                if((int)strlen((char*)b) != len){ bad = 1; }           /* an argv element cannot hold a NUL byte */
                av[i + 1] = (char*)b;
        }
        int rc = 0;
        if(bad){ rc = 1; goto done; }
        int pfd[2];
        fflush(out); fflush(stdout); fflush(stderr);
        if(pipe(pfd) != 0){ perror("pipe"); exit(3); }
        pid_t pid = fork();
        if(pid < 0){ perror("fork"); exit(3); }
        if(pid == 0){
                close(pfd[0]);
                int dn = open("/dev/null", O_WRONLY);
                if(dn >= 0){ dup2(dn, 1); }             /* banner, help text, log messages */
                unsetenv("POSIXLY_CORRECT");
                kv_cli_log = fdopen(pfd[1], "w");
                kv_cli_active = 1;
                kv_cli_tty = argv[0][0] == '1';
                kv_cli_fail_at = (int)failat;
                kv_cli_ncalls = 0;
                optind = 0;                             /* glibc: re-initialise getopt */
                int st = kv_cli_main(n + 1, av);
                fprintf(kv_cli_log, "%sX,%d", kv_cli_ncalls ? ";" : "", st);
                fflush(kv_cli_log);
                _exit(0);
        }
        close(pfd[1]);
        size_t cap = 1 << 12, len = 0;
        char *buf = malloc(cap);
        ssize_t k;
        while((k = read(pfd[0], buf + len, cap - len - 1)) > 0){
                len += (size_t)k;
                if(len + 1 >= cap){ cap *= 2; buf = realloc(buf, cap); }
        }
        buf[len] = 0;
        close(pfd[0]);
        int st = 0;
        waitpid(pid, &st, 0);
        /* the last record is X,<status> when main returned or called exit */
        char *x = strrchr(buf, 'X');
        if(!(WIFEXITED(st) && WEXITSTATUS(st) == 0) || !x || x[1] != ',' || (x != buf && x[-1] != ';')){
                fputs("fault", out);
        }else{
                int status = atoi(x + 2);
                if(x == buf){ fprintf(out, "exit=%d calls=-", status); }
                else{ x[-1] = 0; fprintf(out, "exit=%d calls=%s", status, buf); }
        }
        free(buf);
done:
        for(int i = 0; i <= n; i++) free(av[i]);
        free(av);
        return rc;
}

struct kv_op kv_ops_cli[] = {
        {"cli", op_cli},
        {NULL, NULL}
};
