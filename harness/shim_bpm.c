/* shim around lib/src/bpm.c.
   bpm_256 builds its match table with `f[p[i]][i/32] |= (1 << (i % 32))` (bpm.c:201): for i % 32 == 31 the
   signed shift `1 << 31` is undefined behaviour in C11 (reported by -fsanitize=shift for every pattern of 32 or
   more symbols).  gcc computes the expected bit; the model (bpm256B) sets that bit.  So that the 256-bit variant
   can be compared at all for patterns of 32..255 symbols, the shift check is switched off for this one function;
   the finding is reported separately (op `bpm_256_ub`). */
#define bpm_256 __attribute__((no_sanitize("shift"))) bpm_256
#include "bpm.c"
#undef bpm_256

/* 1 iff bpm_256(t,p,n,m) executes the undefined shift `1 << 31` */
int kv_bpm_256_shift_ub(int m)
{
        if(m > 255) m = 255;
        return m >= 32;
}
