/* shim: aln_controller.c compiled with its three meetup calls routed through logging wrappers, so that the
   harness sees (rectangle, meet, transition, score) of every meetup the controller performs. */
#include <stdint.h>
#include <stdlib.h>
#include "tldevel.h"
#include "aln_param.h"
#include "aln_struct.h"
#include "aln_seqseq.h"
#include "aln_seqprofile.h"
#include "aln_profileprofile.h"
#include "kvh_dp.h"

struct kv_trace_entry *kv_trace = NULL;
int kv_trace_n = 0;
static int kv_trace_cap = 0;

void kv_trace_reset(void){ kv_trace_n = 0; }

static void kv_trace_add(const int old_cor[], int meet, int t, float score)
{
#pragma omp critical(kv_trace_lock)
        {
                if(kv_trace_n == kv_trace_cap){
                        kv_trace_cap = kv_trace_cap ? kv_trace_cap * 2 : 1024;
                        kv_trace = realloc(kv_trace, sizeof(struct kv_trace_entry) * kv_trace_cap);
                }
                struct kv_trace_entry *e = &kv_trace[kv_trace_n++];
                e->sa = old_cor[0]; e->ea = old_cor[1]; e->sb = old_cor[2]; e->eb = old_cor[3];
                e->meet = meet; e->t = t; e->score = score;
        }
}

static int kvw_ss(struct aln_mem* m,int old_cor[],int* meet,int* t,float* score);
static int kvw_sp(struct aln_mem* m,int old_cor[],int* meet,int* t,float* score);
static int kvw_pp(struct aln_mem* m,int old_cor[],int* meet,int* t,float* score);

#define aln_seqseq_meetup kvw_ss
#define aln_seqprofile_meetup kvw_sp
#define aln_profileprofile_meetup kvw_pp
#include "aln_controller.c"
#undef aln_seqseq_meetup
#undef aln_seqprofile_meetup
#undef aln_profileprofile_meetup

static int kvw_ss(struct aln_mem* m,int old_cor[],int* meet,int* t,float* score)
{
        int r = aln_seqseq_meetup(m, old_cor, meet, t, score);
        kv_trace_add(old_cor, *meet, *t, *score);
        return r;
}
static int kvw_sp(struct aln_mem* m,int old_cor[],int* meet,int* t,float* score)
{
        int r = aln_seqprofile_meetup(m, old_cor, meet, t, score);
        kv_trace_add(old_cor, *meet, *t, *score);
        return r;
}
static int kvw_pp(struct aln_mem* m,int old_cor[],int* meet,int* t,float* score)
{
        int r = aln_profileprofile_meetup(m, old_cor, meet, t, score);
        kv_trace_add(old_cor, *meet, *t, *score);
        return r;
}
