/* shim: reach the static comparators of msa_sort.c */
#include "msa_sort.c"

int kv_sort_by_len_name(struct msa_seq *a, struct msa_seq *b)
{
        return sort_by_len_name(&a, &b);
}
int kv_sort_by_rank(struct msa_seq *a, struct msa_seq *b)
{
        return sort_by_rank(&a, &b);
}
