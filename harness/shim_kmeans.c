/* bisectingKmeans.c compiled into the harness (instead of separately) to reach its static functions:
   split2, bisecting_kmeans, label_internal, create_tasks.  Distance path = the build's own (edist_256 with -DHAVE_AVX2).
   See kvh_kmeans_wrap.h for the exported wrappers and the `< 100 samples` stand-in. */
#include <string.h>
#include "tldevel.h"
#include "msa_struct.h"
#include "sequence_distance.h"
#define KMP(x) kvh_km_##x
float** kvh_km_d_estimation_hook(struct msa* msa, int* samples, int num_samples, int pair);
#define d_estimation kvh_km_d_estimation_hook
#include "bisectingKmeans.c"
#undef d_estimation
#include "kvh_kmeans_wrap.h"

/* wrappers of slice B (bpm/dist/UPGMA ops), kept verbatim so that this file can replace the integrated shim_kmeans.c */
int kv_label_internal(void *n, int label)
{
        return label_internal((struct node*)n, label);
}

void kv_create_tasks(void *n, struct aln_tasks *t)
{
        create_tasks((struct node*)n, t);
}

void *kv_upgma(float **dm, int *samples, int numseq)
{
        return upgma(dm, samples, numseq);
}
