/* hardware side of the software binary32 model (lean/KalignModel/Model/SoftFloat.lean, Driver/F32.lean):
   plain C `float` arithmetic, compiled with the same flags as the library (-ffp-contract=off, SSE/AVX scalar code).

   f32 <op> <aBits> <bBits>   op in add sub mul div -> 8 hex digits of the result
                              op in neg abs (bBits ignored) -> 8 hex digits
                              op in lt gt le ge eq -> 0 / 1
   f32_of <int>               (float)i, |i| < 2^63, at most 20 characters -> 8 hex digits
   Operands go through `volatile` so that nothing is folded at compile time.  No NaN canonicalisation. */
#include "kvh.h"
#include <math.h>

static int f32_bits(const char *s, float *out)
{
        if(strlen(s) != 8) return 1;
        uint32_t w = 0;
        for(int i = 0; i < 8; i++){
                int c = s[i], v;
                if(c >= '0' && c <= '9') v = c - '0';
                else if(c >= 'a' && c <= 'f') v = c - 'a' + 10;
                else if(c >= 'A' && c <= 'F') v = c - 'A' + 10;
                else return 1;
                w = (w << 4) | (uint32_t)v;
        }
        memcpy(out, &w, 4);
        return 0;
}

static void f32_print(FILE *out, float f)
{
        uint32_t w;
        memcpy(&w, &f, 4);
        fprintf(out, "%08x", w);
}

static int op_f32(int argc, char **argv, FILE *out)
{
        if(argc != 3) return 1;
        float fa, fb;
        if(f32_bits(argv[1], &fa) || f32_bits(argv[2], &fb)) return 1;
        volatile float a = fa, b = fb;
        const char *op = argv[0];
        if(!strcmp(op, "add")){ float r = a + b; f32_print(out, r); }
        else if(!strcmp(op, "sub")){ float r = a - b; f32_print(out, r); }
        else if(!strcmp(op, "mul")){ float r = a * b; f32_print(out, r); }
        else if(!strcmp(op, "div")){ float r = a / b; f32_print(out, r); }
        else if(!strcmp(op, "neg")){ float r = -a; f32_print(out, r); }
        else if(!strcmp(op, "abs")){ float r = fabsf(a); f32_print(out, r); }
        else if(!strcmp(op, "lt")){ fprintf(out, "%d", a < b ? 1 : 0); }
        else if(!strcmp(op, "gt")){ fprintf(out, "%d", a > b ? 1 : 0); }
        else if(!strcmp(op, "le")){ fprintf(out, "%d", a <= b ? 1 : 0); }
        else if(!strcmp(op, "ge")){ fprintf(out, "%d", a >= b ? 1 : 0); }
        else if(!strcmp(op, "eq")){ fprintf(out, "%d", a == b ? 1 : 0); }
        else return 1;
        return 0;
}

static int op_f32_of(int argc, char **argv, FILE *out)
{
        if(argc != 1) return 1;
        const char *s = argv[0];
        size_t l = strlen(s);
        if(l == 0 || l > 20) return 1;
        const char *p = s;
        if(*p == '-') p++;
        if(!*p) return 1;
        size_t nd = 0;
        for(const char *q = p; *q; q++, nd++){ if(*q < '0' || *q > '9') return 1; }
        /* |i| < 2^63 */
        while(*p == '0' && nd > 1){ p++; nd--; }
        if(nd > 19 || (nd == 19 && strcmp(p, "9223372036854775807") > 0)) return 1;
        long long v = strtoll(s, NULL, 10);
        volatile float r;
        if(v >= -2147483647LL - 1 && v <= 2147483647LL){ volatile int i = (int)v; r = (float)i; }
        else { volatile long long i = v; r = (float)i; }
        f32_print(out, r);
        return 0;
}

/* f32_lenterm <s> : the length-bias term of d_estimation (sequence_distance.c:94-95, 144-145), the C expression verbatim:
   `int s; float add = MACRO_MIN(10000.0, s) / 10000.0;` (double arithmetic, rounded to float on assignment) */
#ifndef MACRO_MIN
#define MACRO_MIN(a,b)          (((a)<(b))?(a):(b))
#endif
static int op_f32_lenterm(int argc, char **argv, FILE *out)
{
        if(argc != 1) return 1;
        const char *p = argv[0];
        size_t l = strlen(p);
        if(l == 0 || l > 10) return 1;
        for(const char *q = p; *q; q++){ if(*q < '0' || *q > '9') return 1; }
        long long v = strtoll(p, NULL, 10);
        if(v >= 2147483648LL) return 1;
        volatile int s = (int)v;
        float add = MACRO_MIN(10000.0, s) / 10000.0;
        f32_print(out, add);
        return 0;
}

struct kv_op kv_ops_f32[] = {
        {"f32", op_f32},
        {"f32_of", op_f32_of},
        {"f32_lenterm", op_f32_lenterm},
        {NULL, NULL}
};
