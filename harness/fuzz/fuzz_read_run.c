/* libFuzzer target (search support for C05, not a proof): arbitrary bytes as an input file -> kalign_read_input -> kalign_run ->
   kalign_write_msa in all formats -> free.  Built by tools/fuzz.py with clang -fsanitize=fuzzer,address,undefined from /repo's tree. */
#include <stdint.h>
#include <stdio.h>
#include <stdlib.h>
#include <string.h>
#include <unistd.h>
#include "kalign/kalign.h"
#include "msa_struct.h"

static char inpath[256], outpath[256];

int LLVMFuzzerInitialize(int *argc, char ***argv)
{
        const char *d = getenv("KV_FUZZ_TMP");
        if(!d){ d = "/dev/shm"; }
        snprintf(inpath, sizeof inpath, "%s/kvfuzz_%d.in", d, (int)getpid());
        snprintf(outpath, sizeof outpath, "%s/kvfuzz_%d.out", d, (int)getpid());
        /* library chatter off */
        freopen("/dev/null", "w", stdout);
        return 0;
}

int LLVMFuzzerTestOneInput(const uint8_t *data, size_t size)
{
        if(size < 2 || size > 6000){ return 0; }
        /* first byte: options */
        uint8_t opt = data[0];
        data++; size--;
        FILE *f = fopen(inpath, "wb");
        if(!f){ return 0; }
        fwrite(data, 1, size, f);
        fclose(f);
        struct msa *m = NULL;
        int rc = kalign_read_input(inpath, &m, 1);
        if(rc == 0 && m){
                long tot = 0;
                for(int i = 0; i < m->numseq; i++){ tot += m->sequences[i]->len; }
                if(m->numseq <= 40 && tot <= 3000){
                        static const int types[] = { KALIGN_TYPE_UNDEFINED, KALIGN_TYPE_DNA, KALIGN_TYPE_DNA_INTERNAL, KALIGN_TYPE_RNA, KALIGN_TYPE_PROTEIN, KALIGN_TYPE_PROTEIN_DIVERGENT, 99, -1 };
                        int t = (opt & 0x80) ? types[(opt >> 4) & 7] : KALIGN_TYPE_UNDEFINED;
                        rc = kalign_run(m, 1, t, -1.0f, -1.0f, -1.0f);
                        if(rc == 0){
                                static const char *fmts[] = { "fasta", "msf", "clu", "xyz" };
                                kalign_write_msa(m, outpath, (char *)fmts[opt & 3]);
                        }
                }
        }
        kalign_free_msa(m);
        return 0;
}
