/* Exported wrappers around the static functions of bisectingKmeans.c.  Included by shim_kmeans.c (the build's own
   distance path: edist_256 with -DHAVE_AVX2) and by shim_kmeans_serial.c (same source compiled with HAVE_AVX2 undefined:
   edist_serial) AFTER `#include "bisectingKmeans.c"`.  KMP(x) gives every exported name a per-shim prefix.

   Stand-in for the `< 100 samples` branch: bisecting_kmeans is compiled with `d_estimation` renamed to the hook below.
   While KMP(standin) is non-zero the hook returns (instead of the pairwise sequence distances, for which the ops have no
   sequences) the matrix dm[i][j] = max(i,j), dm[i][i] = 0.  The REAL `upgma` then runs on it and deterministically
   builds the left-deep caterpillar ((((s0,s1),s2),s3)…) over the samples in the order received; the Lean side uses
   `Kmeans.caterpillar`.  With KMP(standin) == 0 the hook forwards to the real d_estimation. */
#ifndef KMP
#error "KMP(name) must be defined"
#endif

int KMP(standin) = 0;

float** KMP(d_estimation_hook)(struct msa* msa, int* samples, int num_samples, int pair)
{
        if(!KMP(standin)){
                return (d_estimation)(msa, samples, num_samples, pair);
        }
        float** m = NULL;
        if(galloc(&m, num_samples, num_samples) != OK){ return NULL; }
        for(int i = 0; i < num_samples; i++){
                for(int j = 0; j < num_samples; j++){
                        m[i][j] = (i == j) ? 0.0F : (float)(i > j ? i : j);
                }
        }
        return m;
}

/* split2 on caller-provided data; returns the library's return code; arrays are owned by *out (free with KMP(free_res)) */
int KMP(split2)(const float* const* dm, const int* samples, int num_anchors, int num_samples, int seed_pick,
                int* nl, int* nr, float* score, int** sl, int** sr, void** handle)
{
        struct kmeans_result* res = NULL;
        int rc = split2(dm, samples, num_anchors, num_samples, seed_pick, &res);
        *handle = res;
        if(rc != OK || !res){ return FAIL; }
        *nl = res->nl; *nr = res->nr; *score = res->score; *sl = res->sl; *sr = res->sr;
        return OK;
}

void KMP(free_res)(void* handle)
{
        free_kmeans_results((struct kmeans_result*)handle);
}

/* the part of build_tree_kmeans after d_estimation(…,0): samples 0..numseq-1, bisecting_kmeans inside
   `parallel` + `single nowait` (as build_tree_kmeans does), label_internal(root, numseq), create_tasks.
   `msa_numseq` is what bisecting_kmeans sees as msa->numseq (num_anchors = MIN(32, msa->numseq)).
   `threads` > 0 selects the team size.  Every group of < 100 samples goes through the stand-in. */
int KMP(tree)(int numseq, int msa_numseq, float** dm, int threads, struct aln_tasks* t)
{
        struct msa fake;
        struct node* root = NULL;
        int* samples = NULL;
        memset(&fake, 0, sizeof(fake));
        fake.numseq = msa_numseq;
        fake.quiet = 1;
        samples = malloc(sizeof(int) * (numseq > 0 ? numseq : 1));
        for(int i = 0; i < numseq; i++){ samples[i] = i; }
        KMP(standin) = 1;
#ifdef HAVE_OPENMP
        int old_threads = omp_get_max_threads();
        if(threads > 0){ omp_set_num_threads(threads); }
#pragma omp parallel
#pragma omp single nowait
#endif
        bisecting_kmeans(&fake, &root, (const float* const*)dm, samples, numseq);
#ifdef HAVE_OPENMP
        omp_set_num_threads(old_threads);
#endif
        KMP(standin) = 0;
        if(!root){ return FAIL; }
        label_internal(root, numseq);
        create_tasks(root, t);
        MFREE(root);
        return OK;
}
