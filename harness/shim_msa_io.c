/* shim around lib/src/msa_io.c: the library file is compiled as part of this translation unit so that the
   harness can call its `static` functions (read_file_stdin, detect_alignment_format, read_fasta/clu/msf). */
#include "msa_io.c"

/* detect_alignment_format on the lines of a file; returns FAIL if the file could not be read */
int kv_io_detect_format(char *path, int *type)
{
        struct in_buffer *b = NULL;
        *type = 0;
        if(read_file_stdin(&b, path) != OK){
                return FAIL;
        }
        int rc = detect_alignment_format(b, type);
        free_in_buffer(b);
        return rc;
}

/* read_file_stdin + the reader selected by `type` (no format detection, no numseq check),
   then detect_alphabet + detect_aligned as kalign_read_input does */
int kv_io_read_as(char *path, int type, struct msa **out)
{
        struct in_buffer *b = NULL;
        struct msa *m = NULL;
        int rc = FAIL;
        *out = NULL;
        if(read_file_stdin(&b, path) != OK){
                return FAIL;
        }
        if(type == FORMAT_FA){
                rc = read_fasta(b, &m);
        }else if(type == FORMAT_MSF){
                rc = read_msf(b, &m);
        }else if(type == FORMAT_CLU){
                rc = read_clu(b, &m);
        }
        free_in_buffer(b);
        if(rc != OK){
                return FAIL;
        }
        m->quiet = 1;
        if(detect_alphabet(m) != OK || detect_aligned(m) != OK){
                kalign_free_msa(m);
                return FAIL;
        }
        *out = m;
        return OK;
}

int kv_io_parse_format(char *format, int *type)
{
        return parse_format_argument(format, type);
}
