/* unit ops of slice H: msa_cmp.c (compare_pair, kalign_msa_compare), msa_check.c
   (kalign_essential_input_check), msa_sort.c (msa_sort_len_name).
   Every op validates all of its arguments before it prints anything. */
#include "kvh.h"
#include <ctype.h>
#include <math.h>
#include "tldevel.h"
#include "msa_struct.h"
#include "msa_check.h"
#include "msa_sort.h"
#include "msa_cmp.h"

int kv_compare_pair(char *a1, char *a2, char *b1, char *b2, int len_a, int len_b, uint64_t *out);
int kv_sort_by_len_name(struct msa_seq *a, struct msa_seq *b);

/* row token: printable ASCII without blanks; "." = empty row. returns NULL if malformed */
static const char *row_of(const char *tok)
{
        if(strcmp(tok, ".") == 0) return "";
        for(const char *p = tok; *p; p++){ if((unsigned char)*p < 0x21 || (unsigned char)*p > 0x7e) return NULL; }
        return tok;
}
static int nres_of(const char *r)
{
        int n = 0;
        for(; *r; r++) if(isalpha((int)*r)) n++;
        return n;
}
/* name token: hex, "-" = empty, no NUL byte inside. returns malloc'ed C string or NULL */
static char *name_of(const char *tok)
{
        unsigned char *b = NULL; int n = 0;
        if(kv_unhex(tok, &b, &n)) return NULL;
        for(int i = 0; i < n; i++){ if(b[i] == 0){ free(b); return NULL; } }
        char *s = malloc(n + 1);
        memcpy(s, b, n); s[n] = 0;
        free(b);
        return s;
}
static void print_u64s(FILE *out, const uint64_t *c, int n)
{
        for(int i = 0; i < n; i++) fprintf(out, i ? ",%llu" : "%llu", (unsigned long long)c[i]);
}

/* compare_pair rowA1 rowA2 rowB1 rowB2 -> "<rc> c1,..,c6" | fault */
static int op_compare_pair(int argc, char **argv, FILE *out)
{
        if(argc != 4) return 1;
        const char *r[4];
        for(int i = 0; i < 4; i++){ r[i] = row_of(argv[i]); if(!r[i]) return 1; }
        int la = (int)strlen(r[0]), lb = (int)strlen(r[2]);
        if((int)strlen(r[1]) != la || (int)strlen(r[3]) != lb){ fputs("fault", out); return 0; }
        if(la > 0 && lb > 0 && (nres_of(r[2]) > nres_of(r[0]) || nres_of(r[3]) > nres_of(r[1]))){
                /* the comparison loops would read codes*_A behind what the scan of A wrote (uninitialised / out of bounds) */
                fputs("fault", out); return 0;
        }
        uint64_t c[6] = {0,0,0,0,0,0};
        int rc = kv_compare_pair((char*)r[0], (char*)r[1], (char*)r[2], (char*)r[3], la, lb, c);
        fprintf(out, "%d ", rc == OK ? 0 : 1);
        print_u64s(out, c, 6);
        return 0;
}

struct kv_aln { int n; char **names; const char **rows; int width; };

static void free_aln(struct kv_aln *a)
{
        if(a->names){ for(int i = 0; i < a->n; i++) free(a->names[i]); free(a->names); }
        free(a->rows);
        a->names = NULL; a->rows = NULL;
}
/* parses "n name:row *n" starting at argv[*pos]; 0 on success */
static int parse_aln(int argc, char **argv, int *pos, struct kv_aln *a)
{
        a->n = 0; a->names = NULL; a->rows = NULL; a->width = 0;
        if(*pos >= argc) return 1;
        char *e; long n = strtol(argv[*pos], &e, 10);
        if(e == argv[*pos] || *e || n < 1 || *pos + 1 + n > argc) return 1;
        (*pos)++;
        a->n = (int)n;
        a->names = calloc(n, sizeof(char*)); a->rows = calloc(n, sizeof(char*));
        for(int i = 0; i < n; i++){
                char *tok = argv[*pos + i];
                char *colon = strchr(tok, ':');
                if(!colon || strchr(colon + 1, ':')) goto BAD;
                *colon = 0;
                a->names[i] = name_of(tok);
                *colon = ':';
                a->rows[i] = row_of(colon + 1);
                if(!a->names[i] || !a->rows[i]) goto BAD;
                if(i == 0) a->width = (int)strlen(a->rows[0]);
                else if((int)strlen(a->rows[i]) != a->width) goto BAD;
        }
        *pos += (int)n;
        return 0;
BAD:
        free_aln(a);
        return 1;
}
/* a finalised alignment as finalise_alignment leaves it: seq = gapped row, len = number of residues */
static struct msa *mk_msa(const struct kv_aln *a)
{
        struct msa *m = calloc(1, sizeof(struct msa));
        m->numseq = a->n; m->alloc_numseq = a->n; m->aligned = ALN_STATUS_FINAL; m->alnlen = a->width; m->quiet = 1;
        m->sequences = calloc(a->n, sizeof(struct msa_seq*));
        for(int i = 0; i < a->n; i++){
                struct msa_seq *s = calloc(1, sizeof(struct msa_seq));
                s->name = strdup(a->names[i]);
                s->seq = strdup(a->rows[i]);
                s->len = nres_of(a->rows[i]);
                s->rank = i;
                m->sequences[i] = s;
        }
        return m;
}
static void rm_msa(struct msa *m)
{
        for(int i = 0; i < m->alloc_numseq; i++){ if(m->sequences[i]){ free(m->sequences[i]->name); free(m->sequences[i]->seq); free(m->sequences[i]); } }
        free(m->sequences); free(m);
}

/* msa_compare nR nameR:rowR .. nT nameT:rowT .. -> "0 <score bits> c1,..,c6" | "1 - -" | fault */
static int op_msa_compare(int argc, char **argv, FILE *out)
{
        struct kv_aln A, B;
        int pos = 0;
        if(parse_aln(argc, argv, &pos, &A)) return 1;
        if(parse_aln(argc, argv, &pos, &B)){ free_aln(&A); return 1; }
        if(pos != argc){ free_aln(&A); free_aln(&B); return 1; }

        /* would the real call read uninitialised / out-of-bounds memory?  decided on scratch copies
           that went through the same check + sort */
        int fault = 0;
        {
                struct msa *r = mk_msa(&A), *t = mk_msa(&B);
                if(kalign_check_msa(r, 1) == OK && kalign_check_msa(t, 1) == OK){
                        kalign_sort_msa(r); kalign_sort_msa(t);
                        if(r->numseq >= 2){
                                if(t->numseq < r->numseq) fault = 1;
                                else if(r->alnlen > 0 && t->alnlen > 0){
                                        for(int i = 0; i < r->numseq; i++){
                                                if(t->sequences[i]->len > r->sequences[i]->len) fault = 1;
                                        }
                                }
                        }
                }
                rm_msa(r); rm_msa(t);
        }
        if(fault){
                fputs("fault", out);
        }else{
                struct msa *r = mk_msa(&A), *t = mk_msa(&B);
                float score = -1.0f;
                int rc = kalign_msa_compare(r, t, &score);
                if(rc != OK){
                        fputs("1 - -", out);
                }else{
                        /* counters: the static compare_pair over the (now sorted) structs, as the function itself did */
                        uint64_t c[6] = {0,0,0,0,0,0};
                        for(int i = 0; i < r->numseq; i++){
                                for(int j = i + 1; j < r->numseq; j++){
                                        kv_compare_pair(r->sequences[i]->seq, r->sequences[j]->seq, t->sequences[i]->seq, t->sequences[j]->seq,
                                                        r->alnlen, t->alnlen, c);
                                }
                        }
                        uint32_t bits; memcpy(&bits, &score, 4);
                        if(isnan(score)) bits = 0x7fc00000u;
                        fprintf(out, "0 %08x ", bits);
                        print_u64s(out, c, 6);
                }
                rm_msa(r); rm_msa(t);
        }
        free_aln(&A); free_aln(&B);
        return 0;
}

/* parses len:namehex items into an msa (seq = NULL, rank = position) */
static struct msa *parse_len_names(int argc, char **argv)
{
        if(argc < 1) return NULL;
        struct msa *m = calloc(1, sizeof(struct msa));
        m->numseq = argc; m->alloc_numseq = argc; m->quiet = 1;
        m->sequences = calloc(argc, sizeof(struct msa_seq*));
        for(int i = 0; i < argc; i++){
                char *e; long l = strtol(argv[i], &e, 10);
                if(e == argv[i] || *e != ':' || l < 0 || strchr(e + 1, ':')) goto BAD;
                char *nm = name_of(e + 1);
                if(!nm) goto BAD;
                struct msa_seq *s = calloc(1, sizeof(struct msa_seq));
                s->name = nm; s->len = (int)l; s->rank = i;
                m->sequences[i] = s;
        }
        return m;
BAD:
        rm_msa(m);
        return NULL;
}

/* sort_len_name len:namehex .. -> resulting order (input indices) */
static int op_sort_len_name(int argc, char **argv, FILE *out)
{
        struct msa *m = parse_len_names(argc, argv);
        if(!m) return 1;
        msa_sort_len_name(m);
        for(int i = 0; i < m->numseq; i++) fprintf(out, i ? ",%d" : "%d", m->sequences[i]->rank);
        rm_msa(m);
        return 0;
}

/* cmp_len_name len:namehex len:namehex -> return value of sort_by_len_name */
static int op_cmp_len_name(int argc, char **argv, FILE *out)
{
        if(argc != 2) return 1;
        struct msa *m = parse_len_names(argc, argv);
        if(!m) return 1;
        fprintf(out, "%d", kv_sort_by_len_name(m->sequences[0], m->sequences[1]));
        rm_msa(m);
        return 0;
}

/* essential_check[1] len .. -> "<rc> <kept> <tail> <ranks>" | "1 unchanged" */
static int essential(int argc, char **argv, FILE *out, int exit_on_error)
{
        if(argc < 1) return 1;
        int n = argc;
        int *lens = malloc(sizeof(int) * n);
        for(int i = 0; i < n; i++){
                char *e; long l = strtol(argv[i], &e, 10);
                if(e == argv[i] || *e || l < 0){ free(lens); return 1; }
                lens[i] = (int)l;
        }
        struct msa *m = calloc(1, sizeof(struct msa));
        m->numseq = n; m->alloc_numseq = n + 2; m->quiet = 1;
        m->sequences = NULL;
        /* kalign_essential_input_check frees msa->sequences with MFREE and installs its own array */
        m->sequences = malloc(sizeof(struct msa_seq*) * m->alloc_numseq);
        struct msa_seq **orig = calloc(m->alloc_numseq, sizeof(struct msa_seq*));
        for(int i = 0; i < m->alloc_numseq; i++){
                struct msa_seq *s = calloc(1, sizeof(struct msa_seq));
                char buf[32]; snprintf(buf, sizeof buf, "s%d", i);
                s->name = strdup(buf); s->len = i < n ? lens[i] : 7; s->rank = -1;
                m->sequences[i] = s; orig[i] = s;
        }
        int rc = kalign_essential_input_check(m, exit_on_error);
        int unchanged = (rc != OK) && m->numseq == n;
        for(int i = 0; i < m->alloc_numseq; i++){ if(m->sequences[i] != orig[i] || orig[i]->rank != -1) unchanged = 0; }
        if(unchanged){
                fputs("1 unchanged", out);
        }else{
                /* index of every entry by pointer identity */
                int *idx = malloc(sizeof(int) * m->alloc_numseq);
                int bad = 0;
                for(int i = 0; i < m->alloc_numseq; i++){
                        idx[i] = -1;
                        for(int k = 0; k < m->alloc_numseq; k++) if(m->sequences[i] == orig[k]) idx[i] = k;
                        if(idx[i] < 0) bad = 1;
                        if(i >= n && idx[i] != i) bad = 1; /* entries behind the old numseq stay where they are */
                }
                if(bad || m->numseq < 0 || m->numseq > n){
                        fputs("harness-inconsistent", out);
                }else{
                        fprintf(out, "%d ", rc == OK ? 0 : 1);
                        kv_print_ints(out, idx, m->numseq); fputc(' ', out);
                        kv_print_ints(out, idx + m->numseq, n - m->numseq); fputc(' ', out);
                        for(int i = 0; i < n; i++) fprintf(out, i ? ",%d" : "%d", m->sequences[i]->rank);
                }
                free(idx);
        }
        for(int i = 0; i < m->alloc_numseq; i++){ free(orig[i]->name); free(orig[i]); }
        free(orig); free(m->sequences); free(m); free(lens);
        return 0;
}
static int op_essential(int argc, char **argv, FILE *out){ return essential(argc, argv, out, 0); }
static int op_essential1(int argc, char **argv, FILE *out){ return essential(argc, argv, out, 1); }

struct kv_op kv_ops_misc[] = {
        {"compare_pair", op_compare_pair},
        {"msa_compare", op_msa_compare},
        {"sort_len_name", op_sort_len_name},
        {"cmp_len_name", op_cmp_len_name},
        {"essential_check", op_essential},
        {"essential_check1", op_essential1},
        {NULL, NULL}
};
