/* shim: aln_run.c with an exported wrapper for the static do_align */
#include "aln_run.c"
#include "kvh_dp.h"
int kv_do_align(struct msa* msa, struct aln_tasks* t, struct aln_mem* m, int task_id)
{
        return do_align(msa, t, m, task_id);
}
