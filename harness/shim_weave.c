/* shim: weave_alignment.c is compiled inside this translation unit so that make_seq / update_gaps stay reachable whether or not the library
   declares them static */
#include "weave_alignment.c"
int kv_update_gaps(int old_len, int *gis, int *newgaps){ return update_gaps(old_len, gis, newgaps); }
int kv_make_seq(struct msa *msa, int a, int b, int *path){ return make_seq(msa, a, b, path); }
