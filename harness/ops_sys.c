/* system-level ops: the real pipeline in-process, with the guarded hooks logging events */
#include "kvh.h"
#include <sys/resource.h>
#include <pthread.h>
#include <unistd.h>
#include <fcntl.h>
#include <sched.h>
#ifdef HAVE_OPENMP
#include <omp.h>
#endif
#include "tldevel.h"
#include "kalign/kalign.h"
#include "msa_struct.h"
#include "msa_op.h"
#include "msa_alloc.h"
#include "aln_struct.h"
#include "aln_param.h"
#include "task.h"
#include "kalign_verif.h"

int kalign_msa_to_arr(struct msa* msa, char ***aligned, int *out_aln_len);

#ifdef KALIGN_VERIF
void (*kalign_verif_cb)(int ev, const void *a, const void *b, int x, int y, int z) = NULL;
#endif

static FILE *evlog = NULL;
static pthread_mutex_t evmx = PTHREAD_MUTEX_INITIALIZER;
static unsigned jitter_seed = 0;
static unsigned long evcounter = 0;

static int tid(void)
{
#ifdef HAVE_OPENMP
        return omp_get_thread_num();
#else
        return 0;
#endif
}

static void jitter(int ev, const void *p)
{
        if(!jitter_seed) return;
        unsigned long c = __atomic_add_fetch(&evcounter, 1, __ATOMIC_RELAXED);
        unsigned h = (unsigned)(c * 2654435761u) ^ (jitter_seed * 40503u) ^ ((unsigned)ev * 97u) ^ (unsigned)((uintptr_t)p >> 4);
        h ^= h >> 13; h *= 0x5bd1e995u; h ^= h >> 15;
        switch(h & 7){
        case 0: usleep(50 + (h >> 8) % 400); break;
        case 1: case 2: sched_yield(); break;
        case 3: for(volatile int i = 0; i < (int)((h >> 8) % 20000); i++){} break;
        default: break;
        }
}

static void cb(int ev, const void *a, const void *b, int x, int y, int z)
{
#ifdef KALIGN_VERIF
        if(ev == KV_MERGE_BEGIN || ev == KV_FWD_BEGIN || ev == KV_BWD_BEGIN || ev == KV_MEETUP_BEGIN || ev == KV_FWD_END || ev == KV_BWD_END){
                jitter(ev, a);
        }
        if(!evlog) return;
        pthread_mutex_lock(&evmx);
        switch(ev){
        case KV_MERGE_BEGIN: fprintf(evlog, "MB %d %d %d %d\n", tid(), x, y, z); break;
        case KV_MERGE_END:   fprintf(evlog, "ME %d %d %d %d\n", tid(), x, y, z); break;
        case KV_FWD_BEGIN:   fprintf(evlog, "FB %d %p\n", tid(), a); break;
        case KV_FWD_END:     fprintf(evlog, "FE %d %p\n", tid(), a); break;
        case KV_BWD_BEGIN:   fprintf(evlog, "BB %d %p\n", tid(), a); break;
        case KV_BWD_END:     fprintf(evlog, "BE %d %p\n", tid(), a); break;
        case KV_MEETUP_BEGIN:fprintf(evlog, "UB %d %p\n", tid(), a); break;
        case KV_MEETUP_END:  fprintf(evlog, "UE %d %p\n", tid(), a); break;
        case KV_NODE_DONE: {
                const struct msa *msa = a; const struct aln_mem *m = b;
                /* very large inputs: only nodes with at least KV_ND_MIN members are dumped */
                static int nd_min = -1;
                if(nd_min < 0){ const char *e = getenv("KV_ND_MIN"); nd_min = e ? atoi(e) : 0; }
                if(msa->nsip[y] + msa->nsip[z] < nd_min){ break; }
                /* ND task a b len_a len_b | path codes | members of a (sip order) rank:gaps | members of b */
                fprintf(evlog, "ND %d %d %d %d %d %d ", tid(), x, y, z, m->len_a, m->len_b);
                kv_print_ints(evlog, m->path + 1, m->path[0]);
                for(int side = 0; side < 2; side++){
                        int p = side ? z : y;
                        fprintf(evlog, " |");
                        for(int j = 0; j < msa->nsip[p]; j++){
                                const struct msa_seq *s = msa->sequences[msa->sip[p][j]];
                                fprintf(evlog, " %d:", s->rank);
                                kv_print_ints(evlog, s->gaps, s->len + 1);
                        }
                }
                fputc('\n', evlog);
                break;
        }
        case KV_CANON: {
                const struct msa *msa = a;
                fprintf(evlog, "CANON");
                for(int i = 0; i < msa->numseq; i++) fprintf(evlog, " %d", msa->sequences[i]->rank);
                fputc('\n', evlog);
                break;
        }
        case KV_TASKS: {
                const struct aln_tasks *t = b;
                fprintf(evlog, "TASKS");
                for(int i = 0; i < t->n_tasks; i++) fprintf(evlog, " %d,%d,%d", t->list[i]->a, t->list[i]->b, t->list[i]->c);
                fputc('\n', evlog);
                break;
        }
        case KV_PARAM: {
                const struct aln_param *ap = b;
                union { float f; uint32_t u; } g, e, t;
                g.f = ap->gpo; e.f = ap->gpe; t.f = ap->tgpe;
                uint32_t h = 2166136261u;
                for(int i = 0; i < 23; i++) for(int j = 0; j < 23; j++){ union { float f; uint32_t u; } v; v.f = ap->subm[i][j]; h = (h ^ v.u) * 16777619u; }
                fprintf(evlog, "PARAM %d %08x %08x %08x %08x\n", x, g.u, e.u, t.u, h);
                break;
        }
        default: break;
        }
        pthread_mutex_unlock(&evmx);
#else
        (void)ev; (void)a; (void)b; (void)x; (void)y; (void)z;
#endif
}

static void hooks_on(const char *logpath, unsigned jseed)
{
        jitter_seed = jseed;
        evcounter = 0;
        evlog = NULL;
        if(logpath && strcmp(logpath, "-") != 0){ evlog = fopen(logpath, "w"); }
#ifdef KALIGN_VERIF
        kalign_verif_cb = (evlog || jseed) ? cb : NULL;
#endif
}
static void hooks_off(void)
{
#ifdef KALIGN_VERIF
        kalign_verif_cb = NULL;
#endif
        if(evlog){ fclose(evlog); evlog = NULL; }
}

static float parse_pen(const char *s){ return strtof(s, NULL); }

/* run <outfile> <format> <type> <gpo> <gpe> <tgpe> <nthreads> <evlog|-> <jitter> <infile>...
   = kalign_read_input (each file) + kalign_run + kalign_write_msa; prints rc of each stage */
static int op_run(int argc, char **argv, FILE *out)
{
        if(argc < 10) return 1;
        const char *outfile = argv[0], *fmt = argv[1];
        int type = atoi(argv[2]);
        float gpo = parse_pen(argv[3]), gpe = parse_pen(argv[4]), tgpe = parse_pen(argv[5]);
        int nthreads = atoi(argv[6]);
        struct msa *msa = NULL;
        int rc_read = OK, rc_run = FAIL, rc_write = FAIL;
        for(int i = 9; i < argc; i++){
                if(kalign_read_input(argv[i], &msa, 1) != OK){ rc_read = FAIL; break; }
        }
        int biotype = -1, aligned_in = -1, nseq = -1;
        if(rc_read == OK && msa){
                biotype = msa->biotype; aligned_in = msa->aligned; nseq = msa->numseq;
                hooks_on(argv[7], (unsigned)strtoul(argv[8], NULL, 10));
                rc_run = kalign_run(msa, nthreads, type, gpo, gpe, tgpe);
                hooks_off();
                if(rc_run == OK){
                        rc_write = kalign_write_msa(msa, (char*)outfile, (char*)fmt);
                }
        }
        fprintf(out, "read=%d run=%d write=%d biotype=%d aligned_in=%d nseq=%d alnlen=%d", rc_read, rc_run, rc_write, biotype, aligned_in, nseq,
                (msa && rc_run == OK) ? msa->alnlen : -1);
        if(msa) kalign_free_msa(msa);
        return 0;
}

/* kalign_arr <type> <gpo> <gpe> <tgpe> <nthreads> <evlog|-> <jitter> <seq>...   (array API) */
static int op_kalign_arr(int argc, char **argv, FILE *out)
{
        if(argc < 9) return 1;
        int type = atoi(argv[0]);
        float gpo = parse_pen(argv[1]), gpe = parse_pen(argv[2]), tgpe = parse_pen(argv[3]);
        int nthreads = atoi(argv[4]);
        int n = argc - 7;
        char **seqs = malloc(sizeof(char*) * n);
        int *lens = malloc(sizeof(int) * n);
        for(int i = 0; i < n; i++){
                seqs[i] = strcmp(argv[7+i], ".") == 0 ? (char*)"" : argv[7+i];
                lens[i] = (int)strlen(seqs[i]);
        }
        char **aln = NULL; int alen = 0;
        hooks_on(argv[5], (unsigned)strtoul(argv[6], NULL, 10));
        int rc = kalign(seqs, lens, n, nthreads, type, gpo, gpe, tgpe, &aln, &alen);
        hooks_off();
        fprintf(out, "rc=%d len=%d", rc, rc == OK ? alen : -1);
        if(rc == OK && aln){
                /* number of rows returned = number of non-empty inputs */
                int rows = 0;
                for(int i = 0; i < n; i++) if(lens[i] > 0) rows++;
                for(int i = 0; i < rows; i++){ fprintf(out, " %s", alen ? aln[i] : "."); free(aln[i]); }
                free(aln);
        }
        free(seqs); free(lens);
        return 0;
}

/* readfile <path>...  -> "rc=<rc> n=<numseq> aligned=<status> biotype=<b> | namehex residues gaps | ..." (kalign_read_input on each path) */
static int op_readfile(int argc, char **argv, FILE *out)
{
        if(argc < 1) return 1;
        struct msa *msa = NULL;
        int rc = OK;
        for(int i = 0; i < argc && rc == OK; i++){ rc = kalign_read_input(argv[i], &msa, 1); }
        if(rc != OK || !msa){ fprintf(out, "rc=%d", rc != OK ? 1 : 2); if(msa) kalign_free_msa(msa); return 0; }
        fprintf(out, "rc=0 n=%d aligned=%d biotype=%d", msa->numseq, msa->aligned, msa->biotype);
        for(int i = 0; i < msa->numseq; i++){
                struct msa_seq *s = msa->sequences[i];
                fputs(" | ", out);
                kv_print_hex(out, (unsigned char*)s->name, (int)strlen(s->name));
                fprintf(out, " %s ", s->len ? s->seq : ".");
                kv_print_ints(out, s->gaps, s->len + 1);
        }
        kalign_free_msa(msa);
        return 0;
}

/* writealn <outfile> <fmt> <biotype> <namehex>:<row> ...   rows = finished rows (letters and '-'), all of one length.
   builds the msa a finished kalign_run leaves behind and calls kalign_write_msa */
static int op_writealn(int argc, char **argv, FILE *out)
{
        if(argc < 4) return 1;
        int n = argc - 3;
        int biotype = atoi(argv[2]);
        struct msa *msa = NULL;
        if(alloc_msa(&msa, n) != OK) return 1;
        msa->quiet = 1;
        int alnlen = -1, bad = 0;
        for(int i = 0; i < n && !bad; i++){
                char *c = strchr(argv[3+i], ':');
                if(!c){ bad = 1; break; }
                *c = 0;
                unsigned char *nm; int nl;
                if(kv_unhex(argv[3+i], &nm, &nl)){ bad = 1; break; }
                const char *row = c + 1;
                int L = (int)strlen(row);
                if(alnlen < 0) alnlen = L; else if(L != alnlen){ bad = 1; free(nm); break; }
                struct msa_seq *s = msa->sequences[i];
                free(s->name); s->name = malloc(nl + 1 > 256 ? nl + 1 : 256); memcpy(s->name, nm, nl); s->name[nl] = 0; free(nm);
                free(s->seq); s->seq = malloc(L + 1); memcpy(s->seq, row, L + 1);
                int res = 0; for(int j = 0; j < L; j++) if(row[j] != '-') res++;
                s->len = res; s->rank = i;
        }
        if(!bad){
                msa->numseq = n;
                msa->alnlen = alnlen;
                msa->aligned = ALN_STATUS_FINAL;
                msa->biotype = biotype;
                msa->L = biotype == ALN_BIOTYPE_PROTEIN ? 23 : 5;
                int rc = kalign_write_msa(msa, argv[0], argv[1]);
                fprintf(out, "rc=%d", rc);
        }
        msa->numseq = n;
        kalign_free_msa(msa);
        return bad;
}

/* ---- handle-based API histories (C16): several msa objects alive at once ---- */
#define KV_MAXH 64
static struct msa *handles[KV_MAXH];

static int hidx(const char *s){ int h = atoi(s); return (h >= 0 && h < KV_MAXH) ? h : -1; }

/* h_read <h> <file>...   (kalign_read_input accumulating into handle h) */
static int op_h_read(int argc, char **argv, FILE *out)
{
        if(argc < 2) return 1;
        int h = hidx(argv[0]); if(h < 0) return 1;
        int rc = OK;
        for(int i = 1; i < argc && rc == OK; i++){ rc = kalign_read_input(argv[i], &handles[h], 1); }
        if(rc != OK && handles[h]){ kalign_free_msa(handles[h]); handles[h] = NULL; }
        if(!handles[h]){ fprintf(out, "rc=%d null", rc); return 0; }
        fprintf(out, "rc=%d n=%d aligned=%d biotype=%d", rc, handles[h]->numseq, handles[h]->aligned, handles[h]->biotype);
        return 0;
}
/* h_read_nofd <h> <file>   (kalign_read_input while the process may open no further file descriptor: fopen fails with EMFILE) */
static int op_h_read_nofd(int argc, char **argv, FILE *out)
{
        if(argc != 2) return 1;
        int h = hidx(argv[0]); if(h < 0) return 1;
        struct rlimit old, lim;
        if(getrlimit(RLIMIT_NOFILE, &old)){ fputs("nolimit", out); return 0; }
        lim = old; lim.rlim_cur = 0;
        setrlimit(RLIMIT_NOFILE, &lim);
        int rc = kalign_read_input(argv[1], &handles[h], 1);
        setrlimit(RLIMIT_NOFILE, &old);
        if(rc != OK && handles[h]){ kalign_free_msa(handles[h]); handles[h] = NULL; }
        if(!handles[h]){ fprintf(out, "rc=%d null", rc); return 0; }
        fprintf(out, "rc=%d n=%d aligned=%d biotype=%d", rc, handles[h]->numseq, handles[h]->aligned, handles[h]->biotype);
        return 0;
}
/* h_run <h> <type> <gpo> <gpe> <tgpe> <nthreads> */
static int op_h_run(int argc, char **argv, FILE *out)
{
        if(argc != 6) return 1;
        int h = hidx(argv[0]); if(h < 0) return 1;
        if(!handles[h]){ fputs("null", out); return 0; }
        int rc = kalign_run(handles[h], atoi(argv[5]), atoi(argv[1]), parse_pen(argv[2]), parse_pen(argv[3]), parse_pen(argv[4]));
        fprintf(out, "rc=%d alnlen=%d", rc, rc == OK ? handles[h]->alnlen : -1);
        return 0;
}
/* h_write <h> <outfile> <fmt> */
static int op_h_write(int argc, char **argv, FILE *out)
{
        if(argc != 3) return 1;
        int h = hidx(argv[0]); if(h < 0) return 1;
        if(!handles[h]){ fputs("null", out); return 0; }
        int rc = kalign_write_msa(handles[h], argv[1], argv[2]);
        fprintf(out, "rc=%d", rc);
        return 0;
}
/* h_write_stdout <h> <capture file> <fmt> : kalign_write_msa(handle, NULL, fmt) -- the alignment goes to the process's standard output, which is
   pointed at <capture file> for the duration of the call (fd 1 only; the stdio stream `stdout` itself is the library's to leave usable) */
static int op_h_write_stdout(int argc, char **argv, FILE *out)
{
        if(argc != 3) return 1;
        int h = hidx(argv[0]); if(h < 0) return 1;
        if(!handles[h]){ fputs("null", out); return 0; }
        fflush(stdout);
        int saved = dup(1);
        int fd = open(argv[1], O_WRONLY | O_CREAT | O_TRUNC, 0644);
        if(saved < 0 || fd < 0) return 1;
        dup2(fd, 1); close(fd);
        int rc = kalign_write_msa(handles[h], NULL, argv[2]);
        fflush(stdout);
        dup2(saved, 1); close(saved);
        fprintf(out, "rc=%d", rc);
        return 0;
}
/* convert_file <infile> <outfile> <fmt> : read an alignment file, linearise it the way kalign_msa_compare does for its operands (finalise_alignment when the
   reader says ALIGNED) and write it in <fmt> -> "rc=<rc> aligned_in=<status> n=<numseq>" */
static int op_convert(int argc, char **argv, FILE *out)
{
        if(argc != 3) return 1;
        struct msa *msa = NULL;
        int rc = kalign_read_input(argv[0], &msa, 1);
        if(rc != OK || !msa){ fputs("rc=1 read", out); if(msa) kalign_free_msa(msa); return 0; }
        int st = msa->aligned;
        if(msa->aligned == ALN_STATUS_ALIGNED) rc = finalise_alignment(msa);
        if(rc == OK) rc = kalign_write_msa(msa, argv[1], argv[2]);
        fprintf(out, "rc=%d aligned_in=%d n=%d", rc == OK ? 0 : 1, st, msa->numseq);
        kalign_free_msa(msa);
        return 0;
}
/* arr_detect <seq>... : kalign_arr_to_msa on the strings -> "rc=<rc> biotype=<b> n=<numseq>" (the class the in-memory entry point concludes) */
static int op_arr_detect(int argc, char **argv, FILE *out)
{
        if(argc < 1) return 1;
        int *lens = malloc(sizeof(int) * argc);
        for(int i = 0; i < argc; i++){ if(strcmp(argv[i], ".") == 0) argv[i] = (char*)""; lens[i] = (int)strlen(argv[i]); }
        struct msa *msa = NULL;
        int rc = kalign_arr_to_msa(argv, lens, argc, &msa);
        if(rc != OK || !msa){ fprintf(out, "rc=1"); }
        else { fprintf(out, "rc=0 biotype=%d n=%d", msa->biotype, msa->numseq); kalign_free_msa(msa); }
        free(lens);
        return 0;
}
/* h_compare <h1> <h2> : kalign_msa_compare(reference h1, test h2) -> rc + score bits */
static int op_h_compare(int argc, char **argv, FILE *out)
{
        if(argc != 2) return 1;
        int a = hidx(argv[0]), b = hidx(argv[1]); if(a < 0 || b < 0) return 1;
        if(!handles[a] || !handles[b]){ fputs("null", out); return 0; }
        float score = -1.0f;
        int rc = kalign_msa_compare(handles[a], handles[b], &score);
        union { float f; uint32_t u; } x; x.f = score;
        fprintf(out, "rc=%d score=%08x", rc, rc == OK ? x.u : 0u);
        return 0;
}
static int op_h_free(int argc, char **argv, FILE *out)
{
        if(argc != 1) return 1;
        int h = hidx(argv[0]); if(h < 0) return 1;
        if(handles[h]){ kalign_free_msa(handles[h]); handles[h] = NULL; }
        fputs("ok", out);
        return 0;
}

/* memuse -> number of live heap blocks (allocator interposition, harness/memcount.c; builds with -DKV_MEMCOUNT only) */
extern long kv_live_blocks;
static int op_memuse(int argc, char **argv, FILE *out)
{
        (void)argc; (void)argv;
        if(kv_live_blocks < 0) fputs("unavailable", out); else fprintf(out, "%ld", kv_live_blocks);
        return 0;
}

struct kv_op kv_ops_sys[] = {
        {"memuse", op_memuse},
        {"h_read", op_h_read},
        {"h_read_nofd", op_h_read_nofd},
        {"h_run", op_h_run},
        {"h_write", op_h_write},
        {"h_write_stdout", op_h_write_stdout},
        {"arr_detect", op_arr_detect},
        {"convert_file", op_convert},
        {"h_compare", op_h_compare},
        {"h_free", op_h_free},
        {"readfile", op_readfile},
        {"writealn", op_writealn},
        {"run", op_run},
        {"kalign_arr", op_kalign_arr},
        {NULL, NULL}
};
