/* shim: reach the static compare_pair / struct cmp_stats of msa_cmp.c */
#include "msa_cmp.c"

/* out[6] = ref_aligned, ref_gap, ident_aligned, ident_gap, test_aligned, test_gap (increments) */
int kv_compare_pair(char *a1, char *a2, char *b1, char *b2, int len_a, int len_b, uint64_t *out)
{
        struct cmp_stats st;
        memset(&st, 0, sizeof(st));
        int rc = compare_pair(a1, a2, b1, b2, len_a, len_b, &st);
        out[0] += st.ref_total_aligned_pairs; out[1] += st.ref_total_gap_pairs;
        out[2] += st.identical_aligned; out[3] += st.identical_gaps;
        out[4] += st.test_total_aligned_pairs; out[5] += st.test_total_gap_pairs;
        return rc;
}
