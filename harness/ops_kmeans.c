/* unit ops around the guide tree for >= 100 sequences: euclidean_dist.c, bisectingKmeans.c (through shim_kmeans.c /
   shim_kmeans_serial.c), pick_anchor.c, task.c (sort_tasks).

   Float vectors are ONE token: the concatenation of 8-hex-digit binary32 bit patterns (`-` = empty vector).

   edist256 <a> <b>                    a, b: same number n of floats; copied into 32-byte aligned buffers padded with 0.0F to a
                                       multiple of 8 (what d_estimation/split2 allocate); edist_256(a, b, n)      -> <bits>
   edist256p <len> <a> <b>             raw buffers (no padding added), explicit len; `fault` when 8*ceil(len/8) exceeds a buffer
   edist_serial <a> <b>                edist_serial(a, b, n)                                                      -> <bits>
   split2 <num_anchors> <seed_pick> <samples> <row>...
                                       rows: dm[0..], each `num_anchors` floats (padded with zeros like d_estimation does);
                                       samples: comma list of row indices                                        -> nl nr <score bits> <sl> | <sr>
                                       `fault`: no samples, a sample that is not a row, seed_pick >= number of samples
   split2_serial ...                   same through the copy of bisectingKmeans.c compiled without HAVE_AVX2
   kmeans_tree <numseq> <num_anchors> <row>...           numseq rows; bisecting_kmeans on samples 0..numseq-1 inside
                                       `omp parallel` + `single nowait`, label_internal, create_tasks, then sort_tasks(TASK_ORDER_TREE)
                                       -> <n_tasks> a,b,c a,b,c ... | a,b,c ...   (creation order | sorted by c)
                                       groups of < 100 samples: stand-in, see kvh_kmeans_wrap.h
   kmeans_tree_t <threads> <numseq> <num_anchors> <row>...   same with omp_set_num_threads(threads)
   kmeans_tree_serial <numseq> <num_anchors> <row>...        non-AVX copy
   pick_anchor <lens>                  fake msa with sequences[i]->len = lens[i]; pick_anchor                     -> anchors (`fault` for no sequence: stride = 0/0)
*/
#include "kvh.h"
#include "tldevel.h"
#include "msa_struct.h"
#include "task.h"
#include "euclidean_dist.h"
#include "pick_anchor.h"
#ifdef HAVE_AVX2
#include <mm_malloc.h>
#endif

int kvh_km_split2(const float* const* dm, const int* samples, int num_anchors, int num_samples, int seed_pick,
                  int* nl, int* nr, float* score, int** sl, int** sr, void** handle);
void kvh_km_free_res(void* handle);
int kvh_km_tree(int numseq, int msa_numseq, float** dm, int threads, struct aln_tasks* t);
int kvh_kms_split2(const float* const* dm, const int* samples, int num_anchors, int num_samples, int seed_pick,
                   int* nl, int* nr, float* score, int** sl, int** sr, void** handle);
void kvh_kms_free_res(void* handle);
int kvh_kms_tree(int numseq, int msa_numseq, float** dm, int threads, struct aln_tasks* t);

static int hexv(int c){ if(c>='0'&&c<='9') return c-'0'; if(c>='a'&&c<='f') return c-'a'+10; if(c>='A'&&c<='F') return c-'A'+10; return -1; }

static void* al_alloc(size_t bytes)
{
        void* p = NULL;
        if(bytes == 0) bytes = 32;
        if(posix_memalign(&p, 32, bytes)) return NULL;
        return p;
}

/* token -> n floats in a 32-byte aligned buffer of `pad8 ? roundup8(n) : n` floats (padding 0.0F); NULL = malformed */
static float* parse_f32s(const char* s, int* n, int pad8)
{
        size_t l = strlen(s);
        int cnt;
        if(strcmp(s, "-") == 0){ cnt = 0; l = 0; }
        else{
                if(l % 8) return NULL;
                cnt = (int)(l / 8);
        }
        int cap = pad8 ? ((cnt + 7) / 8) * 8 : cnt;
        float* v = al_alloc(sizeof(float) * (size_t)cap);
        for(int i = 0; i < cap; i++) v[i] = 0.0F;
        for(int i = 0; i < cnt; i++){
                uint32_t w = 0;
                for(int k = 0; k < 8; k++){
                        int h = hexv(s[8*i + k]);
                        if(h < 0){ free(v); return NULL; }
                        w = (w << 4) | (uint32_t)h;
                }
                memcpy(&v[i], &w, 4);
        }
        *n = cnt;
        return v;
}

/* NaNs are printed as the canonical quiet NaN 7fc00000: sign and payload of a NaN are not modelled (Lean's Float32.toBits
   canonicalises them too) and no kalign code path looks at them (only comparisons, which are false for every NaN) */
static void print_f32(FILE* out, float x)
{
        uint32_t w; memcpy(&w, &x, 4);
        if(x != x) w = 0x7fc00000u;
        fprintf(out, "%08x", w);
}

static int strict_nat(const char* s, int* out)
{
        if(!*s) return 1;
        long v = 0;
        for(const char* p = s; *p; p++){
                if(*p < '0' || *p > '9') return 1;
                v = v * 10 + (*p - '0');
                if(v > 100000000) return 1;
        }
        *out = (int)v;
        return 0;
}

/* `-` or digits separated by single commas */
static int strict_nats(const char* s, struct kv_ints* l)
{
        if(strcmp(s, "-") != 0){
                size_t n = strlen(s);
                if(n == 0 || s[0] == ',' || s[n-1] == ',' || strstr(s, ",,")) return 1;
                int digits = 0;
                for(const char* p = s; *p; p++){
                        if(*p == ','){ digits = 0; continue; }
                        if(*p < '0' || *p > '9') return 1;
                        if(++digits > 8) return 1;
                }
        }
        return kv_parse_ints(s, l);
}

static int op_edist256(int argc, char** argv, FILE* out)
{
#ifdef HAVE_AVX2
        if(argc != 2) return 1;
        int na, nb;
        float* a = parse_f32s(argv[0], &na, 1);
        if(!a) return 1;
        float* b = parse_f32s(argv[1], &nb, 1);
        if(!b){ free(a); return 1; }
        if(na != nb){ free(a); free(b); return 1; }
        float d = 0.0F;
        edist_256(a, b, na, &d);
        print_f32(out, d);
        free(a); free(b);
        return 0;
#else
        fputs("unavailable", out);
        return 0;
#endif
}

static int op_edist256p(int argc, char** argv, FILE* out)
{
#ifdef HAVE_AVX2
        if(argc != 3) return 1;
        int len, na, nb;
        if(strict_nat(argv[0], &len)) return 1;
        float* a = parse_f32s(argv[1], &na, 0);
        if(!a) return 1;
        float* b = parse_f32s(argv[2], &nb, 0);
        if(!b){ free(a); return 1; }
        int need = 8 * ((len + 7) / 8);
        if(na < need || nb < need){ fputs("fault", out); }
        else{
                float d = 0.0F;
                edist_256(a, b, len, &d);
                print_f32(out, d);
        }
        free(a); free(b);
        return 0;
#else
        fputs("unavailable", out);
        return 0;
#endif
}

static int op_edist_serial(int argc, char** argv, FILE* out)
{
        if(argc != 2) return 1;
        int na, nb;
        float* a = parse_f32s(argv[0], &na, 0);
        if(!a) return 1;
        float* b = parse_f32s(argv[1], &nb, 0);
        if(!b){ free(a); return 1; }
        if(na != nb){ free(a); free(b); return 1; }
        float d = 0.0F;
        edist_serial(a, b, na, &d);
        print_f32(out, d);
        free(a); free(b);
        return 0;
}

/* rows argv[0..nrows-1], each exactly `na` floats -> padded aligned rows; NULL = malformed */
static float** parse_rows(char** argv, int nrows, int na)
{
        float** dm = calloc((size_t)(nrows > 0 ? nrows : 1), sizeof(float*));
        for(int i = 0; i < nrows; i++){
                int n = 0;
                dm[i] = parse_f32s(argv[i], &n, 1);
                if(!dm[i] || n != na){
                        for(int k = 0; k <= i; k++) free(dm[k]);
                        free(dm);
                        return NULL;
                }
        }
        return dm;
}

static void free_rows(float** dm, int nrows)
{
        for(int i = 0; i < nrows; i++) free(dm[i]);
        free(dm);
}

static int split2_common(int argc, char** argv, FILE* out, int serial)
{
        if(argc < 3) return 1;
        int na, seed;
        struct kv_ints smp;
        if(strict_nat(argv[0], &na) || strict_nat(argv[1], &seed)) return 1;
        if(na < 1 || na > 64) return 1;
        if(strict_nats(argv[2], &smp)) return 1;
        int nrows = argc - 3;
        float** dm = parse_rows(argv + 3, nrows, na);
        if(!dm){ kv_free_ints(&smp); return 1; }
        int fault = (smp.n == 0) || (seed >= smp.n);
        for(int i = 0; i < smp.n; i++){ if(smp.v[i] < 0 || smp.v[i] >= nrows) fault = 1; }
        if(fault){
                fputs("fault", out);
        }else{
                int nl = 0, nr = 0; float score = 0.0F; int *sl = NULL, *sr = NULL; void* h = NULL;
                int rc = serial ? kvh_kms_split2((const float* const*)dm, smp.v, na, smp.n, seed, &nl, &nr, &score, &sl, &sr, &h)
                                : kvh_km_split2((const float* const*)dm, smp.v, na, smp.n, seed, &nl, &nr, &score, &sl, &sr, &h);
                if(rc != OK){ fputs("fault", out); }
                else{
                        fprintf(out, "%d %d ", nl, nr);
                        print_f32(out, score);
                        fputc(' ', out);
                        kv_print_ints(out, sl, nl);
                        fputs(" | ", out);
                        kv_print_ints(out, sr, nr);
                }
                if(h){ if(serial) kvh_kms_free_res(h); else kvh_km_free_res(h); }
        }
        free_rows(dm, nrows);
        kv_free_ints(&smp);
        return 0;
}

static int op_split2(int argc, char** argv, FILE* out){ return split2_common(argc, argv, out, 0); }
static int op_split2_serial(int argc, char** argv, FILE* out){ return split2_common(argc, argv, out, 1); }

static void print_tasks(FILE* out, struct aln_tasks* t)
{
        for(int i = 0; i < t->n_tasks; i++){
                fprintf(out, " %d,%d,%d", t->list[i]->a, t->list[i]->b, t->list[i]->c);
        }
}

static int tree_common(int argc, char** argv, FILE* out, int serial, int threads)
{
        if(argc < 2) return 1;
        int numseq, na;
        if(strict_nat(argv[0], &numseq) || strict_nat(argv[1], &na)) return 1;
        if(na < 1 || na > 32 || numseq < 1 || argc - 2 != numseq) return 1;
        float** dm = parse_rows(argv + 2, numseq, na);
        if(!dm) return 1;
        struct aln_tasks* t = NULL;
        if(alloc_tasks(&t, numseq) != OK){ free_rows(dm, numseq); return 1; }
        /* bisecting_kmeans computes num_anchors = MIN(32, msa->numseq): hand it a msa whose numseq is `na` */
        int rc = serial ? kvh_kms_tree(numseq, na, dm, threads, t) : kvh_km_tree(numseq, na, dm, threads, t);
        if(rc != OK){ fputs("fault", out); }
        else{
                fprintf(out, "%d", t->n_tasks);
                print_tasks(out, t);
                fputs(" |", out);
                if(t->n_tasks > 0){ sort_tasks(t, TASK_ORDER_TREE); }
                print_tasks(out, t);
        }
        free_tasks(t);
        free_rows(dm, numseq);
        return 0;
}

static int op_kmeans_tree(int argc, char** argv, FILE* out){ return tree_common(argc, argv, out, 0, 0); }
static int op_kmeans_tree_serial(int argc, char** argv, FILE* out){ return tree_common(argc, argv, out, 1, 0); }
static int op_kmeans_tree_t(int argc, char** argv, FILE* out)
{
        int th;
        if(argc < 1 || strict_nat(argv[0], &th) || th < 1 || th > 64) return 1;
        return tree_common(argc - 1, argv + 1, out, 0, th);
}

static int op_pick_anchor(int argc, char** argv, FILE* out)
{
        if(argc != 1) return 1;
        struct kv_ints lens;
        if(strict_nats(argv[0], &lens)) return 1;
        if(lens.n == 0){ fputs("fault", out); kv_free_ints(&lens); return 0; }
        struct msa msa; memset(&msa, 0, sizeof(msa));
        msa.numseq = lens.n;
        msa.quiet = 1;
        msa.sequences = calloc((size_t)lens.n, sizeof(struct msa_seq*));
        for(int i = 0; i < lens.n; i++){
                msa.sequences[i] = calloc(1, sizeof(struct msa_seq));
                msa.sequences[i]->len = lens.v[i];
        }
        int n = 0;
        int* anchors = pick_anchor(&msa, &n);
        if(!anchors){ fputs("fault", out); }
        else{ kv_print_ints(out, anchors, n); free(anchors); }
        for(int i = 0; i < lens.n; i++) free(msa.sequences[i]);
        free(msa.sequences);
        kv_free_ints(&lens);
        return 0;
}

struct kv_op kv_ops_kmeans[] = {
        {"edist256", op_edist256},
        {"edist256p", op_edist256p},
        {"edist_serial", op_edist_serial},
        {"split2", op_split2},
        {"split2_serial", op_split2_serial},
        {"kmeans_tree", op_kmeans_tree},
        {"kmeans_tree_t", op_kmeans_tree_t},
        {"kmeans_tree_serial", op_kmeans_tree_serial},
        {"pick_anchor", op_pick_anchor},
        {NULL, NULL}
};
