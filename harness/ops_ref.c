/* Independent reference for C07/C08: full-matrix three-state DP in doubles, written from the scoring rules and not from
   kalign's kernels.  It certifies a *robust* margin: kalign's forward and backward kernels charge terminal gap runs
   differently (and the meetup joins use yet another reading), so an alignment P is only called certified when
       lo(P)  >  hi(Q) + margin   for every alignment Q != P,
   where lo charges every run the most any reading charges (columns max(gpe,tgpe), open+close 2*gpo) and hi the least
   (columns min(gpe,tgpe), terminal runs free to open/close, internal runs 2*gpo - gpe + ...).  See DESIGN.md C07. */
#include "kvh.h"
#include <math.h>
#include <float.h>
#include "tldevel.h"
#include "aln_param.h"

#define NEG (-1e300)
static float bitsf(const char *s){ union { float f; uint32_t u; } x; x.u = (uint32_t)strtoul(s, NULL, 16); return x.f; }
static double mx(double a, double b){ return a > b ? a : b; }

/* refdp <biotype> <type> <gpoBits> <gpeBits> <tgpeBits> <codesA> <codesB>
   -> "cert=<margin as %.4f> cols=<column codes 0/1/2 of the hi-optimal alignment P>  lo=<..> hi=<..> alt=<..>"
   column codes as kalign's: 0 aligned, 1 gap in a (consumes b), 2 gap in b (consumes a) */
static int op_refdp(int argc, char **argv, FILE *out)
{
        if(argc != 7) return 1;
        struct kv_ints A, B;
        if(kv_parse_ints(argv[5], &A)) return 1;
        if(kv_parse_ints(argv[6], &B)){ kv_free_ints(&A); return 1; }
        int n = A.n, m = B.n;
        struct aln_param *ap = NULL;
        /* the type's own matrix and defaults from the library; the caller's overrides are applied HERE (a value >= 0 replaces that one penalty),
           not by the library's override logic */
        if(n < 1 || m < 1 || aln_param_init(&ap, atoi(argv[0]), 1, atoi(argv[1]), -1.0f, -1.0f, -1.0f) != OK){
                kv_free_ints(&A); kv_free_ints(&B); fputs("param-fail", out); return 0;
        }
        for(int i = 0; i < n; i++) if(A.v[i] < 0 || A.v[i] > 22){ n = -1; break; }
        for(int j = 0; j < m && n > 0; j++) if(B.v[j] < 0 || B.v[j] > 22){ n = -1; break; }
        if(n < 0){ aln_param_free(ap); kv_free_ints(&A); kv_free_ints(&B); return 1; }
        double gpo = ap->gpo, gpe = ap->gpe, tgpe = ap->tgpe;
        if(bitsf(argv[2]) >= 0.0f) gpo = bitsf(argv[2]);
        if(bitsf(argv[3]) >= 0.0f) gpe = bitsf(argv[3]);
        if(bitsf(argv[4]) >= 0.0f) tgpe = bitsf(argv[4]);
        /* S_T: internal run of L columns costs gpo + (L-1)*gpe + gpo; a leading or trailing run costs L*tgpe (no open/close charge).
           Every reading used by kalign's kernels/meetup deviates from S_T by: + {0,gpo} per terminal run, one extra tgpe for a terminal
           run crossing the middle row, and one join column of an internal run charged tgpe instead of gpe.
           Certificate = S_T(P) - alt_T - gpo*nterm(P) - max(0,tgpe-gpe,tgpe-gpo) - max(0,gpe-tgpe)   (proved sound for seq-seq in Lean). */
        size_t W = (size_t)m + 1, N = ((size_t)n + 1) * W;
        double *FA = malloc(sizeof(double) * N), *FG = malloc(sizeof(double) * N), *FB = malloc(sizeof(double) * N);
        double *BA = malloc(sizeof(double) * N), *BG = malloc(sizeof(double) * N), *BB = malloc(sizeof(double) * N);
#define ID(i,j) ((size_t)(i) * W + (size_t)(j))
#define TERMG(i) ((i) == 0 || (i) == n)      /* a gap-in-a run in row 0 is leading, in row n trailing */
#define TERMB(j) ((j) == 0 || (j) == m)
#define OPENG(i) (TERMG(i) ? tgpe : gpo)
#define EXTG(i)  (TERMG(i) ? tgpe : gpe)
#define CLOSEG(i) ((i) == 0 ? 0.0 : gpo)
#define OPENB(j) (TERMB(j) ? tgpe : gpo)
#define EXTB(j)  (TERMB(j) ? tgpe : gpe)
#define CLOSEB(j) ((j) == 0 ? 0.0 : gpo)
        for(int i = 0; i <= n; i++) for(int j = 0; j <= m; j++){
                double a = NEG, g = NEG, b = NEG;
                if(i == 0 && j == 0){ a = 0.0; }
                if(i > 0 && j > 0){
                        double s = ap->subm[A.v[i-1]][B.v[j-1]];
                        a = mx(FA[ID(i-1,j-1)], mx(FG[ID(i-1,j-1)] - CLOSEG(i-1), FB[ID(i-1,j-1)] - CLOSEB(j-1)));
                        if(a > NEG / 2) a += s;
                }
                if(j > 0){ g = mx(FA[ID(i,j-1)] - OPENG(i), FG[ID(i,j-1)] - EXTG(i)); if(g < NEG / 2) g = NEG; }
                if(i > 0){ b = mx(FA[ID(i-1,j)] - OPENB(j), FB[ID(i-1,j)] - EXTB(j)); if(b < NEG / 2) b = NEG; }
                FA[ID(i,j)] = a; FG[ID(i,j)] = g; FB[ID(i,j)] = b;
        }
        for(int i = n; i >= 0; i--) for(int j = m; j >= 0; j--){
                double a = NEG, g = NEG, b = NEG;
                if(i == n && j == m){ a = g = b = 0.0; }
                else{
                        double diag = NEG;
                        if(i < n && j < m) diag = ap->subm[A.v[i]][B.v[j]] + BA[ID(i+1,j+1)];
                        double gnext = (j < m) ? BG[ID(i,j+1)] : NEG;
                        double bnext = (i < n) ? BB[ID(i+1,j)] : NEG;
                        a = mx(diag, mx(gnext > NEG / 2 ? gnext - OPENG(i) : NEG, bnext > NEG / 2 ? bnext - OPENB(j) : NEG));
                        g = mx(gnext > NEG / 2 ? gnext - EXTG(i) : NEG, diag > NEG / 2 ? diag - CLOSEG(i) : NEG);
                        b = mx(bnext > NEG / 2 ? bnext - EXTB(j) : NEG, diag > NEG / 2 ? diag - CLOSEB(j) : NEG);
                }
                BA[ID(i,j)] = a; BG[ID(i,j)] = g; BB[ID(i,j)] = b;
        }
        double best = mx(FA[ID(n,m)], mx(FG[ID(n,m)], FB[ID(n,m)]));
        int *cols = malloc(sizeof(int) * (n + m + 2)); int nc = 0;
        unsigned char *onp = calloc(N * 3, 1);
        int i = 0, j = 0, st = 0;   /* st: 0 A, 1 G, 2 B */
        onp[ID(0,0) * 3 + 0] = 1;
        int okp = 1;
        double tol = 1e-7 * (fabs(best) + 1.0);
        while(!(i == n && j == m)){
                double need = (st == 0 ? BA : (st == 1 ? BG : BB))[ID(i,j)];
                int moved = 0;
                if(i < n && j < m){
                        double c = (st == 1) ? CLOSEG(i) : ((st == 2) ? CLOSEB(j) : 0.0);
                        double v = ap->subm[A.v[i]][B.v[j]] + BA[ID(i+1,j+1)] - c;
                        if(fabs(v - need) <= tol){ cols[nc++] = 0; i++; j++; st = 0; moved = 1; }
                }
                if(!moved && j < m && st != 2){
                        double v = BG[ID(i,j+1)] - (st == 1 ? EXTG(i) : OPENG(i));
                        if(fabs(v - need) <= tol){ cols[nc++] = 1; j++; st = 1; moved = 1; }
                }
                if(!moved && i < n && st != 1){
                        double v = BB[ID(i+1,j)] - (st == 2 ? EXTB(j) : OPENB(j));
                        if(fabs(v - need) <= tol){ cols[nc++] = 2; i++; st = 2; moved = 1; }
                }
                if(!moved){ okp = 0; break; }
                onp[ID(i,j) * 3 + st] = 1;
        }
        double alt = NEG;
        for(int ii = 0; ii <= n; ii++) for(int jj = 0; jj <= m; jj++){
                size_t id = ID(ii,jj);
                if(!onp[id * 3 + 0] && FA[id] > NEG / 2 && BA[id] > NEG / 2) alt = mx(alt, FA[id] + BA[id]);
                if(!onp[id * 3 + 1] && FG[id] > NEG / 2 && BG[id] > NEG / 2) alt = mx(alt, FG[id] + BG[id]);
                if(!onp[id * 3 + 2] && FB[id] > NEG / 2 && BB[id] > NEG / 2) alt = mx(alt, FB[id] + BB[id]);
        }
        int nterm = 0;
        if(nc > 0 && cols[0] != 0) nterm++;
        if(nc > 0 && cols[nc-1] != 0) nterm++;
        /* slack of the proved bound (lean/KalignModel/Props/C07Opt.lean, C07_level_bounds / C07_hirschberg_seqseq_opt):
           lower: gpo per terminal run + max(0, tgpe-gpe, tgpe-gpo) (a terminal run crossing the middle row is charged one extra tgpe);
           upper: max(0, gpe-tgpe) (a join inside an internal run may be charged tgpe instead of gpe) */
        double sl_lo = tgpe - gpe > tgpe - gpo ? tgpe - gpe : tgpe - gpo; if(sl_lo < 0) sl_lo = 0;
        double sl_hi = gpe - tgpe > 0 ? gpe - tgpe : 0;
        double lo = best - gpo * nterm - (sl_lo + sl_hi);
        if(!okp){ fputs("trace-fail", out); }
        else{
                fprintf(out, "cert=%.4f lo=%.4f hi=%.4f alt=%.4f cols=", lo - alt, lo, best, alt > NEG / 2 ? alt : -1e30);
                kv_print_ints(out, cols, nc);
        }
        free(FA); free(FG); free(FB); free(BA); free(BG); free(BB); free(cols); free(onp);
        aln_param_free(ap); kv_free_ints(&A); kv_free_ints(&B);
        return 0;
}

/* refsp <biotype> <type> <gpoBits> <gpeBits> <tgpeBits> <row>...   rows = comma separated residue codes, -1 for a gap, all of one length
   -> "sp=<%.4f>": sum over all pairs of rows of the score of the induced pairwise alignment (columns where both rows have a gap dropped) under the
   parameters aln_param_init selects for (biotype, type, overrides): substitution score per aligned pair, an internal gap run of L columns costs
   gpo + (L-1)*gpe + gpo, a leading or trailing run L*tgpe (the reading S_T of refdp) */
static int op_refsp(int argc, char **argv, FILE *out)
{
        if(argc < 7) return 1;
        int nr = argc - 5;
        struct kv_ints *R = calloc(nr, sizeof(*R));
        int bad = 0, L = -1;
        for(int r = 0; r < nr; r++){
                if(kv_parse_ints(argv[5 + r], &R[r])){ bad = 1; nr = r; break; }
                if(L < 0) L = R[r].n; else if(R[r].n != L) bad = 1;
                for(int k = 0; k < R[r].n; k++) if(R[r].v[k] < -1 || R[r].v[k] > 22) bad = 1;
        }
        struct aln_param *ap = NULL;
        if(bad || aln_param_init(&ap, atoi(argv[0]), 1, atoi(argv[1]), -1.0f, -1.0f, -1.0f) != OK){
                for(int r = 0; r < nr; r++) kv_free_ints(&R[r]);
                free(R); fputs(bad ? "bad-rows" : "param-fail", out); return 0;
        }
        double gpo = ap->gpo, gpe = ap->gpe, tgpe = ap->tgpe, sp = 0.0;
        if(bitsf(argv[2]) >= 0.0f) gpo = bitsf(argv[2]);
        if(bitsf(argv[3]) >= 0.0f) gpe = bitsf(argv[3]);
        if(bitsf(argv[4]) >= 0.0f) tgpe = bitsf(argv[4]);
        for(int x = 0; x < nr; x++) for(int y = x + 1; y < nr; y++){
                /* runs of the projected pair: state 0 aligned, 1 gap in x, 2 gap in y */
                int st = -1, run = 0, seen_any = 0;
                double sc = 0.0;
                int first_run_state = -1; int nruns = 0;
                for(int k = 0; k <= L; k++){
                        int cur;
                        if(k == L) cur = -2;
                        else{
                                int a = R[x].v[k], b = R[y].v[k];
                                if(a < 0 && b < 0) continue;
                                cur = (a >= 0 && b >= 0) ? 0 : (a < 0 ? 1 : 2);
                                if(cur == 0) sc += ap->subm[a][b];
                        }
                        if(cur != st){
                                if(st == 1 || st == 2){
                                        int leading = !seen_any;            /* nothing before this run */
                                        int trailing = (cur == -2);
                                        if(leading || trailing) sc -= run * tgpe; else sc -= 2.0 * gpo + (run - 1) * gpe;
                                        nruns++;
                                }
                                if(st >= 0) seen_any = 1;
                                st = cur; run = 0;
                        }
                        run++;
                }
                (void)first_run_state; (void)nruns;
                sp += sc;
        }
        fprintf(out, "sp=%.4f", sp);
        for(int r = 0; r < nr; r++) kv_free_ints(&R[r]);
        free(R); aln_param_free(ap);
        return 0;
}

struct kv_op kv_ops_ref[] = {
        {"refdp", op_refdp},
        {"refsp", op_refsp},
        {NULL, NULL}
};
