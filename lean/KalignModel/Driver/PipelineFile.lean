import KalignModel.Driver.Util
import KalignModel.Driver.Dp
import KalignModel.Driver.Io
import KalignModel.Driver.Pipeline
import KalignModel.Model.PipelineFile
/-!
Line-protocol op of the file-to-file pipeline model (`kalignFile`); the harness side is `harness/ops_pipefile.c`.

`kalign_file <fmt> <type> <gpoBits> <gpeBits> <tgpeBits> <file1hex> [<file2hex> …]`
  `fmt`   the `--format` argument (printable ASCII without blanks, ≤ 64 bytes), `-` = no argument,
  `type`  decimal integer in −100 … 100, at most 4 characters,
  `gpoBits gpeBits tgpeBits`  binary32 bit patterns (8 hex digits),
  `fileNhex`  the content of the N-th input file as hex, `-` = an empty file, `!` = a path that does not exist; 1..64 files.
Answer: `rc=<read>,<run>,<write> out=<hex>` (`0` OK, `1` FAIL, `-` not reached; `out=-` when nothing was written), the
run-dependent header fields masked by `maskOut` on both sides; `fault:<kind>` where the model reports behaviour the C
code does not define (never seen).

`check_format <fmt>` → `ok` | `fail`: `check_msa_format_string` (run by `main` before `run_kalign`), model `checkFormatString`.
-/
namespace Kalign.Driver
open Kalign Kalign.IO Kalign.Pipeline Kalign.PipelineFile

def fileTokOk (s : String) : Bool := pipeTokOk s && s.length ≤ 64

def parseFileTok (s : String) : Option (Option (List UInt8)) :=
  if s == "!" then some none else (unhexTR s).map some

def opKalignFile : Op
  | fmtS :: tyS :: gpo :: gpe :: tgpe :: files =>
    match pInt? tyS, parseF32? gpo, parseF32? gpe, parseF32? tgpe with
    | some ty, some gpo, some gpe, some tgpe =>
      if ty.natAbs > 100 ∨ tyS.length > 4 ∨ !fileTokOk fmtS then "bad-op"
      else if files.isEmpty ∨ files.length > 64 then "bad-op" else
      match files.mapM parseFileTok with
      | none => "bad-op"
      | some fs =>
        let fmt : Option String := if fmtS == "-" then none else some fmtS
        match kalignFile (ascii "VER") (ascii "kf_out") (ascii "DATE") fs ty gpo gpe tgpe fmt with
        | .ok b => s!"rc=0,0,0 out={hexTR (maskOut b)}"
        | .error .read => "rc=1,-,- out=-"
        | .error .noInput => "rc=0,1,- out=-"
        | .error (.run .tooFew) => "rc=0,1,- out=-"
        | .error (.run .alphabet) => "rc=0,1,- out=-"
        | .error (.run .param) => "rc=0,1,- out=-"
        | .error .format => "rc=0,0,1 out=-"
        | .error .readFault => "fault:read"
        | .error .writeFault => "fault:write"
        | .error (.run .badByte) => "fault:badByte"
        | .error (.run .tree) => "fault:tree"
        | .error (.run .fault) => "fault:align"
        | .error (.run .monitor) => "fault:monitor"
        | .error (.run .fuel) => "fault:fuel"
    | _, _, _, _ => "bad-op"
  | _ => "bad-op"

/-- `check_format <fmt>`: `check_msa_format_string` (`-` = NULL) -/
def opCheckFormat : Op
  | [f] =>
    if !fileTokOk f then "bad-op"
    else if checkFormatString (if f == "-" then none else some f) then "ok" else "fail"
  | _ => "bad-op"

def pipeFileOps : OpTable := [("kalign_file", opKalignFile), ("check_format", opCheckFormat)]

end Kalign.Driver
