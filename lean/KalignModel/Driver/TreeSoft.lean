import KalignModel.Driver.Bpm
import KalignModel.Driver.Pipeline
import KalignModel.Model.TreeSoft
/-!
Line-protocol ops of the `SoftF32` guide tree (Model/TreeSoft.lean).  Arguments and answers are those of the `Float32` ops they
mirror; the harness side is the *same* C call (alias entries in harness/ops_bpm.c, ops_pipe.c):

`dist_matrix_soft <seq>…`        = `dist_matrix` (1 … 200 code lists): the `n·n` words of `d_estimation(msa, samples, n, 1)`
`upgma_soft <n> <n*n words>`     = `upgma`: sorted task list of `upgma` + `label_internal` + `create_tasks` + `sort_tasks`
`tree_soft <seq>…`               = `tree` (1 … 99 code lists): sorted task list of `build_tree_kmeans`
`kalign_sys_soft2 <type> <gpoBits> <gpeBits> <tgpeBits> <seq>…` = `kalign_sys`; model side `kalignArrSoft2`
`f32_lenterm <s>`                `(float)(MACRO_MIN(10000.0, s) / 10000.0)` for a decimal `0 ≤ s < 2^31` (at most 10 digits): 8 hex
                                 digits; harness side: the C expression of `d_estimation` evaluated in `double` (harness/ops_f32.c);
                                 model side `lenTermS s s`.
-/
namespace Kalign.Driver
open Kalign Kalign.Pipeline

def showSoftsB (l : List SoftF32) : String := if l.isEmpty then "-" else ",".intercalate (l.map fun x => hex32b x.raw)

def opUpgmaSoft : Op
  | [n, bits] => match parseMatrix n bits with
    | some (n, rows) =>
      match upgmaS (rows.map fun r => r.map fun w => SoftF32.ofRaw w) (List.range n) with
      | some t => showTasks (tasksOf t n)
      | none => "fault"
    | none => "bad-op"
  | _ => "bad-op"

def opLenTerm : Op
  | [s] =>
    if s.length > 10 ∨ s.isEmpty ∨ !s.all Char.isDigit then "bad-op" else
    match parseNat? s with
    | some k => if k < 2147483648 then hex32b (lenTermS k k).raw else "bad-op"
    | none => "bad-op"
  | _ => "bad-op"

def opKalignSysSoft2 : Op
  | tyS :: gpo :: gpe :: tgpe :: seqs =>
    match pInt? tyS, parseSoft? gpo, parseSoft? gpe, parseSoft? tgpe with
    | some ty, some gpo, some gpe, some tgpe =>
      if ty.natAbs > 100 ∨ tyS.length > 4 then "bad-op"
      else if seqs.isEmpty ∨ seqs.length > 4000 ∨ !seqs.all pipeTokOk then "bad-op" else
      match kalignArrSoft2 (seqs.map parseRes) ty gpo gpe tgpe with
      | .ok rows =>
        match rows with
        | [] => "fault:norows"
        | r :: _ =>
          if rows.all (·.length == r.length) then
            s!"rc=0 len={r.length}" ++ String.join (rows.map fun x => " " ++ (if x.isEmpty then "." else String.ofList x))
          else "fault:ragged"
      | .error .tooFew => "rc=1 len=-1"
      | .error .alphabet => "rc=1 len=-1"
      | .error .param => "rc=1 len=-1"
      | .error .badByte => "fault:badByte"
      | .error .tree => "fault:tree"
      | .error .fault => "fault:align"
      | .error .monitor => "fault:monitor"
      | .error .fuel => "fault:fuel"
    | _, _, _, _ => "bad-op"
  | _ => "bad-op"

def treeSoftOps : OpTable := [
  ("dist_matrix_soft", opSeqs 200 fun seqs => match distMatrixS seqs with
      | some m => showSoftsB m.flatten
      | none => "fault"),
  ("upgma_soft", opUpgmaSoft),
  ("tree_soft", opSeqs 99 fun seqs => match guideTasksS seqs with
      | some ts => showTasks ts
      | none => "fault"),
  ("f32_lenterm", opLenTerm),
  ("kalign_sys_soft2", opKalignSysSoft2)]

end Kalign.Driver
