import KalignModel.Driver.PipelineFile
import KalignModel.Driver.F32
import KalignModel.Model.PipelineFileSoft
/-!
Line-protocol op of the file-to-file pipeline with the run stage on the software binary32 (`kalignFileSoft2`,
Model/PipelineFileSoft.lean).

`kalign_file_soft2 <fmt> <type> <gpoBits> <gpeBits> <tgpeBits> <file1hex> [<file2hex> …]`

Arguments and answers are exactly those of `kalign_file` (Driver/PipelineFile.lean): `rc=<read>,<run>,<write> out=<hex>`, the
run-dependent header fields masked by `maskOut`; `fault:<kind>` where the model reports behaviour the C code does not define.
The harness side is the *same* C call (alias entry in harness/ops_pipefile.c): `kalign_read_input` on every file,
`kalign_run`, `kalign_write_msa`, repeated with 4 threads and through the static `run_kalign()`.
-/
namespace Kalign.Driver
open Kalign Kalign.IO Kalign.Pipeline Kalign.PipelineFile

def opKalignFileSoft2 : Op
  | fmtS :: tyS :: gpo :: gpe :: tgpe :: files =>
    match pInt? tyS, parseSoft? gpo, parseSoft? gpe, parseSoft? tgpe with
    | some ty, some gpo, some gpe, some tgpe =>
      if ty.natAbs > 100 ∨ tyS.length > 4 ∨ !fileTokOk fmtS then "bad-op"
      else if files.isEmpty ∨ files.length > 64 then "bad-op" else
      match files.mapM parseFileTok with
      | none => "bad-op"
      | some fs =>
        let fmt : Option String := if fmtS == "-" then none else some fmtS
        match kalignFileSoft2 (ascii "VER") (ascii "kf_out") (ascii "DATE") fs ty gpo gpe tgpe fmt with
        | .ok b => s!"rc=0,0,0 out={hexTR (maskOut b)}"
        | .error .read => "rc=1,-,- out=-"
        | .error .noInput => "rc=0,1,- out=-"
        | .error (.run .tooFew) => "rc=0,1,- out=-"
        | .error (.run .alphabet) => "rc=0,1,- out=-"
        | .error (.run .param) => "rc=0,1,- out=-"
        | .error .format => "rc=0,0,1 out=-"
        | .error .readFault => "fault:read"
        | .error .writeFault => "fault:write"
        | .error (.run .badByte) => "fault:badByte"
        | .error (.run .tree) => "fault:tree"
        | .error (.run .fault) => "fault:align"
        | .error (.run .monitor) => "fault:monitor"
        | .error (.run .fuel) => "fault:fuel"
    | _, _, _, _ => "bad-op"
  | _ => "bad-op"

def pipeFileSoftOps : OpTable := [("kalign_file_soft2", opKalignFileSoft2)]

end Kalign.Driver
