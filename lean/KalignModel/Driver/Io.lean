import KalignModel.Driver.Util
import KalignModel.Model.IO.Read
import KalignModel.Model.IO.Write
/-! line-protocol ops of the file I/O slice (see harness/ops_io.c for the formats) -/
namespace Kalign.Driver
open Kalign Kalign.IO

/-- tail-recursive hex decoder (files of several 100 kB arrive as one token) -/
def unhexTR (s : String) : Option (List UInt8) :=
  if s == "-" then some [] else
  let rec go : List Char → List UInt8 → Option (List UInt8)
    | [], acc => some acc.reverse
    | [_], _ => none
    | a :: b :: rest, acc =>
      match hexVal a, hexVal b with
      | some x, some y => go rest (UInt8.ofNat (x * 16 + y) :: acc)
      | _, _ => none
  go s.toList []

def bytesToString (b : List UInt8) : String := String.ofList (b.map fun x => Char.ofNat x.toNat)

def hexTR (bs : List UInt8) : String :=
  if bs.isEmpty then "-" else
  String.ofList (bs.foldr (fun b acc => hexDigit (b.toNat / 16) :: hexDigit (b.toNat % 16) :: acc) [])

def showFreq (lf : Array Nat) : String :=
  let es := (List.range 128).filterMap fun i => if lf[i]! ≠ 0 then some s!"{i}:{lf[i]!}" else none
  if es.isEmpty then "-" else ",".intercalate es

def dumpMsa (fmt : String) (m : Msa) : String :=
  let recs := m.seqs.map fun s =>
    s!" {hexTR s.name} {if s.res.isEmpty then "." else bytesToString s.res} {showList s.gaps}"
  s!"fmt={fmt} n={m.seqs.length} aligned={m.aligned} bio={m.biotype} L={m.L} lf={showFreq (letterFreq m.seqs)} |" ++
    " ;".intercalate recs

def dumpResult (fmt : String) : ReadResult → String
  | .fault => "fault"
  | .fail => "fail"
  | .null => "null"
  | .ok m => dumpMsa fmt m

def opRead (args : List String) : String :=
  if args.isEmpty || args.length > 64 then "bad-op" else
  match args.mapM unhexTR with
  | none => "bad-op"
  | some files =>
    let fmts := ",".intercalate (files.map fun f => toString (detectFormat (splitLines f)))
    dumpResult fmts (readInputs none files)

def opReadAs : List String → String
  | [fmt, hx] =>
    if fmt ≠ "1" ∧ fmt ≠ "2" ∧ fmt ≠ "3" then "bad-op" else
    match unhexTR hx with
    | none => "bad-op"
    | some f =>
      match readAs fmt.toInt! (splitLines f) with
      | none => "fail"
      | some seqs => dumpMsa fmt (finishMsa seqs 2 255)
  | _ => "bad-op"

def opDetectFormat : List String → String
  | [hx] => match unhexTR hx with
    | none => "bad-op"
    | some f => toString (detectFormat (splitLines f))
  | _ => "bad-op"

def strBytes (s : String) : List UInt8 := s.toUTF8.toList

def fmtArg (s : String) : Option (List UInt8) := if s == "-" then none else some (strBytes s)

def opParseFormat : List String → String
  | [f] => match parseFormat (fmtArg f) with
    | some t => toString t
    | none => "fail"
  | _ => "bad-op"

def strictNat (s : String) : Option Nat :=
  if s.length < 1 || s.length > 7 || !s.all Char.isDigit then none else s.toNat?

def rowOk (r : List UInt8) : Bool := r.all fun b => isAlpha b || b == 45

def basenameOk (b : List UInt8) : Bool :=
  1 ≤ b.length && b.length ≤ 200 && b.all (fun c => c > 32 && c < 127 && c != 47) && b != [46] && b != [46, 46]

def parseRec (alnlen : Nat) (tok : String) : Option Row :=
  match tok.splitOn ":" with
  | [nm, row] =>
    match unhexTR nm with
    | none => none
    | some name =>
      let r := if row == "." then [] else strBytes row
      if name.contains 0 || !rowOk r || r.length < alnlen then none else some ⟨name, r⟩
  | _ => none

/-- `<fmt> <ver> <biotype> <L> <alnlen> <basename_hex> [<name_hex>:<row> ...]` -/
def parseWrite : List String → Option (Option (List UInt8) × List UInt8 × Alignment)
  | fmt :: ver :: bio :: L :: alnlen :: base :: recs =>
    match strictNat bio, strictNat L, strictNat alnlen, unhexTR base with
    | some bio, some L, some alnlen, some base =>
      if bio > 2 || L > 255 || alnlen > 1000000 || !basenameOk base then none else
      match recs.mapM (parseRec alnlen) with
      | none => none
      | some rows => some (fmtArg fmt, strBytes ver, ⟨rows, alnlen, bio, L, base⟩)
    | _, _, _, _ => none
  | _ => none

def dateMask : List UInt8 := ascii "DATE"

def opWrite (args : List String) : String :=
  match parseWrite args with
  | none => "bad-op"
  | some (fmt, ver, A) =>
    match writeMsa ver dateMask fmt A with
    | .fail => "fail"
    | .fault => "fault"
    | .ok b => hexTR b

def opWriteRead (args : List String) : String :=
  match parseWrite args with
  | none => "bad-op"
  | some (fmt, ver, A) =>
    match writeMsa ver dateMask fmt A with
    | .fail => "fail"
    | .fault => "fault"
    | .ok b => dumpResult (toString (detectFormat (splitLines b))) (readInputs none [b])

def opGcg : List String → String
  | [row] =>
    let r := if row == "." then [] else strBytes row
    if !rowOk r then "bad-op" else toString (gcgChecksum r r.length)
  | _ => "bad-op"

def ioOps : OpTable := [
  ("read", opRead), ("read_as", opReadAs), ("detect_format", opDetectFormat), ("parse_format", opParseFormat),
  ("write", opWrite), ("write_read", opWriteRead), ("gcg", opGcg)]

end Kalign.Driver
