import KalignModel.Driver.Util
import KalignModel.Driver.Dp
import KalignModel.Model.Kmeans
/-!
Line-protocol ops of the k-means guide-tree slice; formats are documented in `harness/ops_kmeans.c`.
A float vector is one token: concatenated 8-hex-digit binary32 bit patterns (`-` = empty).
-/
namespace Kalign.Driver
open Kalign Kalign.Kmeans

def kmVec? (s : String) : Option (Array Float32) :=
  if s == "-" then some #[] else (parseF32s s).map List.toArray

/-- pad with `0.0F` to a multiple of 8 (what `d_estimation` / `split2` allocate) -/
def kmPad8 (v : Array Float32) : Array Float32 :=
  v ++ Array.replicate ((v.size + 7) / 8 * 8 - v.size) (0 : Float32)

/-- `-` or digits separated by single commas, at most 8 digits each -/
def kmNats? (s : String) : Option (List Nat) :=
  if s == "-" then some [] else
  (s.splitOn ",").mapM fun t => if t.length ≤ 8 then pNat? t else none

def kmNat? (s : String) : Option Nat :=
  match pNat? s with
  | some v => if v ≤ 100000000 then some v else none
  | none => none

def opEdist256 : List String → String
  | [a, b] => match kmVec? a, kmVec? b with
    | some a, some b =>
      if a.size ≠ b.size then "bad-op" else
      match edist256? (kmPad8 a) (kmPad8 b) a.size with
      | some d => showF32 d
      | none => "fault"
    | _, _ => "bad-op"
  | _ => "bad-op"

def opEdist256p : List String → String
  | [len, a, b] => match kmNat? len, kmVec? a, kmVec? b with
    | some len, some a, some b =>
      match edist256? a b len with
      | some d => showF32 d
      | none => "fault"
    | _, _, _ => "bad-op"
  | _ => "bad-op"

def opEdistSerial : List String → String
  | [a, b] => match kmVec? a, kmVec? b with
    | some a, some b =>
      if a.size ≠ b.size then "bad-op" else
      match edistSerial? a b a.size with
      | some d => showF32 d
      | none => "fault"
    | _, _ => "bad-op"
  | _ => "bad-op"

/-- rows of exactly `na` floats each, padded -/
def kmRows? (na : Nat) (toks : List String) : Option (Array (Array Float32)) :=
  toks.toArray.mapM fun t => match kmVec? t with
    | some v => if v.size = na then some (kmPad8 v) else none
    | none => none

def opSplit2 (avx : Bool) : List String → String
  | na :: seed :: smp :: rows =>
    match kmNat? na, kmNat? seed, kmNats? smp with
    | some na, some seed, some smp =>
      if na < 1 ∨ na > 64 then "bad-op" else
      match kmRows? na rows with
      | none => "bad-op"
      | some dm =>
        match split2 avx dm smp na seed with
        | none => "fault"
        | some r =>
          s!"{r.sl.length} {r.sr.length} {showF32 r.score} {showList r.sl} | {showList r.sr}"
    | _, _, _ => "bad-op"
  | _ => "bad-op"

def showTasksk (ts : List (Nat × Nat × Nat)) : String :=
  String.join (ts.map fun (a, b, c) => s!" {a},{b},{c}")

def opKmeansTree (avx : Bool) : List String → String
  | numseq :: na :: rows =>
    match kmNat? numseq, kmNat? na with
    | some numseq, some na =>
      if na < 1 ∨ na > 32 ∨ numseq < 1 ∨ rows.length ≠ numseq then "bad-op" else
      match kmRows? na rows with
      | none => "bad-op"
      | some dm =>
        match buildTreeTasks avx dm na caterpillar numseq with
        | .error _ => "fault"
        | .ok ts => s!"{ts.length}{showTasksk ts} |{showTasksk (sortTasks ts)}"
    | _, _ => "bad-op"
  | _ => "bad-op"

/-- the thread count is not an input of the model -/
def opKmeansTreeT : List String → String
  | th :: rest =>
    match kmNat? th with
    | some th => if th < 1 ∨ th > 64 then "bad-op" else opKmeansTree true rest
    | none => "bad-op"
  | _ => "bad-op"

def opPickAnchor : List String → String
  | [lens] => match kmNats? lens with
    | some lens => match pickAnchors lens with
      | some a => showList a
      | none => "fault"
    | none => "bad-op"
  | _ => "bad-op"

def kmeansOps : OpTable := [
  ("edist256", opEdist256), ("edist256p", opEdist256p), ("edist_serial", opEdistSerial),
  ("split2", opSplit2 true), ("split2_serial", opSplit2 false),
  ("kmeans_tree", opKmeansTree true), ("kmeans_tree_t", opKmeansTreeT), ("kmeans_tree_serial", opKmeansTree false),
  ("pick_anchor", opPickAnchor)]

end Kalign.Driver
