/-! shared parsing/printing helpers of the line protocol -/
namespace Kalign.Driver

abbrev Op := List String → String
abbrev OpTable := List (String × Op)

def parseNat? (s : String) : Option Nat := s.toNat?
def parseInt? (s : String) : Option Int := s.toInt?

def parseNats (s : String) : Option (List Nat) :=
  if s == "-" then some [] else (s.splitOn ",").mapM parseNat?
def parseInts (s : String) : Option (List Int) :=
  if s == "-" then some [] else (s.splitOn ",").mapM parseInt?

def showList {β} [ToString β] (l : List β) : String :=
  if l.isEmpty then "-" else ",".intercalate (l.map toString)

def parseRes (s : String) : List Char := if s == "." then [] else s.toList

def showRow (r : List (Option Char)) : String :=
  let s := String.ofList (r.map fun | some c => c | none => '-')
  if s.isEmpty then "." else s


/-- hex string -> bytes (`-` = empty) -/
def hexVal (c : Char) : Option Nat :=
  if '0' ≤ c ∧ c ≤ '9' then some (c.toNat - '0'.toNat)
  else if 'a' ≤ c ∧ c ≤ 'f' then some (c.toNat - 'a'.toNat + 10)
  else if 'A' ≤ c ∧ c ≤ 'F' then some (c.toNat - 'A'.toNat + 10)
  else none

def unhex (s : String) : Option (List UInt8) :=
  if s == "-" then some [] else
  let rec go : List Char → Option (List UInt8)
    | [] => some []
    | [_] => none
    | a :: b :: rest => do
      let x ← hexVal a
      let y ← hexVal b
      let r ← go rest
      pure (UInt8.ofNat (x * 16 + y) :: r)
  go s.toList

def hexDigit (n : Nat) : Char := if n < 10 then Char.ofNat (48 + n) else Char.ofNat (87 + n)

def hex (bs : List UInt8) : String :=
  if bs.isEmpty then "-" else
  String.ofList (bs.flatMap fun b => [hexDigit (b.toNat / 16), hexDigit (b.toNat % 16)])

end Kalign.Driver
