import KalignModel.Driver.Util
import KalignModel.Model.Bpm
import KalignModel.Model.Dist
import KalignModel.Model.Tree
import KalignModel.Model.DistExact
/-! ops of slice B: bit-parallel edit distance, pairwise distances, UPGMA guide tree -/
namespace Kalign.Driver
open Kalign

/-- code list (`uint8_t` values) -/
def parseCodes (s : String) : Option (List Nat) :=
  (parseNats s).bind fun l => if l.all (· < 256) then some l else none

def hex32b (n : Nat) : String :=
  String.ofList ((List.range 8).map fun i => hexDigit ((n / 16 ^ (7 - i)) % 16))

def hexWord? (s : String) : Option Nat :=
  if s.length ≠ 8 then none else
  s.toList.foldlM (fun acc c => (hexVal c).map fun v => acc * 16 + v) 0

def parseWords (s : String) : Option (List Nat) :=
  if s == "-" then some [] else (s.splitOn ",").mapM hexWord?

def showF32b (x : Float32) : String := hex32b x.toBits.toNat
def showF32sb (l : List Float32) : String := if l.isEmpty then "-" else ",".intercalate (l.map showF32b)

def showOpt {β} [ToString β] : Option β → String
  | some x => toString x
  | none => "fault"

def showTasks (ts : List Task) : String :=
  if ts.isEmpty then "-" else " ".intercalate (ts.map fun t => s!"{t.a},{t.b},{t.c}")

def op2 (f : List Nat → List Nat → String) : Op
  | [t, p] => match parseCodes t, parseCodes p with
    | some t, some p => f t p
    | _, _ => "bad-op"
  | _ => "bad-op"

def anyBig (l : List Nat) : Bool := l.any (fun c => decide (13 ≤ c))

/-- exact value of a finite binary32 bit pattern, times 2^149 -/
def f32Exact (w : Nat) : Int :=
  let sign := w / 2 ^ 31
  let e := (w / 2 ^ 23) % 256
  let mant := w % 2 ^ 23
  let mag : Nat := if e = 0 then mant else (mant + 2 ^ 23) * 2 ^ (e - 1)
  if sign = 1 then -(mag : Int) else mag

/-- matrices accepted by the `upgma` ops: `n ≥ 1`, `n*n` finite words of magnitude at most 1e30 -/
def parseMatrix (n : String) (bits : String) : Option (Nat × List (List Nat)) :=
  match parseNat? n, parseWords bits with
  | some n, some ws =>
    if n = 0 ∨ n > 200 ∨ ws.length ≠ n * n ∨ ws.any (fun w => decide (w % 2 ^ 31 > 0x7149f2ca)) then none
    else some (n, (List.range n).map fun i => (ws.drop (i * n)).take n)
  | _, _ => none

def opUpgma : Op
  | [n, bits] => match parseMatrix n bits with
    | some (n, rows) =>
      match upgma (rows.map fun r => r.map fun w => Float32.ofBits w.toUInt32) (List.range n) with
      | some t => showTasks (tasksOf t n)
      | none => "fault"
    | none => "bad-op"
  | _ => "bad-op"

def opUpgmaExact : Op
  | [n, bits] => match parseMatrix n bits with
    | some (n, rows) =>
      let dm : Nat → Nat → Int := fun i j => f32Exact ((rows.getD i []).getD j 0)
      match upgmaExact n dm (f32Exact 0x3a83126f) with
      | some t => showTasks (tasksOf t n)
      | none => "fault"
    | none => "bad-op"
  | _ => "bad-op"

def opSeqs (maxN : Nat) (f : List (List Nat) → String) : Op := fun args =>
  match args.mapM parseCodes with
  | some seqs => if seqs.isEmpty ∨ seqs.length > maxN then "bad-op" else f seqs
  | none => "bad-op"

def bpmOps : OpTable := [
  ("bpm_block", op2 fun t p => showOpt (bpmBlock t p)),
  ("bpm", op2 fun t p => showOpt (bpm64 t p)),
  ("bpm_256", op2 fun t p => showOpt (bpm256 t p)),
  ("bpm_256_ub", op2 fun _ p => if bpm256ShiftUB p then "ub" else "ok"),
  ("dyn_256", op2 fun t p => showOpt (dyn256 t p)),
  ("sellers", op2 fun t p => toString (sellers p t)),
  ("bpm_block_dp", op2 fun t p => if anyBig t then "fault" else toString (sellers (p.take 1024) t)),
  ("dp_bpm_block", op2 fun t p => showOpt (bpmBlock t p)),
  ("calc_distance", op2 fun a b => match calcDistance a b with
      | some d => showF32b d
      | none => "fault"),
  ("dist_matrix", opSeqs 200 fun seqs => match distMatrix seqs with
      | some m => showF32sb m.flatten
      | none => "fault"),
  ("upgma", opUpgma),
  ("upgma_exact", opUpgmaExact),
  ("tree_exact", opSeqs 99 fun seqs => if seqs.any anyBig then "fault" else
      match upgmaExact seqs.length (distExact seqs) 10 with
      | some t => showTasks (tasksOf t seqs.length)
      | none => "fault"),
  ("tree", opSeqs 99 fun seqs => match guideTasks seqs with
      | some ts => showTasks ts
      | none => "fault")]

end Kalign.Driver
