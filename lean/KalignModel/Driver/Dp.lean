import KalignModel.Driver.Util
import KalignModel.Model.DoAlign
/-!
Line-protocol ops of the dynamic-programming slice; formats are documented in `harness/ops_dp.c`.
-/
namespace Kalign.Driver
open Kalign

/-! ### floats as bit patterns -/

def hex32 (w : UInt32) : String :=
  let n := w.toNat
  String.ofList ((List.range 8).map fun k => hexDigit ((n >>> (4 * (7 - k))) % 16))

def showF32 (x : Float32) : String := hex32 x.toBits

/-- `8n` hex digits -> `n` floats -/
def parseF32sList (cs : List Char) : Option (List Float32) :=
  let rec go : List Char → Nat → Nat → List Float32 → Option (List Float32)
    | [], 0, _, acc => some acc.reverse
    | [], _, _, _ => none
    | c :: rest, k, w, acc =>
      match hexVal c with
      | none => none
      | some v =>
        let w := w * 16 + v
        if k = 7 then go rest 0 0 (Float32.ofBits (UInt32.ofNat w) :: acc) else go rest (k + 1) w acc
  go cs 0 0 []

def parseF32s (s : String) : Option (List Float32) := parseF32sList s.toList

def parseF32? (s : String) : Option Float32 :=
  if s.length ≠ 8 then none else
  match parseF32s s with
  | some [x] => some x
  | _ => none

def showF32s (xs : Array Float32) : String :=
  if xs.isEmpty then "-" else String.join (xs.toList.map showF32)

def fnv (xs : Array Float32) : UInt32 :=
  xs.foldl (fun h x => (h ^^^ x.toBits) * 16777619) 2166136261

/-- strict decimal integer (optional leading `-`) -/
def pInt? (s : String) : Option Int :=
  let digs := fun (t : String) => !t.isEmpty && t.all Char.isDigit
  if digs s then s.toInt?
  else if s.startsWith "-" && digs (s.drop 1).toString then s.toInt?
  else none

def pNat? (s : String) : Option Nat := if !s.isEmpty && s.all Char.isDigit then s.toNat? else none

/-- codes list: digits and commas only, `-` = empty, all `< 23` -/
def pCodes? (s : String) : Option (Array Nat) :=
  if s == "-" then some #[] else
  match (s.splitOn ",").mapM pNat? with
  | some l => if l.all (· < 23) then some l.toArray else none
  | none => none

def pNatList? (s : String) : Option (List Nat) :=
  if s == "-" then some [] else (s.splitOn ",").mapM pNat?

inductive PRes (β : Type) where
  | ok (x : β)
  | bad
  | paramFail

/-- `P` = biotype type gpo gpe tgpe -/
def pParam (a : List String) : PRes (AlnParam Float32) :=
  match a with
  | [bt, ty, gpo, gpe, tgpe] =>
    match pInt? bt, pInt? ty, parseF32? gpo, parseF32? gpe, parseF32? tgpe with
    | some bt, some ty, some gpo, some gpe, some tgpe =>
      if bt < 0 ∨ bt > 2 ∨ ty ∉ [-1, 0, 1, 2, 3, 4, 5, 6, 99] then .bad else
      match paramOfTable bt.toNat ty gpo gpe tgpe with
      | some ap => .ok ap
      | none => .paramFail
    | _, _, _, _, _ => .bad
  | _ => .bad

/-! ### operands -/

structure Opnd where
  kind : Char
  len : Nat
  nsip : Nat
  seq : Array Nat
  prof : Array Float32

/-- profile of the chain `((s0+s1)+s2)+…` through `doAlign` (no task is the last one) -/
def chainProfile (ap : AlnParam Float32) (ss : List (Array Nat)) : Option (Nat × Array Float32) := do
  let n := ss.length
  let st0 : AlnState Float32 := AlnState.init ss.toArray
  let (st, cur) ← (List.range' 1 (n - 1)).foldlM (fun (p : AlnState Float32 × Nat) i => do
      let (st', _) ← doAlign .parallel ap p.1 p.2 i (n + i - 1) false
      pure (st', n + i - 1)) (st0, 0)
  let prof ← st.profile.getD cur none
  pure (st.plen.getD cur 0, prof)

/-- `none` = bad-op, `some none` = fault while building a group -/
def pOpnd (ap : AlnParam Float32) (tok : String) : Option (Option Opnd) :=
  let body := (tok.drop 1).toString
  if tok.startsWith "S" then
    (pCodes? body).map fun s => some { kind := 'S', len := s.size, nsip := 1, seq := s, prof := makeProfile ap s }
  else if tok.startsWith "R" then
    match body.splitOn ":" with
    | [ns, hx] =>
      if ns.length > 8 then none else
      match pNat? ns, parseF32s hx with
      | some ns, some fl =>
        if fl.length % 64 ≠ 0 ∨ fl.length < 128 then none
        else some (some { kind := 'R', len := fl.length / 64 - 2, nsip := ns, seq := #[], prof := fl.toArray })
      | _, _ => none
    | _ => none
  else if tok.startsWith "G" then
    match (body.splitOn "/").mapM pCodes? with
    | some ss =>
      if ss.length < 2 ∨ ss.any (·.size < 1) then none else
      match chainProfile ap ss with
      | some (len, prof) => some (some { kind := 'G', len := len, nsip := ss.length, seq := #[], prof := prof })
      | none => some none
    | none => none
  else none

def Opnd.prepare (o : Opnd) (otherNsip : Nat) : Opnd :=
  if o.kind == 'G' then { o with prof := setGapPenalties o.prof otherNsip } else o

structure DpCtx where
  ap : AlnParam Float32
  ops : Operands Float32
  lenA : Nat
  lenB : Nat

/-- `FAM P OPND OPND sip` (9 tokens) -/
def pCtx (a : List String) : PRes DpCtx :=
  match a with
  | [fam, bt, ty, gpo, gpe, tgpe, oa, ob, sip] =>
    if fam ∉ ["ss", "sp", "pp"] then .bad else
    match pNat? sip with
    | none => .bad
    | some sip =>
      if sip > 1000000 then .bad else
      match pParam [bt, ty, gpo, gpe, tgpe] with
      | .bad => .bad
      | .paramFail => .paramFail
      | .ok ap =>
        match pOpnd ap oa, pOpnd ap ob with
        | some (some A), some (some B) =>
          if (fam == "ss" && (A.kind != 'S' || B.kind != 'S')) || (fam == "sp" && B.kind != 'S') then .bad
          else if A.len < 1 ∨ B.len < 1 then .bad
          else
            let A' := A.prepare B.nsip
            let B' := B.prepare A.nsip
            let ops : Operands Float32 :=
              if fam == "ss" then .seqseq A.seq B.seq
              else if fam == "sp" then .seqprof A'.prof B.seq sip
              else .profprof A'.prof B'.prof
            .ok { ap := ap, ops := ops, lenA := A.len, lenB := B.len }
        | _, _ => .bad
  | _ => .bad

def pState (s : String) : Option (States Float32) :=
  if s.length ≠ 24 then none else
  match parseF32s s with
  | some [a, ga, gb] => some ⟨a, ga, gb⟩
  | _ => none

def showCells (cs : List (States Float32)) : String :=
  ",".intercalate (cs.map fun c => showF32 c.a ++ showF32 c.ga ++ showF32 c.gb)

def pCells (s : String) (n : Nat) : Option (List (States Float32)) :=
  if s.length ≠ 24 * n then none else
  match parseF32s s with
  | some fl =>
    let rec grp : List Float32 → List (States Float32)
      | a :: ga :: gb :: rest => ⟨a, ga, gb⟩ :: grp rest
      | _ => []
    some (grp fl)
  | none => none

/-- `starta enda startb endb` inside the operands; `needB` = non-degenerate in b -/
def pRect (a : List String) (c : DpCtx) (needB : Bool) : Option (Nat × Nat × Nat × Nat) :=
  -- "L" as enda / endb stands for len_a / len_b
  let a := match a with
    | [sa, ea, sb, eb] => [sa, if ea == "L" then toString c.lenA else ea, sb, if eb == "L" then toString c.lenB else eb]
    | _ => a
  match a.mapM pInt? with
  | some [sa, ea, sb, eb] =>
    if sa < 0 ∨ sa > ea ∨ ea > c.lenA ∨ sb < 0 ∨ eb > c.lenB then none
    else if (if needB then sb ≥ eb else sb > eb) then none
    else some (sa.toNat, ea.toNat, sb.toNat, eb.toNat)
  | _ => none

/-! ### ops -/

def opMakeProfile : Op
  | [bt, ty, gpo, gpe, tgpe, o] =>
    match pParam [bt, ty, gpo, gpe, tgpe] with
    | .bad => "bad-op"
    | .paramFail => "param-fail"
    | .ok ap =>
      if !o.startsWith "S" then "bad-op" else
      match pOpnd ap o with
      | some (some o) => showF32s o.prof
      | _ => "bad-op"
  | _ => "bad-op"

def opSetGap : Op
  | [bt, ty, gpo, gpe, tgpe, o, nsip] =>
    match pNat? nsip with
    | none => "bad-op"
    | some nsip =>
      if nsip > 1000000 then "bad-op" else
      match pParam [bt, ty, gpo, gpe, tgpe] with
      | .bad => "bad-op"
      | .paramFail => "param-fail"
      | .ok ap =>
        match pOpnd ap o with
        | some (some o) => showF32s (setGapPenalties o.prof nsip)
        | _ => "bad-op"
  | _ => "bad-op"

def opUpdate : Op
  | [bt, ty, gpo, gpe, tgpe, oa, ob, codes, sipa, sipb, full] =>
    match pNat? sipa, pNat? sipb, pNat? full, pNatList? codes with
    | some sipa, some sipb, some full, some codes =>
      if sipa > 1000000 ∨ sipb > 1000000 ∨ full > 1 then "bad-op" else
      match pParam [bt, ty, gpo, gpe, tgpe] with
      | .bad => "bad-op"
      | .paramFail => "param-fail"
      | .ok ap =>
        match pOpnd ap oa, pOpnd ap ob with
        | some (some A), some (some B) =>
          let A := A.prepare B.nsip
          let B := B.prepare A.nsip
          match updateN ap A.prof B.prof codes sipa sipb with
          | some p => if full == 1 then showF32s p else hex32 (fnv p)
          | none => "fault"
        | _, _ => "bad-op"
    | _, _, _, _ => "bad-op"
  | _ => "bad-op"

def opKernel (backward : Bool) : Op := fun a =>
  if a.length ≠ 14 then "bad-op" else
  match pState (a.getD 13 "") with
  | none => "bad-op"
  | some st =>
    match pCtx (a.take 9) with
    | .bad => "bad-op"
    | .paramFail => "param-fail"
    | .ok c =>
      match pRect ((a.drop 9).take 4) c true with
      | none => "bad-op"
      | some (sa, ea, sb, eb) =>
        let r : Rect := ⟨sa, ea, sb, eb, c.lenB⟩
        showCells (if backward then kBackward c.ap c.ops r st else kForward c.ap c.ops r st)

def showMeet (r : MeetResult Float32) : String := s!"{r.meet} {r.transition} {showF32 r.score}"

def opMeet : Op := fun a =>
  if a.length ≠ 14 then "bad-op" else
  match pInt? (a.getD 9 ""), pInt? (a.getD 10 ""), pInt? (a.getD 11 "") with
  | some sb, some eb, some mid =>
    match pCtx (a.take 9) with
    | .bad => "bad-op"
    | .paramFail => "param-fail"
    | .ok c =>
      if sb < 0 ∨ sb ≥ eb ∨ eb > c.lenB ∨ mid < 0 ∨ mid > c.lenA then "bad-op" else
      let n := (eb - sb).toNat + 1
      match pCells (a.getD 12 "") n, pCells (a.getD 13 "") n with
      | some fs, some bs =>
        let r : Rect := ⟨0, c.lenA, sb.toNat, eb.toNat, c.lenB⟩
        showMeet (kMeetup c.ap c.ops r mid.toNat fs bs)
      | _, _ => "bad-op"
  | _, _, _ => "bad-op"

def opStep : Op := fun a =>
  if a.length ≠ 15 then "bad-op" else
  match pState (a.getD 13 ""), pState (a.getD 14 "") with
  | some f0, some b0 =>
    match pCtx (a.take 9) with
    | .bad => "bad-op"
    | .paramFail => "param-fail"
    | .ok c =>
      match pRect ((a.drop 9).take 4) c true with
      | none => "bad-op"
      | some (sa, ea, sb, eb) =>
        if sa ≥ ea then "bad-op" else
        let mid := (ea - sa) / 2 + sa
        let fs := kForward c.ap c.ops ⟨sa, mid, sb, eb, c.lenB⟩ f0
        let bs := kBackward c.ap c.ops ⟨mid, ea, sb, eb, c.lenB⟩ b0
        showMeet (kMeetup c.ap c.ops ⟨sa, mid, sb, eb, c.lenB⟩ mid fs bs)
  | _, _ => "bad-op"

def showTrace (t : List (TraceEntry Float32)) : String :=
  if t.isEmpty then "-" else
  ";".intercalate (t.map fun e =>
    s!"{e.starta}:{e.enda}:{e.startb}:{e.endb}:{e.meet}:{e.transition}:{showF32 e.score}")

def pKind : String → Option Kind
  | "A" => some .A
  | "GA" => some .GA
  | "GB" => some .GB
  | _ => none

def opRunner : Op := fun a =>
  if a.length ≠ 17 then "bad-op" else
  let entry? : Option Entry := match a.getD 0 "" with
    | "par" => some .parallel | "ser" => some .serial | _ => none
  match entry?, pKind (a.getD 14 ""), pKind (a.getD 15 ""), pNat? (a.getD 16 "") with
  | some entry, some fk, some bk, some mon =>
    if mon > 1 then "bad-op" else
    match pCtx ((a.drop 1).take 9) with
    | .bad => "bad-op"
    | .paramFail => "param-fail"
    | .ok c =>
      match pRect ((a.drop 10).take 4) c false with
      | none => "bad-op"
      | some (sa, ea, sb, eb) =>
        let K := realKernels c.ap c.ops c.lenA c.lenB
        let m0 : Mem (Array (States Float32)) Float32 := initMem c.lenA c.lenB
        let m0 := ((m0.setRect sa ea sb eb).setF K fk).setB K bk
        let m := alnRun entry c.ap c.ops c.lenA c.lenB m0
        if m.fault then "fault" else
        showList (m.pathEntries c.lenA) ++ " " ++ showTrace m.trace.reverse ++
          (if mon == 1 then (if m.mon then " mon=1" else " mon=0") else "")
  | _, _, _, _ => "bad-op"

def opAlign : Op := fun a =>
  match a with
  | par :: bt :: ty :: gpo :: gpe :: tgpe :: n :: rest =>
    match pNat? par, pNat? n with
    | some par, some n =>
      if par > 1 ∨ n < 2 ∨ n > 64 ∨ rest.length ≠ n + 1 then "bad-op" else
      match (rest.getD n "").splitOn "," |>.mapM pNat? with
      | none => "bad-op"
      | some tl =>
        let nt := tl.length / 2
        if tl.length % 2 ≠ 0 ∨ nt < 1 ∨ nt > n - 1 then "bad-op" else
        let tasks := (List.range nt).map fun k => (tl.getD (2 * k) 0, tl.getD (2 * k + 1) 0)
        -- every operand exists and is used once
        let okTasks := (tasks.zipIdx.all fun ((x, y), k) => x ≠ y ∧ x < n + k ∧ y < n + k) &&
          (tasks.flatMap fun (x, y) => [x, y]).Nodup
        if !okTasks then "bad-op" else
        match pParam [bt, ty, gpo, gpe, tgpe] with
        | .bad => "bad-op"
        | .paramFail => "param-fail"
        | .ok ap =>
          match (rest.take n).mapM pCodes? with
          | none => "bad-op"
          | some seqs =>
            if seqs.any (·.size < 1) then "bad-op" else
            let entry := Entry.parallel
            let st0 : AlnState Float32 := AlnState.init seqs.toArray
            let res := tasks.zipIdx.foldlM (fun (p : AlnState Float32 × List String) ((x, y), k) => do
              let (st', o) ← doAlign entry ap p.1 x y (n + k) (k + 1 == nt)
              let h := match st'.profile.getD (n + k) none with
                | some pr => hex32 (fnv pr)
                | none => "-"
              let s := showList o.rawPath ++ "/" ++ showList o.codes ++ "/" ++ h ++ "/" ++ showTrace o.trace ++
                (if o.mon then "/mon=1" else "/mon=0")
              pure (st', p.2 ++ [s])) (st0, [])
            match res with
            | some (_, out) => " ".intercalate out
            | none => "fault"
    | _, _ => "bad-op"
  | _ => "bad-op"

def dpOps : OpTable := [
  ("dp_make_profile", opMakeProfile), ("dp_set_gap", opSetGap), ("dp_update", opUpdate),
  ("dp_fwd", opKernel false), ("dp_bwd", opKernel true), ("dp_meet", opMeet), ("dp_step", opStep),
  ("dp_runner", opRunner), ("dp_align", opAlign)]

end Kalign.Driver
