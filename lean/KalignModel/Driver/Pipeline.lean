import KalignModel.Driver.Util
import KalignModel.Driver.Dp
import KalignModel.Model.Pipeline
import KalignModel.Model.PipelineSoft
import KalignModel.Driver.F32
/-!
Line-protocol op of the composed pipeline (system-level correspondence); the harness side is
`harness/ops_pipe.c`.

`kalign_sys <type> <gpoBits> <gpeBits> <tgpeBits> <seq>…`
  `type`  decimal integer in −100 … 100, at most 4 characters (the `type` argument of `kalign()`),
  `gpoBits gpeBits tgpeBits`  binary32 bit patterns (8 hex digits) of the three penalty arguments,
  `seq`   residues (printable ASCII without blanks), `.` = empty sequence; at most 4000 sequences.
Answer: `rc=0 len=<alnlen> <row>…` (rows of the non-empty inputs in input order) or `rc=1 len=-1`;
`fault:<kind>` where the model reports behaviour the C code does not define (never seen).
`kalign_model` is a model-side alias of the same op.

`kalign_sys_soft …` same arguments and answers; the model side runs `kalignArrSoft` (all DP scores in the software binary32
`SoftF32`, Model/PipelineSoft.lean), the harness side is the same `kalign()` call.
-/
namespace Kalign.Driver
open Kalign Kalign.Pipeline

def pipeTokOk (s : String) : Bool := !s.isEmpty && s.all fun c => 33 ≤ c.toNat && c.toNat ≤ 126

def opKalignSys : Op
  | tyS :: gpo :: gpe :: tgpe :: seqs =>
    match pInt? tyS, parseF32? gpo, parseF32? gpe, parseF32? tgpe with
    | some ty, some gpo, some gpe, some tgpe =>
      if ty.natAbs > 100 ∨ tyS.length > 4 then "bad-op"
      else if seqs.isEmpty ∨ seqs.length > 4000 ∨ !seqs.all pipeTokOk then "bad-op" else
      match kalignArr (seqs.map parseRes) ty gpo gpe tgpe with
      | .ok rows =>
        match rows with
        | [] => "fault:norows"
        | r :: _ =>
          if rows.all (·.length == r.length) then
            s!"rc=0 len={r.length}" ++ String.join (rows.map fun x => " " ++ (if x.isEmpty then "." else String.ofList x))
          else "fault:ragged"
      | .error .tooFew => "rc=1 len=-1"
      | .error .alphabet => "rc=1 len=-1"
      | .error .param => "rc=1 len=-1"
      | .error .badByte => "fault:badByte"
      | .error .tree => "fault:tree"
      | .error .fault => "fault:align"
      | .error .monitor => "fault:monitor"
      | .error .fuel => "fault:fuel"
    | _, _, _, _ => "bad-op"
  | _ => "bad-op"

def opKalignSysSoft : Op
  | tyS :: gpo :: gpe :: tgpe :: seqs =>
    match pInt? tyS, parseSoft? gpo, parseSoft? gpe, parseSoft? tgpe with
    | some ty, some gpo, some gpe, some tgpe =>
      if ty.natAbs > 100 ∨ tyS.length > 4 then "bad-op"
      else if seqs.isEmpty ∨ seqs.length > 4000 ∨ !seqs.all pipeTokOk then "bad-op" else
      match kalignArrSoft (seqs.map parseRes) ty gpo gpe tgpe with
      | .ok rows =>
        match rows with
        | [] => "fault:norows"
        | r :: _ =>
          if rows.all (·.length == r.length) then
            s!"rc=0 len={r.length}" ++ String.join (rows.map fun x => " " ++ (if x.isEmpty then "." else String.ofList x))
          else "fault:ragged"
      | .error .tooFew => "rc=1 len=-1"
      | .error .alphabet => "rc=1 len=-1"
      | .error .param => "rc=1 len=-1"
      | .error .badByte => "fault:badByte"
      | .error .tree => "fault:tree"
      | .error .fault => "fault:align"
      | .error .monitor => "fault:monitor"
      | .error .fuel => "fault:fuel"
    | _, _, _, _ => "bad-op"
  | _ => "bad-op"

def pipelineOps : OpTable := [("kalign_sys", opKalignSys), ("kalign_model", opKalignSys), ("kalign_sys_soft", opKalignSysSoft)]

end Kalign.Driver
