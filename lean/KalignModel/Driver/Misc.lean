import KalignModel.Driver.Util
import KalignModel.Model.Cmp
import KalignModel.Model.Canon
/-!
Ops of slice H (alignment comparison, canonical order).

* `compare_pair rowA1 rowA2 rowB1 rowB2` -> `<rc> refAl,refGap,identAl,identGap,testAl,testGap` | `fault`
* `msa_compare nR nameR:rowR .. nT nameT:rowT ..` -> `0 <score bits> <six counters>` | `1 - -` | `fault`
* `sort_len_name len:namehex ..` -> resulting order as input indices
* `cmp_len_name len:namehex len:namehex` -> value returned by `sort_by_len_name`
* `essential_check len ..` / `essential_check1 len ..` -> `<rc> <kept> <tail> <ranks>` | `1 unchanged`

rows: printable ASCII without blanks, the token `.` is the empty row; names: hex, `-` = empty, no 00.
-/
namespace Kalign.Driver
open Kalign

def parseRow (s : String) : Option Row :=
  if s == "." then some [] else
  if s.toList.all (fun c => 0x21 ≤ c.toNat ∧ c.toNat ≤ 0x7e) then some s.toList else none

def parseName (s : String) : Option Name :=
  match unhex s with
  | some bs => if bs.all (· ≠ 0) then some bs else none
  | none => none

def showStats (c : CmpStats) : String :=
  showList [c.refAligned, c.refGap, c.identAligned, c.identGap, c.testAligned, c.testGap]

def hex32m (b : UInt32) : String :=
  let n := b.toNat
  String.ofList ((List.range 8).map fun i => hexDigit ((n / 16 ^ (7 - i)) % 16))

/-- NaN payloads are not part of the model: every NaN is printed as 7fc00000 -/
def showF32m (f : Float32) : String := if f.isNaN then "7fc00000" else hex32m f.toBits

def opComparePair : List String → String
  | [a1, a2, b1, b2] =>
    match parseRow a1, parseRow a2, parseRow b1, parseRow b2 with
    | some a1, some a2, some b1, some b2 =>
      match comparePair a1 a2 b1 b2 with
      | some c => s!"{if comparePairFails a1 b1 then 1 else 0} {showStats c}"
      | none => "fault"
    | _, _, _, _ => "bad-op"
  | _ => "bad-op"

def parseNRow (s : String) : Option NRow :=
  match s.splitOn ":" with
  | [n, r] => match parseName n, parseRow r with
    | some n, some r => some { name := n, row := r }
    | _, _ => none
  | _ => none

/-- `n item_1 .. item_n rest` -/
def takeCounted (args : List String) : Option (List String × List String) :=
  match args with
  | n :: rest => match parseNat? n with
    | some n => if n = 0 ∨ rest.length < n then none else some (rest.take n, rest.drop n)
    | none => none
  | [] => none

def sameWidth (A : List NRow) : Bool :=
  match A with
  | [] => true
  | x :: _ => A.all fun y => y.row.length == x.row.length

def opMsaCompare (args : List String) : String :=
  match takeCounted args with
  | some (rs, rest) => match takeCounted rest with
    | some (ts, []) =>
      match rs.mapM parseNRow, ts.mapM parseNRow with
      | some R, some T =>
        if !sameWidth R || !sameWidth T then "bad-op" else
        match msaCompare R T with
        | .fail => "1 - -"
        | .fault => "fault"
        | .ok c => s!"0 {showF32m (scoreF32 c)} {showStats c}"
      | _, _ => "bad-op"
    | _ => "bad-op"
  | none => "bad-op"

def parseLenName (s : String) : Option (Nat × Name) :=
  match s.splitOn ":" with
  | [l, n] => match parseNat? l, parseName n with
    | some l, some n => some (l, n)
    | _, _ => none
  | _ => none

def opSortLenName (args : List String) : String :=
  if args.isEmpty then "bad-op" else
  match args.mapM parseLenName with
  | some items =>
    let sorted := sortLenNameBy (fun x : (Nat × Name) × Nat => x.1.1) (fun x => x.1.2) items.zipIdx
    showList (sorted.map (·.2))
  | none => "bad-op"

def opCmpLenName : List String → String
  | [a, b] => match parseLenName a, parseLenName b with
    | some a, some b => toString (cmpLenName a.1 a.2 b.1 b.2)
    | _, _ => "bad-op"
  | _ => "bad-op"

def showEss (r : Option (EssResult Nat)) : String :=
  match r with
  | none => "1 unchanged"
  | some r =>
    let all := r.kept ++ r.tail
    s!"{if r.ok then 0 else 1} {showList (r.kept.map (·.1))} {showList (r.tail.map (·.1))} {showList (all.map (·.2))}"

/-- the payload of entry `i` is `i` itself; lengths are looked up in the argument list -/
def opEssential (exit : Bool) (args : List String) : String :=
  if args.isEmpty then "bad-op" else
  match args.mapM parseNat? with
  | some lens =>
    let idx := List.range lens.length
    if exit then showEss (essentialCheckExit idx)
    else showEss (essentialCheck (fun i => lens.getD i 0) idx)
  | none => "bad-op"

def miscOps : OpTable := [
  ("compare_pair", opComparePair), ("msa_compare", opMsaCompare), ("sort_len_name", opSortLenName), ("cmp_len_name", opCmpLenName),
  ("essential_check", opEssential false), ("essential_check1", opEssential true)]

end Kalign.Driver
