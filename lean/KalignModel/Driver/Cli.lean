import KalignModel.Driver.Util
import KalignModel.Driver.Param
import KalignModel.Model.Cli
/-!
`cli <stdinTty 0|1> <failAt> <hex(argv1)> <hex(argv2)> ...` — the model side of harness/ops_cli.c:
`exit=<status> calls=<log>` (see ops_cli.c for the grammar of the log).
-/
namespace Kalign.Driver
open Kalign Kalign.Cli

def hexArg (a : Arg) : String := hex (a.map UInt8.ofNat)

def showOptArg : Option Arg → String
  | none => "NULL"
  | some a => hexArg a

def showCall : Call → String
  | .read f q => s!"R,{showOptArg f},{q}"
  | .align n t g e x => s!"A,{n},{t},{hex8 g},{hex8 e},{hex8 x}"
  | .write o f => s!"W,{showOptArg o},{showOptArg f}"

def showCalls (cs : List Call) : String :=
  if cs.isEmpty then "-" else ";".intercalate (cs.map showCall)

def showOutcome (o : CliOutcome) (failAt : Option Nat) : String :=
  match o with
  | .run cfg => let (cs, st) := execCalls cfg failAt; s!"exit={st} calls={showCalls cs}"
  | .fault => "fault"
  | .unmodelled => "unmodelled"
  | o => match o.exitStatus with
    | some st => s!"exit={st} calls=-"
    | none => "fault"

def opCli : Op
  | tty :: fa :: args =>
    if tty != "0" && tty != "1" then "bad-op" else
    match parseInt? fa, args.mapM unhex with
    | some fa, some av =>
      if fa < -1 || fa > 1000000 then "bad-op" else
      if av.any (fun a => a.any (· == 0)) then "bad-op" else
      showOutcome (cliParseB (av.map fun a => a.map (·.toNat)) (tty == "1")) (if fa < 0 then none else some fa.toNat)
    | _, _ => "bad-op"
  | _ => "bad-op"

def cliOps : OpTable := [("cli", opCli)]

end Kalign.Driver
