import KalignModel.Driver.Util
import KalignModel.Driver.Dp
import KalignModel.Model.SoftFloat
/-!
Line-protocol ops that tie the software binary32 `SoftF32` (Model/SoftFloat.lean) to the hardware; the harness side is
`harness/ops_f32.c` (C `float` arithmetic compiled with the project's flags).

`f32 <op> <aBits> <bBits>`   `op` ∈ add sub mul div (answer: 8 hex digits of the result), neg abs (`bBits` ignored; 8 hex
                             digits), lt gt le ge eq (answer `0` / `1`); operands are binary32 bit patterns (8 hex digits)
`f32_of <int>`               `(float)i` for a decimal integer `|i| < 2^63` (at most 20 characters): 8 hex digits
No NaN canonicalisation: the model reproduces the x86 SSE payload rules (first NaN operand, quieted; default NaN `ffc00000`).
-/
namespace Kalign.Driver
open Kalign

def parseSoft? (s : String) : Option SoftF32 :=
  if s.length ≠ 8 then none else
  s.toList.foldlM (fun (w : Nat) c => (hexVal c).map fun v => w * 16 + v) 0 |>.map SoftF32.ofRaw

def showSoft (x : SoftF32) : String := hex32 x.toBits

def showBool (b : Bool) : String := if b then "1" else "0"

def opF32 : Op
  | [op, a, b] =>
    match parseSoft? a, parseSoft? b with
    | some a, some b =>
      match op with
      | "add" => showSoft (SoftF32.add a b)
      | "sub" => showSoft (SoftF32.sub a b)
      | "mul" => showSoft (SoftF32.mul a b)
      | "div" => showSoft (SoftF32.div a b)
      | "neg" => showSoft (SoftF32.neg a)
      | "abs" => showSoft (SoftF32.abs a)
      | "lt" => showBool (SoftF32.lt a b)
      | "gt" => showBool (SoftF32.gt a b)
      | "le" => showBool (SoftF32.le a b)
      | "ge" => showBool (SoftF32.ge a b)
      | "eq" => showBool (SoftF32.beq a b)
      | _ => "bad-op"
    | _, _ => "bad-op"
  | _ => "bad-op"

def opF32Of : Op
  | [s] =>
    if s.length > 20 then "bad-op" else
    match pInt? s with
    | some i => if i.natAbs < 2 ^ 63 then showSoft (SoftF32.ofInt i) else "bad-op"
    | none => "bad-op"
  | _ => "bad-op"

def f32Ops : OpTable := [("f32", opF32), ("f32_of", opF32Of)]

end Kalign.Driver
