import KalignModel.Driver.Util
import KalignModel.Model.Weave
import KalignModel.Model.Path
namespace Kalign.Driver
open Kalign

def opUpdateGaps : List String → String
  | [g, ng] => match parseNats g, parseNats ng with
    | some g, some ng => showList (updateGaps g ng)
    | _, _ => "bad-op"
  | _ => "bad-op"

/-- `make_seq codes na nb g_1 .. g_na h_1 .. h_nb` -> new gap vectors in `sip[c]` order -/
def opMakeSeq : List String → String
  | codes :: na :: nb :: rest =>
    match parseNats codes, parseNat? na, parseNat? nb, rest.mapM parseNats with
    | some codes, some na, some nb, some gs =>
      if gs.length ≠ na + nb then "bad-op" else
      let mk := fun (g : List Nat) => ({ res := ([] : List Char), gaps := g } : GSeq Char)
      let A := (gs.take na).map mk
      let B := (gs.drop na).map mk
      " ".intercalate ((mergeStep codes A B).map fun s => showList s.gaps)
    | _, _, _, _ => "bad-op"
  | _ => "bad-op"

def opExpand : List String → String
  | [lenB, path] => match parseNat? lenB, parseInts path with
    | some lenB, some path => match expandPath lenB path with
      | some cs => showList cs
      | none => "fault"
    | _, _ => "bad-op"
  | _ => "bad-op"

def opMirror : List String → String
  | [lenA, path] => match parseNat? lenA, parseInts path with
    | some lenA, some path => showList (mirrorPath lenA path)
    | _, _ => "bad-op"
  | _ => "bad-op"

def opMakeLinear : List String → String
  | [res, gaps] => match parseNats gaps with
    | some g => if g.length ≠ (parseRes res).length + 1 then "bad-op" else showRow (makeLinear (parseRes res) g)
    | none => "bad-op"
  | _ => "bad-op"


def weaveOps : OpTable := [
  ("update_gaps", opUpdateGaps), ("make_seq", opMakeSeq), ("add_gap_info", opExpand),
  ("mirror_path", opMirror), ("make_linear", opMakeLinear)]

end Kalign.Driver
