import KalignModel.Driver.Util
import KalignModel.Model.Param
import KalignModel.Model.Alphabet
import KalignModel.Model.Detect
namespace Kalign.Driver
open Kalign

def hex8 (n : Nat) : String :=
  String.ofList ((List.range 8).reverse.map fun i => hexDigit ((n >>> (4 * i)) % 16))

def parseHexNat (s : String) : Option Nat :=
  s.toList.foldl (fun acc c => do let a ← acc; let d ← hexVal c; pure (a * 16 + d)) (some 0)

def matHash (m : List (List Nat)) : Nat :=
  m.flatten.foldl (fun h b => ((h ^^^ b) * 16777619) % 4294967296) 2166136261

/-- `param_init bt type gpoBits gpeBits tgpeBits` -/
def opParamInit : Op
  | [bt, ty, g, e, t] =>
    match parseNat? bt, parseInt? ty, parseHexNat g, parseHexNat e, parseHexNat t with
    | some bt, some ty, some g, some e, some t =>
      match alnParamInitF bt ty (Float32.ofBits g.toUInt32) (Float32.ofBits e.toUInt32) (Float32.ofBits t.toUInt32) with
      | none => "FAIL"
      | some p => s!"{hex8 p.gpo.toBits.toNat} {hex8 p.gpe.toBits.toNat} {hex8 p.tgpe.toBits.toNat} {hex8 (matHash (Gen.matricesBits.getD p.mat []))}"
    | _, _, _, _, _ => "bad-op"
  | _ => "bad-op"

/-- `set_aln_type <hex of word | NULL>` -/
def opSetAlnType : Op
  | [w] =>
    if w == "NULL" then (match setAlnType none with | some t => toString t | none => "FAIL") else
    match unhex w with
    | some bs => (match setAlnType (some (bs.map (·.toNat))) with | some t => toString t | none => "FAIL")
    | none => "bad-op"
  | _ => "bad-op"

def opDetectAlphabet : Op
  | [h] => match parseNats h with
    | some h => if h.length ≠ 128 then "bad-op" else toString (detectF h).code
    | none => "bad-op"
  | _ => "bad-op"

/-- model-only: exact decision, for the Float-vs-exact consistency check -/
def opDetectExact : Op
  | [h] => match parseNats h with
    | some h => if h.length ≠ 128 then "bad-op" else toString (detectExact h).code
    | none => "bad-op"
  | _ => "bad-op"

/-- `detect_aligned len:gaps ...` -/
def opDetectAligned : Op := fun args =>
  let rows := args.mapM fun a => match a.splitOn ":" with
    | [l, g] => do let l ← parseNat? l; let g ← parseNats g; if g.length = l + 1 then pure (l, g) else none
    | _ => none
  match rows with
  | some rows => if rows.isEmpty then "bad-op" else toString (detectAligned rows)
  | none => "bad-op"

/-- `convert alphabetId letters` -/
def opConvert : Op
  | [id, s] => match parseNat? id with
    | some id => if (alphaRow id).isNone then "bad-op" else showList (convert id (s.toList.map (·.toNat)))
    | none => "bad-op"
  | _ => "bad-op"

def paramOps : OpTable := [
  ("param_init", opParamInit), ("set_aln_type", opSetAlnType), ("detect_alphabet", opDetectAlphabet),
  ("detect_exact", opDetectExact), ("detect_aligned", opDetectAligned), ("convert", opConvert)]

end Kalign.Driver
