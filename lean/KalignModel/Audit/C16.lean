import KalignModel.Props.C16
#print axioms Kalign.C16.writable_globals
#print axioms Kalign.C16.thread_use_sites
#print axioms Kalign.C16.globals_overwritten
#print axioms Kalign.C16.run_ignores_globals
#print axioms Kalign.C16.globals_frame
#print axioms Kalign.C16.history_independent
#print axioms Kalign.C16.history_independent_nth
#print axioms Kalign.C16.outputs_ignore_initial_globals
#print axioms Kalign.C16.ledger_invariant
#print axioms Kalign.C16.ledger_balanced
#print axioms Kalign.C16.ledger_empty_of_no_handles
#print axioms Kalign.C16.read_call_balanced
#print axioms Kalign.C16.read_nothing_keeps_msa
#print axioms Kalign.C16.read_call_leaked_before_4c3a0a7
#print axioms Kalign.Api.step_independent
#print axioms Kalign.Api.step_inv
