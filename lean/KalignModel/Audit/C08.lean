import KalignModel.Props.C08
#print axioms Kalign.C08_phi_tables
#print axioms Kalign.C08_diag_unique_opt
#print axioms Kalign.C08_diag_unique_opt_scaled
#print axioms Kalign.C08_identical_msa_nogaps
