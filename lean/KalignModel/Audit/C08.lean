import KalignModel.Props.C08Opt
#print axioms Kalign.C08_phi_tables
#print axioms Kalign.C08_diag_unique_opt
#print axioms Kalign.C08_diag_unique_opt_scaled
#print axioms Kalign.C08_identical_msa_nogaps
#print axioms Kalign.C08_identical_pair_diag
#print axioms Kalign.C08_identical_pair_diag'
#print axioms Kalign.C08_identical_pair_diag_table
#print axioms Kalign.C08_identical_groups_diag
#print axioms Kalign.C08_identical_seq_group_diag
#print axioms Kalign.C08_identical_group_seq_diag
