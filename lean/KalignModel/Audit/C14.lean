import KalignModel.Props.Pipeline
#print axioms Kalign.C14_codes_case_invariant
#print axioms Kalign.C14_codes_TU
#print axioms Kalign.C14_codes_defined
#print axioms Kalign.C14_detect_sets_case_closed
#print axioms Kalign.C14_detect_sets_TU
#print axioms Kalign.C14_detect_respell_invariant
#print axioms Kalign.C14_convert_respell_invariant
#print axioms Kalign.Pipeline.kalignRunWith_codes_only
#print axioms Kalign.Pipeline.kalignRun_codes_only
#print axioms Kalign.Pipeline.kalignRunWith_respell_invariant
#print axioms Kalign.Pipeline.kalignRunWith_case_invariant
#print axioms Kalign.Pipeline.kalignRunExact_case_invariant
#print axioms Kalign.Pipeline.kalignRun_case_invariant_partial
#print axioms Kalign.Pipeline.kalignRunWith_TU_invariant
#print axioms Kalign.Pipeline.kalignRunExact_TU_invariant
#print axioms Kalign.Pipeline.kalignRun_TU_invariant_partial
