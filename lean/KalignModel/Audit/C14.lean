import KalignModel.Props.C14
#print axioms Kalign.C14_codes_case_invariant
#print axioms Kalign.C14_codes_TU
#print axioms Kalign.C14_codes_defined
#print axioms Kalign.C14_detect_sets_case_closed
#print axioms Kalign.C14_detect_sets_TU
#print axioms Kalign.C14_detect_respell_invariant
#print axioms Kalign.C14_convert_respell_invariant
