import KalignModel.Props.C12Soft
#print axioms Kalign.C12_dist_zero_of_equal
#print axioms Kalign.C12_dist_pos_of_not_substring
#print axioms Kalign.C12_dist_zero_iff
#print axioms Kalign.C12_upgma_clade
#print axioms Kalign.C12_upgma_clade_100
#print axioms Kalign.C12_copies_form_clade
#print axioms Kalign.C12Soft_entry_sep
#print axioms Kalign.C12Soft_entry_sep_grid
#print axioms Kalign.C12Soft_upgma_clade
#print axioms Kalign.C12Soft_upgma_clade_100
#print axioms Kalign.C12Soft_upgma_clade_le
#print axioms Kalign.C12Soft_copies_form_clade
#print axioms Kalign.C12Soft_smallTree_clade
#print axioms Kalign.exC12_tree
