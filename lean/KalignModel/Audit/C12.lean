import KalignModel.Props.C12
#print axioms Kalign.C12_dist_zero_of_equal
#print axioms Kalign.C12_dist_pos_of_not_substring
#print axioms Kalign.C12_dist_zero_iff
#print axioms Kalign.C12_upgma_clade
#print axioms Kalign.C12_upgma_clade_100
#print axioms Kalign.C12_copies_form_clade
