import KalignModel.Props.C05
#print axioms Kalign.C05_read_never_faults
#print axioms Kalign.C05_read_many_never_faults
#print axioms Kalign.C05_codes_in_range
#print axioms Kalign.C05_expandPath_no_fault
#print axioms Kalign.C05_huge_penalties_rejected
#print axioms Kalign.C05_write_in_bounds
#print axioms Kalign.C07_hirschberg_path_ok
#print axioms Kalign.C07_columns_valid
