import KalignModel.Props.C05All
#print axioms Kalign.C05_read_never_faults
#print axioms Kalign.C05_read_many_never_faults
#print axioms Kalign.C05_codes_in_range
#print axioms Kalign.C05_expandPath_no_fault
#print axioms Kalign.C05_huge_penalties_rejected
#print axioms Kalign.C05_write_in_bounds
#print axioms Kalign.C07_hirschberg_path_ok
#print axioms Kalign.C07_columns_valid
#print axioms Kalign.Pipeline.kalignRun_never_fuel
#print axioms Kalign.Pipeline.kalignRun_never_tree_partial
#print axioms Kalign.Pipeline.kalignRun_never_fault_monitor_partial
#print axioms Kalign.Pipeline.kalignRun_never_faults_partial
#print axioms Kalign.Pipeline.kalignRun_errors_partial
#print axioms Kalign.C05_controller_never_faults
#print axioms Kalign.C05_doAlign_no_fault_partial
#print axioms Kalign.C05_path_read_in_bounds
