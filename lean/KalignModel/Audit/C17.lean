import KalignModel.Props.C17
#print axioms Kalign.compare_pair_counts
#print axioms Kalign.compare_pair_symm
#print axioms Kalign.score_eq_spec
#print axioms Kalign.score_bounds
#print axioms Kalign.score_bounds_unconditional
#print axioms Kalign.score_100_of_same_mod_allgap
#print axioms Kalign.row_order_invariant
#print axioms Kalign.scoreF32_row_order_invariant
#print axioms Kalign.late_names_ok
#print axioms Kalign.score_100_only_if_all_reproduced
#print axioms Kalign.score_lt_100_of_lost_relation
