import KalignModel.Props.PipelineFile
#print axioms Kalign.IO.fasta_roundtrip
#print axioms Kalign.IO.clu_roundtrip
#print axioms Kalign.IO.msf_roundtrip
#print axioms Kalign.IO.sniff_written_fasta
#print axioms Kalign.IO.sniff_written_clu
#print axioms Kalign.IO.sniff_written_msf
#print axioms Kalign.IO.fasta_roundtrip_input
#print axioms Kalign.IO.clu_roundtrip_input
#print axioms Kalign.IO.msf_roundtrip_input
#print axioms Kalign.IO.roundtrip_any
#print axioms Kalign.IO.cross_format
#print axioms Kalign.PipelineFile.kalignFile_roundtrip
