import KalignModel.Props.PipelineFile
#print axioms Kalign.IO.fasta_shape
#print axioms Kalign.IO.blocks_shape_clu
#print axioms Kalign.IO.blocks_shape_msf
#print axioms Kalign.IO.block_columns
#print axioms Kalign.IO.msf_len
#print axioms Kalign.IO.msf_checksums
#print axioms Kalign.IO.msf_type
#print axioms Kalign.IO.gcg_spec
#print axioms Kalign.IO.sortLines_layout
#print axioms Kalign.PipelineFile.kalignFile_output_shape
