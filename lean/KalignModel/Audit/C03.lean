import KalignModel.Props.C03
#print axioms Kalign.sort_unique_of_distinct_keys
#print axioms Kalign.canon_perm_invariant
#print axioms Kalign.order_independent
#print axioms Kalign.order_independent_of_distinct_prefixes
#print axioms Kalign.run_restores_input_order
#print axioms Kalign.rank_use_sites
#print axioms Kalign.prefix_collision
#print axioms Kalign.prefix_collision_counterexample
