import KalignModel.Props.C03
#print axioms Kalign.sort_unique_of_distinct_keys
#print axioms Kalign.canon_perm_invariant
#print axioms Kalign.canon_perm_invariant_of_distinct_names
#print axioms Kalign.order_independent
#print axioms Kalign.order_independent_of_distinct_names
#print axioms Kalign.run_restores_input_order
#print axioms Kalign.rank_use_sites
#print axioms Kalign.common_prefix_distinct_keys
#print axioms Kalign.common_prefix_example
