import KalignModel.Props.C11
#print axioms Kalign.C11
#print axioms Kalign.C11_levSub_spec
#print axioms Kalign.C11_sellers_spec
#print axioms Kalign.C11_cell_rule
#print axioms Kalign.C11_block_step
#print axioms Kalign.C11_enc_disjoint
#print axioms Kalign.C11_bpm_block_correct
#print axioms Kalign.C11_bpm64_correct
#print axioms Kalign.C11_bpm256_correct
#print axioms Kalign.C11_add256
#print axioms Kalign.C11_shl256
#print axioms Kalign.C11_lev_sane
