import KalignModel.Props.C09
#print axioms Kalign.C09_override_exact
#print axioms Kalign.C09_defaults_nonneg
#print axioms Kalign.C09_explicit_default_noop
#print axioms Kalign.C09_single_override
#print axioms Kalign.C09_accept_indep
#print axioms Kalign.C09_over_cap_rejected
#print axioms Kalign.C09_defaults_within_cap
#print axioms Kalign.C09_defaults_dna
#print axioms Kalign.C09_defaults_internal
#print axioms Kalign.C09_defaults_protein
#print axioms Kalign.C09_defaults_divergent
#print axioms Kalign.C09_defaults_rna
#print axioms Kalign.C09_matrices_symmetric
#print axioms Kalign.C09_type_words
#print axioms Kalign.C09_mismatch_rejected
#print axioms Kalign.C09_default_branch_uniform
