import KalignModel.Props.C07
#print axioms Kalign.C07_runner_eq_serial
#print axioms Kalign.C07_runner_small_eq_serial
#print axioms Kalign.C07_runner_eq_serial_of_mon
#print axioms Kalign.C07_fallthrough_not_harmless
#print axioms Kalign.C07_hirschberg_path_ok
#print axioms Kalign.C07_hirschberg_path_ok_runner
#print axioms Kalign.C07_columns_valid
