import KalignModel.Props.PipelineFile
#print axioms Kalign.weave
#print axioms Kalign.degap_makeLinear
#print axioms Kalign.C01_merge_integrity
#print axioms Kalign.C01_tree_integrity
#print axioms Kalign.C01_rows
#print axioms Kalign.C01_no_allgap_column
#print axioms Kalign.C01_expandPath_valid
#print axioms Kalign.Kmeans.split2_partition
#print axioms Kalign.Kmeans.bisectingKmeans_leaves
#print axioms Kalign.Kmeans.bisectingKmeans_fuel
#print axioms Kalign.Pipeline.kalignRunWith_integrity
#print axioms Kalign.Pipeline.kalignRun_integrity
#print axioms Kalign.Pipeline.kalignRun_integrity_chars
#print axioms Kalign.PipelineFile.kalignFile_integrity
#print axioms Kalign.PipelineFile.kalignFile_no_fault
