import KalignModel.Props.C13
#print axioms Kalign.C13_p1_dna
#print axioms Kalign.C13_p2_protein
#print axioms Kalign.C13_p3_order
#print axioms Kalign.C13_protein_only_letters
#print axioms Kalign.C13_nuc_letters
