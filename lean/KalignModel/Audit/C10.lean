import KalignModel.Props.PipelineFile
#print axioms Kalign.weave
#print axioms Kalign.C10_subalignment_preserved
#print axioms Kalign.C10_column_mates_stay
#print axioms Kalign.C01_tree_integrity
#print axioms Kalign.PipelineFile.recAln_eq_nodeVal
#print axioms Kalign.PipelineFile.recAln_subalignment_preserved
#print axioms Kalign.PipelineFile.recAln_subalignment_finalRow_partial
