import KalignModel.Props.C10
#print axioms Kalign.weave
#print axioms Kalign.C10_subalignment_preserved
#print axioms Kalign.C10_column_mates_stay
#print axioms Kalign.C01_tree_integrity
