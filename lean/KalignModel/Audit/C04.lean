import KalignModel.Props.C04
#print axioms Kalign.IO.scanner_spec
#print axioms Kalign.IO.read_fasta_presentation
#print axioms Kalign.IO.read_fasta_presentation_invariant
#print axioms Kalign.IO.read_clu_presentation
#print axioms Kalign.IO.read_clu_presentation_invariant
#print axioms Kalign.IO.formats_agree
#print axioms Kalign.IO.read_msf_body_presentation
#print axioms Kalign.IO.read_msf_presentation_partial
#print axioms Kalign.IO.letterFreq_depends_on_residues
#print axioms Kalign.IO.biotype_depends_on_residues
