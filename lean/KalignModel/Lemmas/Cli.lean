import KalignModel.Model.Cli
/-!
# Lemmas about the command-line model (Model/Cli.lean)

* `b!"text"`: the bytes of a string literal as a `List Nat` literal (elaboration-time macro);
* `Item`: the syntactic units of a well-formed command line and how `step` reads them (`scan_items`);
* the parameter block after a list of assignments: every field holds the value of the last assignment to it
  (`get_foldl_act`).
-/
set_option linter.unusedSimpArgs false
namespace Kalign.Cli
open Kalign

open Lean in
/-- `b!"--gpo"` = `[45, 45, 103, 112, 111]` -/
macro:max "b!" s:str : term => do
  let elems := s.getString.toUTF8.toList.toArray.map fun b => Syntax.mkNumLit (toString b.toNat)
  `(([$elems,*] : List Nat))

/-! ## `name[=value]` -/

theorem takeWhile_noeq {b : Arg} (h : 61 ∉ b) : b.takeWhile (· != 61) = b := by
  induction b with
  | nil => rfl
  | cons x r ih =>
    have hx : x ≠ 61 := fun e => h (by simp [e])
    have hr : 61 ∉ r := fun e => h (by simp [e])
    have hb : (x != 61) = true := by simp [hx]
    simp [List.takeWhile_cons, hb, ih hr]

theorem dropWhile_noeq {b : Arg} (h : 61 ∉ b) : b.dropWhile (· != 61) = [] := by
  induction b with
  | nil => rfl
  | cons x r ih =>
    have hx : x ≠ 61 := fun e => h (by simp [e])
    have hr : 61 ∉ r := fun e => h (by simp [e])
    have hb : (x != 61) = true := by simp [hx]
    simp [List.dropWhile_cons, hb, ih hr]

theorem takeWhile_eq {p : Arg} (v : Arg) (h : 61 ∉ p) : (p ++ 61 :: v).takeWhile (· != 61) = p := by
  induction p with
  | nil => simp [List.takeWhile_cons]
  | cons x r ih =>
    have hx : x ≠ 61 := fun e => h (by simp [e])
    have hr : 61 ∉ r := fun e => h (by simp [e])
    have hb : (x != 61) = true := by simp [hx]
    simp [List.takeWhile_cons, hb, ih hr]

theorem dropWhile_eq {p : Arg} (v : Arg) (h : 61 ∉ p) : (p ++ 61 :: v).dropWhile (· != 61) = 61 :: v := by
  induction p with
  | nil => simp [List.dropWhile_cons]
  | cons x r ih =>
    have hx : x ≠ 61 := fun e => h (by simp [e])
    have hr : 61 ∉ r := fun e => h (by simp [e])
    have hb : (x != 61) = true := by simp [hx]
    simp [List.dropWhile_cons, hb, ih hr]

theorem splitEq_noeq {b : Arg} (h : 61 ∉ b) : splitEq b = (b, none) := by
  simp [splitEq, dropWhile_noeq h, takeWhile_noeq h]

theorem splitEq_eq {p : Arg} (v : Arg) (h : 61 ∉ p) : splitEq (p ++ 61 :: v) = (p, some v) := by
  simp [splitEq, dropWhile_eq v h, takeWhile_eq v h]


/-! ## the units of a well-formed command line -/

/-- one syntactic unit of a well-formed command line -/
inductive Item where
  /-- `--p v` / `-p v` (`eq = false`, two elements) or `--p=v` / `-p=v` (`eq = true`, one element): `p` is the name or an
  unambiguous abbreviation of a long option that takes an argument -/
  | long (dd : Bool) (p : Arg) (eq : Bool) (v : Arg)
  /-- `--p` / `-p`: long option without argument -/
  | longFlag (dd : Bool) (p : Arg)
  /-- `-c v`: short option with its argument in the next element -/
  | short (c : Nat) (v : Arg)
  /-- `-c`: short option without argument -/
  | shortFlag (c : Nat)
  /-- a file name -/
  | file (f : Arg)
  deriving Repr, DecidableEq

def dashes (dd : Bool) : Arg := if dd then [45, 45] else [45]

/-- the `argv` elements of a unit -/
def Item.tokens : Item → List Arg
  | .long dd p false v => [dashes dd ++ p, v]
  | .long dd p true v => [dashes dd ++ p ++ 61 :: v]
  | .longFlag dd p => [dashes dd ++ p]
  | .short c v => [[45, c], v]
  | .shortFlag c => [[45, c]]
  | .file f => [f]

/-- the option code a long name / abbreviation stands for -/
def lookVal (p : Arg) : Nat :=
  match longLookup p with
  | .found _ v => v
  | _ => 0

def lookHasArg (p : Arg) : Option Nat :=
  match longLookup p with
  | .found h _ => some h
  | _ => none

/-- purely syntactic well-formedness (decidable): the spelling resolves to an option of the table with the right
arity, the name part holds no `=`, a single-dash long option has two or more characters (or carries `=value`),
a file name is empty, `-`, or does not start with `-` -/
def Item.wf : Item → Bool
  | .long dd p eq _ => !p.isEmpty && !p.contains 61 && p.head? != some 45 && lookHasArg p == some 1 &&
      (dd || eq || decide (2 ≤ p.length))
  | .longFlag dd p => !p.isEmpty && !p.contains 61 && p.head? != some 45 && lookHasArg p == some 0 &&
      (dd || decide (2 ≤ p.length))
  | .short c _ => shortKind c == some true
  | .shortFlag c => shortKind c == some false
  | .file f => decide (f.length ≤ 1) || f.head? != some 45

/-- the assignment a unit causes: (option code, `optarg`) -/
def Item.asg : Item → Option (Nat × Option Arg)
  | .long _ p _ v => some (lookVal p, some v)
  | .longFlag _ p => some (lookVal p, none)
  | .short c v => some (c, some v)
  | .shortFlag c => some (c, none)
  | .file _ => none

def Item.fileName : Item → Option Arg
  | .file f => some f
  | _ => none

/-- the effect of a unit on the scanner state -/
def Item.apply (st : St) (it : Item) : St :=
  match it.asg, it.fileName with
  | some (c, v), _ => { st with p := act c v st.p }
  | none, some f => { st with pos := st.pos ++ [f] }
  | none, none => st

theorem afterFirst_contains {c : Nat} {l r : List Nat} (h : afterFirst c l = some r) : l.contains c = true := by
  induction l with
  | nil => simp [afterFirst] at h
  | cons x t ih =>
    unfold afterFirst at h
    by_cases hx : x = c
    · simp [hx]
    · have : (x == c) = false := by simp [hx]
      simp only [this] at h
      have := ih h
      simp_all

theorem shortKind_inOpt {c : Nat} {b : Bool} (h : shortKind c = some b) : inOptString c = true := by
  unfold shortKind at h
  split at h
  · cases h
  · cases ha : afterFirst c Gen.cliOptString with
    | none => simp [ha] at h
    | some r => exact afterFirst_contains ha

theorem shortKind_ne_dash {c : Nat} {b : Bool} (h : shortKind c = some b) : c ≠ 45 := by
  rintro rfl
  revert h
  cases b <;> decide

theorem longLookup_of_hasArg {p : Arg} {h : Nat} (hp : lookHasArg p = some h) : longLookup p = .found h (lookVal p) := by
  unfold lookHasArg at hp
  unfold lookVal
  cases hl : longLookup p with
  | found a v => simp [hl] at hp; simp [hp]
  | ambiguous => simp [hl] at hp
  | notFound => simp [hl] at hp

/-- `-p...` with a first character other than `-` and more than one character is tried as a long option;
`--p...` always -/
theorem stepScan_long (dd : Bool) (c : Nat) (cs : List Nat) (st : St) (hc : c ≠ 45) (h2 : dd = true ∨ cs ≠ []) :
    stepScan (dashes dd ++ c :: cs) st = longOpt (c :: cs) dd st := by
  cases dd with
  | true => simp [dashes, stepScan]
  | false =>
    have hcs : cs ≠ [] := by rcases h2 with h | h; cases h; exact h
    have : cs.isEmpty = false := by cases cs <;> simp_all
    simp [dashes, stepScan, hc, Gen.cliLongOnly, this]

theorem Item.step_tokens (it : Item) (st : St) (hw : it.wf = true) (hs : st.mode = .scan) :
    it.tokens.foldl step st = it.apply st ∧ (it.apply st).mode = .scan := by
  cases it with
  | file f =>
    simp only [Item.wf, Bool.or_eq_true, decide_eq_true_eq] at hw
    have : stepScan f st = { st with pos := st.pos ++ [f] } := by
      unfold stepScan
      match f, hw with
      | [], _ => rfl
      | [_], _ => rfl
      | d :: c :: cs, hw =>
        have : d ≠ 45 := by
          rcases hw with h | h
          · simp at h
          · simpa using h
        simp [this]
    simp [Item.tokens, Item.apply, Item.asg, Item.fileName, step, hs, this]
  | shortFlag c =>
    simp only [Item.wf, beq_iff_eq] at hw
    have hne := shortKind_ne_dash hw
    have hin := shortKind_inOpt hw
    simp [Item.tokens, Item.apply, Item.asg, step, hs, stepScan, hne, hin, shortCluster, hw]
  | short c v =>
    simp only [Item.wf, beq_iff_eq] at hw
    have hne := shortKind_ne_dash hw
    have hin := shortKind_inOpt hw
    simp [Item.tokens, Item.apply, Item.asg, step, hs, stepScan, hne, hin, shortCluster, hw]
  | longFlag dd p =>
    simp only [Item.wf, Bool.and_eq_true, Bool.not_eq_true', bne_iff_ne, ne_eq, beq_iff_eq, Bool.or_eq_true,
      decide_eq_true_eq] at hw
    obtain ⟨⟨⟨⟨hne, heq⟩, hd⟩, hl⟩, h2⟩ := hw
    match p, hne, hd, h2 with
    | c :: cs, _, hd, h2 =>
      have hc : c ≠ 45 := by simpa using hd
      have h2' : dd = true ∨ cs ≠ [] := by
        rcases h2 with h | h
        · exact Or.inl h
        · right; intro e; simp [e] at h
      have hno : 61 ∉ c :: cs := by simpa using heq
      have hl' := longLookup_of_hasArg hl
      simp [Item.tokens, Item.apply, Item.asg, step, hs, stepScan_long dd c cs st hc h2', longOpt, splitEq_noeq hno, hl']
  | long dd p eq v =>
    simp only [Item.wf, Bool.and_eq_true, Bool.not_eq_true', bne_iff_ne, ne_eq, beq_iff_eq, Bool.or_eq_true,
      decide_eq_true_eq] at hw
    obtain ⟨⟨⟨⟨hne, heq⟩, hd⟩, hl⟩, h2⟩ := hw
    match p, hne, hd, h2 with
    | c :: cs, _, hd, h2 =>
      have hc : c ≠ 45 := by simpa using hd
      have hno : 61 ∉ c :: cs := by simpa using heq
      have hl' := longLookup_of_hasArg hl
      cases eq with
      | false =>
        have h2' : dd = true ∨ cs ≠ [] := by
          rcases h2 with (h | h) | h
          · exact Or.inl h
          · cases h
          · right; intro e; simp [e] at h
        simp [Item.tokens, Item.apply, Item.asg, step, hs, stepScan_long dd c cs st hc h2', longOpt, splitEq_noeq hno, hl']
      | true =>
        have h2' : dd = true ∨ cs ++ 61 :: v ≠ [] := Or.inr (by simp)
        have key := stepScan_long dd c (cs ++ 61 :: v) st hc h2'
        have hsp := splitEq_eq v hno
        simp only [List.cons_append] at hsp
        simp [Item.tokens, Item.apply, Item.asg, step, hs, key, longOpt, hsp, hl']


/-- the `argv` of a list of units -/
def tokensOf (xs : List Item) : List Arg := xs.flatMap Item.tokens

def allWf (xs : List Item) : Bool := xs.all Item.wf

theorem foldl_items (xs : List Item) (st : St) (hw : allWf xs = true) (hs : st.mode = .scan) :
    (tokensOf xs).foldl step st = xs.foldl Item.apply st ∧ (xs.foldl Item.apply st).mode = .scan := by
  induction xs generalizing st with
  | nil => exact ⟨rfl, hs⟩
  | cons it r ih =>
    simp only [allWf, List.all_cons, Bool.and_eq_true] at hw
    obtain ⟨h1, h2⟩ := it.step_tokens st hw.1 hs
    simp only [tokensOf, List.flatMap_cons, List.foldl_append, List.foldl_cons, h1]
    exact ih (it.apply st) hw.2 h2

/-- the assignments of a command line, in order -/
def asgsOf (xs : List Item) : List (Nat × Option Arg) := xs.filterMap Item.asg

/-- the file names of a command line, in order -/
def filesOf (xs : List Item) : List Arg := xs.filterMap Item.fileName

theorem foldl_apply_eq (xs : List Item) (st : St) :
    xs.foldl Item.apply st =
      { mode := st.mode, p := (asgsOf xs).foldl (fun p a => act a.1 a.2 p) st.p, pos := st.pos ++ filesOf xs } := by
  induction xs generalizing st with
  | nil => simp [asgsOf, filesOf]
  | cons it r ih =>
    rw [List.foldl_cons, ih]
    cases it <;> simp [Item.apply, Item.asg, Item.fileName, asgsOf, filesOf, List.filterMap_cons]

/-- **the option loop on a well-formed command line**: the assignments are applied in order to the initial block, the
file names are collected in order, wherever they stand -/
theorem scanArgs_items (xs : List Item) (hw : allWf xs = true) :
    scanArgs (tokensOf xs) =
      { mode := .scan, p := (asgsOf xs).foldl (fun p a => act a.1 a.2 p) Params.init, pos := filesOf xs } := by
  have h := (foldl_items xs St.init hw rfl).1
  rw [scanArgs, h, foldl_apply_eq]
  simp [St.init]

/-- `--` ends the options: everything after it is a file name, whatever it looks like -/
theorem foldl_ddash (rest : List Arg) (st : St) (hs : st.mode = .scan) :
    ([45, 45] :: rest).foldl step st = { st with mode := .rest, pos := st.pos ++ rest } := by
  have h1 : step st [45, 45] = { st with mode := .rest } := by simp [step, hs, stepScan]
  rw [List.foldl_cons, h1]
  generalize hq : ({ st with mode := Mode.rest } : St) = q
  have hm : q.mode = .rest := by rw [← hq]
  have : ∀ (l : List Arg) (q : St), q.mode = .rest → l.foldl step q = { q with pos := q.pos ++ l } := by
    intro l
    induction l with
    | nil => intro q _; simp
    | cons a r ih =>
      intro q hq
      rw [List.foldl_cons]
      have : step q a = { q with pos := q.pos ++ [a] } := by simp [step, hq]
      rw [this, ih _ (by exact hq)]
      simp
  rw [this rest q hm, ← hq]

theorem scanArgs_items_ddash (xs : List Item) (rest : List Arg) (hw : allWf xs = true) :
    scanArgs (tokensOf xs ++ [45, 45] :: rest) =
      { mode := .rest, p := (asgsOf xs).foldl (fun p a => act a.1 a.2 p) Params.init, pos := filesOf xs ++ rest } := by
  have h := foldl_items xs St.init hw rfl
  rw [scanArgs, List.foldl_append, h.1, foldl_ddash rest _ h.2, foldl_apply_eq]
  simp [St.init]


/-! ## the parameter block after a list of assignments -/

/-- the value of a field, whatever its C type -/
inductive FV where
  | flt (b : Option Nat)
  | str (a : Option Arg)
  | int (i : Int)
  deriving Repr, DecidableEq

def Params.get (p : Params) : Nat → FV
  | 0 => .flt p.gpo
  | 1 => .flt p.gpe
  | 2 => .flt p.tgpe
  | 3 => .str p.inType
  | 4 => .int p.nthreads
  | 5 => .str p.format
  | 6 => .str p.outfile
  | 7 => .str p.inFile
  | 8 => .int p.quiet
  | 9 => .int p.help
  | 10 => .int p.version
  | 11 => .int p.showw
  | _ => .int p.paramSet

def Val.fv : Val → FV
  | .str a => .str (some a)
  | .int i => .int i
  | .flt b => .flt b

theorem Params.ext_get {p q : Params} (h : ∀ g ∈ List.range 13, p.get g = q.get g) (hf : p.fault = q.fault) : p = q := by
  cases p; cases q
  have h0 := h 0 (by decide); have h1 := h 1 (by decide); have h2 := h 2 (by decide); have h3 := h 3 (by decide)
  have h4 := h 4 (by decide); have h5 := h 5 (by decide); have h6 := h 6 (by decide); have h7 := h 7 (by decide)
  have h8 := h 8 (by decide); have h9 := h 9 (by decide); have h10 := h 10 (by decide); have h11 := h 11 (by decide)
  have h12 := h 12 (by decide)
  simp only [Params.get, FV.flt.injEq, FV.str.injEq, FV.int.injEq] at h0 h1 h2 h3 h4 h5 h6 h7 h8 h9 h10 h11 h12
  simp only at hf
  simp [*]

/-- the C type of field `f` is the type conversion `conv` yields -/
def fits (f conv : Nat) : Bool :=
  match conv with
  | 0 => f == 3 || f == 5 || f == 6 || f == 7
  | 1 => f == 4 || f == 8 || f == 9 || f == 10 || f == 11 || f == 12
  | 2 => f == 0 || f == 1 || f == 2
  | 3 => f == 4 || f == 8 || f == 9 || f == 10 || f == 11 || f == 12
  | _ => false

/-- the `case` for option code `c` exists, its right-hand side suits an option with (`true`) / without argument and its
left-hand side has the matching type -/
def caseOK (c : Nat) (hasArg : Bool) : Bool :=
  match Gen.cliSwitch.find? (·.1 == c) with
  | some (_, f, conv) => (if hasArg then conv == 0 || conv == 1 || conv == 2 else conv == 3) && fits f conv
  | none => false

/-- the field option code `c` assigns (99: no `case`) -/
def fieldOf (c : Nat) : Nat :=
  match Gen.cliSwitch.find? (·.1 == c) with
  | some (_, f, _) => f
  | none => 99

/-- the value an assignment stores -/
def asgFV (a : Nat × Option Arg) : FV :=
  match Gen.cliSwitch.find? (·.1 == a.1) with
  | some (_, _, conv) =>
    match convert conv a.2 with
    | some v => v.fv
    | none => .int 0
  | none => .int 0

def asgOK (a : Nat × Option Arg) : Bool := caseOK a.1 a.2.isSome

/-- every long option and every short option of the generated table has a fitting `case` -/
theorem table_cases_ok :
    (∀ e ∈ Gen.cliLongOpts, caseOK e.2.2 (e.2.1 == 1) = true ∧ (e.2.1 = 0 ∨ e.2.1 = 1)) ∧
    (∀ c ∈ Gen.cliOptString, ∀ b ∈ [true, false], shortKind c = some b → caseOK c b = true) := by
  decide

theorem set_get (p : Params) (f conv : Nat) (v : Val) (hfit : fits f conv = true) (o : Option Arg)
    (hv : convert conv o = some v) :
    ((p.set f v).fault = p.fault) ∧ ∀ g ∈ List.range 13, (p.set f v).get g = if f = g then v.fv else p.get g := by
  have hg : ∀ g ∈ List.range 13, g = 0 ∨ g = 1 ∨ g = 2 ∨ g = 3 ∨ g = 4 ∨ g = 5 ∨ g = 6 ∨ g = 7 ∨ g = 8 ∨ g = 9 ∨
      g = 10 ∨ g = 11 ∨ g = 12 := by decide
  match conv, o, hv, hfit with
  | 0, some a, hv, hfit =>
    simp only [convert, Option.some.injEq] at hv; subst hv
    simp only [fits, Bool.or_eq_true, beq_iff_eq] at hfit
    rcases hfit with ((rfl | rfl) | rfl) | rfl <;> refine ⟨rfl, fun g hgm => ?_⟩ <;>
      rcases hg g hgm with rfl | rfl | rfl | rfl | rfl | rfl | rfl | rfl | rfl | rfl | rfl | rfl | rfl <;>
      simp [Params.set, Params.get, Val.fv]
  | 1, some a, hv, hfit =>
    simp only [convert, Option.some.injEq] at hv; subst hv
    simp only [fits, Bool.or_eq_true, beq_iff_eq] at hfit
    rcases hfit with ((((rfl | rfl) | rfl) | rfl) | rfl) | rfl <;> refine ⟨rfl, fun g hgm => ?_⟩ <;>
      rcases hg g hgm with rfl | rfl | rfl | rfl | rfl | rfl | rfl | rfl | rfl | rfl | rfl | rfl | rfl <;>
      simp [Params.set, Params.get, Val.fv]
  | 2, some a, hv, hfit =>
    simp only [convert, Option.some.injEq] at hv; subst hv
    simp only [fits, Bool.or_eq_true, beq_iff_eq] at hfit
    rcases hfit with (rfl | rfl) | rfl <;> refine ⟨rfl, fun g hgm => ?_⟩ <;>
      rcases hg g hgm with rfl | rfl | rfl | rfl | rfl | rfl | rfl | rfl | rfl | rfl | rfl | rfl | rfl <;>
      simp [Params.set, Params.get, Val.fv]
  | 3, o, hv, hfit =>
    simp only [convert, Option.some.injEq] at hv; subst hv
    simp only [fits, Bool.or_eq_true, beq_iff_eq] at hfit
    rcases hfit with ((((rfl | rfl) | rfl) | rfl) | rfl) | rfl <;> refine ⟨rfl, fun g hgm => ?_⟩ <;>
      rcases hg g hgm with rfl | rfl | rfl | rfl | rfl | rfl | rfl | rfl | rfl | rfl | rfl | rfl | rfl <;>
      simp [Params.set, Params.get, Val.fv]


theorem act_get (a : Nat × Option Arg) (p : Params) (h : asgOK a = true) :
    (act a.1 a.2 p).fault = p.fault ∧
    ∀ g ∈ List.range 13, (act a.1 a.2 p).get g = if fieldOf a.1 = g then asgFV a else p.get g := by
  unfold asgOK caseOK at h
  unfold act fieldOf asgFV
  cases hf : Gen.cliSwitch.find? (·.1 == a.1) with
  | none => simp [hf] at h
  | some e =>
    obtain ⟨c', f, conv⟩ := e
    simp only [hf, Bool.and_eq_true] at h ⊢
    obtain ⟨hc, hfit⟩ := h
    have hv : ∃ v, convert conv a.2 = some v := by
      cases ho : a.2 with
      | none =>
        simp only [ho, Option.isSome_none, Bool.false_eq_true, if_false, beq_iff_eq] at hc
        subst hc; exact ⟨_, rfl⟩
      | some o =>
        simp only [ho, Option.isSome_some, if_true, Bool.or_eq_true, beq_iff_eq] at hc
        rcases hc with (rfl | rfl) | rfl <;> exact ⟨_, rfl⟩
    obtain ⟨v, hv⟩ := hv
    simp only [hv]
    exact set_get p f conv v hfit a.2 hv

/-- the value of the last assignment to field `g`, if any -/
def lastFV (g : Nat) : List (Nat × Option Arg) → Option FV
  | [] => none
  | a :: r =>
    match lastFV g r with
    | some v => some v
    | none => if fieldOf a.1 = g then some (asgFV a) else none

/-- the assignments to field `g`, in order -/
def asgsTo (g : Nat) (as : List (Nat × Option Arg)) : List (Nat × Option Arg) := as.filter fun a => fieldOf a.1 == g

theorem lastFV_filter (g : Nat) (as : List (Nat × Option Arg)) : lastFV g as = lastFV g (asgsTo g as) := by
  induction as with
  | nil => rfl
  | cons a r ih =>
    by_cases hg : fieldOf a.1 = g
    · have : asgsTo g (a :: r) = a :: asgsTo g r := by simp [asgsTo, List.filter_cons, hg]
      rw [this]
      simp only [lastFV, ih]
    · have : asgsTo g (a :: r) = asgsTo g r := by simp [asgsTo, List.filter_cons, hg]
      rw [this, ← ih]
      simp only [lastFV, hg, if_false]
      cases lastFV g r <;> rfl

/-- **last occurrence wins, field by field**: after any list of (fitting) assignments every field holds the value of the
last assignment to it, or its initial value when there is none -/
theorem foldl_act_get (as : List (Nat × Option Arg)) (p : Params) (h : ∀ a ∈ as, asgOK a = true) :
    (as.foldl (fun p a => act a.1 a.2 p) p).fault = p.fault ∧
    ∀ g ∈ List.range 13, (as.foldl (fun p a => act a.1 a.2 p) p).get g = (lastFV g as).getD (p.get g) := by
  induction as generalizing p with
  | nil => simp [lastFV]
  | cons a r ih =>
    have ha := act_get a p (h a (by simp))
    have hr := ih (act a.1 a.2 p) (fun b hb => h b (by simp [hb]))
    rw [List.foldl_cons]
    refine ⟨hr.1.trans ha.1, fun g hg => ?_⟩
    rw [hr.2 g hg, ha.2 g hg]
    simp only [lastFV]
    cases lastFV g r with
    | some v => rfl
    | none =>
      by_cases hgg : fieldOf a.1 = g <;> simp [hgg]

/-- the block after a list of assignments depends only on, for each field, the sequence of assignments to that field -/
theorem foldl_act_congr (as bs : List (Nat × Option Arg)) (p : Params)
    (ha : ∀ a ∈ as, asgOK a = true) (hb : ∀ a ∈ bs, asgOK a = true)
    (h : ∀ g ∈ List.range 13, asgsTo g as = asgsTo g bs) :
    as.foldl (fun p a => act a.1 a.2 p) p = bs.foldl (fun p a => act a.1 a.2 p) p := by
  have h1 := foldl_act_get as p ha
  have h2 := foldl_act_get bs p hb
  apply Params.ext_get
  · intro g hg
    rw [h1.2 g hg, h2.2 g hg, lastFV_filter g as, lastFV_filter g bs, h g hg]
  · rw [h1.1, h2.1]

/-! ## well-formed units cause fitting assignments -/

theorem mem_of_contains {c : Nat} {l : List Nat} (h : l.contains c = true) : c ∈ l := by
  simpa using h

theorem longLookup_mem {p : Arg} {ha v : Nat} (h : longLookup p = .found ha v) :
    ∃ e ∈ Gen.cliLongOpts, e.2 = (ha, v) := by
  unfold longLookup at h
  cases hf : Gen.cliLongOpts.find? (fun e => e.1 == p) with
  | some e =>
    simp only [hf, Look.found.injEq] at h
    exact ⟨e, List.mem_of_find?_eq_some hf, by ext <;> simp [h.1, h.2]⟩
  | none =>
    simp only [hf] at h
    cases hl : Gen.cliLongOpts.filter (fun e => p.isPrefixOf e.1) with
    | nil => simp [hl] at h
    | cons e r =>
      cases r with
      | nil =>
        simp only [hl, Look.found.injEq] at h
        have : e ∈ Gen.cliLongOpts.filter (fun e => p.isPrefixOf e.1) := by simp [hl]
        exact ⟨e, (List.mem_filter.1 this).1, by ext <;> simp [h.1, h.2]⟩
      | cons e' r' =>
        simp [hl, Gen.cliLongOnly] at h

theorem Item.asgOK_of_wf (it : Item) (hw : it.wf = true) : ∀ a, it.asg = some a → asgOK a = true := by
  intro a ha
  cases it with
  | file f => simp [Item.asg] at ha
  | shortFlag c =>
    simp only [Item.wf, beq_iff_eq] at hw
    simp only [Item.asg, Option.some.injEq] at ha; subst ha
    exact table_cases_ok.2 c (mem_of_contains (shortKind_inOpt hw)) false (by simp) hw
  | short c v =>
    simp only [Item.wf, beq_iff_eq] at hw
    simp only [Item.asg, Option.some.injEq] at ha; subst ha
    exact table_cases_ok.2 c (mem_of_contains (shortKind_inOpt hw)) true (by simp) hw
  | longFlag dd p =>
    simp only [Item.wf, Bool.and_eq_true, beq_iff_eq] at hw
    simp only [Item.asg, Option.some.injEq] at ha; subst ha
    obtain ⟨e, he, h2⟩ := longLookup_mem (longLookup_of_hasArg hw.1.2)
    have := (table_cases_ok.1 e he).1
    rw [h2] at this
    simpa [asgOK] using this
  | long dd p eq v =>
    simp only [Item.wf, Bool.and_eq_true, beq_iff_eq] at hw
    simp only [Item.asg, Option.some.injEq] at ha; subst ha
    obtain ⟨e, he, h2⟩ := longLookup_mem (longLookup_of_hasArg hw.1.2)
    have := (table_cases_ok.1 e he).1
    rw [h2] at this
    simpa [asgOK] using this

theorem asgsOf_ok (xs : List Item) (hw : allWf xs = true) : ∀ a ∈ asgsOf xs, asgOK a = true := by
  intro a ha
  simp only [asgsOf, List.mem_filterMap] at ha
  obtain ⟨it, hit, hia⟩ := ha
  exact it.asgOK_of_wf (by simpa [allWf] using (List.all_eq_true.1 hw) it hit) a hia


/-! ## the value of each field in terms of the last option that assigns it -/

theorem lastFV_getLast (g : Nat) (l : List (Nat × Option Arg)) (h : ∀ a ∈ l, fieldOf a.1 = g) :
    lastFV g l = l.getLast?.map asgFV := by
  induction l with
  | nil => rfl
  | cons a r ih =>
    have ihr := ih (fun b hb => h b (by simp [hb]))
    simp only [lastFV, ihr, h a (by simp), if_true]
    cases r with
    | nil => rfl
    | cons b r' =>
      simp only [List.getLast?_cons_cons]
      cases hgl : (b :: r').getLast? with
      | none => simp at hgl
      | some v => rfl

/-- `optarg` of the last option assigning field `g`; `none`: no such option on the command line -/
def lastOpt (g : Nat) (xs : List Item) : Option (Option Arg) := ((asgsTo g (asgsOf xs)).getLast?).map (·.2)

/-- the argument of the last option assigning field `g` (for a flag: the empty string) -/
def lastArg (g : Nat) (xs : List Item) : Option Arg := (lastOpt g xs).map (·.getD [])

/-- the conversion the generated `switch` applies for each field -/
def convOfField : Nat → Nat
  | 0 => 2 | 1 => 2 | 2 => 2
  | 3 => 0 | 5 => 0 | 6 => 0 | 7 => 0
  | 4 => 1 | 12 => 1
  | _ => 3

theorem table_conv : ∀ e ∈ Gen.cliSwitch, e.2.2 = convOfField e.2.1 := by decide

/-- what an option with argument `o` stores in field `g` -/
def fvOfField (g : Nat) (o : Option Arg) : FV :=
  match convert (convOfField g) o with
  | some v => v.fv
  | none => .int 0

theorem asgFV_eq (a : Nat × Option Arg) (h : asgOK a = true) :
    asgFV a = fvOfField (fieldOf a.1) a.2 ∧ (convOfField (fieldOf a.1) ≠ 3 → a.2.isSome = true) := by
  unfold asgOK caseOK at h
  unfold asgFV fvOfField fieldOf
  cases hf : Gen.cliSwitch.find? (·.1 == a.1) with
  | none => simp [hf] at h
  | some e =>
    obtain ⟨c', f, conv⟩ := e
    have hc := table_conv _ (List.mem_of_find?_eq_some hf)
    simp only at hc
    subst hc
    simp only [hf, Bool.and_eq_true] at h ⊢
    refine ⟨trivial, fun h3 => ?_⟩
    cases ho : a.2 with
    | none => simp [ho, h3] at h
    | some o => rfl

theorem asgsTo_field (g : Nat) (as : List (Nat × Option Arg)) : ∀ a ∈ asgsTo g as, fieldOf a.1 = g := by
  intro a ha
  simpa using (List.mem_filter.1 ha).2

/-- the parameter block after the options of a command line -/
def blockOf (xs : List Item) : Params := (asgsOf xs).foldl (fun p a => act a.1 a.2 p) Params.init

/-- **every field is decided by the last option that assigns it** -/
theorem blockOf_get (xs : List Item) (hw : allWf xs = true) :
    (blockOf xs).fault = false ∧
    ∀ g ∈ List.range 13, (blockOf xs).get g =
      match lastOpt g xs with
      | some o => fvOfField g o
      | none => Params.init.get g := by
  have hok := asgsOf_ok xs hw
  have h := foldl_act_get (asgsOf xs) Params.init hok
  refine ⟨h.1, fun g hg => ?_⟩
  rw [blockOf, h.2 g hg, lastFV_filter, lastFV_getLast g _ (asgsTo_field g _), lastOpt]
  cases hl : (asgsTo g (asgsOf xs)).getLast? with
  | none => rfl
  | some a =>
    have ham : a ∈ asgsTo g (asgsOf xs) := List.mem_of_getLast? hl
    have hfa := asgsTo_field g _ a ham
    have := (asgFV_eq a (hok a (List.mem_filter.1 ham).1)).1
    simp [this, hfa]

theorem lastOpt_isSome_arg (xs : List Item) (hw : allWf xs = true) (g : Nat) (hg : convOfField g ≠ 3)
    (o : Option Arg) (h : lastOpt g xs = some o) : o.isSome = true := by
  unfold lastOpt at h
  cases hl : (asgsTo g (asgsOf xs)).getLast? with
  | none => simp [hl] at h
  | some a =>
    simp only [hl, Option.map_some, Option.some.injEq] at h
    have ham : a ∈ asgsTo g (asgsOf xs) := List.mem_of_getLast? hl
    have hfa := asgsTo_field g _ a ham
    have := (asgFV_eq a (asgsOf_ok xs hw a (List.mem_filter.1 ham).1)).2
    rw [hfa] at this
    rw [← h]; exact this hg

theorem tokensOf_files (fs : List Arg) : tokensOf (fs.map Item.file) = fs := by
  induction fs with
  | nil => rfl
  | cons f r ih => simp only [tokensOf, List.map_cons, List.flatMap_cons, Item.tokens] at ih ⊢; simp [ih]

theorem asgsOf_files (fs : List Arg) : asgsOf (fs.map Item.file) = [] := by
  induction fs with
  | nil => rfl
  | cons f r ih => simp only [asgsOf, List.map_cons, List.filterMap_cons, Item.asg] at ih ⊢; exact ih

theorem filesOf_files (fs : List Arg) : filesOf (fs.map Item.file) = fs := by
  induction fs with
  | nil => rfl
  | cons f r ih => simp only [filesOf, List.map_cons, List.filterMap_cons, Item.fileName] at ih ⊢; simp [ih]

/-- getopt's `'?'` ends the program: nothing that follows matters -/
theorem foldl_step_err (l : List Arg) (st : St) (h : st.mode = .err) : (l.foldl step st).mode = .err := by
  induction l generalizing st with
  | nil => exact h
  | cons a r ih =>
    rw [List.foldl_cons]
    have : step st a = st := by simp [step, h]
    rw [this]; exact ih st h


/-- the exact value of a binary32 bit pattern, times 1000, when that is an integer (the carrier of the exact model
`alnParamInit`, Model/Param.lean); `none` for infinities, NaNs and values that are not multiples of 1/1000 -/
def milliOfBits (b : Nat) : Option Int :=
  let neg := b / 2147483648 % 2 == 1
  let e := b / 8388608 % 256
  let m := b % 8388608
  if e == 255 then none else
  let n : Nat := if e == 0 then m else m + 8388608
  let q : Int := if e == 0 then -149 else (e : Int) - 150
  let num := n * 1000
  let mag : Option Nat :=
    if q ≥ 0 then some (num * 2 ^ q.toNat)
    else if num % 2 ^ (-q).toNat == 0 then some (num / 2 ^ (-q).toNat) else none
  mag.map fun v => if neg then -(v : Int) else v

end Kalign.Cli
