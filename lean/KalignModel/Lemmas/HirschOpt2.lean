import KalignModel.Lemmas.HirschOpt1
/-!
# `aln_continue` in uniform shape, and the target path of a column list
-/
namespace Kalign

/-- rows / columns of b consumed by a column of kind `k` (as `Int` offsets of the child rectangles) -/
def da (k : Kind) : Int := if k = .GA then 0 else 1
def db (k : Kind) : Int := if k = .GB then 0 else 1

section
variable {φ α : Type}

def optSet (m : Mem φ α) (b : Bool) (i v : Int) : Mem φ α := if b then m.setPath i v else m

/-- all six cases of `aln_continue` at once: the forward part ends in kind `fkOf t`, the backward part starts in kind
`bkOf t`; an aligned column on either side of the cut is written to the path, the child rectangles leave out the two
columns at the cut -/
theorem alnContinue_generic (K : Kernels φ α) (rec : Mem φ α → Mem φ α) (m : Mem φ α) (inF inB : States α)
    (fk bk : Kind) (sa ea sb eb mid meet t : Int) (ht : t = 1 ∨ t = 2 ∨ t = 3 ∨ t = 5 ∨ t = 6 ∨ t = 7) :
    alnContinue K rec m inF inB fk bk sa ea sb eb mid meet t =
      rec (alnBwd K
        (rec (alnFwd K (optSet (optSet m (fkOf t == .A) mid meet) (bkOf t == .A) (mid + 1) (meet + 1)) inF fk (fkOf t)
          sa (mid - da (fkOf t)) sb (meet - db (fkOf t))))
        inB bk (bkOf t) (mid + da (bkOf t)) ea (meet + db (bkOf t)) eb) := by
  rcases ht with h | h | h | h | h | h <;> subst h <;>
    simp [alnContinue, fkOf, bkOf, da, db, optSet]

end

/-! ## the target path -/

/-- entry `i` (1-based) of the Hirschberg path of the column list `P` -/
def pth (P : List Col) (i : Int) : Int := (pathFrom 0 P).getD (i.toNat - 1) (-1)

theorem pth_of_entry (P : List Col) (n : Nat) (v : Int) (h : (pathFrom 0 P)[n]? = some v) :
    pth P ((n + 1 : Nat) : Int) = v := by
  unfold pth
  simp only [Int.toNat_natCast, Nat.add_sub_cancel]
  rw [List.getD_eq_getElem?_getD, h]; rfl

theorem eq_snoc_of_lastKind (Y : List Col) (hs : Col.skip ∉ Y) (hne : Y ≠ []) :
    ∃ Y' c, Y = Y' ++ [c] ∧ c ≠ .skip ∧ lastKind .A Y = colKind .A c := by
  rcases List.eq_nil_or_concat Y with h0 | ⟨Y', c, hY⟩
  · exact absurd h0 hne
  · refine ⟨Y', c, by rw [hY, List.concat_eq_append], ?_, ?_⟩
    · intro hc; apply hs; rw [hY, hc]; simp
    · rw [hY, List.concat_eq_append, lastKind_snoc]
      have hc : c ≠ .skip := by intro hc; apply hs; rw [hY, hc]; simp
      exact colKind_indep _ _ _ hc

/-- the entry of the column in front of the cut -/
theorem pth_before (Y1 Y2 : List Col) (hs : Col.skip ∉ Y1) :
    (lastKind .A Y1 = .A → 1 ≤ consA Y1 → pth (Y1 ++ Y2) (consA Y1 : Nat) = (consB Y1 : Nat)) ∧
    (lastKind .A Y1 = .GB → pth (Y1 ++ Y2) (consA Y1 : Nat) = -1) := by
  by_cases hne : Y1 = []
  · subst hne
    refine ⟨fun _ h => by simp at h, fun h => by simp [lastKind] at h⟩
  · obtain ⟨Y', c, hY, hc, hk⟩ := eq_snoc_of_lastKind Y1 hs hne
    subst hY
    have happ : Y' ++ [c] ++ Y2 = Y' ++ c :: Y2 := by simp
    constructor
    · intro hA _
      rw [hk] at hA
      have hcb : c = .both := by cases c <;> simp_all [colKind]
      subst hcb
      have := pathFrom_entry Y' Y2 .both (Or.inl rfl)
      rw [happ, consA_append, consB_append]
      simp only [consA_both, consA_nil, consB_both, consB_nil, Nat.zero_add]
      have h2 := pth_of_entry _ _ _ this
      simpa using h2
    · intro hG
      rw [hk] at hG
      have hcb : c = .gapB := by cases c <;> simp_all [colKind]
      subst hcb
      have := pathFrom_entry Y' Y2 .gapB (Or.inr rfl)
      rw [happ, consA_append]
      simp only [consA_gapB, consA_nil, Nat.zero_add]
      have h2 := pth_of_entry _ _ _ this
      simpa using h2

/-- the entry of the column behind the cut -/
theorem pth_after (Y1 Y2 : List Col) (hs : Col.skip ∉ Y2) (hne : Y2 ≠ []) :
    (firstKind .A Y2 = .A → pth (Y1 ++ Y2) ((consA Y1 + 1 : Nat) : Int) = ((consB Y1 + 1 : Nat) : Int)) ∧
    (firstKind .A Y2 = .GB → pth (Y1 ++ Y2) ((consA Y1 + 1 : Nat) : Int) = -1) := by
  cases Y2 with
  | nil => exact absurd rfl hne
  | cons c cs =>
    constructor
    · intro hA
      have hcb : c = .both := by cases c <;> simp_all [firstKind, colKind]
      subst hcb
      have := pathFrom_entry Y1 cs .both (Or.inl rfl)
      have h2 := pth_of_entry _ _ _ this
      simpa using h2
    · intro hG
      have hcb : c = .gapB := by cases c <;> simp_all [firstKind, colKind]
      subst hcb
      have := pathFrom_entry Y1 cs .gapB (Or.inr rfl)
      have h2 := pth_of_entry _ _ _ this
      simpa using h2

theorem pathFrom_all_gapB (j : Nat) (X : List Col) (hs : Col.skip ∉ X) (hB : consB X = 0) :
    pathFrom j X = List.replicate (consA X) (-1) := by
  induction X with
  | nil => rfl
  | cons c cs ih =>
    have hs' : Col.skip ∉ cs := fun h => hs (List.mem_cons_of_mem _ h)
    cases c with
    | skip => exact absurd (by simp) hs
    | both => simp at hB
    | gapA => simp at hB
    | gapB =>
      simp only [consB_gapB] at hB
      simp only [pathFrom, ih hs' hB, consA_gapB, List.replicate_succ]

/-- a rectangle without columns of b: all its entries are −1 -/
theorem pth_all_gapB (P1 X P2 : List Col) (hs : Col.skip ∉ X) (hB : consB X = 0) (i : Int)
    (h1 : (consA P1 : Int) < i) (h2 : i ≤ ((consA P1 + consA X : Nat) : Int)) : pth (P1 ++ X ++ P2) i = -1 := by
  unfold pth
  rw [List.append_assoc, pathFrom_append, pathFrom_append, pathFrom_all_gapB _ X hs hB]
  have hi : i.toNat - 1 = consA P1 + (i.toNat - 1 - consA P1) := by omega
  rw [hi, List.getD_eq_getElem?_getD, List.getElem?_append_right (by rw [length_pathFrom]; omega), length_pathFrom,
    Nat.add_sub_cancel_left, List.getElem?_append_left (by simp; omega)]
  rw [List.getElem?_replicate]
  split <;> rfl

end Kalign
