import KalignModel.Lemmas.DiagDirect3
import KalignModel.Lemmas.DiagDirectS2
/-!
# The diagonal of identical operands on the `SoftF32` kernels (dyadic parameters)

The `SoftF32` meetup returns a *robust* maximum of the exact candidate values (`ssMeet_robust`: every admissible candidate is at
most `1000·(n/1000 + 1) ≤ n + 1000` units above the returned one; the slack pays for the rounded tie-break term).  On a square
rectangle of the diagonal every candidate other than the diagonal's has at least two gap columns, each of which loses at least
`E/2` units against the self-scores, so the diagonal's candidate is returned as soon as `n + 1000 < E`, where
`E ≤ s x x + 2·min(gpo, gpe, tgpe)` for all residues `x`.
-/
namespace Kalign
open SoftF32

/-- the exact value of the diagonal's candidate is finite and at least the sum of the self-scores -/
theorem diag_ev_finite (cF cB : KCfg) (dF dB : Nat → Int) (g E : Int) (HF : DiagCfg cF dF g E) (HB : DiagCfg cB dB g E)
    (hnn : cB.n = cF.n) (N : Nat) (hN : cF.n = N) (m1 m2 : Nat) (hm : m1 + m2 = N) (hm2 : 1 ≤ m2) :
    ∃ v', evC cF (absTab cF (hot .A) m1 m1) (absTab cB (hot .A) m2 (N - m1)) m1 1 = some v' ∧
      psum dF m1 + psum dB m2 ≤ v' := by
  have hn : 1 ≤ cF.n := by omega
  have hd1 : runF cF (initP (hot .A) .A) (diagCols m1) = ⟨m1, m1, fkOf 1, some (psum dF m1)⟩ := by
    rw [initP, hot_get_self, runF_some, walkOK_diag cF m1 0 0 .A (by omega), consA_diag, consB_diag, lastKind_diag,
      walkSc_diag cF dF m1 0 (fun i hi => HF.hdiag i (by omega))]
    simp [psum, fkOf]
  have hd2 : runF cB (initP (hot .A) .A) (diagCols m2) = ⟨m2, N - m1, bkOf 1, some (psum dB m2)⟩ := by
    rw [initP, hot_get_self, runF_some, walkOK_diag cB m2 0 0 .A (by omega), consA_diag, consB_diag, lastKind_diag,
      walkSc_diag cB dB m2 0 (fun i hi => HB.hdiag i (by omega))]
    have : N - m1 = m2 := by omega
    simp [psum, bkOf, this]
  have hFp : ole (some (psum dF m1)) ((absTab cF (hot .A) m1 m1).get (fkOf 1)) := by
    have := abs_sound cF hn (hot .A) .A (diagCols m1)
    rw [readAbs, hd1] at this
    exact this
  have hBp : ole (some (psum dB m2)) ((absTab cB (hot .A) m2 (N - m1)).get (bkOf 1)) := by
    have := abs_sound cB (by omega) (hot .A) .A (diagCols m2)
    rw [readAbs, hd2] at this
    exact this
  obtain ⟨ap', hap', hap2⟩ := ole_some_left hFp
  obtain ⟨bp', hbp', hbp2⟩ := ole_some_left hBp
  refine ⟨ap' + bp' - joinCost cF 1 m1, ?_, ?_⟩
  · unfold evC
    rw [hap', hbp']
    rfl
  · have hJ1 : joinCost cF 1 m1 = 0 := by simp [joinCost]
    omega

/-- **a robust maximum of the candidates of a square rectangle of the diagonal is the diagonal's candidate** -/
theorem diag_meet_robust (cF cB : KCfg) (dF dB : Nat → Int) (g E M : Int) (HF : DiagCfg cF dF g E) (HB : DiagCfg cB dB g E)
    (hnn : cB.n = cF.n) (hgpe : 0 ≤ cF.gpe) (htgpe : 0 ≤ cF.tgpe) (N : Nat) (hN : cF.n = N)
    (m1 m2 : Nat) (hm : m1 + m2 = N) (hm2 : 1 ≤ m2)
    (T : Int) (hsum : ∀ k, k ≤ N → psum dF k + psum dB (N - k) = T)
    (hM : 0 ≤ M) (hEM : M < E)
    (k : Nat) (t : Int) (v : Int) (hadm : Adm N k t)
    (hev : evC cF (absTab cF (hot .A) m1 k) (absTab cB (hot .A) m2 (N - k)) k t = some v)
    (hdom : ∀ k' t' v', Adm N k' t' →
      evC cF (absTab cF (hot .A) m1 k') (absTab cB (hot .A) m2 (N - k')) k' t' = some v' → v' - M ≤ v) :
    k = m1 ∧ t = 1 := by
  have hn : 1 ≤ cF.n := by omega
  obtain ⟨vP, hevP, hvP⟩ := diag_ev_finite cF cB dF dB g E HF HB hnn N hN m1 m2 hm hm2
  have hadm1 : Adm N m1 1 := Or.inl ⟨by omega, Or.inl rfl⟩
  have hrobP := hdom m1 1 vP hadm1 hevP
  obtain ⟨a', b', ha', hb', hv⟩ := evC_some hev
  have hkn : k ≤ N := hadm.le
  have hvalid := hadm.valid
  obtain ⟨k0F, X1, hrun1⟩ : ∃ k0F X1, runF cF (initP (hot .A) k0F) X1 = ⟨m1, k, fkOf t, some a'⟩ := by
    rcases abs_attained cF hn (hot .A) m1 k (by omega) (fkOf t) with h | ⟨k0, cs, h⟩
    · rw [ha'] at h; simp at h
    · exact ⟨k0, cs, by rw [h, ha']⟩
  obtain ⟨k0B, X2r, hrun2⟩ : ∃ k0B X2r, runF cB (initP (hot .A) k0B) X2r = ⟨m2, N - k, bkOf t, some b'⟩ := by
    rcases abs_attained cB (by omega) (hot .A) m2 (N - k) (by omega) (bkOf t) with h | ⟨k0, cs, h⟩
    · rw [hb'] at h; simp at h
    · exact ⟨k0, cs, by rw [h, hb']⟩
  obtain ⟨hw1, hv1, hA1, hB1, hl1⟩ := runF_hot cF .A k0F X1 _ _ _ _ hrun1
  obtain ⟨hw2, hv2, hA2, hB2, hl2⟩ := runF_hot cB .A k0B X2r _ _ _ _ hrun2
  have hb1 := walk_le_diag cF dF g E HF X1 0 0 .A m1 k hw1 (by omega) (by omega) (by omega)
  have hb2 := walk_le_diag cB dB g E HB X2r 0 0 .A m2 (N - k) hw2 (by omega) (by omega) (by omega)
  rw [← hv1] at hb1
  rw [← hv2] at hb2
  have hp0F : psum dF 0 = 0 := rfl
  have hp0B : psum dB 0 = 0 := rfl
  have hs1 := hsum k hkn
  have hs2 := hsum m1 (by omega)
  have hm2' : N - m1 = m2 := by omega
  rw [hm2'] at hs2
  have hJ := joinCost_nonneg cF HF.hgpo hgpe htgpe t k
  -- parity: the number of gap columns of the pair is even
  have hpar1 := gapN_parity X1 (adjOK_noskip _ _ (walkOK_adjOK cF X1 0 0 .A hw1))
  have hpar2 := gapN_parity X2r (adjOK_noskip _ _ (walkOK_adjOK cB X2r 0 0 .A hw2))
  have hG0 : gapN X1 + gapN X2r = 0 := by
    refine Classical.byContradiction fun hne => ?_
    have h2 : 2 ≤ gapN X1 + gapN X2r := by omega
    have h2' : (2 : Int) ≤ (gapN X1 : Int) + (gapN X2r : Int) := by omega
    have hmul : E * 2 ≤ E * ((gapN X1 : Int) + (gapN X2r : Int)) := Int.mul_le_mul_of_nonneg_left h2' (by omega)
    rw [Int.mul_add] at hmul
    omega
  obtain ⟨hX1, hX1b⟩ := gapN_zero X1 (by omega)
  obtain ⟨hX2, hX2b⟩ := gapN_zero X2r (by omega)
  have hk : k = m1 := by omega
  have hf : fkOf t = .A := by rw [← hl1, hX1]; exact lastKind_diag _
  have hbk : bkOf t = .A := by rw [← hl2, hX2]; exact lastKind_diag _
  exact ⟨hk, fkbk_one t hvalid hf hbk⟩

/-- **the `SoftF32` meetup of every rectangle of the diagonal returns the diagonal's cut** (dyadic parameters) -/
theorem soft_diag_cutHyp {U : Nat} {ap : AlnParam SoftF32} {apE : AlnParam ExactScore} (hd : DyadicParam U ap apE)
    (gpo gpe tgpe : Int) (s : Nat → Nat → Int) (hap : ApOK apE gpo gpe tgpe s) (seq : Array Nat)
    (hgpo : 0 ≤ gpo) (hgpe : 0 ≤ gpe) (htgpe : 0 ≤ tgpe)
    (hsize : U * (seq.size + seq.size + 1) + seq.size / 1000 + 1 < 16777216) (hlenB : seq.size < 4194304)
    (hself : ∀ x ∈ seq.toList, (seq.size : Int) + 1000 < s x x + 2 * min gpo (min gpe tgpe))
    (hdom : ∀ x ∈ seq.toList, ∀ y ∈ seq.toList, 2 * s x y ≤ s x x + s y y) :
    CutHypS U ap apE gpo gpe tgpe s seq seq seq.size seq.size (diagCols seq.size) := by
  refine ⟨adjOK_diag _ _, consA_diag _, consB_diag _, ?_⟩
  intro sa mid ea sb eb h1 h2 h3 h4 h5 hmid P1 X P2 hP hP1a hP1b hXa hXb _ _ fk bk hfk hbk res hres
  obtain ⟨hb1, hbX, hb2⟩ := mem_diag_both hP
  have eP1 := all_both_diag P1 hb1
  have eX := all_both_diag X hbX
  have eP2 := all_both_diag P2 hb2
  rw [eP1, consA_diag] at hP1a
  rw [eP1, consB_diag] at hP1b
  rw [eX, consA_diag] at hXa
  rw [eX, consB_diag] at hXb
  have hsb : sb = sa := by omega
  have heb : eb = ea := by omega
  subst hsb heb
  have hfkA : fk = .A := by rw [hfk, eP1]; exact lastKind_diag _
  have hbkA : bk = .A := by rw [hbk, eP2]; exact firstKind_diag _
  subst hfkA hbkA
  have hselfE : ∀ x ∈ seq.toList, (seq.size : Int) + 1001 ≤ s x x + 2 * min gpo (min gpe tgpe) := fun x hx => by
    have := hself x hx; omega
  have HF := diagCfgF gpo gpe tgpe s seq ((seq.size : Int) + 1001) hgpo hselfE hdom sb mid eb seq.size h3
  have HB := diagCfgB gpo gpe tgpe s seq ((seq.size : Int) + 1001) hgpo hselfE hdom sb mid eb seq.size h3
  obtain ⟨cF, hcF⟩ : ∃ cF, cF = cfgF gpo gpe tgpe s seq seq ⟨sb, mid, sb, eb, seq.size⟩ := ⟨_, rfl⟩
  obtain ⟨cB, hcB⟩ : ∃ cB, cB = cfgB gpo gpe tgpe s seq seq ⟨mid, eb, sb, eb, seq.size⟩ := ⟨_, rfl⟩
  have hcn : cF.n = eb - sb := by rw [hcF]; rfl
  have hcBn : cB.n = eb - sb := by rw [hcB]; rfl
  have hgpe' : 0 ≤ cF.gpe := by rw [hcF]; exact hgpe
  have htgpe' : 0 ≤ cF.tgpe := by rw [hcF]; exact htgpe
  -- the tables of the `SoftF32` kernels
  obtain ⟨F, hFeq, hFemb⟩ := ssForward_emb hd hap seq seq ⟨sb, mid, sb, eb, seq.size⟩ h4 .A
    (size_arith_tab (m := mid - sb) (n := eb - sb) (by omega) (by omega) hsize)
  obtain ⟨G, hGeq, hGemb⟩ := ssBackward_emb hd hap seq seq ⟨mid, eb, sb, eb, seq.size⟩ h4 (Nat.le_of_lt h2) .A
    (size_arith_tab (m := eb - mid) (n := eb - sb) (by omega) (by omega) hsize)
  simp only [] at hFeq hGeq hFemb hGemb
  rw [← hcF] at hFemb
  rw [← hcB] at hGemb
  rw [hFeq, hGeq] at hres
  have hrob := ssMeet_robust hd hap seq seq ⟨sb, mid, sb, eb, seq.size⟩ ((eb - sb) / 1000 + 1)
    (fun k => U * ((mid - sb) + k)) (fun k => U * ((eb - mid) + (eb - sb - k))) F G
    (absTab cF (hot .A) (mid - sb)) (fun k => absTab cB (hot .A) (eb - mid) (eb - sb - k))
    (fun k hk => ⟨size_arith (m1 := mid - sb) (m2 := eb - mid) hk (by omega) (by omega) hsize, hFemb k hk, hGemb k hk,
      SoftF32.tie_le sb eb (sb + k) (by omega) (by simp only [] at hk; omega) (by omega)⟩)
  simp only [] at hrob
  rw [← hres, ← hcF] at hrob
  rw [← hcF, ← hcB]
  have hsum : ∀ k, k ≤ eb - sb →
      psum (fun i => selfSc s seq (sb + i)) k + psum (fun i => selfSc s seq (eb - 1 - i)) (eb - sb - k) =
        psum (fun i => selfSc s seq (sb + i)) (eb - sb) := by
    intro k hk
    have := psum_rev (selfSc s seq) sb eb (by omega) (eb - sb - k) (by omega)
    have e : eb - sb - (eb - sb - k) = k := by omega
    rw [e] at this
    exact this
  rw [← hcF] at HF
  rw [← hcB] at HB
  have hta := tie_arith (eb - sb) seq.size (by omega)
  have hres' : res.meet = ((sb + (mid - sb) : Nat) : Int) ∧ res.transition = 1 := by
    rcases hrob with ⟨_, hnone⟩ | ⟨k, t, v, hadm, hmeet, htrans, hev, hdomr⟩
    · exfalso
      obtain ⟨vP, hevP, _⟩ := diag_ev_finite cF cB _ _ _ _ HF HB (by rw [hcn, hcBn]) (eb - sb) hcn (mid - sb) (eb - mid)
        (by omega) (by omega)
      have := hnone (mid - sb) 1 (Or.inl ⟨by omega, Or.inl rfl⟩)
      rw [hevP] at this
      simp at this
    · obtain ⟨hk, ht⟩ := diag_meet_robust cF cB _ _ _ _ (1000 * (((eb - sb) / 1000 + 1 : Nat) : Int)) HF HB
        (by rw [hcn, hcBn]) hgpe' htgpe' (eb - sb) hcn (mid - sb) (eb - mid) (by omega) (by omega) _ hsum
        (by omega) (by omega) k t v hadm hev hdomr
      exact ⟨by rw [hmeet, hk], by rw [htrans, ht]⟩
  obtain ⟨hmeet, htrans⟩ := hres'
  exact diag_cut_pieces cF cB sb mid eb h1 h2 hcn hcBn X (by rw [eX, hXa]) res hmeet htrans

end Kalign
