import KalignModel.Lemmas.KernelTab
import KalignModel.Lemmas.ExactAlg
import KalignModel.Model.Hirschberg
import KalignModel.Model.Weave
/-!
# S1 — what the sequence–sequence kernels compute (exact carrier)

`ssForward` and `ssBackward` are the same abstract kernel `absTab` run on a configuration `KCfg` (`cfgF` / `cfgB`):
the backward kernel is the forward kernel on the reversed problem with the two terminal flags exchanged.

The abstract kernel is specified against *readings* of partial column lists: `runF c s₀ cs` walks the column list
`cs` from the corner of the rectangle in start kind `k0` and charges exactly what the kernel charges (`stepF`):

* an aligned column after a gap column costs `gpo` (also when that gap run is a leading terminal run);
* a gap-in-a column (`Col.gapA`, consumes a residue of b) in the first row costs `tgpe` when the flag `tF` is set
  (`startb == 0` forward, `endb == len_b` backward), otherwise `gpo` (open) or `gpe` (extend); in later rows always
  `gpo`/`gpe`;
* a gap-in-b column (`Col.gapB`) costs `tgpe` in cell column 0 when `tF` is set and in cell column `n` when `tL` is set,
  otherwise `gpo`/`gpe`;
* a gap-in-a column may not follow a gap-in-b column and vice versa, and no gap-in-a column may enter the last cell
  column `n` (the kernel writes −∞ there: that case is covered by the other kernel through transition 5 resp. 2).

`abs_sound`: every reading is ≤ the cell it ends in.  `abs_attained`: every cell is −∞ or the reading of some
partial column list.
-/
namespace Kalign

def States.get {α : Type} (s : States α) : Kind → α
  | .A => s.a
  | .GA => s.ga
  | .GB => s.gb

@[simp] theorem States.get_A {α : Type} (s : States α) : s.get .A = s.a := rfl
@[simp] theorem States.get_GA {α : Type} (s : States α) : s.get .GA = s.ga := rfl
@[simp] theorem States.get_GB {α : Type} (s : States α) : s.get .GB = s.gb := rfl

@[simp] theorem Kind.beq_A_GA : (Kind.A == Kind.GA) = false := rfl
@[simp] theorem Kind.beq_A_GB : (Kind.A == Kind.GB) = false := rfl
@[simp] theorem Kind.beq_GA_A : (Kind.GA == Kind.A) = false := rfl
@[simp] theorem Kind.beq_GA_GB : (Kind.GA == Kind.GB) = false := rfl
@[simp] theorem Kind.beq_GB_A : (Kind.GB == Kind.A) = false := rfl
@[simp] theorem Kind.beq_GB_GA : (Kind.GB == Kind.GA) = false := rfl
@[simp] theorem Kind.beq_self (k : Kind) : (k == k) = true := by cases k <;> rfl

/-- configuration of the abstract kernel -/
structure KCfg where
  /-- cells `0..n` -/
  n : Nat
  /-- terminal flag of the first cell column and of the first row -/
  tF : Bool
  /-- terminal flag of the last cell column -/
  tL : Bool
  gpo : Int
  gpe : Int
  tgpe : Int
  /-- `sc p k`: substitution score of the aligned column leading from node `(p,k)` to `(p+1,k+1)` -/
  sc : Nat → Nat → Int

/-- `MAX(g - gpe, a - gpo)` or `MAX(g, a) - tgpe` -/
def gGap (term : Bool) (gpo gpe tgpe : Int) (g a : Option Int) : Option Int :=
  if term then osub (omax g a) tgpe else omax (osub g gpe) (osub a gpo)

/-- `MAX3(pa, pga - gpo, pgb - gpo) + s` -/
def gAl (gpo s : Int) (a ga gb : Option Int) : Option Int :=
  oaddi (omax (omax a (osub ga gpo)) (osub gb gpo)) s

def absOps (c : KCfg) (p : Nat) : RowOps ExactScore :=
  { gbFirst := gGap c.tF c.gpo c.gpe c.tgpe
    aCell := fun k pa pga pgb => gAl c.gpo (c.sc p (k - 1)) pa pga pgb
    gaCell := fun _ xga xa => gGap false c.gpo c.gpe c.tgpe xga xa
    gbMid := gGap false c.gpo c.gpe c.tgpe
    gbLast := gGap c.tL c.gpo c.gpe c.tgpe }

def absGaInit (c : KCfg) : Nat → ExactScore → ExactScore → ExactScore :=
  fun _ pga pa => gGap c.tF c.gpo c.gpe c.tgpe pga pa

/-- row `p`, cell `k` of the abstract kernel -/
def absTab (c : KCfg) (start : States ExactScore) : Nat → Nat → States ExactScore :=
  genTab (absGaInit c) c.n start (absOps c)

theorem absTab_zero_zero (c : KCfg) (start : States ExactScore) : absTab c start 0 0 = start := rfl

theorem absTab_zero_succ (c : KCfg) (start : States ExactScore) (k : Nat) :
    absTab c start 0 (k + 1) =
      if k + 1 < c.n then
        ⟨none, gGap c.tF c.gpo c.gpe c.tgpe (absTab c start 0 k).ga (absTab c start 0 k).a, none⟩
      else ⟨none, none, none⟩ := rfl

theorem absTab_succ_zero (c : KCfg) (start : States ExactScore) (p : Nat) :
    absTab c start (p + 1) 0 =
      ⟨none, none, gGap c.tF c.gpo c.gpe c.tgpe (absTab c start p 0).gb (absTab c start p 0).a⟩ := rfl

theorem absTab_succ_succ (c : KCfg) (start : States ExactScore) (p k : Nat) :
    absTab c start (p + 1) (k + 1) =
      ⟨gAl c.gpo (c.sc p k) (absTab c start p k).a (absTab c start p k).ga (absTab c start p k).gb,
       if k + 1 < c.n then
         gGap false c.gpo c.gpe c.tgpe (absTab c start (p + 1) k).ga (absTab c start (p + 1) k).a
       else none,
       if k + 1 < c.n then
         gGap false c.gpo c.gpe c.tgpe (absTab c start p (k + 1)).gb (absTab c start p (k + 1)).a
       else gGap c.tL c.gpo c.gpe c.tgpe (absTab c start p (k + 1)).gb (absTab c start p (k + 1)).a⟩ := rfl

/-! ## readings -/

/-- state of a walk: node `(p,k)`, kind of the last column, value so far -/
structure PSt where
  p : Nat
  k : Nat
  st : Kind
  v : Option Int
  deriving DecidableEq, Repr

/-- value after an aligned column entered from kind `st` -/
def alFrom (gpo s : Int) (st : Kind) (v : Option Int) : Option Int :=
  match st with
  | .A => oaddi v s
  | _ => oaddi (osub v gpo) s

/-- value after a gap column; `same` = the previous column is a gap column of the same kind -/
def gapFrom (term : Bool) (gpo gpe tgpe : Int) (same : Bool) (v : Option Int) : Option Int :=
  osub v (if term then tgpe else if same then gpe else gpo)

/-- is a gap-in-a column in row `p` charged as terminal? -/
def KCfg.termA (c : KCfg) (p : Nat) : Bool := decide (p = 0) && c.tF
/-- is a gap-in-b column in cell column `k` charged as terminal? -/
def KCfg.termB (c : KCfg) (k : Nat) : Bool := (decide (k = 0) && c.tF) || (decide (k = c.n) && c.tL)

theorem KCfg.termA_zero (c : KCfg) : c.termA 0 = c.tF := by simp [KCfg.termA]
theorem KCfg.termA_succ (c : KCfg) (p : Nat) : c.termA (p + 1) = false := by simp [KCfg.termA]
theorem KCfg.termB_zero (c : KCfg) (hn : 1 ≤ c.n) : c.termB 0 = c.tF := by
  have : ¬ (0 = c.n) := by omega
  simp [KCfg.termB, this]
theorem KCfg.termB_mid (c : KCfg) (k : Nat) (h : k + 1 < c.n) : c.termB (k + 1) = false := by
  have : ¬ (k + 1 = c.n) := by omega
  simp [KCfg.termB, this]
theorem KCfg.termB_last (c : KCfg) (k : Nat) (h : k + 1 = c.n) : c.termB (k + 1) = c.tL := by
  have : c.n = k + 1 := h.symm
  simp [KCfg.termB, this]

/-- one column, charged as the kernel charges it -/
def stepF (c : KCfg) (s : PSt) : Col → PSt
  | .both => ⟨s.p + 1, s.k + 1, .A, if s.k + 1 ≤ c.n then alFrom c.gpo (c.sc s.p s.k) s.st s.v else none⟩
  | .gapA => ⟨s.p, s.k + 1, .GA,
      if s.k + 1 < c.n ∧ s.st ≠ .GB then
        gapFrom (c.termA s.p) c.gpo c.gpe c.tgpe (s.st == .GA) s.v
      else none⟩
  | .gapB => ⟨s.p + 1, s.k, .GB,
      if s.k ≤ c.n ∧ s.st ≠ .GA then
        gapFrom (c.termB s.k) c.gpo c.gpe c.tgpe (s.st == .GB) s.v
      else none⟩
  | .skip => ⟨s.p, s.k, s.st, none⟩

def runF (c : KCfg) (s : PSt) (cs : List Col) : PSt := cs.foldl (stepF c) s

/-- start of a walk in kind `k0` -/
def initP (start : States ExactScore) (k0 : Kind) : PSt := ⟨0, 0, k0, start.get k0⟩

/-- the reading of `cs` by the abstract kernel, started in kind `k0` -/
def readAbs (c : KCfg) (start : States ExactScore) (k0 : Kind) (cs : List Col) : Option Int :=
  (runF c (initP start k0) cs).v

theorem runF_append (c : KCfg) (s : PSt) (cs ds : List Col) : runF c s (cs ++ ds) = runF c (runF c s cs) ds := by
  simp [runF, List.foldl_append]

@[simp] theorem runF_nil (c : KCfg) (s : PSt) : runF c s [] = s := rfl
@[simp] theorem runF_cons (c : KCfg) (s : PSt) (x : Col) (cs : List Col) :
    runF c s (x :: cs) = runF c (stepF c s x) cs := rfl

theorem gGap_ge_g (term : Bool) (gpo gpe tgpe : Int) (g a v : Option Int) (h : ole v g) :
    ole (gapFrom term gpo gpe tgpe true v) (gGap term gpo gpe tgpe g a) := by
  unfold gapFrom gGap
  cases term
  · simp only [Bool.false_eq_true, if_false, if_true]
    exact ole_trans (osub_mono _ h) (ole_omax_left _ _)
  · simp only [if_true]
    exact osub_mono _ (ole_trans h (ole_omax_left _ _))

theorem gGap_ge_a (term : Bool) (gpo gpe tgpe : Int) (g a v : Option Int) (h : ole v a) :
    ole (gapFrom term gpo gpe tgpe false v) (gGap term gpo gpe tgpe g a) := by
  unfold gapFrom gGap
  cases term
  · simp only [Bool.false_eq_true, if_false]
    exact ole_trans (osub_mono _ h) (ole_omax_right _ _)
  · simp only [if_true]
    exact osub_mono _ (ole_trans h (ole_omax_right _ _))

theorem gGap_cases (term : Bool) (gpo gpe tgpe : Int) (g a : Option Int) :
    gGap term gpo gpe tgpe g a = gapFrom term gpo gpe tgpe true g ∨
    gGap term gpo gpe tgpe g a = gapFrom term gpo gpe tgpe false a := by
  unfold gapFrom gGap
  cases term
  · simp only [Bool.false_eq_true, if_false, if_true]
    exact omax_cases _ _
  · simp only [if_true]
    rcases omax_cases g a with h | h <;> rw [h] <;> simp

theorem gAl_ge (gpo s : Int) (a ga gb : Option Int) (st : Kind) (v : Option Int)
    (h : ole v ((⟨a, ga, gb⟩ : States ExactScore).get st)) :
    ole (alFrom gpo s st v) (gAl gpo s a ga gb) := by
  unfold alFrom gAl
  cases st
  · exact oaddi_mono _ (ole_trans (ole_trans h (ole_omax_left _ _)) (ole_omax_left _ _))
  · exact oaddi_mono _ (ole_trans (ole_trans (osub_mono _ h) (ole_omax_right _ _)) (ole_omax_left _ _))
  · exact oaddi_mono _ (ole_trans (osub_mono _ h) (ole_omax_right _ _))

theorem gAl_cases (gpo s : Int) (a ga gb : Option Int) :
    gAl gpo s a ga gb = alFrom gpo s .A a ∨ gAl gpo s a ga gb = alFrom gpo s .GA ga ∨
    gAl gpo s a ga gb = alFrom gpo s .GB gb := by
  unfold alFrom gAl
  rcases omax_cases (omax a (osub ga gpo)) (osub gb gpo) with h | h
  · rcases omax_cases a (osub ga gpo) with h' | h'
    · left; rw [h, h']
    · right; left; rw [h, h']
  · right; right; rw [h]

/-! ## (i) every reading is below the cell it ends in -/

/-- the invariant of a walk: its value is at most the table cell at its node and kind -/
def Below (c : KCfg) (start : States ExactScore) (s : PSt) : Prop :=
  ole s.v ((absTab c start s.p s.k).get s.st)

theorem step_below (c : KCfg) (hn : 1 ≤ c.n) (start : States ExactScore) (s : PSt) (col : Col)
    (h : Below c start s) : Below c start (stepF c s col) := by
  obtain ⟨p, k, st, v⟩ := s
  unfold Below at h ⊢
  simp only at h
  cases col with
  | skip => simp [stepF]
  | both =>
    simp only [stepF]
    split
    · rw [absTab_succ_succ]
      exact gAl_ge _ _ _ _ _ st v h
    · simp
  | gapA =>
    simp only [stepF]
    split
    · rename_i hc
      obtain ⟨hk, hst⟩ := hc
      cases p with
      | zero =>
        rw [absTab_zero_succ, if_pos hk]
        rw [KCfg.termA_zero]
        cases st with
        | A => exact gGap_ge_a _ _ _ _ _ _ _ h
        | GA => exact gGap_ge_g _ _ _ _ _ _ _ h
        | GB => exact absurd rfl hst
      | succ p =>
        rw [absTab_succ_succ]
        rw [if_pos hk, KCfg.termA_succ]
        cases st with
        | A => exact gGap_ge_a _ _ _ _ _ _ _ h
        | GA => exact gGap_ge_g _ _ _ _ _ _ _ h
        | GB => exact absurd rfl hst
    · simp
  | gapB =>
    simp only [stepF]
    split
    · rename_i hc
      obtain ⟨hk, hst⟩ := hc
      cases k with
      | zero =>
        rw [absTab_succ_zero]
        rw [KCfg.termB_zero c hn]
        cases st with
        | A => exact gGap_ge_a _ _ _ _ _ _ _ h
        | GB => exact gGap_ge_g _ _ _ _ _ _ _ h
        | GA => exact absurd rfl hst
      | succ k =>
        rw [absTab_succ_succ]
        by_cases hlt : k + 1 < c.n
        · rw [KCfg.termB_mid c k hlt]
          simp only [hlt, ↓reduceIte, States.get]
          cases st with
          | A => exact gGap_ge_a _ _ _ _ _ _ _ h
          | GB => exact gGap_ge_g _ _ _ _ _ _ _ h
          | GA => exact absurd rfl hst
        · rw [KCfg.termB_last c k (by omega)]
          simp only [hlt, ↓reduceIte, States.get]
          cases st with
          | A => exact gGap_ge_a _ _ _ _ _ _ _ h
          | GB => exact gGap_ge_g _ _ _ _ _ _ _ h
          | GA => exact absurd rfl hst
    · simp

theorem run_below (c : KCfg) (hn : 1 ≤ c.n) (start : States ExactScore) (cs : List Col) (s : PSt)
    (h : Below c start s) : Below c start (runF c s cs) := by
  induction cs generalizing s with
  | nil => exact h
  | cons x cs ih => exact ih _ (step_below c hn start s x h)

/-- **S1 (i)**: the reading of any partial column list is at most the cell at its end node and end kind -/
theorem abs_sound (c : KCfg) (hn : 1 ≤ c.n) (start : States ExactScore) (k0 : Kind) (cs : List Col) :
    ole (readAbs c start k0 cs)
      ((absTab c start (runF c (initP start k0) cs).p (runF c (initP start k0) cs).k).get
        (runF c (initP start k0) cs).st) :=
  run_below c hn start cs _ (by unfold Below initP; rw [absTab_zero_zero]; exact ole_refl _)

/-! ## (ii) every cell is attained -/

/-- `v` is −∞ or the reading of a walk that ends at node `(p,k)` in kind `st` -/
def Reach (c : KCfg) (start : States ExactScore) (p k : Nat) (st : Kind) (v : Option Int) : Prop :=
  v = none ∨ ∃ k0 cs, runF c (initP start k0) cs = ⟨p, k, st, v⟩

theorem stepF_none (c : KCfg) (p k : Nat) (st : Kind) (col : Col) : (stepF c ⟨p, k, st, none⟩ col).v = none := by
  cases col <;> simp only [stepF] <;> try rfl
  · split
    · cases st <;> rfl
    · rfl
  · split <;> rfl
  · split <;> rfl

theorem reach_step (c : KCfg) (start : States ExactScore) (p k : Nat) (st : Kind) (v : Option Int) (col : Col)
    (p' k' : Nat) (st' : Kind) (v' : Option Int)
    (h : Reach c start p k st v) (hs : stepF c ⟨p, k, st, v⟩ col = ⟨p', k', st', v'⟩) :
    Reach c start p' k' st' v' := by
  rcases h with h | ⟨k0, cs, h⟩
  · left
    subst h
    have := stepF_none c p k st col
    rw [hs] at this
    exact this
  · right
    refine ⟨k0, cs ++ [col], ?_⟩
    rw [runF_append, h]
    exact hs

theorem reach_none (c : KCfg) (start : States ExactScore) (p k : Nat) (st : Kind) : Reach c start p k st none :=
  Or.inl rfl

/-- reach a gap cell `gGap term g a` from the cells `g` (same kind) and `a` -/
theorem reach_gGap (c : KCfg) (start : States ExactScore) (p k p' k' : Nat) (col : Col) (gk : Kind)
    (term : Bool) (g a : Option Int)
    (hg : Reach c start p k gk g) (ha : Reach c start p k .A a)
    (sg : stepF c ⟨p, k, gk, g⟩ col = ⟨p', k', gk, gapFrom term c.gpo c.gpe c.tgpe true g⟩)
    (sa : stepF c ⟨p, k, .A, a⟩ col = ⟨p', k', gk, gapFrom term c.gpo c.gpe c.tgpe false a⟩) :
    Reach c start p' k' gk (gGap term c.gpo c.gpe c.tgpe g a) := by
  rcases gGap_cases term c.gpo c.gpe c.tgpe g a with h | h <;> rw [h]
  · exact reach_step c start _ _ _ _ _ _ _ _ _ hg sg
  · exact reach_step c start _ _ _ _ _ _ _ _ _ ha sa

theorem reach_row0 (c : KCfg) (hn : 1 ≤ c.n) (start : States ExactScore) :
    ∀ k, k ≤ c.n → ∀ st, Reach c start 0 k st ((absTab c start 0 k).get st) := by
  intro k
  induction k with
  | zero =>
    intro _ st
    right
    exact ⟨st, [], by simp [initP, absTab_zero_zero]⟩
  | succ k ih =>
    intro hk st
    rw [absTab_zero_succ]
    split
    · rename_i hlt
      cases st with
      | A => exact reach_none _ _ _ _ _
      | GB => exact reach_none _ _ _ _ _
      | GA =>
        simp only [States.get]
        refine reach_gGap c start 0 k 0 (k + 1) .gapA .GA c.tF _ _ (ih (by omega) .GA) (ih (by omega) .A) ?_ ?_
        · simp [stepF, hlt, KCfg.termA_zero]
        · simp [stepF, hlt, KCfg.termA_zero]
    · cases st <;> exact reach_none _ _ _ _ _

theorem reach_rowS (c : KCfg) (hn : 1 ≤ c.n) (start : States ExactScore) (p : Nat)
    (ihp : ∀ k, k ≤ c.n → ∀ st, Reach c start p k st ((absTab c start p k).get st)) :
    ∀ k, k ≤ c.n → ∀ st, Reach c start (p + 1) k st ((absTab c start (p + 1) k).get st) := by
  intro k
  induction k with
  | zero =>
    intro _ st
    rw [absTab_succ_zero]
    cases st with
    | A => exact reach_none _ _ _ _ _
    | GA => exact reach_none _ _ _ _ _
    | GB =>
      simp only [States.get]
      refine reach_gGap c start p 0 (p + 1) 0 .gapB .GB c.tF _ _ (ihp 0 (by omega) .GB) (ihp 0 (by omega) .A) ?_ ?_
      · simp [stepF, KCfg.termB_zero c hn]
      · simp [stepF, KCfg.termB_zero c hn]
  | succ k ih =>
    intro hk st
    rw [absTab_succ_succ]
    cases st with
    | A =>
      simp only [States.get]
      rcases gAl_cases c.gpo (c.sc p k) (absTab c start p k).a (absTab c start p k).ga (absTab c start p k).gb
        with h | h | h <;> rw [h]
      · exact reach_step c start p k .A _ .both _ _ _ _ (ihp k (by omega) .A) (by simp [stepF, hk])
      · exact reach_step c start p k .GA _ .both _ _ _ _ (ihp k (by omega) .GA) (by simp [stepF, hk])
      · exact reach_step c start p k .GB _ .both _ _ _ _ (ihp k (by omega) .GB) (by simp [stepF, hk])
    | GA =>
      simp only [States.get]
      split
      · rename_i hlt
        refine reach_gGap c start (p + 1) k (p + 1) (k + 1) .gapA .GA false _ _
          (ih (by omega) .GA) (ih (by omega) .A) ?_ ?_
        · simp [stepF, hlt, KCfg.termA_succ]
        · simp [stepF, hlt, KCfg.termA_succ]
      · exact reach_none _ _ _ _ _
    | GB =>
      simp only [States.get]
      split
      · rename_i hlt
        refine reach_gGap c start p (k + 1) (p + 1) (k + 1) .gapB .GB false _ _
          (ihp (k + 1) hk .GB) (ihp (k + 1) hk .A) ?_ ?_
        · simp [stepF, hk, KCfg.termB_mid c k hlt]
        · simp [stepF, hk, KCfg.termB_mid c k hlt]
      · rename_i hlt
        have h1 : k + 1 = c.n := by omega
        refine reach_gGap c start p (k + 1) (p + 1) (k + 1) .gapB .GB c.tL _ _
          (ihp (k + 1) hk .GB) (ihp (k + 1) hk .A) ?_ ?_
        · simp [stepF, hk, KCfg.termB_last c k h1]
        · simp [stepF, hk, KCfg.termB_last c k h1]

/-- **S1 (ii)**: every cell of the table is −∞ or the reading of a partial column list ending there -/
theorem abs_attained (c : KCfg) (hn : 1 ≤ c.n) (start : States ExactScore) (p k : Nat) (hk : k ≤ c.n) (st : Kind) :
    Reach c start p k st ((absTab c start p k).get st) := by
  induction p generalizing k st with
  | zero => exact reach_row0 c hn start k hk st
  | succ p ih => exact reach_rowS c hn start p (fun k hk st => ih k hk st) k hk st

end Kalign
