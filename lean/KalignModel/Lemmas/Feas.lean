import KalignModel.Lemmas.OptCut
import KalignModel.Lemmas.Cut
import KalignModel.Lemmas.MeetLevel
import KalignModel.Lemmas.Hirschberg
/-!
# Feasible rectangles of the Hirschberg recursion

`Feas fk bk rows cols`: a complete column list exists for a rectangle that follows a column of kind `fk` and is followed
by a column of kind `bk`.  The whole problem is feasible (`feas_top`); a feasible rectangle has a cut with finite forward
and backward cells (`feas_has_candidate`); every admissible cut with finite cells satisfies the meetup contract and leaves
two feasible child rectangles (`candidate_contract`).
-/
namespace Kalign

/-- a complete column list exists for a rectangle with `rows` rows and `cols` columns that follows a column of kind `fk`
and is followed by a column of kind `bk` (no gap-in-a column next to a gap-in-b column) -/
def Feas (fk bk : Kind) (rows cols : Nat) : Prop :=
  ∃ X : List Col, adjOK fk X = true ∧ (lastKind fk X).compat bk = true ∧ consA X = rows ∧ consB X = cols

/-- `Feas` for a rectangle given by integer corners; nothing is claimed for a degenerate rectangle -/
def FeasRect (fk bk : Kind) (sa ea sb eb : Int) : Prop :=
  sa < ea → sb < eb → Feas fk bk (ea - sa).toNat (eb - sb).toNat

/-- the rectangles of the two recursive calls of `aln_continue` (Model/Hirschberg.lean `alnContinue`) for transition `t` -/
def ChildrenFeas (fk bk : Kind) (sa ea sb eb mid meet t : Int) : Prop :=
  (t = 1 → FeasRect fk .A sa (mid - 1) sb (meet - 1) ∧ FeasRect .A bk (mid + 1) ea (meet + 1) eb) ∧
  (t = 2 → FeasRect fk .A sa (mid - 1) sb (meet - 1) ∧ FeasRect .GA bk mid ea (meet + 1) eb) ∧
  (t = 3 → FeasRect fk .A sa (mid - 1) sb (meet - 1) ∧ FeasRect .GB bk (mid + 1) ea meet eb) ∧
  (t = 5 → FeasRect fk .GA sa mid sb (meet - 1) ∧ FeasRect .A bk (mid + 1) ea (meet + 1) eb) ∧
  (t = 6 → FeasRect fk .GB sa (mid - 1) sb meet ∧ FeasRect .GB bk (mid + 1) ea meet eb) ∧
  (t = 7 → FeasRect fk .GB sa (mid - 1) sb meet ∧ FeasRect .A bk (mid + 1) ea (meet + 1) eb)

theorem feas_symm {fk bk : Kind} {rows cols : Nat} (h : Feas fk bk rows cols) : Feas bk fk rows cols := by
  obtain ⟨X, hadj, hc, hA, hB⟩ := h
  refine ⟨X.reverse, adjOK_reverse fk bk X hadj hc, ?_, by rw [consA_reverse]; exact hA, by rw [consB_reverse]; exact hB⟩
  rw [lastKind_reverse _ _ (adjOK_noskip _ _ hadj)]
  cases X with
  | nil =>
    simp only [firstKind]
    simp only [lastKind, List.foldl_nil] at hc
    rw [Kind.compat_symm]; exact hc
  | cons c cs =>
    simp only [adjOK, Bool.and_eq_true, bne_iff_ne, ne_eq] at hadj
    simp only [firstKind]
    rw [colKind_indep bk fk c hadj.1.1, Kind.compat_symm]
    exact hadj.1.2

/-! ## the whole problem -/

theorem adjOK_repA (st : Kind) (n : Nat) (h : st ≠ .GB) : adjOK st (List.replicate n Col.gapA) = true := by
  induction n generalizing st with
  | zero => rfl
  | succ n ih =>
    rw [List.replicate_succ]
    simp only [adjOK, colKind, Bool.and_eq_true, bne_iff_ne, ne_eq]
    refine ⟨⟨by decide, ?_⟩, ih _ (by decide)⟩
    cases st <;> simp_all [Kind.compat]

theorem adjOK_repB (st : Kind) (n : Nat) (h : st ≠ .GA) : adjOK st (List.replicate n Col.gapB) = true := by
  induction n generalizing st with
  | zero => rfl
  | succ n ih =>
    rw [List.replicate_succ]
    simp only [adjOK, colKind, Bool.and_eq_true, bne_iff_ne, ne_eq]
    refine ⟨⟨by decide, ?_⟩, ih _ (by decide)⟩
    cases st <;> simp_all [Kind.compat]

theorem cons_repA (n : Nat) : consA (List.replicate n Col.gapA) = 0 ∧ consB (List.replicate n Col.gapA) = n := by
  induction n with
  | zero => exact ⟨rfl, rfl⟩
  | succ n ih => rw [List.replicate_succ, consA_cons, consB_cons, ih.1, ih.2]; simp [stepP, stepK]; omega

theorem cons_repB (n : Nat) : consA (List.replicate n Col.gapB) = n ∧ consB (List.replicate n Col.gapB) = 0 := by
  induction n with
  | zero => exact ⟨rfl, rfl⟩
  | succ n ih => rw [List.replicate_succ, consA_cons, consB_cons, ih.1, ih.2]; simp [stepP, stepK]; omega

/-- the whole problem is feasible -/
theorem feas_top (lenA lenB : Nat) (hA : 1 ≤ lenA) (hB : 1 ≤ lenB) : Feas .A .A lenA lenB := by
  refine ⟨List.replicate (lenB - 1) Col.gapA ++ Col.both :: List.replicate (lenA - 1) Col.gapB, ?_,
    Kind.compat_A_right _, ?_, ?_⟩
  · rw [adjOK_append, adjOK_repA _ _ (by decide), Bool.true_and]
    simp only [adjOK, colKind, Kind.compat_A_right, Bool.and_true]
    rw [adjOK_repB _ _ (by decide)]; rfl
  · rw [consA_append, consA_cons, (cons_repA _).1, (cons_repB _).1]; simp [stepP]; omega
  · rw [consB_append, consB_cons, (cons_repA _).2, (cons_repB _).2]; simp [stepK]; omega

/-! ## degenerate feasible rectangles -/

theorem only_gapA (st : Kind) (X : List Col) (h : adjOK st X = true) (hA : consA X = 0) :
    (X = [] ∧ consB X = 0) ∨ (st ≠ .GB ∧ lastKind st X = .GA ∧ 1 ≤ consB X) := by
  induction X generalizing st with
  | nil => exact Or.inl ⟨rfl, rfl⟩
  | cons c cs ih =>
    right
    simp only [adjOK, Bool.and_eq_true, bne_iff_ne, ne_eq] at h
    obtain ⟨⟨hs, hc⟩, hrest⟩ := h
    rw [consA_cons] at hA
    cases c with
    | skip => exact absurd rfl hs
    | both => simp [stepP] at hA
    | gapB => simp [stepP] at hA
    | gapA =>
      simp only [colKind] at hc hrest
      have hA' : consA cs = 0 := by simp [stepP] at hA; exact hA
      refine ⟨?_, ?_, ?_⟩
      · intro h; subst h; simp [Kind.compat] at hc
      · have : lastKind st (Col.gapA :: cs) = lastKind .GA cs := rfl
        rw [this]
        rcases ih _ hrest hA' with ⟨h1, _⟩ | ⟨_, h2, _⟩
        · subst h1; rfl
        · exact h2
      · rw [consB_cons]; simp [stepK]

theorem only_gapB (st : Kind) (X : List Col) (h : adjOK st X = true) (hB : consB X = 0) :
    (X = [] ∧ consA X = 0) ∨ (st ≠ .GA ∧ lastKind st X = .GB ∧ 1 ≤ consA X) := by
  induction X generalizing st with
  | nil => exact Or.inl ⟨rfl, rfl⟩
  | cons c cs ih =>
    right
    simp only [adjOK, Bool.and_eq_true, bne_iff_ne, ne_eq] at h
    obtain ⟨⟨hs, hc⟩, hrest⟩ := h
    rw [consB_cons] at hB
    cases c with
    | skip => exact absurd rfl hs
    | both => simp [stepK] at hB
    | gapA => simp [stepK] at hB
    | gapB =>
      simp only [colKind] at hc hrest
      have hB' : consB cs = 0 := by simp [stepK] at hB; exact hB
      refine ⟨?_, ?_, ?_⟩
      · intro h; subst h; simp [Kind.compat] at hc
      · have : lastKind st (Col.gapB :: cs) = lastKind .GB cs := rfl
        rw [this]
        rcases ih _ hrest hB' with ⟨h1, _⟩ | ⟨_, h2, _⟩
        · subst h1; rfl
        · exact h2
      · rw [consA_cons]; simp [stepP]

/-- a feasible rectangle that is degenerate (no rows or no columns) satisfies `childOK` (for non-degenerate ones `childOK`
is `true` by definition) -/
theorem childOK_of_feas (fk bk : Kind) (sa sb : Int) (rows cols : Nat) (h : Feas fk bk rows cols) :
    childOK fk bk sa (sa + rows) sb (sb + cols) = true := by
  obtain ⟨X, hadj, hc, hA, hB⟩ := h
  unfold childOK
  by_cases h1 : sa < sa + (rows : Int) ∧ sb < sb + (cols : Int)
  · rw [if_pos h1]
  · rw [if_neg h1, if_neg (by omega)]
    by_cases h2 : sa + (rows : Int) = sa
    · rw [if_pos h2]
      have hr : rows = 0 := by omega
      subst hr
      unfold segEnd
      rcases only_gapA fk X hadj hA with ⟨hX, h0⟩ | ⟨h3, h4, h5⟩
      · subst hX
        have hc0 : cols = 0 := by omega
        subst hc0
        rw [if_pos (by simp)]
        exact hc
      · rw [if_neg (by omega)]
        rw [h4] at hc
        have hbk : bk ≠ .GB := by intro h; subst h; simp [Kind.compat] at hc
        simp only [Bool.and_eq_true, decide_eq_true_eq, bne_iff_ne, ne_eq]
        exact ⟨⟨by omega, h3⟩, hbk⟩
    · rw [if_neg h2]
      have hc0 : cols = 0 := by omega
      subst hc0
      rcases only_gapB fk X hadj hB with ⟨hX, h0⟩ | ⟨h3, h4, h5⟩
      · omega
      · unfold segEnd
        rw [if_pos (by simp)]
        rw [h4] at hc
        simp only [Bool.and_eq_true, bne_iff_ne, ne_eq]
        exact ⟨h3, hc⟩

/-! ## (E) a feasible rectangle has a finite candidate -/

theorem get_ne_none_of_ole {v : Int} {x : Option Int} (h : ole (some v) x) : x ≠ none := by
  intro h0; subst h0; simp at h

/-- (E) a feasible rectangle has a cut `(k, t)` whose forward cell and backward cell are both finite.
`cF`/`cB` are ANY configurations with the same `n` (their penalties/scores are irrelevant), `m1` rows forward, `m2 ≥ 1`
rows backward -/
theorem feas_has_candidate (cF cB : KCfg) (hn : 1 ≤ cF.n) (hnn : cB.n = cF.n) (fk bk : Kind) (m1 m2 : Nat) (hm2 : 1 ≤ m2)
    (h : Feas fk bk (m1 + m2) cF.n) :
    ∃ k t, Adm cF.n k t ∧ (absTab cF (hot fk) m1 k).get (fkOf t) ≠ none ∧
      (absTab cB (hot bk) m2 (cF.n - k)).get (bkOf t) ≠ none := by
  obtain ⟨X, hadj, hc, hA, hB⟩ := h
  obtain ⟨X1, X2, t, _, hadm, hw1, hA1, hl1, hw2, hA2, hBB, hl2⟩ :=
    cut_exists cF cB hnn fk bk X m1 m2 hm2 hadj hc hA hB
  have hr1 : runF cF (initP (hot fk) fk) X1 = ⟨m1, consB X1, fkOf t, some (walkSc cF 0 0 fk X1)⟩ := by
    rw [initP, hot_get_self, runF_some, hw1, hA1, hl1]; simp
  have hr2 : runF cB (initP (hot bk) bk) X2.reverse =
      ⟨m2, cF.n - consB X1, bkOf t, some (walkSc cB 0 0 bk X2.reverse)⟩ := by
    rw [initP, hot_get_self, runF_some, hw2, consA_reverse, consB_reverse, hA2, hl2]
    simp only [Nat.zero_add, if_true, Int.zero_add]
    congr 1
    exact (ar_sub hBB).symm
  refine ⟨consB X1, t, hadm, ?_, ?_⟩
  · have := abs_sound cF hn (hot fk) fk X1
    rw [readAbs, hr1] at this
    exact get_ne_none_of_ole this
  · have := abs_sound cB (by omega) (hot bk) bk X2.reverse
    rw [readAbs, hr2] at this
    exact get_ne_none_of_ole this

/-! ## (C) every finite candidate satisfies the contract -/

/-- the last column of a well-formed list -/
theorem walkEnd (fk st : Kind) (X : List Col) (h : adjOK fk X = true) (hl : lastKind fk X = st) :
    (X = [] ∧ st = fk) ∨ ∃ X' c, X = X' ++ [c] ∧ c ≠ .skip ∧ colKind fk c = st ∧ adjOK fk X' = true ∧
      (lastKind fk X').compat st = true := by
  rcases List.eq_nil_or_concat X with hX | ⟨X', c, hX⟩
  · subst hX; exact Or.inl ⟨rfl, hl.symm⟩
  · right
    rw [List.concat_eq_append] at hX
    subst hX
    rw [adjOK_append, Bool.and_eq_true] at h
    obtain ⟨h1, h2⟩ := h
    simp only [adjOK, Bool.and_true, Bool.and_eq_true, bne_iff_ne, ne_eq] at h2
    rw [lastKind_append] at hl
    have hl' : colKind (lastKind fk X') c = st := hl
    refine ⟨X', c, rfl, h2.1, ?_, h1, ?_⟩
    · rw [colKind_indep fk (lastKind fk X') c h2.1]; exact hl'
    · rw [← hl']; exact h2.2

theorem walkEnd_A (fk : Kind) (X : List Col) (m j : Nat) (h : adjOK fk X = true) (hA : consA X = m) (hB : consB X = j)
    (hl : lastKind fk X = .A) :
    (m = 0 ∧ j = 0 ∧ fk = .A) ∨ (1 ≤ m ∧ 1 ≤ j ∧ Feas fk .A (m - 1) (j - 1)) := by
  rcases walkEnd fk .A X h hl with ⟨hX, hs⟩ | ⟨X', c, hX, hs, hk, hadj, hc⟩
  · subst hX; exact Or.inl ⟨hA.symm, hB.symm, hs.symm⟩
  · right
    subst hX
    rw [consA_append] at hA
    rw [consB_append] at hB
    cases c with
    | skip => exact absurd rfl hs
    | gapA => simp [colKind] at hk
    | gapB => simp [colKind] at hk
    | both =>
      have e1 : consA [Col.both] = 1 := rfl
      have e2 : consB [Col.both] = 1 := rfl
      rw [e1] at hA; rw [e2] at hB
      exact ⟨by omega, by omega, X', hadj, hc, by omega, by omega⟩

theorem walkEnd_GB (fk : Kind) (X : List Col) (m j : Nat) (h : adjOK fk X = true) (hA : consA X = m) (hB : consB X = j)
    (hl : lastKind fk X = .GB) :
    (m = 0 ∧ j = 0 ∧ fk = .GB) ∨ (1 ≤ m ∧ Feas fk .GB (m - 1) j) := by
  rcases walkEnd fk .GB X h hl with ⟨hX, hs⟩ | ⟨X', c, hX, hs, hk, hadj, hc⟩
  · subst hX; exact Or.inl ⟨hA.symm, hB.symm, hs.symm⟩
  · right
    subst hX
    rw [consA_append] at hA
    rw [consB_append] at hB
    cases c with
    | skip => exact absurd rfl hs
    | gapA => simp [colKind] at hk
    | both => simp [colKind] at hk
    | gapB =>
      have e1 : consA [Col.gapB] = 1 := rfl
      have e2 : consB [Col.gapB] = 0 := rfl
      rw [e1] at hA; rw [e2] at hB
      exact ⟨by omega, X', hadj, hc, by omega, by omega⟩

theorem walkEnd_GA (fk : Kind) (X : List Col) (m j : Nat) (h : adjOK fk X = true) (hA : consA X = m) (hB : consB X = j)
    (hl : lastKind fk X = .GA) :
    (m = 0 ∧ j = 0 ∧ fk = .GA) ∨ (1 ≤ j ∧ Feas fk .GA m (j - 1)) := by
  rcases walkEnd fk .GA X h hl with ⟨hX, hs⟩ | ⟨X', c, hX, hs, hk, hadj, hc⟩
  · subst hX; exact Or.inl ⟨hA.symm, hB.symm, hs.symm⟩
  · right
    subst hX
    rw [consA_append] at hA
    rw [consB_append] at hB
    cases c with
    | skip => exact absurd rfl hs
    | gapB => simp [colKind] at hk
    | both => simp [colKind] at hk
    | gapA =>
      have e1 : consA [Col.gapA] = 0 := rfl
      have e2 : consB [Col.gapA] = 1 := rfl
      rw [e1] at hA; rw [e2] at hB
      exact ⟨by omega, X', hadj, hc, by omega, by omega⟩

/-- a feasible rectangle in integer coordinates -/
theorem feas_int (fk bk : Kind) (sa ea sb eb : Int) (rows cols : Nat) (h : Feas fk bk rows cols)
    (h1 : ea = sa + rows) (h2 : eb = sb + cols) :
    childOK fk bk sa ea sb eb = true ∧ FeasRect fk bk sa ea sb eb := by
  subst h1 h2
  refine ⟨childOK_of_feas fk bk sa sb rows cols h, fun _ _ => ?_⟩
  have e1 : (sa + (rows : Int) - sa).toNat = rows := by omega
  have e2 : (sb + (cols : Int) - sb).toNat = cols := by omega
  rw [e1, e2]; exact h

/-! the three forms of the forward clause of the contract -/

theorem left_A (fk : Kind) (sa sb m1 k : Nat)
    (h : (m1 = 0 ∧ k = 0 ∧ fk = .A) ∨ (1 ≤ m1 ∧ 1 ≤ k ∧ Feas fk .A (m1 - 1) (k - 1))) :
    (if ((sa + m1 : Nat) : Int) = (sa : Int) then decide (((sb + k : Nat) : Int) = (sb : Int)) && (fk == .A)
      else childOK fk .A sa (((sa + m1 : Nat) : Int) - 1) sb (((sb + k : Nat) : Int) - 1)) = true ∧
    FeasRect fk .A sa (((sa + m1 : Nat) : Int) - 1) sb (((sb + k : Nat) : Int) - 1) := by
  rcases h with ⟨h1, h2, h3⟩ | ⟨h1, h2, hf⟩
  · subst h1 h2 h3
    refine ⟨by simp, fun h _ => ?_⟩
    omega
  · rw [if_neg (by omega)]
    exact feas_int fk .A _ _ _ _ _ _ hf (by omega) (by omega)

theorem left_GB (fk : Kind) (sa sb m1 k : Nat)
    (h : (m1 = 0 ∧ k = 0 ∧ fk = .GB) ∨ (1 ≤ m1 ∧ Feas fk .GB (m1 - 1) k)) :
    (if ((sa + m1 : Nat) : Int) = (sa : Int) then decide (((sb + k : Nat) : Int) = (sb : Int)) && (fk == .GB)
      else childOK fk .GB sa (((sa + m1 : Nat) : Int) - 1) sb ((sb + k : Nat) : Int)) = true ∧
    FeasRect fk .GB sa (((sa + m1 : Nat) : Int) - 1) sb ((sb + k : Nat) : Int) := by
  rcases h with ⟨h1, h2, h3⟩ | ⟨h1, hf⟩
  · subst h1 h2 h3
    refine ⟨by simp, fun h _ => ?_⟩
    omega
  · rw [if_neg (by omega)]
    exact feas_int fk .GB _ _ _ _ _ _ hf (by omega) (by omega)

theorem left_GA (fk : Kind) (sa sb m1 k : Nat)
    (h : (m1 = 0 ∧ k = 0 ∧ fk = .GA) ∨ (1 ≤ k ∧ Feas fk .GA m1 (k - 1))) :
    (if ((sa + m1 : Nat) : Int) = (sa : Int) ∧ ((sb + k : Nat) : Int) = (sb : Int) then fk == .GA
      else childOK fk .GA sa ((sa + m1 : Nat) : Int) sb (((sb + k : Nat) : Int) - 1)) = true ∧
    FeasRect fk .GA sa ((sa + m1 : Nat) : Int) sb (((sb + k : Nat) : Int) - 1) := by
  rcases h with ⟨h1, h2, h3⟩ | ⟨h1, hf⟩
  · subst h1 h2 h3
    refine ⟨by simp, fun h _ => ?_⟩
    omega
  · rw [if_neg (by omega)]
    exact feas_int fk .GA _ _ _ _ _ _ hf (by omega) (by omega)

/-! the unfolded contract per transition -/

theorem contract_1 (fk bk : Kind) (sa ea sb eb mid c : Int) :
    meetupContract fk bk sa ea sb eb mid c 1 =
      (decide (sb ≤ c ∧ c ≤ eb) && (decide (c < eb) &&
        (if mid = sa then decide (c = sb) && (fk == .A) else childOK fk .A sa (mid - 1) sb (c - 1)) &&
        childOK .A bk (mid + 1) ea (c + 1) eb)) := rfl
theorem contract_2 (fk bk : Kind) (sa ea sb eb mid c : Int) :
    meetupContract fk bk sa ea sb eb mid c 2 =
      (decide (sb ≤ c ∧ c ≤ eb) && (decide (c < eb) &&
        (if mid = sa then decide (c = sb) && (fk == .A) else childOK fk .A sa (mid - 1) sb (c - 1)) &&
        childOK .GA bk mid ea (c + 1) eb)) := rfl
theorem contract_3 (fk bk : Kind) (sa ea sb eb mid c : Int) :
    meetupContract fk bk sa ea sb eb mid c 3 =
      (decide (sb ≤ c ∧ c ≤ eb) &&
        ((if mid = sa then decide (c = sb) && (fk == .A) else childOK fk .A sa (mid - 1) sb (c - 1)) &&
        childOK .GB bk (mid + 1) ea c eb)) := rfl
theorem contract_5 (fk bk : Kind) (sa ea sb eb mid c : Int) :
    meetupContract fk bk sa ea sb eb mid c 5 =
      (decide (sb ≤ c ∧ c ≤ eb) && (decide (c < eb) &&
        (if mid = sa ∧ c = sb then fk == .GA else childOK fk .GA sa mid sb (c - 1)) &&
        childOK .A bk (mid + 1) ea (c + 1) eb)) := rfl
theorem contract_6 (fk bk : Kind) (sa ea sb eb mid c : Int) :
    meetupContract fk bk sa ea sb eb mid c 6 =
      (decide (sb ≤ c ∧ c ≤ eb) &&
        ((if mid = sa then decide (c = sb) && (fk == .GB) else childOK fk .GB sa (mid - 1) sb c) &&
        childOK .GB bk (mid + 1) ea c eb)) := rfl
theorem contract_7 (fk bk : Kind) (sa ea sb eb mid c : Int) :
    meetupContract fk bk sa ea sb eb mid c 7 =
      (decide (sb ≤ c ∧ c ≤ eb) && (decide (c < eb) &&
        (if mid = sa then decide (c = sb) && (fk == .GB) else childOK fk .GB sa (mid - 1) sb c) &&
        childOK .A bk (mid + 1) ea (c + 1) eb)) := rfl

/-- the combinatorial core of (C): two well-formed lists that end in the kinds of the transition -/
theorem contract_of_lists (fk bk : Kind) (sa sb m1 m2 n : Nat) (hm2 : 1 ≤ m2) (k : Nat) (t : Int) (hadm : Adm n k t)
    (X1 X2 : List Col)
    (hadj1 : adjOK fk X1 = true) (hA1 : consA X1 = m1) (hB1 : consB X1 = k) (hl1 : lastKind fk X1 = fkOf t)
    (hadj2 : adjOK bk X2 = true) (hA2 : consA X2 = m2) (hB2 : consB X2 = n - k) (hl2 : lastKind bk X2 = bkOf t) :
    meetupContract fk bk (sa : Int) ((sa + m1 + m2 : Nat) : Int) (sb : Int) ((sb + n : Nat) : Int)
        ((sa + m1 : Nat) : Int) ((sb + k : Nat) : Int) t = true ∧
    ChildrenFeas fk bk (sa : Int) ((sa + m1 + m2 : Nat) : Int) (sb : Int) ((sb + n : Nat) : Int)
        ((sa + m1 : Nat) : Int) ((sb + k : Nat) : Int) t := by
  have hkn : k ≤ n := hadm.le
  have hrange : ((sb : Nat) : Int) ≤ ((sb + k : Nat) : Int) ∧ ((sb + k : Nat) : Int) ≤ ((sb + n : Nat) : Int) := by omega
  -- right children
  have rightA : lastKind bk X2 = .A → k < n →
      childOK .A bk (((sa + m1 : Nat) : Int) + 1) ((sa + m1 + m2 : Nat) : Int) (((sb + k : Nat) : Int) + 1) ((sb + n : Nat) : Int) = true ∧
      FeasRect .A bk (((sa + m1 : Nat) : Int) + 1) ((sa + m1 + m2 : Nat) : Int) (((sb + k : Nat) : Int) + 1) ((sb + n : Nat) : Int) := by
    intro hl hlt
    rcases walkEnd_A bk X2 m2 (n - k) hadj2 hA2 hB2 hl with ⟨h0, _, _⟩ | ⟨_, h2, hf⟩
    · omega
    · exact feas_int .A bk _ _ _ _ _ _ (feas_symm hf) (by omega) (by omega)
  have rightGB : lastKind bk X2 = .GB →
      childOK .GB bk (((sa + m1 : Nat) : Int) + 1) ((sa + m1 + m2 : Nat) : Int) ((sb + k : Nat) : Int) ((sb + n : Nat) : Int) = true ∧
      FeasRect .GB bk (((sa + m1 : Nat) : Int) + 1) ((sa + m1 + m2 : Nat) : Int) ((sb + k : Nat) : Int) ((sb + n : Nat) : Int) := by
    intro hl
    rcases walkEnd_GB bk X2 m2 (n - k) hadj2 hA2 hB2 hl with ⟨h0, _, _⟩ | ⟨_, hf⟩
    · omega
    · exact feas_int .GB bk _ _ _ _ _ _ (feas_symm hf) (by omega) (by omega)
  have rightGA : lastKind bk X2 = .GA →
      childOK .GA bk ((sa + m1 : Nat) : Int) ((sa + m1 + m2 : Nat) : Int) (((sb + k : Nat) : Int) + 1) ((sb + n : Nat) : Int) = true ∧
      FeasRect .GA bk ((sa + m1 : Nat) : Int) ((sa + m1 + m2 : Nat) : Int) (((sb + k : Nat) : Int) + 1) ((sb + n : Nat) : Int) := by
    intro hl
    rcases walkEnd_GA bk X2 m2 (n - k) hadj2 hA2 hB2 hl with ⟨h0, _, _⟩ | ⟨h2, hf⟩
    · omega
    · exact feas_int .GA bk _ _ _ _ _ _ (feas_symm hf) (by omega) (by omega)
  have hlt : t ≠ 3 → t ≠ 6 → k < n := by
    intro h3 h6
    rcases hadm with h | h
    · exact h.1
    · rcases h.2 with h | h
      · exact absurd h h3
      · exact absurd h h6
  have hltI : k < n → ((sb + k : Nat) : Int) < ((sb + n : Nat) : Int) := by intro h; omega
  rcases hadm.valid with ht | ht | ht | ht | ht | ht <;> subst ht
  · have hL := left_A fk sa sb m1 k (walkEnd_A fk X1 m1 k hadj1 hA1 hB1 hl1)
    have hk := hlt (by decide) (by decide)
    have hR := rightA hl2 hk
    refine ⟨?_, ?_⟩
    · rw [contract_1]
      simp only [Bool.and_eq_true, decide_eq_true_eq]
      exact ⟨hrange, ⟨hltI hk, hL.1⟩, hR.1⟩
    · refine ⟨fun _ => ⟨hL.2, hR.2⟩, ?_, ?_, ?_, ?_, ?_⟩ <;> intro h <;> exact absurd h (by decide)
  · have hL := left_A fk sa sb m1 k (walkEnd_A fk X1 m1 k hadj1 hA1 hB1 hl1)
    have hk := hlt (by decide) (by decide)
    have hR := rightGA hl2
    refine ⟨?_, ?_⟩
    · rw [contract_2]
      simp only [Bool.and_eq_true, decide_eq_true_eq]
      exact ⟨hrange, ⟨hltI hk, hL.1⟩, hR.1⟩
    · refine ⟨?_, fun _ => ⟨hL.2, hR.2⟩, ?_, ?_, ?_, ?_⟩ <;> intro h <;> exact absurd h (by decide)
  · have hL := left_A fk sa sb m1 k (walkEnd_A fk X1 m1 k hadj1 hA1 hB1 hl1)
    have hR := rightGB hl2
    refine ⟨?_, ?_⟩
    · rw [contract_3]
      simp only [Bool.and_eq_true, decide_eq_true_eq]
      exact ⟨hrange, hL.1, hR.1⟩
    · refine ⟨?_, ?_, fun _ => ⟨hL.2, hR.2⟩, ?_, ?_, ?_⟩ <;> intro h <;> exact absurd h (by decide)
  · have hL := left_GA fk sa sb m1 k (walkEnd_GA fk X1 m1 k hadj1 hA1 hB1 hl1)
    have hk := hlt (by decide) (by decide)
    have hR := rightA hl2 hk
    refine ⟨?_, ?_⟩
    · rw [contract_5]
      simp only [Bool.and_eq_true, decide_eq_true_eq]
      exact ⟨hrange, ⟨hltI hk, hL.1⟩, hR.1⟩
    · refine ⟨?_, ?_, ?_, fun _ => ⟨hL.2, hR.2⟩, ?_, ?_⟩ <;> intro h <;> exact absurd h (by decide)
  · have hL := left_GB fk sa sb m1 k (walkEnd_GB fk X1 m1 k hadj1 hA1 hB1 hl1)
    have hR := rightGB hl2
    refine ⟨?_, ?_⟩
    · rw [contract_6]
      simp only [Bool.and_eq_true, decide_eq_true_eq]
      exact ⟨hrange, hL.1, hR.1⟩
    · refine ⟨?_, ?_, ?_, ?_, fun _ => ⟨hL.2, hR.2⟩, ?_⟩ <;> intro h <;> exact absurd h (by decide)
  · have hL := left_GB fk sa sb m1 k (walkEnd_GB fk X1 m1 k hadj1 hA1 hB1 hl1)
    have hk := hlt (by decide) (by decide)
    have hR := rightA hl2 hk
    refine ⟨?_, ?_⟩
    · rw [contract_7]
      simp only [Bool.and_eq_true, decide_eq_true_eq]
      exact ⟨hrange, ⟨hltI hk, hL.1⟩, hR.1⟩
    · refine ⟨?_, ?_, ?_, ?_, ?_, fun _ => ⟨hL.2, hR.2⟩⟩ <;> intro h <;> exact absurd h (by decide)

/-- a finite cell of the table of a one-hot start is the end of a well-formed list -/
theorem cell_list (c : KCfg) (hn : 1 ≤ c.n) (fk st : Kind) (m k : Nat) (hk : k ≤ c.n)
    (h : (absTab c (hot fk) m k).get st ≠ none) :
    ∃ X, adjOK fk X = true ∧ consA X = m ∧ consB X = k ∧ lastKind fk X = st := by
  rcases abs_attained c hn (hot fk) m k hk st with h0 | ⟨k0, X, hX⟩
  · exact absurd h0 h
  · cases hv : (absTab c (hot fk) m k).get st with
    | none => exact absurd hv h
    | some v =>
      rw [hv] at hX
      obtain ⟨hw, _, hA, hB, hl⟩ := runF_hot c fk k0 X m k st v hX
      exact ⟨X, walkOK_adjOK c X 0 0 fk hw, hA, hB, hl⟩

/-- (C) every admissible cut with finite forward and backward cells satisfies the meetup contract, and the rectangles of
both recursive calls are feasible again.  Rectangle: rows `sa .. sa+m1+m2`, columns `sb .. sb+n`, middle row `sa+m1`, cut
column `sb+k`. -/
theorem candidate_contract (cF cB : KCfg) (hn : 1 ≤ cF.n) (hnn : cB.n = cF.n) (fk bk : Kind) (sa sb m1 m2 : Nat) (hm2 : 1 ≤ m2)
    (k : Nat) (t : Int) (hadm : Adm cF.n k t)
    (hf : (absTab cF (hot fk) m1 k).get (fkOf t) ≠ none)
    (hb : (absTab cB (hot bk) m2 (cF.n - k)).get (bkOf t) ≠ none) :
    meetupContract fk bk (sa : Int) ((sa + m1 + m2 : Nat) : Int) (sb : Int) ((sb + cF.n : Nat) : Int)
        ((sa + m1 : Nat) : Int) ((sb + k : Nat) : Int) t = true ∧
    ChildrenFeas fk bk (sa : Int) ((sa + m1 + m2 : Nat) : Int) (sb : Int) ((sb + cF.n : Nat) : Int)
        ((sa + m1 : Nat) : Int) ((sb + k : Nat) : Int) t := by
  obtain ⟨X1, hadj1, hA1, hB1, hl1⟩ := cell_list cF hn fk (fkOf t) m1 k hadm.le hf
  obtain ⟨X2, hadj2, hA2, hB2, hl2⟩ := cell_list cB (by omega) bk (bkOf t) m2 (cF.n - k) (by omega) hb
  exact contract_of_lists fk bk sa sb m1 m2 cF.n hm2 k t hadm X1 X2 hadj1 hA1 hB1 hl1 hadj2 hA2 hB2 hl2

/-- non-vacuity: the hypotheses of (C) are met at the top level of every problem (by (E) applied to `feas_top`) -/
example (cF cB : KCfg) (hn : 1 ≤ cF.n) (hnn : cB.n = cF.n) (m1 m2 : Nat) (hm2 : 1 ≤ m2) :
    ∃ k t, Adm cF.n k t ∧
      meetupContract .A .A ((0 : Nat) : Int) ((0 + m1 + m2 : Nat) : Int) ((0 : Nat) : Int) ((0 + cF.n : Nat) : Int)
        ((0 + m1 : Nat) : Int) ((0 + k : Nat) : Int) t = true := by
  obtain ⟨k, t, hadm, hf, hb⟩ :=
    feas_has_candidate cF cB hn hnn .A .A m1 m2 hm2 (feas_top (m1 + m2) cF.n (by omega) hn)
  exact ⟨k, t, hadm, (candidate_contract cF cB hn hnn .A .A 0 0 m1 m2 hm2 k t hadm hf hb).1⟩

end Kalign
