import KalignModel.Lemmas.HirschOpt5
import KalignModel.Model.DoAlign
/-!
# S4 — the serial controller writes the path of the robustly optimal alignment
-/
namespace Kalign

section
variable (ap : AlnParam ExactScore) (gpo gpe tgpe : Int) (s : Nat → Nat → Int) (seq1 seq2 : Array Nat)
  (lenA lenB : Nat)

/-- **every call of the serial runner on a rectangle of `P` completes the path entries of that rectangle** -/
theorem runner_opt (P : List Col) (H : OptHyp ap gpo gpe tgpe s seq1 seq2 lenA lenB P) :
    ∀ (n : Nat) (x : MemE), Pre P lenA lenB x → Meas x ≤ n →
      Post P lenA lenB x (runnerSerial (realKernels ap (.seqseq seq1 seq2) lenA lenB) false n x) := by
  intro n
  induction n with
  | zero => intro x _ hM; unfold Meas at hM; omega
  | succ n ih =>
    intro x hx hM
    have hxf := hx.1
    rw [runnerSerial, if_neg (by rw [hxf]; simp)]
    by_cases ha : x.starta ≥ x.enda
    · rw [if_pos ha]
      exact Post_refl_deg P lenA lenB x hxf hx.2.2.1 ha
    rw [if_neg ha]
    by_cases hb : x.startb ≥ x.endb
    · rw [if_pos hb]
      obtain ⟨_, hxG, hS, _, hdec⟩ := hx
      refine ⟨hxf, fun _ _ _ => Or.inl rfl, ?_, hS, Or.inr hb⟩
      rcases hdec with hdeg | ⟨sa, ea, sb, eb, e1, e2, e3, e4, hDD, _, _⟩
      · omega
      · obtain ⟨P1, X, P2, hP, hP1a, hP1b, hXa, hXb, _, _, _, _⟩ := hDD
        intro i h1 h2
        have hXb0 : consB X = 0 := by rw [e3, e4] at hb; omega
        have hskip := adjOK_noskip _ _ H.hadj
        have hsX : Col.skip ∉ X := fun h => hskip (by rw [hP]; simp [h])
        have hAs := H.hA
        rw [hP] at hAs
        simp only [consA_append] at hAs
        have hpth : pth P i = -1 := by
          rw [hP]
          exact pth_all_gapB P1 X P2 hsX hXb0 i (by rw [hP1a, ← e1]; exact h1) (by rw [hP1a, e2] at *; omega)
        rcases hxG i (by omega) (by rw [e2] at h2; omega) with h | h
        · rw [h, hpth]
        · exact h
    rw [if_neg hb]
    exact body_post ap gpo gpe tgpe s seq1 seq2 lenA lenB P H n _ ih x hx hM (by omega) (by omega)

/-- **the missing `return` of `aln_runner` is harmless on these runs**: `aln_runner` (which calls `aln_runner_serial`
below 500 rows and then falls through into the same code) computes the same memory as `aln_runner_serial` -/
theorem runner_eq_serial_opt (P : List Col) (H : OptHyp ap gpo gpe tgpe s seq1 seq2 lenA lenB P) :
    ∀ (n : Nat) (x : MemE), Pre P lenA lenB x → Meas x ≤ n →
      runner (realKernels ap (.seqseq seq1 seq2) lenA lenB) false n x =
        runnerSerial (realKernels ap (.seqseq seq1 seq2) lenA lenB) false n x := by
  intro n
  induction n with
  | zero => intro x _ hM; unfold Meas at hM; omega
  | succ n ih =>
    intro x hx hM
    have hxf := hx.1
    have hPost := runner_opt ap gpo gpe tgpe s seq1 seq2 lenA lenB P H (n + 1) x hx hM
    rw [runner, if_neg (by rw [hxf]; simp)]
    by_cases hs : x.enda - x.starta < 500
    · simp only [hs, if_true]
      obtain ⟨hrf, _, _, _, hdeg⟩ := hPost
      rw [if_neg (by rw [hrf]; simp)]
      rcases hdeg with h | h
      · rw [if_pos h]
      · by_cases ha : (runnerSerial (realKernels ap (.seqseq seq1 seq2) lenA lenB) false (n + 1) x).starta ≥
            (runnerSerial (realKernels ap (.seqseq seq1 seq2) lenA lenB) false (n + 1) x).enda
        · rw [if_pos ha]
        · rw [if_neg ha, if_pos h]
    · simp only [hs, if_false]
      rw [runnerSerial]
      simp only [hxf, Bool.false_eq_true, if_false]
      by_cases ha : x.starta ≥ x.enda
      · simp only [ha, if_true]
      simp only [ha, if_false]
      by_cases hb : x.startb ≥ x.endb
      · simp only [hb, if_true]
      simp only [hb, if_false]
      obtain ⟨yL, mkR, heq, PreL, MeasL, hrest⟩ :=
        body_shape ap gpo gpe tgpe s seq1 seq2 lenA lenB P H n x hx hM (by omega) (by omega)
      rw [heq, heq, ih yL PreL MeasL]
      obtain ⟨PreR, MeasR, _⟩ := hrest _ (runner_opt ap gpo gpe tgpe s seq1 seq2 lenA lenB P H n yL PreL MeasL)
      rw [ih _ PreR MeasR]

end

/-- a list of gap columns only, without a gap-in-a column next to a gap-in-b column, has columns of one kind -/
theorem gaps_same (st : Kind) (cs : List Col) (hadj : adjOK st cs = true) (hnb : Col.both ∉ cs) :
    (st = .GA → consA cs = 0) ∧ (st = .GB → consB cs = 0) ∧ (consA cs = 0 ∨ consB cs = 0) := by
  induction cs generalizing st with
  | nil => simp
  | cons c cs ih =>
    simp only [adjOK, Bool.and_eq_true, bne_iff_ne, ne_eq] at hadj
    obtain ⟨⟨hs, hc⟩, hadj'⟩ := hadj
    have hnb' : Col.both ∉ cs := fun h => hnb (List.mem_cons_of_mem _ h)
    cases c with
    | skip => exact absurd rfl hs
    | both => exact absurd (by simp) hnb
    | gapA =>
      have h1 := (ih (colKind st .gapA) hadj' hnb').1 rfl
      refine ⟨fun _ => by simpa using h1, fun h => ?_, Or.inl (by simpa using h1)⟩
      rw [h] at hc; simp [colKind, Kind.compat] at hc
    | gapB =>
      have h1 := (ih (colKind st .gapB) hadj' hnb').2.1 rfl
      refine ⟨fun h => ?_, fun _ => by simpa using h1, Or.inr (by simpa using h1)⟩
      rw [h] at hc; simp [colKind, Kind.compat] at hc

theorem initMemE_pe (lenA lenB : Nat) (i : Int) : (initMem lenA lenB : MemE).pe i = -1 := by
  simp only [Mem.pe, initMem, Array.getD_eq_getD_getElem?, Array.getElem?_replicate]
  split <;> rfl

section
variable (ap : AlnParam ExactScore) (gpo gpe tgpe : Int) (s : Nat → Nat → Int) (seq1 seq2 : Array Nat)
  (lenA lenB : Nat)

/-- **S4 at the level of the path array** -/
theorem runner_path_opt (P : List Col) (H : OptHyp ap gpo gpe tgpe s seq1 seq2 lenA lenB P)
    (n : Nat) (hn : lenA + lenB + 1 ≤ n) :
    (runnerSerial (realKernels ap (.seqseq seq1 seq2) lenA lenB) false n (initMem lenA lenB)).fault = false ∧
    (runnerSerial (realKernels ap (.seqseq seq1 seq2) lenA lenB) false n (initMem lenA lenB)).pathEntries lenA =
      pathFrom 0 P := by
  have hPre : Pre P lenA lenB (initMem lenA lenB : MemE) := by
    refine ⟨rfl, fun i _ _ => Or.inl (initMemE_pe lenA lenB i), ?_, by show (0 : Int) ≤ 0; omega, Or.inr ?_⟩
    · refine ⟨?_, ?_, ?_⟩ <;> simp [initMem] <;> omega
    · refine ⟨0, lenA, 0, lenB, rfl, rfl, rfl, rfl, ?_, ?_, ?_⟩
      · exact ⟨[], P, [], by simp, rfl, rfl, by simpa using H.hA, by simpa using H.hB, rfl, rfl,
          Or.inl (by simp), Or.inl (by simp)⟩
      · show ((Array.replicate (max lenA lenB + 2) States.negInf).set! 0 oneHotA).getD 0 States.negInf = hot .A
        simp [Array.getD]; rfl
      · show ((Array.replicate (max lenA lenB + 2) States.negInf).set! 0 oneHotA).getD 0 States.negInf = hot .A
        simp [Array.getD]; rfl
  have hMeas : Meas (initMem lenA lenB : MemE) ≤ n := by
    unfold Meas
    show ((lenA : Int) - 0).toNat + ((lenB : Int) - 0).toNat + 1 ≤ n
    omega
  obtain ⟨hf, _, hreg, _, _⟩ := runner_opt ap gpo gpe tgpe s seq1 seq2 lenA lenB P H n _ hPre hMeas
  refine ⟨hf, ?_⟩
  apply List.ext_getElem
  · simp [Mem.pathEntries, length_pathFrom, H.hA]
  · intro idx h1 h2
    simp only [Mem.pathEntries, List.length_map, List.length_range'] at h1
    simp only [Mem.pathEntries, List.getElem_map, List.getElem_range', Nat.one_mul]
    have := hreg ((idx + 1 : Nat) : Int) (by show (0 : Int) < _; omega) (by show _ ≤ (lenA : Int); omega)
    unfold Mem.pe pth at this
    simp only [Int.toNat_natCast, Nat.add_sub_cancel] at this
    rw [Nat.add_comm, this, List.getD_eq_getElem?_getD, List.getElem?_eq_getElem h2]
    rfl

end
end Kalign
