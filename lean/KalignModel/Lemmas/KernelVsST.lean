import KalignModel.Lemmas.ScoreST
/-!
# The forward kernel on the whole problem versus the reference score

`STW.kcfg w` is the configuration of the forward kernel on the full rectangle of the problem `w` (and, for `w.mirror`,
of the backward kernel).  Its reading of a walkable column list is the reference score of that list minus `gpo` for
every terminal gap run that is *closed* inside the list (`tclose`): the kernel charges `gpo` for the aligned column that
follows a leading gap run, the reference charges nothing (`walkSc_kcfg`).  At most one such close exists, and only
when the walk starts in a gap run at the corner (`tclose_le_one`, `tclose_zero_of_pos`).
-/
namespace Kalign

def STW.kcfg (w : STW) : KCfg :=
  { n := w.lenB, tF := true, tL := true, gpo := w.gpo, gpe := w.gpe, tgpe := w.tgpe, sc := w.sc }

/-- number of aligned columns that directly follow a terminal gap column -/
def STW.tclose (w : STW) : Nat → Nat → Kind → List Col → Nat
  | _, _, _, [] => 0
  | i, j, u, c :: cs =>
    (if c = .both ∧ u ≠ .A ∧ w.termK u i j = true then 1 else 0) +
      w.tclose (stepP i c) (stepK j c) (colKind u c) cs

/-- no gap-in-a column occurs at row `L` -/
def noGapAAt (L : Nat) : Nat → List Col → Bool
  | _, [] => true
  | i, c :: cs => (c != .gapA || i != L) && noGapAAt L (stepP i c) cs

theorem noGapAAt_of_lt (L : Nat) (X : List Col) (i : Nat) (h : i + consA X < L) : noGapAAt L i X = true := by
  induction X generalizing i with
  | nil => rfl
  | cons c cs ih =>
    have h' : stepP i c + consA cs < L := by rw [consA_cons] at h; rw [stepP_eq i]; omega
    simp only [noGapAAt, Bool.and_eq_true, Bool.or_eq_true, bne_iff_ne, ne_eq]
    refine ⟨Or.inr ?_, ih _ h'⟩
    rw [consA_cons] at h; omega

theorem STW.termA_kcfg (w : STW) (i : Nat) : w.kcfg.termA i = decide (i = 0) := by
  simp [KCfg.termA, STW.kcfg]
theorem STW.termB_kcfg (w : STW) (j : Nat) : w.kcfg.termB j = (decide (j = 0) || decide (j = w.lenB)) := by
  show ((decide (j = 0) && true) || (decide (j = w.lenB) && true)) = _
  simp only [Bool.and_true]

/-- **the kernel's reading = reference score − `gpo` per closed terminal run** -/
theorem STW.walkSc_kcfg (w : STW) (X : List Col) (i j : Nat) (u : Kind)
    (hok : walkOK w.kcfg i j u X = true) (hrow : noGapAAt w.lenA i X = true) :
    walkSc w.kcfg i j u X = w.walk i j u X - w.gpo * (w.tclose i j u X : Int) := by
  induction X generalizing i j u with
  | nil => simp [walkSc, STW.walk, STW.tclose]
  | cons c cs ih =>
    simp only [walkOK, Bool.and_eq_true] at hok
    simp only [noGapAAt, Bool.and_eq_true, Bool.or_eq_true, bne_iff_ne, ne_eq] at hrow
    rw [walkSc, STW.walk, STW.tclose, ih _ _ _ hok.2 hrow.2]
    have hstep : stepSc w.kcfg i j u c =
        w.stCol c i j + w.stE u (colKind u c) i j -
          w.gpo * ((if c = .both ∧ u ≠ .A ∧ w.termK u i j = true then 1 else 0 : Nat) : Int) := by
      cases c with
      | skip => simp [stepOK] at hok
      | both =>
        simp only [stepSc, STW.stCol, colKind, true_and]
        cases u with
        | A => simp [STW.stE]; rfl
        | GA => simp only [STW.stE, STW.kcfg]; cases w.termK .GA i j <;> simp <;> omega
        | GB => simp only [STW.stE, STW.kcfg]; cases w.termK .GB i j <;> simp <;> omega
      | gapA =>
        have hne : i ≠ w.lenA := by
          rcases hrow.1 with h | h
          · exact absurd rfl h
          · exact h
        have hu : u ≠ .GB := by
          have := hok.1; simp only [stepOK, Bool.and_eq_true, bne_iff_ne, ne_eq] at this; exact this.2
        simp only [stepSc, STW.stCol, colKind, STW.termA_kcfg, reduceCtorEq, false_and, if_false]
        have ht : w.termK .GA i j = decide (i = 0) := by simp [STW.termK, hne]
        cases u with
        | GB => exact absurd rfl hu
        | A => simp only [STW.stE, ht, STW.kcfg]; by_cases h0 : i = 0 <;> simp [h0]
        | GA => simp only [STW.stE, ht, STW.kcfg]; by_cases h0 : i = 0 <;> simp [h0]
      | gapB =>
        have hu : u ≠ .GA := by
          have := hok.1; simp only [stepOK, Bool.and_eq_true, bne_iff_ne, ne_eq] at this; exact this.2
        simp only [stepSc, STW.stCol, colKind, STW.termB_kcfg, reduceCtorEq, false_and, if_false]
        have ht : w.termK .GB i j = (decide (j = 0) || decide (j = w.lenB)) := rfl
        cases u with
        | GA => exact absurd rfl hu
        | A => simp only [STW.stE, ht, STW.kcfg]; split <;> simp
        | GB => simp only [STW.stE, ht, STW.kcfg]; split <;> simp
    rw [hstep]
    simp only [Int.natCast_add, Int.mul_add]
    omega

/-- after the first aligned column no terminal run can be closed any more -/
theorem STW.tclose_zero_of_pos (w : STW) (X : List Col) (i j : Nat) (u : Kind)
    (hok : walkOK w.kcfg i j u X = true) (hA : i + consA X ≤ w.lenA) (hi : 1 ≤ i) (hj : 1 ≤ j) :
    w.tclose i j u X = 0 := by
  induction X generalizing i j u with
  | nil => rfl
  | cons c cs ih =>
    simp only [walkOK, Bool.and_eq_true] at hok
    have hA' : stepP i c + consA cs ≤ w.lenA := by rw [consA_cons] at hA; rw [stepP_eq i]; omega
    have hi' : 1 ≤ stepP i c := by rw [stepP_eq i]; omega
    have hj' : 1 ≤ stepK j c := by rw [stepK_eq j]; omega
    rw [STW.tclose, ih _ _ _ hok.2 hA' hi' hj', Nat.add_zero]
    rw [if_neg]
    rintro ⟨hc, hu, ht⟩
    subst hc
    have h1 : j + 1 ≤ w.lenB := by
      have := hok.1
      simp only [stepOK, decide_eq_true_eq] at this
      exact this
    have h2 : i + 1 ≤ w.lenA := by
      rw [consA_cons] at hA
      simp only [stepP] at hA
      omega
    cases u with
    | A => exact hu rfl
    | GA =>
      have : i = 0 ∨ i = w.lenA := by simpa [STW.termK] using ht
      omega
    | GB =>
      have : j = 0 ∨ j = w.lenB := by simpa [STW.termK] using ht
      omega

theorem STW.tclose_le_one (w : STW) (X : List Col) (i j : Nat) (u : Kind)
    (hok : walkOK w.kcfg i j u X = true) (hA : i + consA X ≤ w.lenA) : w.tclose i j u X ≤ 1 := by
  induction X generalizing i j u with
  | nil => simp [STW.tclose]
  | cons c cs ih =>
    simp only [walkOK, Bool.and_eq_true] at hok
    have hA' : stepP i c + consA cs ≤ w.lenA := by rw [consA_cons] at hA; rw [stepP_eq i]; omega
    rw [STW.tclose]
    by_cases hc : c = .both
    · subst hc
      rw [STW.tclose_zero_of_pos w cs _ _ _ hok.2 hA' (by simp [stepP]) (by simp [stepK])]
      split <;> omega
    · rw [if_neg (fun h => hc h.1)]
      have := ih _ _ _ hok.2 hA'
      omega

/-- a list without aligned columns closes nothing -/
theorem STW.tclose_zero_of_no_both (w : STW) (X : List Col) (i j : Nat) (u : Kind) (h : Col.both ∉ X) :
    w.tclose i j u X = 0 := by
  induction X generalizing i j u with
  | nil => rfl
  | cons c cs ih =>
    rw [STW.tclose, ih _ _ _ (fun hm => h (List.mem_cons_of_mem _ hm)), if_neg]
    exact fun hc => h (by rw [hc.1]; simp)

def startsGap (X : List Col) : Bool :=
  match X with
  | [] => false
  | c :: _ => c.isGap

/-- from the corner in kind `A`: a terminal run is closed only if the list starts with a gap column -/
theorem STW.tclose_corner (w : STW) (X : List Col) (hok : walkOK w.kcfg 0 0 .A X = true) (hA : consA X ≤ w.lenA) :
    w.tclose 0 0 .A X ≤ (if startsGap X then 1 else 0) := by
  cases X with
  | nil => simp [STW.tclose]
  | cons c cs =>
    by_cases hg : c.isGap = true
    · simp only [startsGap, hg, if_true]
      exact STW.tclose_le_one w _ 0 0 .A hok (by simpa using hA)
    · simp only [startsGap, hg]
      simp only [walkOK, Bool.and_eq_true] at hok
      have hA' : stepP 0 c + consA cs ≤ w.lenA := by rw [consA_cons] at hA; exact hA
      rw [STW.tclose]
      cases c with
      | gapA => simp [Col.isGap] at hg
      | gapB => simp [Col.isGap] at hg
      | skip => simp [stepOK] at hok
      | both =>
        rw [STW.tclose_zero_of_pos w cs _ _ _ hok.2 hA' (by simp [stepP]) (by simp [stepK])]
        simp

end Kalign
