/-!
# Sorting lemmas (block P): `List.mergeSort` with a comparator that is only total *between the
elements of the list* (the C comparators never return 0, so `le a a = false`).
-/
namespace Kalign
open List

variable {α : Type}

/-- `pairwise_merge` of core with transitivity and totality restricted to a set `S` of elements -/
theorem pairwise_merge_on {le : α → α → Bool} (S : α → Prop)
    (trans : ∀ a b c, S a → S b → S c → le a b → le b c → le a c)
    (l₁ l₂ : List α) (hS₁ : ∀ a ∈ l₁, S a) (hS₂ : ∀ a ∈ l₂, S a)
    (tot : ∀ a ∈ l₁, ∀ b ∈ l₂, le a b || le b a)
    (h₁ : l₁.Pairwise (le · ·)) (h₂ : l₂.Pairwise (le · ·)) : (merge l₁ l₂ le).Pairwise (le · ·) := by
  induction l₁ generalizing l₂ with
  | nil => simpa only [merge]
  | cons x l₁ ih₁ =>
    induction l₂ with
    | nil => simpa only [merge]
    | cons y l₂ ih₂ =>
      simp only [merge]
      split <;> rename_i h
      · apply Pairwise.cons
        · intro z m
          rw [mem_merge, mem_cons] at m
          rcases m with (m|rfl|m)
          · exact rel_of_pairwise_cons h₁ m
          · exact h
          · exact trans _ _ _ (hS₁ _ mem_cons_self) (hS₂ _ mem_cons_self) (hS₂ _ (mem_cons_of_mem _ m)) h
              (rel_of_pairwise_cons h₂ m)
        · exact ih₁ _ (fun a ha => hS₁ a (mem_cons_of_mem _ ha)) hS₂
            (fun a ha b hb => tot a (mem_cons_of_mem _ ha) b hb) h₁.tail h₂
      · apply Pairwise.cons
        · intro z m
          rw [mem_merge, mem_cons] at m
          simp only [Bool.not_eq_true] at h
          have hyx : le y x = true := by simpa [h] using tot x mem_cons_self y mem_cons_self
          rcases m with (⟨rfl|m⟩|m)
          · exact hyx
          · exact trans _ _ _ (hS₂ _ mem_cons_self) (hS₁ _ mem_cons_self) (hS₁ _ (mem_cons_of_mem _ m)) hyx
              (rel_of_pairwise_cons h₁ m)
          · exact rel_of_pairwise_cons h₂ m
        · exact ih₂ (fun a ha => hS₂ a (mem_cons_of_mem _ ha))
            (fun a ha b hb => tot a ha b (mem_cons_of_mem _ hb)) h₂.tail

/-- `mergeSort` sorts when `le` is transitive on the elements and any two elements at different
positions are comparable -/
theorem pairwise_mergeSort_on {le : α → α → Bool} (S : α → Prop)
    (trans : ∀ a b c, S a → S b → S c → le a b → le b c → le a c) :
    (l : List α) → (∀ a ∈ l, S a) → l.Pairwise (fun a b => le a b || le b a) →
      (mergeSort l le).Pairwise (le · ·)
  | [], _, _ => by simp
  | [a], _, _ => by simp
  | a :: b :: xs, hS, tot => by
    simp only [mergeSort, MergeSort.Internal.splitInTwo_fst, MergeSort.Internal.splitInTwo_snd]
    generalize hn : ((a :: b :: xs).length + 1) / 2 = n
    have hsplit : (a :: b :: xs).take n ++ (a :: b :: xs).drop n = a :: b :: xs := take_append_drop _ _
    have hmem₁ : ∀ x ∈ (a :: b :: xs).take n, x ∈ a :: b :: xs := fun x hx => mem_of_mem_take hx
    have hmem₂ : ∀ x ∈ (a :: b :: xs).drop n, x ∈ a :: b :: xs := fun x hx => mem_of_mem_drop hx
    have tot' := tot
    rw [← hsplit, pairwise_append] at tot'
    obtain ⟨t₁, t₂, t₁₂⟩ := tot'
    have h1 : ((a :: b :: xs).take n).length < (a :: b :: xs).length := by
      simp only [length_take, length_cons] at hn ⊢; omega
    have h2 : ((a :: b :: xs).drop n).length < (a :: b :: xs).length := by
      simp only [length_drop, length_cons] at hn ⊢; omega
    apply pairwise_merge_on S trans
    · intro x hx; exact hS x (hmem₁ x (mem_mergeSort.mp hx))
    · intro x hx; exact hS x (hmem₂ x (mem_mergeSort.mp hx))
    · intro x hx y hy; exact t₁₂ x (mem_mergeSort.mp hx) y (mem_mergeSort.mp hy)
    · exact pairwise_mergeSort_on S trans _ (fun x hx => hS x (hmem₁ x hx)) t₁
    · exact pairwise_mergeSort_on S trans _ (fun x hx => hS x (hmem₂ x hx)) t₂
termination_by l => l.length

/-- **sorting is canonical**: two permutations of a list whose elements are pairwise comparable
by a transitive antisymmetric comparator sort to the same list -/
theorem mergeSort_eq_of_perm {le : α → α → Bool} (S : α → Prop)
    (trans : ∀ a b c, S a → S b → S c → le a b → le b c → le a c)
    (antisymm : ∀ a b, S a → S b → le a b → le b a → a = b)
    {l₁ l₂ : List α} (hp : l₁.Perm l₂) (hS : ∀ a ∈ l₁, S a)
    (tot : l₁.Pairwise (fun a b => le a b || le b a)) :
    mergeSort l₁ le = mergeSort l₂ le := by
  have hS₂ : ∀ a ∈ l₂, S a := fun a ha => hS a (hp.mem_iff.mpr ha)
  have tot₂ : l₂.Pairwise (fun a b => le a b || le b a) :=
    tot.perm hp (by intro x y h; simpa [Bool.or_comm] using h)
  have s₁ := pairwise_mergeSort_on S trans l₁ hS tot
  have s₂ := pairwise_mergeSort_on S trans l₂ hS₂ tot₂
  have hperm : (mergeSort l₁ le).Perm (mergeSort l₂ le) :=
    (mergeSort_perm l₁ le).trans (hp.trans (mergeSort_perm l₂ le).symm)
  exact Perm.eq_of_pairwise
    (fun a b ha hb hab hba => antisymm a b (hS a (mem_mergeSort.mp ha)) (hS₂ b (mem_mergeSort.mp hb)) hab hba)
    s₁ s₂ hperm

theorem eq_of_nodup_map {α β : Type} {f : α → β} {A : List α} (hnd : (A.map f).Nodup) {a b : α}
    (ha : a ∈ A) (hb : b ∈ A) (h : f a = f b) : a = b := by
  induction A with
  | nil => cases ha
  | cons x A ih =>
    simp only [map_cons, nodup_cons, mem_map] at hnd
    rcases mem_cons.mp ha with rfl | ha' <;> rcases mem_cons.mp hb with rfl | hb'
    · rfl
    · exact absurd ⟨b, hb', h.symm⟩ hnd.1
    · exact absurd ⟨a, ha', h⟩ hnd.1
    · exact ih hnd.2 ha' hb'

end Kalign
