import KalignModel.Lemmas.SoftExact1
import KalignModel.Lemmas.SoftKernel
/-!
# Cell transfer: on dyadic parameters the `SoftF32` kernels compute the exact tables

`DyadicParam U ap apE`: the `SoftF32` parameter set `ap` is the exact image of the exact one `apE`, and every penalty and every
matrix entry is a multiple of 1/2 score unit of magnitude at most `U` half units.

`genTab_emb`: two kernel tables whose cell formulas correspond (`OpsEmb`: embedded in ⟹ embedded out, one more `U` per charged
parameter) are related cell by cell: cell `(p,k)` of the `SoftF32` table is `half h` where the exact cell is `some (1000·h)`
(with `|h| ≤ U·(p+k)`), and sentinel-like where the exact cell is `−∞` — provided `U·L < 2²⁴` for the largest `p + k = L` used.
`ssOpsF_emb`, `ssOpsB_emb`, `ssGaInit_emb`: the sequence–sequence cell formulas correspond under `DyadicParam`.
-/
namespace Kalign
open SoftF32

structure DyadicParam (U : Nat) (ap : AlnParam SoftF32) (apE : AlnParam ExactScore) : Prop where
  gpo : DyVal U ap.gpo apE.gpo
  gpe : DyVal U ap.gpe apE.gpe
  tgpe : DyVal U ap.tgpe apE.tgpe
  sub : ∀ i j, DyVal U (ap.sub i j) (apE.sub i j)

/-- the two carriers' values of one DP state -/
def StEmb (N : Nat) (s : States SoftF32) (e : States ExactScore) : Prop :=
  Emb N s.a e.a ∧ Emb N s.ga e.ga ∧ Emb N s.gb e.gb

theorem StEmb.mono {N N' : Nat} {s : States SoftF32} {e : States ExactScore} (h : StEmb N s e) (hN : N ≤ N') :
    StEmb N' s e := ⟨h.1.mono hN, h.2.1.mono hN, h.2.2.mono hN⟩

theorem stEmb_negInf (N : Nat) : StEmb N (States.negInf : States SoftF32) (States.negInf : States ExactScore) :=
  ⟨emb_negInf N, emb_negInf N, emb_negInf N⟩

/-- embedded in ⟹ embedded out; the level (in multiples of `U`) grows by one per charged parameter -/
structure OpsEmb (U : Nat) (oS : RowOps SoftF32) (oE : RowOps ExactScore) : Prop where
  gbFirst : ∀ (c : Nat) (x y : SoftF32) (ex ey : ExactScore), U * (c + 1) < 16777216 → Emb (U * c) x ex →
    Emb (U * c) y ey → Emb (U * (c + 1)) (oS.gbFirst x y) (oE.gbFirst ex ey)
  aCell : ∀ (k c : Nat) (x y z : SoftF32) (ex ey ez : ExactScore), U * (c + 2) < 16777216 → Emb (U * c) x ex →
    Emb (U * c) y ey → Emb (U * c) z ez → Emb (U * (c + 2)) (oS.aCell k x y z) (oE.aCell k ex ey ez)
  gaCell : ∀ (k c : Nat) (x y : SoftF32) (ex ey : ExactScore), U * (c + 1) < 16777216 → Emb (U * c) x ex →
    Emb (U * c) y ey → Emb (U * (c + 1)) (oS.gaCell k x y) (oE.gaCell k ex ey)
  gbMid : ∀ (c : Nat) (x y : SoftF32) (ex ey : ExactScore), U * (c + 1) < 16777216 → Emb (U * c) x ex →
    Emb (U * c) y ey → Emb (U * (c + 1)) (oS.gbMid x y) (oE.gbMid ex ey)
  gbLast : ∀ (c : Nat) (x y : SoftF32) (ex ey : ExactScore), U * (c + 1) < 16777216 → Emb (U * c) x ex →
    Emb (U * c) y ey → Emb (U * (c + 1)) (oS.gbLast x y) (oE.gbLast ex ey)

def GaEmb (U : Nat) (gS : Nat → SoftF32 → SoftF32 → SoftF32) (gE : Nat → ExactScore → ExactScore → ExactScore) : Prop :=
  ∀ (k c : Nat) (x y : SoftF32) (ex ey : ExactScore), U * (c + 1) < 16777216 → Emb (U * c) x ex → Emb (U * c) y ey →
    Emb (U * (c + 1)) (gS k x y) (gE k ex ey)

theorem mul_le_of_le (U : Nat) {a b : Nat} (h : a ≤ b) : U * a ≤ U * b := Nat.mul_le_mul_left U h

theorem genRow0_emb (U : Nat) (gS : Nat → SoftF32 → SoftF32 → SoftF32) (gE : Nat → ExactScore → ExactScore → ExactScore)
    (hg : GaEmb U gS gE) (n : Nat) (sS : States SoftF32) (sE : States ExactScore) (L : Nat)
    (hL : U * L < 16777216) (hs : StEmb (U * 0) sS sE) :
    ∀ k, k ≤ L → StEmb (U * k) (genRow0 gS n sS k) (genRow0 gE n sE k) := by
  intro k
  induction k with
  | zero => intro _; simpa [genRow0] using hs
  | succ k ih =>
    intro hk
    have ih' := ih (by omega)
    simp only [genRow0]
    by_cases hkn : k + 1 < n
    · rw [if_pos hkn, if_pos hkn]
      refine ⟨emb_negInf _, ?_, emb_negInf _⟩
      have := mul_le_of_le U hk
      exact hg (k + 1) k _ _ _ _ (by omega) ih'.2.1 ih'.1
    · rw [if_neg hkn, if_neg hkn]
      exact stEmb_negInf _

theorem genRow_emb (U : Nat) (oS : RowOps SoftF32) (oE : RowOps ExactScore) (ho : OpsEmb U oS oE) (n : Nat)
    (pS : Nat → States SoftF32) (pE : Nat → States ExactScore) (L p : Nat) (hL : U * L < 16777216)
    (hp : ∀ k, p + k ≤ L → StEmb (U * (p + k)) (pS k) (pE k)) :
    ∀ k, p + 1 + k ≤ L → StEmb (U * (p + 1 + k)) (genRow oS n pS k) (genRow oE n pE k) := by
  intro k
  induction k with
  | zero =>
    intro hk
    have h0 := hp 0 (by omega)
    simp only [genRow]
    refine ⟨emb_negInf _, emb_negInf _, ?_⟩
    have := mul_le_of_le U hk
    exact ho.gbFirst (p + 0) _ _ _ _ (by simpa using (by omega : U * (p + 1 + 0) < 16777216)) h0.2.2 h0.1
  | succ k ih =>
    intro hk
    have ih' := ih (by omega)
    have hk0 := hp k (by omega)
    have hk1 := hp (k + 1) (by omega)
    have hle := mul_le_of_le U hk
    have e1 : p + 1 + (k + 1) = p + k + 2 := by omega
    have e2 : p + 1 + (k + 1) = p + 1 + k + 1 := by omega
    have e3 : p + 1 + (k + 1) = p + (k + 1) + 1 := by omega
    have hA : Emb (U * (p + 1 + (k + 1))) (oS.aCell (k + 1) (pS k).a (pS k).ga (pS k).gb)
        (oE.aCell (k + 1) (pE k).a (pE k).ga (pE k).gb) := by
      rw [e1]
      exact ho.aCell (k + 1) (p + k) _ _ _ _ _ _ (by rw [← e1]; omega) hk0.1 hk0.2.1 hk0.2.2
    by_cases hkn : k + 1 < n
    · simp only [genRow, if_pos hkn]
      refine ⟨hA, ?_, ?_⟩
      · rw [e2]
        exact ho.gaCell (k + 1) (p + 1 + k) _ _ _ _ (by rw [← e2]; omega) ih'.2.1 ih'.1
      · rw [e3]
        exact ho.gbMid (p + (k + 1)) _ _ _ _ (by rw [← e3]; omega) hk1.2.2 hk1.1
    · simp only [genRow, if_neg hkn]
      refine ⟨hA, emb_negInf _, ?_⟩
      rw [e3]
      exact ho.gbLast (p + (k + 1)) _ _ _ _ (by rw [← e3]; omega) hk1.2.2 hk1.1

/-- **cell transfer for a kernel table** -/
theorem genTab_emb (U : Nat) (gS : Nat → SoftF32 → SoftF32 → SoftF32) (gE : Nat → ExactScore → ExactScore → ExactScore)
    (hg : GaEmb U gS gE) (n : Nat) (sS : States SoftF32) (sE : States ExactScore)
    (oS : Nat → RowOps SoftF32) (oE : Nat → RowOps ExactScore) (ho : ∀ p, OpsEmb U (oS p) (oE p))
    (L : Nat) (hL : U * L < 16777216) (hs : StEmb (U * 0) sS sE) :
    ∀ p k, p + k ≤ L → StEmb (U * (p + k)) (genTab gS n sS oS p k) (genTab gE n sE oE p k) := by
  intro p
  induction p with
  | zero =>
    intro k hk
    simp only [genTab, Nat.zero_add]
    exact genRow0_emb U gS gE hg n sS sE L hL hs k (by omega)
  | succ p ih =>
    intro k hk
    simp only [genTab]
    exact genRow_emb U (oS p) (oE p) (ho p) n _ _ L p hL ih k hk

/-! ## the sequence–sequence cell formulas -/

section
variable {U : Nat} {ap : AlnParam SoftF32} {apE : AlnParam ExactScore}

theorem ssGb_emb (hd : DyadicParam U ap apE) (term : Bool) (c : Nat) (x y : SoftF32) (ex ey : ExactScore)
    (hc : U * (c + 1) < 16777216) (hx : Emb (U * c) x ex) (hy : Emb (U * c) y ey) :
    Emb (U * (c + 1)) (ssGb ap term x y) (ssGb apE term ex ey) := by
  rw [Nat.mul_succ] at hc ⊢
  unfold ssGb
  cases term
  · simp only [Bool.false_eq_true, if_false]
    exact emb_smax (emb_sub hx hd.gpe hc) (emb_sub hy hd.gpo hc) hc
  · simp only [if_true]
    exact emb_sub (emb_smax hx hy (by omega)) hd.tgpe hc

theorem ssAl_emb (hd : DyadicParam U ap apE) (i j c : Nat) (x y z : SoftF32) (ex ey ez : ExactScore)
    (hc : U * (c + 2) < 16777216) (hx : Emb (U * c) x ex) (hy : Emb (U * c) y ey) (hz : Emb (U * c) z ez) :
    Emb (U * (c + 2)) (Score.add (smax3 x (Score.sub y ap.gpo) (Score.sub z ap.gpo)) (ap.sub i j))
      (Score.add (smax3 ex (Score.sub ey apE.gpo) (Score.sub ez apE.gpo)) (apE.sub i j)) := by
  have e : U * (c + 2) = U * c + U + U := by rw [Nat.mul_add, Nat.mul_two, Nat.add_assoc]
  rw [e] at hc ⊢
  have hy' := emb_sub hy hd.gpo (by omega)
  have hz' := emb_sub hz hd.gpo (by omega)
  have hx' : Emb (U * c + U) x ex := hx.mono (by omega)
  exact emb_add (emb_smax3 hx' hy' hz' (by omega)) (hd.sub i j) hc

theorem ssGa_emb (hd : DyadicParam U ap apE) (c : Nat) (x y : SoftF32) (ex ey : ExactScore)
    (hc : U * (c + 1) < 16777216) (hx : Emb (U * c) x ex) (hy : Emb (U * c) y ey) :
    Emb (U * (c + 1)) (smax (Score.sub x ap.gpe) (Score.sub y ap.gpo))
      (smax (Score.sub ex apE.gpe) (Score.sub ey apE.gpo)) := by
  rw [Nat.mul_succ] at hc ⊢
  exact emb_smax (emb_sub hx hd.gpe hc) (emb_sub hy hd.gpo hc) hc

theorem ssOpsF_emb (hd : DyadicParam U ap apE) (seq1 seq2 : Array Nat) (r : Rect) (p : Nat) :
    OpsEmb U (ssOpsF ap seq1 seq2 r p) (ssOpsF apE seq1 seq2 r p) := by
  refine ⟨?_, ?_, ?_, ?_, ?_⟩
  · intro c x y ex ey hc hx hy; exact ssGb_emb hd _ c x y ex ey hc hx hy
  · intro k c x y z ex ey ez hc hx hy hz; exact ssAl_emb hd _ _ c x y z ex ey ez hc hx hy hz
  · intro k c x y ex ey hc hx hy; exact ssGa_emb hd c x y ex ey hc hx hy
  · intro c x y ex ey hc hx hy; exact ssGb_emb hd false c x y ex ey hc hx hy
  · intro c x y ex ey hc hx hy; exact ssGb_emb hd _ c x y ex ey hc hx hy

theorem ssOpsB_emb (hd : DyadicParam U ap apE) (seq1 seq2 : Array Nat) (r : Rect) (p : Nat) :
    OpsEmb U (ssOpsB ap seq1 seq2 r p) (ssOpsB apE seq1 seq2 r p) := by
  refine ⟨?_, ?_, ?_, ?_, ?_⟩
  · intro c x y ex ey hc hx hy; exact ssGb_emb hd _ c x y ex ey hc hx hy
  · intro k c x y z ex ey ez hc hx hy hz; exact ssAl_emb hd _ _ c x y z ex ey ez hc hx hy hz
  · intro k c x y ex ey hc hx hy; exact ssGa_emb hd c x y ex ey hc hx hy
  · intro c x y ex ey hc hx hy; exact ssGb_emb hd false c x y ex ey hc hx hy
  · intro c x y ex ey hc hx hy; exact ssGb_emb hd _ c x y ex ey hc hx hy

theorem ssGaInit_emb (hd : DyadicParam U ap apE) (term : Bool) : GaEmb U (ssGaInit ap term) (ssGaInit apE term) := by
  intro k c x y ex ey hc hx hy
  exact ssGb_emb hd term c x y ex ey hc hx hy

end

/-- one-hot start states correspond -/
theorem stEmb_hot (N : Nat) (k : Kind) :
    StEmb N ((realKernels (α := SoftF32) ap ops lenA lenB).st k)
      ((realKernels (α := ExactScore) apE opsE lenA' lenB').st k) := by
  cases k
  · exact ⟨emb_zero N, emb_negInf N, emb_negInf N⟩
  · exact ⟨emb_negInf N, emb_zero N, emb_negInf N⟩
  · exact ⟨emb_negInf N, emb_negInf N, emb_zero N⟩

end Kalign
