import KalignModel.Model.Pipeline
import KalignModel.Lemmas.NoFaultUpgma
import KalignModel.Lemmas.NoFaultTasks
import KalignModel.Lemmas.Pipeline
/-!
# Building the guide tree (`build_tree_kmeans`) does not fault

* `convertN_lt`: every residue byte is mapped to a code inside its alphabet (tree alphabets 5 / 13, alignment alphabets 5 / 23),
  so `Peq[13]` of `bpm_block` and the 23×23 matrix are indexed in range.
* `anchorMatrix_some`, `distMatrix_some`: the distance estimations never fault on such codes.
* `bisectO_spec`: the bisecting k-means recursion never runs out of fuel, and returns a tree over exactly its samples when
  the small-set builder does.
* `UpgmaHyp`: **the hypothesis about score values** for this stage (entries of active pairs stay `< FLT_MAX`).
* `buildTasks_cases`: `buildTasks` never returns `.fuel`, `.fault`, `.monitor`; if it returns a table, it is the sorted task table of
  a tree whose leaves are exactly `0 … n-1`; under `UpgmaHyp` it returns a table.
-/
namespace Kalign.Pipeline
open Kalign Kalign.Kmeans Kalign.Sched

/-! ## codes -/

theorem alphaRow_len : ∀ id ∈ [5, 13, 23], (alphaRow id).map (·.toInternal.length) = some 128 := by
  decide +kernel

theorem toInternal_big (id c : Nat) (hid : id = 5 ∨ id = 13 ∨ id = 23) (hc : 128 ≤ c) : toInternal id c = -1 := by
  have hmem : id ∈ [5, 13, 23] := by simp; omega
  have hl := alphaRow_len id hmem
  unfold toInternal
  cases hr : alphaRow id with
  | none => rfl
  | some r =>
    rw [hr] at hl
    simp only [Option.map_some, Option.some.injEq] at hl
    simp only
    rw [List.getD_eq_getElem?_getD, List.getElem?_eq_none (by omega)]
    rfl

theorem codeOf_small : ∀ c ∈ List.range 128,
    (0 ≤ codeOf 5 c ∧ codeOf 5 c < 5) ∧ (0 ≤ codeOf 13 c ∧ codeOf 13 c < 13) ∧ (0 ≤ codeOf 23 c ∧ codeOf 23 c < 23) := by
  decide +kernel

theorem codeOf_range (id c : Nat) (hid : id = 5 ∨ id = 13 ∨ id = 23) : 0 ≤ codeOf id c ∧ codeOf id c < (id : Int) := by
  by_cases hc : c < 128
  · have := codeOf_small c (List.mem_range.2 hc)
    rcases hid with h | h | h <;> subst h
    · exact this.1
    · exact this.2.1
    · exact this.2.2
  · have e : codeOf id c = codeOf id 0 := by
      have h0 : toInternal id 0 = -1 := by rcases hid with h | h | h <;> subst h <;> decide
      unfold codeOf
      rw [toInternal_big id c hid (by omega), h0]
    rw [e]
    have := codeOf_small 0 (by decide)
    rcases hid with h | h | h <;> subst h
    · exact this.1
    · exact this.2.1
    · exact this.2.2

/-- every code `convert_msa_to_internal` stores lies inside the alphabet -/
theorem convertN_lt (id : Nat) (hid : id = 5 ∨ id = 13 ∨ id = 23) (s : List Nat) : ∀ c ∈ convertN id s, c < id := by
  intro c hc
  simp only [convertN, convert, List.map_map, List.mem_map, Function.comp_apply] at hc
  obtain ⟨b, _, rfl⟩ := hc
  obtain ⟨h0, h1⟩ := codeOf_range id b hid
  unfold toU8
  rcases hid with h | h | h <;> subst h <;> omega

theorem treeAlphabet_cases (b : Bio) : treeAlphabet b = 5 ∨ treeAlphabet b = 13 := by cases b <;> simp [treeAlphabet]
theorem alnAlphabet_cases (b : Bio) : alnAlphabet b = 5 ∨ alnAlphabet b = 23 := by cases b <;> simp [alnAlphabet]

/-! ## distances -/

theorem bpmBlock_some (t p : List Nat) (ht : ∀ c ∈ t, c < 13) : ∃ k, bpmBlock t p = some k := by
  unfold bpmBlock
  have : t.any (fun c => decide (SIGMA ≤ c)) = false := by
    rw [List.any_eq_false]
    intro c hc
    have := ht c hc
    intro hd
    have h13 : SIGMA ≤ c := of_decide_eq_true hd
    unfold SIGMA at h13
    omega
  rw [this]
  exact ⟨_, rfl⟩

theorem distEntry_some (a b : List Nat) (ha : ∀ c ∈ a, c < 13) (hb : ∀ c ∈ b, c < 13) : ∃ d, distEntry a b = some d := by
  unfold distEntry calcDistance calcDistanceRaw
  split
  · obtain ⟨k, hk⟩ := bpmBlock_some a b ha
    rw [hk]; exact ⟨_, rfl⟩
  · obtain ⟨k, hk⟩ := bpmBlock_some b a hb
    rw [hk]; exact ⟨_, rfl⟩

theorem getD_lt13 (seqs : List (List Nat)) (h : ∀ s ∈ seqs, ∀ c ∈ s, c < 13) (i : Nat) : ∀ c ∈ seqs.getD i [], c < 13 := by
  intro c hc
  rw [List.getD_eq_getElem?_getD] at hc
  cases hi : seqs[i]? with
  | none => rw [hi] at hc; cases hc
  | some s =>
    rw [hi] at hc
    exact h s (List.mem_of_getElem? hi) c hc

theorem distMatrix_some (seqs : List (List Nat)) (h : ∀ s ∈ seqs, ∀ c ∈ s, c < 13) : ∃ dm, distMatrix seqs = some dm := by
  unfold distMatrix
  simp only
  obtain ⟨a, ha, _⟩ := mapM_option_spec
    (fun x => (List.range seqs.length).mapM fun y => distEntry (seqs.getD (max x y) []) (seqs.getD (min x y) []))
    (fun _ => True) (List.range seqs.length) (by
      intro x _
      obtain ⟨r, hr, _⟩ := mapM_option_spec
        (fun y => distEntry (seqs.getD (max x y) []) (seqs.getD (min x y) [])) (fun _ => True) (List.range seqs.length) (by
          intro y _
          obtain ⟨d, hd⟩ := distEntry_some _ _ (getD_lt13 seqs h (max x y)) (getD_lt13 seqs h (min x y))
          exact ⟨d, hd, trivial⟩)
      exact ⟨r, hr, trivial⟩)
  exact ⟨a, ha⟩

theorem arr_getD_lt13 (codes : Array (List Nat)) (h : ∀ s ∈ codes.toList, ∀ c ∈ s, c < 13) (i : Nat) :
    ∀ c ∈ codes.getD i [], c < 13 := by
  intro c hc
  have := getD_lt13 codes.toList h i c
  apply this
  simpa [Array.getD_eq_getD_getElem?, List.getD_eq_getElem?_getD] using hc

/-- `d_estimation(msa, anchors, num_anchors, 0)` never faults; every row has at least `num_var` floats -/
theorem anchorMatrix_some (codes : Array (List Nat)) (anchors : List Nat) (h : ∀ s ∈ codes.toList, ∀ c ∈ s, c < 13) :
    ∃ dm, anchorMatrix codes anchors = some dm ∧ RowsValid dm anchors.length (List.range codes.size) := by
  unfold anchorMatrix
  simp only
  obtain ⟨a, ha, hl, hP⟩ := mapM_option_spec
    (fun s => ((anchors.mapM fun a => distEntry s (codes.getD a [])).map fun r =>
      (r ++ List.replicate (numVarOf anchors.length - r.length) (0 : Float32)).toArray))
    (fun row => numVarOf anchors.length ≤ row.size) codes.toList (by
      intro s hs
      obtain ⟨r, hr, hrl, _⟩ := mapM_option_spec (fun a => distEntry s (codes.getD a [])) (fun _ => True) anchors (by
        intro x _
        obtain ⟨d, hd⟩ := distEntry_some s (codes.getD x []) (h s hs) (arr_getD_lt13 codes h x)
        exact ⟨d, hd, trivial⟩)
      refine ⟨_, by rw [hr]; rfl, ?_⟩
      simp; omega)
  refine ⟨a.toArray, by rw [ha]; rfl, ?_⟩
  intro s hs
  have hs' : s < a.length := by rw [hl]; simpa using hs
  exact ⟨a[s], by simp [hs'], hP _ (List.getElem_mem hs')⟩

/-! ## the small-set builder -/

theorem GTree.leaves_toTree (t : GTree) : (GTree.toTree t).leaves = t.leaves := by
  induction t with
  | leaf i => rfl
  | node l r ihl ihr => simp [GTree.toTree, Tree.leaves, GTree.leaves, ihl, ihr]

/-- **hypothesis about binary32 values in `upgma`**: in every matrix the joining rounds reach (starting from the
bit-parallel distances of the samples), the entries of the active pairs are below `FLT_MAX` -/
def UpgmaHyp (codes : Array (List Nat)) : Prop :=
  ∀ (samples : List Nat) (dm0 : List (List Float32)),
    distMatrix (samples.map fun s => codes.getD s []) = some dm0 →
    ∀ j s, j + 1 < samples.length → iterOpt (upgmaRound samples.length) j (upgmaInit dm0 samples) = some s →
      AllBelow samples.length s

theorem smallTree_leaves (codes : Array (List Nat)) (samples : List Nat) (t : Tree)
    (h : smallTree codes samples = some t) : ∀ x, x ∈ t.leaves ↔ x ∈ samples := by
  unfold smallTree at h
  cases hd : distMatrix (samples.map fun s => codes.getD s []) with
  | none => rw [hd] at h; cases h
  | some dm =>
    rw [hd, Option.bind_some] at h
    cases hu : upgma dm samples with
    | none => rw [hu] at h; cases h
    | some g =>
      rw [hu] at h
      simp only [Option.map_some, Option.some.injEq] at h
      subst h
      rw [GTree.leaves_toTree]
      exact upgma_leaves dm samples g hu

theorem smallTree_some (codes : Array (List Nat)) (h13 : ∀ s ∈ codes.toList, ∀ c ∈ s, c < 13) (hU : UpgmaHyp codes)
    (samples : List Nat) (hne : samples ≠ []) : ∃ t, smallTree codes samples = some t := by
  have hn : samples.length ≠ 0 := fun h => hne (List.length_eq_zero_iff.1 h)
  obtain ⟨dm, hdm⟩ := distMatrix_some (samples.map fun s => codes.getD s []) (by
    intro s hs
    simp only [List.mem_map] at hs
    obtain ⟨i, _, rfl⟩ := hs
    exact arr_getD_lt13 codes h13 i)
  obtain ⟨g, hg, _⟩ := upgma_some dm samples hn (hU samples dm hdm)
  exact ⟨GTree.toTree g, by unfold smallTree; rw [hdm]; simp [hg]⟩

/-! ## the recursion -/

/-- `bisecting_kmeans`: never out of fuel; a returned tree has exactly the samples as leaves; a tree is returned when the
small-set builder returns one on every non-empty part -/
theorem bisectO_spec (avx : Bool) (dm : Array (Array Float32)) (na : Nat) (small : List Nat → Option Tree)
    (hsmall : ∀ l t, small l = some t → ∀ x, x ∈ t.leaves ↔ x ∈ l) (fuel : Nat) (samples : List Nat)
    (hne : samples ≠ []) (hf : samples.length ≤ fuel) :
    bisectO avx dm na small fuel samples ≠ .error .fuel ∧
    (∀ t, bisectO avx dm na small fuel samples = .ok t → ∀ x, x ∈ t.leaves ↔ x ∈ samples) ∧
    (RowsValid dm na samples → (∀ l, l ≠ [] → l.Sublist samples → ∃ t, small l = some t) →
      ∃ t, bisectO avx dm na small fuel samples = .ok t) := by
  induction fuel generalizing samples with
  | zero =>
    have : samples.length = 0 := by omega
    exact absurd (List.length_eq_zero_iff.1 this) hne
  | succ fuel ih =>
    unfold bisectO
    by_cases hs : samples.length < kmSmall
    · simp only [hs, if_true]
      cases hsm : small samples with
      | none =>
        refine ⟨(by simp), (by intro t ht; cases ht), ?_⟩
        intro _ hall
        obtain ⟨t, ht⟩ := hall samples hne (List.Sublist.refl _)
        rw [hsm] at ht; cases ht
      | some t =>
        refine ⟨(by simp), ?_, fun _ _ => ⟨t, rfl⟩⟩
        intro t' ht'
        simp only [Except.ok.injEq] at ht'
        subst ht'
        exact hsmall samples t hsm
    · simp only [hs, if_false]
      have hbig : kmSmall ≤ samples.length := by omega
      have h2 : 2 ≤ samples.length := by have : kmSmall = 100 := rfl; omega
      cases hb : bestSplit avx dm na samples with
      | none =>
        simp only
        refine ⟨(by simp), (by intro t ht; cases ht), ?_⟩
        intro hv _
        obtain ⟨b, hb'⟩ := bestSplit_isSome (avx := avx) hv hbig
        rw [hb] at hb'; cases hb'
      | some b =>
        simp only
        have hg := bestSplit_good hb
        obtain ⟨hl, hr, hlne, hrne⟩ := hg.length_lt h2
        obtain ⟨il1, il2, il3⟩ := ih b.sl hlne (by omega)
        obtain ⟨ir1, ir2, ir3⟩ := ih b.sr hrne (by omega)
        cases hL : bisectO avx dm na small fuel b.sl with
        | error e =>
          have he : e ≠ .fuel := fun h => il1 (by rw [hL, h])
          refine ⟨(by simp [he]), (by intro t ht; cases ht), ?_⟩
          intro hv hall
          obtain ⟨t, ht⟩ := il3 (hv.of_sublist hg.subl) (fun l h1 h2 => hall l h1 (h2.trans hg.subl))
          rw [hL] at ht; cases ht
        | ok l =>
          cases hR : bisectO avx dm na small fuel b.sr with
          | error e =>
            have he : e ≠ .fuel := fun h => ir1 (by rw [hR, h])
            refine ⟨(by simp [he]), (by intro t ht; cases ht), ?_⟩
            intro hv hall
            obtain ⟨t, ht⟩ := ir3 (hv.of_sublist hg.subr) (fun l h1 h2 => hall l h1 (h2.trans hg.subr))
            rw [hR] at ht; cases ht
          | ok r =>
            refine ⟨(by simp), ?_, fun _ _ => ⟨_, rfl⟩⟩
            intro t ht
            simp only [Except.ok.injEq] at ht
            subst ht
            intro x
            simp only [Tree.leaves, List.mem_append]
            rw [il2 l hL x, ir2 r hR x, ← List.mem_append, hg.perm.mem_iff]

/-! ## `build_tree_kmeans` -/

/-- what `buildTasks` can return -/
theorem buildTasks_cases (avx : Bool) (codes : Array (List Nat)) (hn : codes.size ≠ 0)
    (h13 : ∀ s ∈ codes.toList, ∀ c ∈ s, c < 13) :
    (∃ T : Tree, buildTasks avx codes = .ok (Kmeans.sortTasks (treeTasks T codes.size)).toArray ∧
      ∀ x, x ∈ T.leaves ↔ x < codes.size) ∨
    (buildTasks avx codes = .error .tree ∧ ¬ UpgmaHyp codes) := by
  unfold buildTasks
  simp only
  have hlne : codes.toList.map List.length ≠ [] := by
    intro h
    have := congrArg List.length h
    simp only [List.length_map, Array.length_toList, List.length_nil] at this
    exact hn this
  obtain ⟨anchors, ha, hal, _⟩ := pickAnchors_spec (codes.toList.map List.length) hlne
  rw [ha]
  simp only
  obtain ⟨dm, hdm, hrows⟩ := anchorMatrix_some codes anchors h13
  rw [hdm]
  simp only
  have hrne : List.range codes.size ≠ [] := by
    intro h
    have := congrArg List.length h
    simp only [List.length_range, List.length_nil] at this
    exact hn this
  obtain ⟨s1, s2, s3⟩ := bisectO_spec avx dm anchors.length (smallTree codes) (smallTree_leaves codes) codes.size
    (List.range codes.size) hrne (by simp)
  cases hb : bisectO avx dm anchors.length (smallTree codes) codes.size (List.range codes.size) with
  | ok t =>
    left
    refine ⟨t, rfl, ?_⟩
    intro x
    rw [s2 t hb x, List.mem_range]
  | error e =>
    right
    cases e with
    | fuel => exact absurd hb s1
    | fault =>
      refine ⟨rfl, ?_⟩
      intro hU
      obtain ⟨t, ht⟩ := s3 hrows (fun l hl _ => smallTree_some codes h13 hU l hl)
      rw [hb] at ht; cases ht

end Kalign.Pipeline
