import KalignModel.Lemmas.Bpm256
/-!
# the AVX2 lane emulation of `bpm_256` equals the 256-bit word algorithm

`toBV` reads the four 64-bit lanes as one 256-bit number.  `add256` (carry resolution through `movemask` and the
`BROADCAST_MASK` table) is the 256-bit addition, `bitShiftLeft256ymm` the 256-bit shift.
NB: `simp` is very slow on goals that contain the literals `0x8000000000000000#64`; they are only touched by `rw`.
-/
namespace Kalign
open V256


theorem toBV_bit (a : V256) (k : Nat) :
    a.toBV.getLsbD k = if k < 64 then a.l0.getLsbD k else if k < 128 then a.l1.getLsbD (k - 64)
      else if k < 192 then a.l2.getLsbD (k - 128) else a.l3.getLsbD (k - 192) := by
  simp only [V256.toBV, BitVec.getLsbD_append]
  by_cases h1 : k < 64
  · rw [if_pos h1, if_pos h1]
  · rw [if_neg h1, if_neg h1]
    by_cases h2 : k < 128
    · rw [if_pos (by omega : k - 64 < 64), if_pos h2]
    · rw [if_neg (by omega : ¬ k - 64 < 64), if_neg h2]
      by_cases h3 : k < 192
      · rw [if_pos (by omega : k - 64 - 64 < 64), if_pos h3, show k - 64 - 64 = k - 128 by omega]
      · rw [if_neg (by omega : ¬ k - 64 - 64 < 64), if_neg h3, show k - 64 - 64 - 64 = k - 192 by omega]

theorem toBV_map2 (f : BitVec 64 → BitVec 64 → BitVec 64) (g : BitVec 256 → BitVec 256 → BitVec 256)
    (g' : Bool → Bool → Bool)
    (hf : ∀ x y i, (f x y).getLsbD i = g' (x.getLsbD i) (y.getLsbD i))
    (hg : ∀ x y i, (g x y).getLsbD i = g' (x.getLsbD i) (y.getLsbD i)) (a b : V256) :
    (V256.map2 f a b).toBV = g a.toBV b.toBV := by
  apply BitVec.eq_of_getLsbD_eq
  intro i _
  rw [hg, toBV_bit, toBV_bit, toBV_bit]
  show (if i < 64 then (f a.l0 b.l0).getLsbD i else if i < 128 then (f a.l1 b.l1).getLsbD (i - 64)
      else if i < 192 then (f a.l2 b.l2).getLsbD (i - 128) else (f a.l3 b.l3).getLsbD (i - 192)) = _
  split
  · rw [hf]
  · split
    · rw [hf]
    · split <;> rw [hf]

theorem toBV_and (a b : V256) : (V256.and a b).toBV = a.toBV &&& b.toBV :=
  toBV_map2 _ _ (· && ·) (fun _ _ _ => BitVec.getLsbD_and) (fun _ _ _ => BitVec.getLsbD_and) a b
theorem toBV_or (a b : V256) : (V256.or a b).toBV = a.toBV ||| b.toBV :=
  toBV_map2 _ _ (· || ·) (fun _ _ _ => BitVec.getLsbD_or) (fun _ _ _ => BitVec.getLsbD_or) a b
theorem toBV_xor (a b : V256) : (V256.xor a b).toBV = a.toBV ^^^ b.toBV :=
  toBV_map2 _ _ (fun x y => x ^^ y) (fun _ _ _ => BitVec.getLsbD_xor) (fun _ _ _ => BitVec.getLsbD_xor) a b

theorem toBV_ones : (V256.set1 V256.ones64).toBV = BitVec.allOnes 256 := by
  apply BitVec.eq_of_getLsbD_eq
  intro i hi
  rw [toBV_bit]
  show (if i < 64 then (BitVec.allOnes 64).getLsbD i else if i < 128 then (BitVec.allOnes 64).getLsbD (i - 64)
      else if i < 192 then (BitVec.allOnes 64).getLsbD (i - 128) else (BitVec.allOnes 64).getLsbD (i - 192)) = _
  simp only [BitVec.getLsbD_allOnes]
  split
  · simp [*]
  · split
    · simp [hi]; omega
    · split <;> (simp [hi]; omega)

theorem toBV_zero : V256.zero.toBV = 0#256 := by
  apply BitVec.eq_of_getLsbD_eq
  intro i hi
  rw [toBV_bit]
  show (if i < 64 then (0#64).getLsbD i else if i < 128 then (0#64).getLsbD (i - 64)
      else if i < 192 then (0#64).getLsbD (i - 128) else (0#64).getLsbD (i - 192)) = _
  simp

/-- `_mm256_andnot_si256(x, NOTONE)` is the complement -/
theorem toBV_andnot_ones (a : V256) : (V256.andnot a (V256.set1 V256.ones64)).toBV = ~~~ a.toBV := by
  apply BitVec.eq_of_getLsbD_eq
  intro i hi
  rw [toBV_bit, BitVec.getLsbD_not, toBV_bit]
  show (if i < 64 then (~~~a.l0 &&& BitVec.allOnes 64).getLsbD i
      else if i < 128 then (~~~a.l1 &&& BitVec.allOnes 64).getLsbD (i - 64)
      else if i < 192 then (~~~a.l2 &&& BitVec.allOnes 64).getLsbD (i - 128)
      else (~~~a.l3 &&& BitVec.allOnes 64).getLsbD (i - 192)) = _
  simp only [BitVec.getLsbD_and, BitVec.getLsbD_not, BitVec.getLsbD_allOnes]
  split
  · rename_i h; simp [h, hi]
  · split
    · have : i - 64 < 64 := by omega
      simp [this, hi]
    · split
      · have : i - 128 < 64 := by omega
        simp [this, hi]
      · have : i - 192 < 64 := by omega
        simp [this, hi]

/-- `bitShiftLeft256ymm` shifts the 256-bit number (for counts up to 64) -/
theorem toBV_shl256 (a : V256) (c : Nat) (hc : c ≤ 64) : (shl256 a c).toBV = a.toBV <<< c := by
  apply BitVec.eq_of_getLsbD_eq
  intro i hi
  rw [toBV_bit, BitVec.getLsbD_shiftLeft, toBV_bit]
  show (if i < 64 then (a.l0 <<< c ||| 0#64).getLsbD i
      else if i < 128 then (a.l1 <<< c ||| a.l0 >>> (64 - c)).getLsbD (i - 64)
      else if i < 192 then (a.l2 <<< c ||| a.l1 >>> (64 - c)).getLsbD (i - 128)
      else (a.l3 <<< c ||| a.l2 >>> (64 - c)).getLsbD (i - 192)) = _
  simp only [BitVec.getLsbD_or, BitVec.getLsbD_shiftLeft, BitVec.getLsbD_ushiftRight, hi, decide_true, Bool.true_and]
  by_cases h1 : i < 64
  · simp only [h1, if_true]
    by_cases hic : i < c
    · simp [hic]
    · have : i - c < 64 := by omega
      simp [hic, this, h1]
  · simp only [h1, if_false]
    by_cases h2 : i < 128
    · simp only [h2, if_true]
      by_cases hic : i < c
      · omega
      · simp only [hic, decide_false, Bool.not_false, Bool.true_and]
        by_cases hj : i - 64 < c
        · have e1 : i - c < 64 := by omega
          have e2 : 64 - c + (i - 64) = i - c := by omega
          simp [hj, e1, e2, show i - 64 < 64 by omega]
        · have e1 : ¬ i - c < 64 := by omega
          have e2 : i - c < 128 := by omega
          have e3 : i - 64 - c = i - c - 64 := by omega
          have e4 : a.l0.getLsbD (64 - c + (i - 64)) = false := by
            apply BitVec.getLsbD_of_ge; omega
          simp [hj, e1, e2, e3, e4, show i - 64 < 64 by omega]
    · simp only [h2, if_false]
      have hic : ¬ i < c := by omega
      simp only [hic, decide_false, Bool.not_false, Bool.true_and]
      by_cases h3 : i < 192
      · simp only [h3, if_true]
        by_cases hj : i - 128 < c
        · have e0 : ¬ i - c < 64 := by omega
          have e1 : i - c < 128 := by omega
          have e2 : 64 - c + (i - 128) = i - c - 64 := by omega
          simp [hj, e0, e1, e2, show i - 128 < 64 by omega]
        · have e0 : ¬ i - c < 64 := by omega
          have e1 : ¬ i - c < 128 := by omega
          have e2 : i - c < 192 := by omega
          have e3 : i - 128 - c = i - c - 128 := by omega
          have e4 : a.l1.getLsbD (64 - c + (i - 128)) = false := by
            apply BitVec.getLsbD_of_ge; omega
          simp [hj, e0, e1, e2, e3, e4, show i - 128 < 64 by omega]
      · simp only [h3, if_false]
        by_cases hj : i - 192 < c
        · have e0 : ¬ i - c < 64 := by omega
          have e1 : ¬ i - c < 128 := by omega
          have e1' : i - c < 192 := by omega
          have e2 : 64 - c + (i - 192) = i - c - 128 := by omega
          simp [hj, e0, e1, e1', e2, show i - 192 < 64 by omega]
        · have e0 : ¬ i - c < 64 := by omega
          have e1 : ¬ i - c < 128 := by omega
          have e2 : ¬ i - c < 192 := by omega
          have e3 : i - 192 - c = i - c - 192 := by omega
          have e4 : a.l2.getLsbD (64 - c + (i - 192)) = false := by
            apply BitVec.getLsbD_of_ge; omega
          simp [hj, e0, e1, e2, e3, e4, show i - 192 < 64 by omega]



local notation "SB" => (9223372036854775808#64 : BitVec 64)
local notation "MX" => (9223372036854775807#64 : BitVec 64)

theorem SB_eq : SB = (1#64) <<< 63 := by rfl
theorem SB_toNat : (SB).toNat = 9223372036854775808 := by rfl
theorem MX_toNat : (MX).toNat = 9223372036854775807 := by rfl

theorem SB_bit (i : Nat) (hi : i < 64) : (SB).getLsbD i = decide (i = 63) := by
  rw [SB_eq, getLsbD_one_shl 64 63 i (by omega) hi]

theorem xor_sb (a : BitVec 64) : a ^^^ SB = a + SB := by
  apply BitVec.eq_of_getLsbD_eq
  intro i hi
  have hc : ∀ k, k ≤ 63 → BitVec.carry k a SB false = false := by
    intro k hk
    induction k with
    | zero => exact BitVec.carry_zero
    | succ k ih =>
      rw [BitVec.carry_succ, ih (by omega), SB_bit k (by omega)]
      have : decide (k = 63) = false := by
        apply decide_eq_false; omega
      rw [this]
      cases a.getLsbD k <;> rfl
  rw [BitVec.getLsbD_xor, BitVec.getLsbD_add hi, hc i (by omega), Bool.xor_false]

theorem lane_gen (a b : BitVec 64) :
    BitVec.slt ((a ^^^ SB) + b) (a ^^^ SB) = decide (18446744073709551616 ≤ a.toNat + b.toNat) := by
  rw [xor_sb, BitVec.slt_eq_decide, BitVec.toInt_eq_toNat_cond, BitVec.toInt_eq_toNat_cond]
  rw [BitVec.toNat_add, BitVec.toNat_add, SB_toNat]
  have ha := a.isLt
  have hb := b.isLt
  by_cases h1 : 2 * (((a.toNat + 9223372036854775808) % 2 ^ 64 + b.toNat) % 2 ^ 64) < 2 ^ 64 <;>
  by_cases h2 : 2 * ((a.toNat + 9223372036854775808) % 2 ^ 64) < 2 ^ 64 <;>
  simp only [h1, h2, if_true, if_false] <;> (congr 1; apply propext; omega)

theorem lane_prop (a b : BitVec 64) :
    (((a ^^^ SB) + b) == MX) = decide ((a.toNat + b.toNat) % 18446744073709551616 = 18446744073709551615) := by
  rw [xor_sb]
  have ha := a.isLt
  have hb := b.isLt
  have h : (((a + SB) + b) = MX) ↔ ((a.toNat + b.toNat) % 18446744073709551616 = 18446744073709551615) := by
    rw [← BitVec.toNat_inj, BitVec.toNat_add, BitVec.toNat_add, SB_toNat, MX_toNat]
    omega
  by_cases hh : (a + SB) + b = MX
  · rw [decide_eq_true (h.1 hh)]
    exact beq_iff_eq.2 hh
  · rw [decide_eq_false (fun x => hh (h.2 x))]
    exact beq_eq_false_iff_ne.2 hh

theorem lane_res (a b : BitVec 64) (cin : Bool) :
    (((a ^^^ SB) + b) + (SB + (if cin then 1#64 else 0#64))).toNat
      = (a.toNat + b.toNat + (if cin then 1 else 0)) % 18446744073709551616 := by
  rw [xor_sb, BitVec.toNat_add, BitVec.toNat_add, BitVec.toNat_add, BitVec.toNat_add SB, SB_toNat]
  have ha := a.isLt
  have hb := b.isLt
  cases cin
  · rw [if_neg (by decide), if_neg (by decide)]
    have : (0#64).toNat = 0 := rfl
    rw [this]; omega
  · rw [if_pos rfl, if_pos rfl]
    have : (1#64).toNat = 1 := rfl
    rw [this]; omega



theorem carry4 : ∀ g0 g1 g2 g3 p0 p1 p2 p3 : Bool,
    (g0 && p0) = false → (g1 && p1) = false → (g2 && p2) = false → (g3 && p3) = false →
    let c : Nat := (if g0 then 1 else 0) + (if g1 then 2 else 0) + (if g2 then 4 else 0) + (if g3 then 8 else 0)
    let m : Nat := (if p0 then 1 else 0) + (if p1 then 2 else 0) + (if p2 then 4 else 0) + (if p3 then 8 else 0)
    let m' := (m ^^^ (0 + (m + 2 * c))) % 16
    m'.testBit 0 = false ∧ m'.testBit 1 = g0 ∧ m'.testBit 2 = (g1 || (p1 && g0)) ∧
      m'.testBit 3 = (g2 || (p2 && (g1 || (p1 && g0)))) := by
  decide

theorem carry_gp (a b c : Nat) (ha : a < 18446744073709551616) (hb : b < 18446744073709551616) (hc : c ≤ 1) :
    (18446744073709551616 ≤ a + b + c) ↔
      (18446744073709551616 ≤ a + b ∨ ((a + b) % 18446744073709551616 = 18446744073709551615 ∧ c = 1)) := by
  omega

theorem gp_excl (a b : Nat) (ha : a < 18446744073709551616) (hb : b < 18446744073709551616) :
    ¬ (18446744073709551616 ≤ a + b ∧ (a + b) % 18446744073709551616 = 18446744073709551615) := by
  omega

theorem sum4 (a0 a1 a2 a3 b0 b1 b2 b3 c1 c2 c3 : Nat)
    (ha0 : a0 < 18446744073709551616) (ha1 : a1 < 18446744073709551616) (ha2 : a2 < 18446744073709551616)
    (_ha3 : a3 < 18446744073709551616) (hb0 : b0 < 18446744073709551616) (hb1 : b1 < 18446744073709551616)
    (hb2 : b2 < 18446744073709551616) (_hb3 : b3 < 18446744073709551616)
    (h1 : c1 = if 18446744073709551616 ≤ a0 + b0 then 1 else 0)
    (h2 : c2 = if 18446744073709551616 ≤ a1 + b1 + c1 then 1 else 0)
    (h3 : c3 = if 18446744073709551616 ≤ a2 + b2 + c2 then 1 else 0) :
    ((a0 + 18446744073709551616 * a1 + 340282366920938463463374607431768211456 * a2
        + 6277101735386680763835789423207666416102355444464034512896 * a3)
      + (b0 + 18446744073709551616 * b1 + 340282366920938463463374607431768211456 * b2
        + 6277101735386680763835789423207666416102355444464034512896 * b3))
        % 115792089237316195423570985008687907853269984665640564039457584007913129639936
      = (a0 + b0) % 18446744073709551616 + 18446744073709551616 * ((a1 + b1 + c1) % 18446744073709551616)
        + 340282366920938463463374607431768211456 * ((a2 + b2 + c2) % 18446744073709551616)
        + 6277101735386680763835789423207666416102355444464034512896 * ((a3 + b3 + c3) % 18446744073709551616) := by
  split at h1 <;> split at h2 <;> split at h3 <;> omega

theorem toBV_toNat (a : V256) :
    a.toBV.toNat = a.l0.toNat + 18446744073709551616 * a.l1.toNat + 340282366920938463463374607431768211456 * a.l2.toNat
      + 6277101735386680763835789423207666416102355444464034512896 * a.l3.toNat := by
  have h0 := a.l0.isLt
  have h1 := a.l1.isLt
  have h2 := a.l2.isLt
  have h3 := a.l3.isLt
  unfold V256.toBV
  rw [BitVec.toNat_append, BitVec.toNat_append, BitVec.toNat_append]
  rw [← Nat.shiftLeft_add_eq_or_of_lt h0, ← Nat.shiftLeft_add_eq_or_of_lt h1, ← Nat.shiftLeft_add_eq_or_of_lt h2]
  simp only [Nat.shiftLeft_eq]
  omega


/-! ## `add256` -/

theorem msb_ite (c : Bool) : (if c = true then V256.ones64 else 0#64).msb = c := by
  cases c <;> rfl

theorem msb_ite' (c : Bool) : (if c = true then V256.ones64 else 0#64).msb = c := msb_ite c

/-- generate / propagate bits of lane sums -/
def genB (a b : BitVec 64) : Bool := decide (18446744073709551616 ≤ a.toNat + b.toNat)
def propB (a b : BitVec 64) : Bool := decide ((a.toNat + b.toNat) % 18446744073709551616 = 18446744073709551615)

theorem genB_propB (a b : BitVec 64) : (genB a b && propB a b) = false := by
  unfold genB propB
  have := gp_excl a.toNat b.toNat a.isLt b.isLt
  by_cases h1 : 18446744073709551616 ≤ a.toNat + b.toNat
  · have h2 : ¬ ((a.toNat + b.toNat) % 18446744073709551616 = 18446744073709551615) := fun h => this ⟨h1, h⟩
    rw [decide_eq_true h1, decide_eq_false h2]; rfl
  · rw [decide_eq_false h1]; rfl

/-- the 4-bit mask that selects the entry of `BROADCAST_MASK` -/
def addMask (A B : V256) : Nat :=
  let c : Nat := (if genB A.l0 B.l0 then 1 else 0) + (if genB A.l1 B.l1 then 2 else 0) +
    (if genB A.l2 B.l2 then 4 else 0) + (if genB A.l3 B.l3 then 8 else 0)
  let m : Nat := (if propB A.l0 B.l0 then 1 else 0) + (if propB A.l1 B.l1 then 2 else 0) +
    (if propB A.l2 B.l2 then 4 else 0) + (if propB A.l3 B.l3 then 8 else 0)
  (m ^^^ (0 + (m + 2 * c))) % 16

theorem add256_lanes (A B : V256) :
    add256 0 A B =
      ⟨((A.l0 ^^^ SB) + B.l0) + (SB + (if (addMask A B).testBit 0 then 1#64 else 0#64)),
       ((A.l1 ^^^ SB) + B.l1) + (SB + (if (addMask A B).testBit 1 then 1#64 else 0#64)),
       ((A.l2 ^^^ SB) + B.l2) + (SB + (if (addMask A B).testBit 2 then 1#64 else 0#64)),
       ((A.l3 ^^^ SB) + B.l3) + (SB + (if (addMask A B).testBit 3 then 1#64 else 0#64))⟩ := by
  have hc : V256.movemask (V256.cmpgt (V256.xor A (V256.set1 SB)) (V256.add64 (V256.xor A (V256.set1 SB)) B)) =
      (if genB A.l0 B.l0 then 1 else 0) + (if genB A.l1 B.l1 then 2 else 0) +
        (if genB A.l2 B.l2 then 4 else 0) + (if genB A.l3 B.l3 then 8 else 0) := by
    show (if (if BitVec.slt ((A.l0 ^^^ SB) + B.l0) (A.l0 ^^^ SB) = true then V256.ones64 else 0#64).msb = true then 1 else 0) +
        (if (if BitVec.slt ((A.l1 ^^^ SB) + B.l1) (A.l1 ^^^ SB) = true then V256.ones64 else 0#64).msb = true then 2 else 0) +
        (if (if BitVec.slt ((A.l2 ^^^ SB) + B.l2) (A.l2 ^^^ SB) = true then V256.ones64 else 0#64).msb = true then 4 else 0) +
        (if (if BitVec.slt ((A.l3 ^^^ SB) + B.l3) (A.l3 ^^^ SB) = true then V256.ones64 else 0#64).msb = true then 8 else 0) = _
    rw [msb_ite, msb_ite, msb_ite, msb_ite, lane_gen, lane_gen, lane_gen, lane_gen]
    rfl
  have hm : V256.movemask (V256.cmpeq (V256.add64 (V256.xor A (V256.set1 SB)) B) (V256.set1 MX)) =
      (if propB A.l0 B.l0 then 1 else 0) + (if propB A.l1 B.l1 then 2 else 0) +
        (if propB A.l2 B.l2 then 4 else 0) + (if propB A.l3 B.l3 then 8 else 0) := by
    show (if (if (((A.l0 ^^^ SB) + B.l0) == MX) = true then V256.ones64 else 0#64).msb = true then 1 else 0) +
        (if (if (((A.l1 ^^^ SB) + B.l1) == MX) = true then V256.ones64 else 0#64).msb = true then 2 else 0) +
        (if (if (((A.l2 ^^^ SB) + B.l2) == MX) = true then V256.ones64 else 0#64).msb = true then 4 else 0) +
        (if (if (((A.l3 ^^^ SB) + B.l3) == MX) = true then V256.ones64 else 0#64).msb = true then 8 else 0) = _
    rw [msb_ite, msb_ite, msb_ite, msb_ite, lane_prop, lane_prop, lane_prop, lane_prop]
    rfl
  unfold add256
  dsimp only
  rw [hc, hm]
  rfl

/-- `add256(0, A, B)` is the 256-bit sum -/
theorem toBV_add256 (A B : V256) : (add256 0 A B).toBV = A.toBV + B.toBV := by
  apply BitVec.eq_of_toNat_eq
  rw [BitVec.toNat_add, toBV_toNat, toBV_toNat, toBV_toNat, add256_lanes]
  dsimp only
  rw [lane_res, lane_res, lane_res, lane_res]
  obtain ⟨t0, t1, t2, t3⟩ := carry4 (genB A.l0 B.l0) (genB A.l1 B.l1) (genB A.l2 B.l2) (genB A.l3 B.l3)
    (propB A.l0 B.l0) (propB A.l1 B.l1) (propB A.l2 B.l2) (propB A.l3 B.l3)
    (genB_propB _ _) (genB_propB _ _) (genB_propB _ _) (genB_propB _ _)
  have e0 : (addMask A B).testBit 0 = false := t0
  have e1 : (addMask A B).testBit 1 = genB A.l0 B.l0 := t1
  have e2 : (addMask A B).testBit 2 = (genB A.l1 B.l1 || (propB A.l1 B.l1 && genB A.l0 B.l0)) := t2
  have e3 : (addMask A B).testBit 3 =
      (genB A.l2 B.l2 || (propB A.l2 B.l2 && (genB A.l1 B.l1 || (propB A.l1 B.l1 && genB A.l0 B.l0)))) := t3
  rw [e0, e1, e2, e3]
  have ha0 := A.l0.isLt
  have ha1 := A.l1.isLt
  have ha2 := A.l2.isLt
  have ha3 := A.l3.isLt
  have hb0 := B.l0.isLt
  have hb1 := B.l1.isLt
  have hb2 := B.l2.isLt
  have hb3 := B.l3.isLt
  -- the carries
  have c1 : (if genB A.l0 B.l0 = true then 1 else 0) =
      if 18446744073709551616 ≤ A.l0.toNat + B.l0.toNat then 1 else 0 := by
    unfold genB; by_cases h : 18446744073709551616 ≤ A.l0.toNat + B.l0.toNat <;> simp [h]
  have c2 : (if (genB A.l1 B.l1 || (propB A.l1 B.l1 && genB A.l0 B.l0)) = true then 1 else 0) =
      if 18446744073709551616 ≤ A.l1.toNat + B.l1.toNat + (if genB A.l0 B.l0 = true then 1 else 0) then 1 else 0 := by
    have := carry_gp A.l1.toNat B.l1.toNat (if genB A.l0 B.l0 = true then 1 else 0) ha1 hb1 (by split <;> omega)
    unfold genB propB at *
    by_cases h1 : 18446744073709551616 ≤ A.l1.toNat + B.l1.toNat <;>
    by_cases h2 : (A.l1.toNat + B.l1.toNat) % 18446744073709551616 = 18446744073709551615 <;>
    by_cases h3 : 18446744073709551616 ≤ A.l0.toNat + B.l0.toNat <;>
    simp [h1, h2, h3] at this ⊢ <;> omega
  have c3 : (if (genB A.l2 B.l2 || (propB A.l2 B.l2 && (genB A.l1 B.l1 || (propB A.l1 B.l1 && genB A.l0 B.l0)))) = true
      then 1 else 0) =
      if 18446744073709551616 ≤ A.l2.toNat + B.l2.toNat +
        (if (genB A.l1 B.l1 || (propB A.l1 B.l1 && genB A.l0 B.l0)) = true then 1 else 0) then 1 else 0 := by
    have := carry_gp A.l2.toNat B.l2.toNat
      (if (genB A.l1 B.l1 || (propB A.l1 B.l1 && genB A.l0 B.l0)) = true then 1 else 0) ha2 hb2 (by split <;> omega)
    generalize (genB A.l1 B.l1 || (propB A.l1 B.l1 && genB A.l0 B.l0)) = cc at this ⊢
    unfold genB propB at *
    by_cases h1 : 18446744073709551616 ≤ A.l2.toNat + B.l2.toNat <;>
    by_cases h2 : (A.l2.toNat + B.l2.toNat) % 18446744073709551616 = 18446744073709551615 <;>
    cases cc <;> simp [h1, h2] at this ⊢ <;> omega
  have := sum4 A.l0.toNat A.l1.toNat A.l2.toNat A.l3.toNat B.l0.toNat B.l1.toNat B.l2.toNat B.l3.toNat
    _ _ _ ha0 ha1 ha2 ha3 hb0 hb1 hb2 hb3 c1 c2 c3
  rw [if_neg (by decide : ¬ (false = true)), Nat.add_zero]
  exact this.symm


/-! ## the remaining pieces -/

theorem toBV_eq_zero (x : V256) : x.toBV = 0#256 ↔ (x.l0 = 0#64 ∧ x.l1 = 0#64 ∧ x.l2 = 0#64 ∧ x.l3 = 0#64) := by
  rw [← BitVec.toNat_inj, toBV_toNat, ← BitVec.toNat_inj, ← BitVec.toNat_inj, ← BitVec.toNat_inj, ← BitVec.toNat_inj]
  have h0 : (0#256).toNat = 0 := rfl
  have h1 : (0#64).toNat = 0 := rfl
  rw [h0, h1]
  omega

theorem beq_dec (x y : BitVec 64) : (x == y) = decide (x = y) := by
  rw [Bool.eq_iff_iff]; simp

theorem one_sub_ite (P : Prop) [Decidable P] :
    ((1 : Int) - (if decide P = true then 1 else 0)) = (if ¬ P then 1 else 0) := by
  by_cases h : P
  · rw [decide_eq_true h, if_pos rfl, if_neg (fun hn => hn h)]; rfl
  · rw [decide_eq_false h, if_neg (by decide), if_pos h]; rfl

theorem testz_eq (a b : V256) : V256.testz a b = decide (a.toBV &&& b.toBV = 0#256) := by
  rw [← toBV_and]
  have h := toBV_eq_zero (V256.and a b)
  have e : V256.testz a b = (decide ((V256.and a b).l0 = 0#64) && decide ((V256.and a b).l1 = 0#64) &&
      decide ((V256.and a b).l2 = 0#64) && decide ((V256.and a b).l3 = 0#64)) := by
    unfold V256.testz
    show ((a.l0 &&& b.l0 == 0#64) && (a.l1 &&& b.l1 == 0#64) && (a.l2 &&& b.l2 == 0#64) && (a.l3 &&& b.l3 == 0#64)) =
      (decide (a.l0 &&& b.l0 = 0#64) && decide (a.l1 &&& b.l1 = 0#64) && decide (a.l2 &&& b.l2 = 0#64) &&
        decide (a.l3 &&& b.l3 = 0#64))
    rw [beq_dec, beq_dec, beq_dec, beq_dec]
  rw [e]
  by_cases hz : (V256.and a b).toBV = 0#256
  · obtain ⟨z0, z1, z2, z3⟩ := h.1 hz
    rw [decide_eq_true hz, decide_eq_true z0, decide_eq_true z1, decide_eq_true z2, decide_eq_true z3]; rfl
  · rw [decide_eq_false hz]
    by_cases z0 : (V256.and a b).l0 = 0#64
    · by_cases z1 : (V256.and a b).l1 = 0#64
      · by_cases z2 : (V256.and a b).l2 = 0#64
        · have z3 : ¬ (V256.and a b).l3 = 0#64 := fun z3 => hz (h.2 ⟨z0, z1, z2, z3⟩)
          rw [decide_eq_false z3]; simp
        · rw [decide_eq_false z2]; simp
      · rw [decide_eq_false z1]; simp
    · rw [decide_eq_false z0]; simp

theorem toBV_bpm256B (p : List Nat) (m c : Nat) (hm : m ≤ 256) : (bpm256B p m c).toBV = bpmB 256 p m c := by
  apply BitVec.eq_of_getLsbD_eq
  intro k hk
  rw [toBV_bit, bpmB_bit 256 p m c k hm hk]
  show (if k < 64 then (bitsToBV 64 (fun i => decide (0 * 64 + i < m) && (p.getD (0 * 64 + i) 0 == c)) 64).getLsbD k
    else if k < 128 then (bitsToBV 64 (fun i => decide (1 * 64 + i < m) && (p.getD (1 * 64 + i) 0 == c)) 64).getLsbD (k - 64)
    else if k < 192 then (bitsToBV 64 (fun i => decide (2 * 64 + i < m) && (p.getD (2 * 64 + i) 0 == c)) 64).getLsbD (k - 128)
    else (bitsToBV 64 (fun i => decide (3 * 64 + i < m) && (p.getD (3 * 64 + i) 0 == c)) 64).getLsbD (k - 192)) = _
  by_cases h1 : k < 64
  · rw [if_pos h1, bitsToBV_bit 64 _ 64 k (Nat.le_refl _) h1]
    simp [h1]
  · rw [if_neg h1]
    by_cases h2 : k < 128
    · rw [if_pos h2, bitsToBV_bit 64 _ 64 (k - 64) (Nat.le_refl _) (by omega)]
      have : 1 * 64 + (k - 64) = k := by omega
      simp [this, show k - 64 < 64 by omega]
    · rw [if_neg h2]
      by_cases h3 : k < 192
      · rw [if_pos h3, bitsToBV_bit 64 _ 64 (k - 128) (Nat.le_refl _) (by omega)]
        have : 2 * 64 + (k - 128) = k := by omega
        simp [this, show k - 128 < 64 by omega]
      · rw [if_neg h3, bitsToBV_bit 64 _ 64 (k - 192) (Nat.le_refl _) (by omega)]
        have : 3 * 64 + (k - 192) = k := by omega
        simp [this, show k - 192 < 64 by omega]

theorem toBV_one : (⟨1#64, 0#64, 0#64, 0#64⟩ : V256).toBV = 1#256 := by
  apply BitVec.eq_of_toNat_eq
  rw [toBV_toNat]
  rfl

theorem toBV_bpm256Mask (m : Nat) (_hm : m ≤ 255) : (bpm256Mask m).toBV = maskW m := by
  unfold bpm256Mask maskW
  by_cases h0 : m = 0
  · rw [if_pos h0, if_pos h0, toBV_zero]
  · rw [if_neg h0, if_neg h0]
    dsimp only
    have hfold : ∀ q, ((List.range q).foldl (fun x _ => shl256 x 64) (⟨1#64, 0#64, 0#64, 0#64⟩ : V256)).toBV
        = (1#256) <<< (64 * q) := by
      intro q
      induction q with
      | zero => rw [List.range_zero, List.foldl_nil, toBV_one]; rfl
      | succ q ih =>
        rw [List.range_succ, List.foldl_append, List.foldl_cons, List.foldl_nil, toBV_shl256 _ 64 (Nat.le_refl _), ih,
          ← BitVec.shiftLeft_add]
        congr 1
    rw [toBV_shl256 _ _ (by omega), hfold, ← BitVec.shiftLeft_add]
    congr 1
    omega

/-- lane state and word state agree -/
def Rel (s : Bpm256St) (sw : BpmWSt) : Prop :=
  s.VP.toBV = sw.VP ∧ s.VN.toBV = sw.VN ∧ s.diff = sw.diff ∧ s.k = sw.k

theorem bpm256Step_rel (Bl : Nat → V256) (Bw : Nat → BitVec 256) (ml : V256) (mw : BitVec 256) (c : Nat)
    (hB : (Bl c).toBV = Bw c) (hmask : ml.toBV = mw) (s : Bpm256St) (sw : BpmWSt) (h : Rel s sw) :
    Rel (bpm256Step Bl ml s c) (bpm256WStep Bw mw sw c) := by
  obtain ⟨h1, h2, h3, h4⟩ := h
  unfold bpm256Step bpm256WStep bpmCore Rel
  dsimp only
  have hD0 : (V256.or (V256.xor (add256 0 s.VP (V256.and (V256.or (Bl c) s.VN) s.VP)) s.VP) (V256.or (Bl c) s.VN)).toBV
      = (sw.VP + ((Bw c ||| sw.VN) &&& sw.VP) ^^^ sw.VP) ||| (Bw c ||| sw.VN) := by
    rw [toBV_or, toBV_xor, toBV_add256, toBV_and, toBV_or, h1, h2, hB]
  have hHN : (V256.and s.VP (V256.or (V256.xor (add256 0 s.VP (V256.and (V256.or (Bl c) s.VN) s.VP)) s.VP)
      (V256.or (Bl c) s.VN))).toBV
      = sw.VP &&& ((sw.VP + ((Bw c ||| sw.VN) &&& sw.VP) ^^^ sw.VP) ||| (Bw c ||| sw.VN)) := by
    rw [toBV_and, hD0, h1]
  have hHP : (V256.or s.VN (V256.andnot (V256.or s.VP (V256.or (V256.xor (add256 0 s.VP
      (V256.and (V256.or (Bl c) s.VN) s.VP)) s.VP) (V256.or (Bl c) s.VN))) (V256.set1 V256.ones64))).toBV
      = sw.VN ||| ~~~(sw.VP ||| ((sw.VP + ((Bw c ||| sw.VN) &&& sw.VP) ^^^ sw.VP) ||| (Bw c ||| sw.VN))) := by
    rw [toBV_or, toBV_andnot_ones, toBV_or, hD0, h1, h2]
  refine ⟨?_, ?_, ?_, ?_⟩
  · rw [toBV_or, toBV_shl256 _ 1 (by omega), toBV_andnot_ones, toBV_or, toBV_shl256 _ 1 (by omega), hHN, hHP, hD0]
  · rw [toBV_and, toBV_shl256 _ 1 (by omega), hHP, hD0]
  · rw [testz_eq, testz_eq, hHP, hHN, hmask, h3, one_sub_ite, one_sub_ite]
  · rw [testz_eq, testz_eq, hHP, hHN, hmask, h3, h4, one_sub_ite, one_sub_ite]

theorem fold_rel (Bl : Nat → V256) (Bw : Nat → BitVec 256) (ml : V256) (mw : BitVec 256)
    (hB : ∀ c, c < 13 → (Bl c).toBV = Bw c) (hmask : ml.toBV = mw) (l : List Nat) (s : Bpm256St) (sw : BpmWSt)
    (hl : ∀ c ∈ l, c < 13) (h : Rel s sw) :
    Rel (l.foldl (bpm256Step Bl ml) s) (l.foldl (bpm256WStep Bw mw) sw) := by
  induction l generalizing s sw with
  | nil => exact h
  | cons c l ih =>
    rw [List.foldl_cons, List.foldl_cons]
    apply ih _ _ (fun c hc => hl c (List.mem_cons_of_mem _ hc))
    exact bpm256Step_rel Bl Bw ml mw c (hB c (hl c List.mem_cons_self)) hmask s sw h

/-- the lane-wise model of `bpm_256` equals the 256-bit word algorithm -/
theorem bpm256_eq_word (t p : List Nat) (ht : ∀ c ∈ t, c < 13) (hp : ∀ c ∈ p, c < 13) :
    bpm256 t p = some (bpm256W t p) := by
  generalize hm : min p.length 255 = m
  have hanyp : ((p.take m).any fun c => decide (SIGMA ≤ c)) = false := by
    rw [List.any_eq_false]
    intro c hc h
    have h' : SIGMA ≤ c := of_decide_eq_true h
    have := hp c (List.mem_of_mem_take hc)
    simp only [SIGMA] at h'; omega
  have hanyt : (t.any fun c => decide (SIGMA ≤ c)) = false := by
    rw [List.any_eq_false]
    intro c hc h
    have h' : SIGMA ≤ c := of_decide_eq_true h
    have := ht c hc
    simp only [SIGMA] at h'; omega
  unfold bpm256 bpm256W
  dsimp only
  rw [hm, hanyp, hanyt]
  simp only [Bool.or_self, Bool.false_eq_true, if_false, Option.some.injEq]
  congr 1
  have hB : ∀ c, c < 13 → ((((List.range SIGMA).map fun c => bpm256B p m c).toArray).getD c V256.zero).toBV
      = bpmB 256 p m c := by
    intro c hc
    have : (((List.range SIGMA).map fun c => bpm256B p m c).toArray).getD c V256.zero = bpm256B p m c := by
      simp [Array.getD, SIGMA, hc]
    rw [this, toBV_bpm256B p m c (by omega)]
  have := fold_rel (fun c => (((List.range SIGMA).map fun c => bpm256B p m c).toArray).getD c V256.zero)
    (fun c => bpmB 256 p m c) (bpm256Mask m) (maskW m) hB (toBV_bpm256Mask m (by omega)) t
    { VP := V256.set1 V256.ones64, VN := V256.zero, diff := (m : Int), k := (m : Int) }
    { VP := BitVec.allOnes 256, VN := 0#256, diff := (m : Int), k := (m : Int) } ht
    ⟨toBV_ones, toBV_zero, rfl, rfl⟩
  exact this.2.2.2

end Kalign
