import KalignModel.Model.PipelineSoft
import KalignModel.Lemmas.NoFaultRec
/-!
# `Lemmas/NoFaultRec.lean` over an arbitrary score carrier

The port of `NodeInv`, `Reach`, `MonHyp`, `mergeNodes_some`, `recAln_tree`, `recAln_tree_no_fuel`, … to the carrier-generic
pipeline of `Model/PipelineSoft.lean` (`NodeC`, `leafNodeC`, `mergeNodesC`, `recAlnC`).  Same statements, same proofs; the
carrier-independent helpers (`validColsB_complete`, `consA_le_length`, `LTree_Sub_trans`, `LTree_Sub_leaves_subset`) are those
of `Lemmas/NoFaultRec.lean`.

In addition: `MonHypInvC` (the monitor hypothesis only for operands satisfying `NodeInvC`), `MonHypC → MonHypInvC`, and
`recAlnC_tree'` (= `recAlnC_tree` under `MonHypInvC`).
-/
namespace Kalign.Pipeline
open Kalign Kalign.Kmeans Kalign.Sched

variable {α : Type} [Score α]

structure NodeInvC (N : NodeC α) : Prop where
  len : 1 ≤ N.len
  nsip : 1 ≤ N.nsip
  leaf : N.nsip = 1 → N.seq.size = N.len ∧ N.seq.all (· < 23) = true
  prof : N.nsip ≠ 1 → ∃ p, N.prof = some p ∧ p.size = 64 * (N.len + 2)

/-- the profile `do_align` prepares for node `N` when the other operand has `other` sequences -/
def nodeProfC (ap : AlnParam α) (N : NodeC α) (other : Nat) : Array α :=
  if N.nsip = 1 then makeProfile ap N.seq else setGapPenalties (N.prof.getD #[]) other

/-- the Hirschberg run of the merge of `A` and `B` -/
def mergeRunC (entry : Entry) (ap : AlnParam α) (A B : NodeC α) : Mem (Array (States α)) α :=
  orientRun entry ap A.nsip B.nsip A.len B.len A.seq B.seq (nodeProfC ap A B.nsip) (nodeProfC ap B A.nsip)

/-- nodes that can be operands of a merge -/
inductive ReachC (ap : AlnParam α) (codes : Array (List Nat)) : NodeC α → Prop
  | leaf (i : Nat) : i < codes.size → ReachC ap codes (leafNodeC codes i)
  | merge (A B N : NodeC α) : ReachC ap codes A → ReachC ap codes B → mergeNodesC .parallel ap A B false = .ok N →
      ReachC ap codes N

/-- **the hypothesis about score values**: every Hirschberg run the progressive alignment can start passes the run-time
monitor (the meetup contract of Props/C07 holds at every meetup) -/
def MonHypC (ap : AlnParam α) (codes : Array (List Nat)) : Prop :=
  ∀ A B : NodeC α, ReachC ap codes A → ReachC ap codes B → (mergeRunC .serial ap A B).mon = true

/-- `MonHypC` asked only for operands that satisfy the node invariant (weaker) -/
def MonHypInvC (ap : AlnParam α) (codes : Array (List Nat)) : Prop :=
  ∀ A B : NodeC α, ReachC ap codes A → ReachC ap codes B → NodeInvC A → NodeInvC B →
    (mergeRunC .serial ap A B).mon = true

theorem MonHypC.toInv {ap : AlnParam α} {codes : Array (List Nat)} (h : MonHypC ap codes) : MonHypInvC ap codes :=
  fun A B rA rB _ _ => h A B rA rB

def mergeStateC (A B : NodeC α) : AlnState α :=
  { seqs := #[A.seq, B.seq], profile := #[A.prof, B.prof, none], plen := #[A.len, B.len, 0],
    nsip := #[A.nsip, B.nsip, 0] }

theorem prep_leftC (ap : AlnParam α) (A B : NodeC α) (hA : NodeInvC A) :
    prepOperand ap (mergeStateC A B) 0 1 = some (A.len, nodeProfC ap A B.nsip) ∧
      (nodeProfC ap A B.nsip).size = 64 * (A.len + 2) := by
  unfold prepOperand nodeProfC mergeStateC
  by_cases h : A.nsip = 1
  · obtain ⟨h1, h2⟩ := hA.leaf h
    rw [← h1]
    simp [h, h2, size_makeProfile]
  · obtain ⟨p, hp, hs⟩ := hA.prof h
    simp [h, hp, hs, size_setGapPenalties]

theorem prep_rightC (ap : AlnParam α) (A B : NodeC α) (hB : NodeInvC B) :
    prepOperand ap (mergeStateC A B) 1 0 = some (B.len, nodeProfC ap B A.nsip) ∧
      (nodeProfC ap B A.nsip).size = 64 * (B.len + 2) := by
  unfold prepOperand nodeProfC mergeStateC
  by_cases h : B.nsip = 1
  · obtain ⟨h1, h2⟩ := hB.leaf h
    rw [← h1]
    simp [h, h2, size_makeProfile]
  · obtain ⟨p, hp, hs⟩ := hB.prof h
    simp [h, hp, hs, size_setGapPenalties]

/-- members of a node -/
def HasMembersC (N : NodeC α) (l : List Nat) : Prop := ∀ i ∈ l, ∃ m ∈ N.group, m.idx = i

/-- **a merge of two operands succeeds** (no `.fault`, no `.monitor`), given the monitor on its serial Hirschberg run -/
theorem mergeNodesC_some (ap : AlnParam α) (A B : NodeC α) (isLast : Bool) (hA : NodeInvC A) (hB : NodeInvC B)
    (hmon : (mergeRunC .serial ap A B).mon = true) :
    ∃ N, mergeNodesC .parallel ap A B isLast = .ok N ∧ (isLast = false → NodeInvC N) ∧
      (∀ l₁ l₂, HasMembersC A l₁ → HasMembersC B l₂ → HasMembersC N (l₁ ++ l₂)) := by
  obtain ⟨pA, sA⟩ := prep_leftC ap A B hA
  obtain ⟨pB, sB⟩ := prep_rightC ap A B hB
  obtain ⟨st', out, hd, hm, hV, hp1, hp2⟩ := doAlign_some ap (mergeStateC A B) 0 1 2 isLast A.len B.len _ _
    (by decide) (by simp [mergeStateC]) (by simp [mergeStateC]) (by simp [mergeStateC]) (by simp [mergeStateC])
    pA pB sA sB hA.len hB.len (by simpa [mergeRunC, mergeStateC] using hmon)
  unfold mergeNodesC
  simp only
  have hd' : doAlign .parallel ap
      { seqs := #[A.seq, B.seq], profile := #[A.prof, B.prof, none], plen := #[A.len, B.len, 0],
        nsip := #[A.nsip, B.nsip, 0] } 0 1 2 isLast = some (st', out) := hd
  rw [hd']
  simp only [hm, Bool.not_true, Bool.false_eq_true, if_false, validColsB_complete hV]
  refine ⟨_, rfl, ?_, ?_⟩
  · intro hl
    obtain ⟨p, hp, hs⟩ := hp1 hl
    have hlen : 1 ≤ out.codes.length := by
      have := consA_le_length (out.codes.map Col.ofCode)
      rw [hV.2.1, List.length_map] at this
      have := hA.len
      omega
    refine ⟨hlen, by simp only; have := hA.nsip; omega, ?_, ?_⟩
    · intro h; simp only at h; have := hA.nsip; have := hB.nsip; omega
    · intro _; exact ⟨p, hp, hs⟩
  · intro l₁ l₂ h1 h2 i hi
    simp only [mergeGroups, List.mem_append, List.mem_map, List.mem_reverse]
    rcases List.mem_append.1 hi with h | h
    · obtain ⟨m, hm1, hm2⟩ := h1 i h
      exact ⟨_, Or.inl ⟨m, hm1, rfl⟩, hm2⟩
    · obtain ⟨m, hm1, hm2⟩ := h2 i h
      exact ⟨_, Or.inr ⟨m, hm1, rfl⟩, hm2⟩

omit [Score α] in
theorem leafNodeC_inv (codes : Array (List Nat)) (i : Nat) (h1 : (codes.getD i []) ≠ [])
    (h2 : ∀ c ∈ codes.getD i [], c < 23) : NodeInvC (leafNodeC codes i : NodeC α) := by
  refine ⟨?_, by simp [leafNodeC], ?_, ?_⟩
  · simp only [leafNodeC]; exact List.length_pos_iff.2 h1
  · intro _
    refine ⟨by simp [leafNodeC], ?_⟩
    show (codes.getD i []).toArray.all _ = true
    rw [List.all_toArray, List.all_eq_true]
    intro c hc
    simpa using h2 c hc
  · intro h; simp [leafNodeC] at h

/-- the recursion of `recursive_aln` on the node numbered `x` (the closure `child` of `recAlnC`) -/
def childOfC (ap : AlnParam α) (tasks : Array (Nat × Nat × Nat)) (codes : Array (List Nat)) (n fuel x : Nat) :
    Except PipeErr (NodeC α) :=
  if x ≥ n then recAlnC ap tasks codes n fuel (x - n)
  else if x < codes.size then .ok (leafNodeC codes x) else .error .fault

theorem recAlnC_succ (ap : AlnParam α) (tasks : Array (Nat × Nat × Nat)) (codes : Array (List Nat)) (n fuel k : Nat)
    (a b c : Nat) (h : tasks[k]? = some (a, b, c)) :
    recAlnC ap tasks codes n (fuel + 1) k =
      match childOfC ap tasks codes n fuel a with
      | .error e => .error e
      | .ok A =>
        match childOfC ap tasks codes n fuel b with
        | .error e => .error e
        | .ok B => mergeNodesC .parallel ap A B (k + 1 == tasks.size) := by
  rw [recAlnC]
  simp only [h]
  rfl

/-- **`recursive_aln` over the sorted task table of a tree**: every node of the tree is completed — no missing task, no
missing operand, no fault in a merge, no monitor violation, recursion depth at most the number of tasks — given `MonHypC` -/
theorem recAlnC_tree' (ap : AlnParam α) (T : Tree) (codes : Array (List Nat))
    (hleaves : ∀ i ∈ T.leaves, i < codes.size)
    (hne : ∀ i, i < codes.size → codes.getD i [] ≠ [] ∧ ∀ c ∈ codes.getD i [], c < 23)
    (hmon : ∀ A B : NodeC α, ReachC ap codes A → ReachC ap codes B → NodeInvC A → NodeInvC B →
      (mergeRunC .serial ap A B).mon = true) :
    ∀ v : Sched.LTree, Sched.LTree.Sub v (label T codes.size) → ∀ fuel, Kmeans.LTree.nint v ≤ fuel →
      ∃ N, childOfC ap (Kmeans.sortTasks (treeTasks T codes.size)).toArray codes codes.size fuel v.id = .ok N ∧
        HasMembersC N v.leaves ∧ (v.id + 1 < codes.size + Kmeans.Tree.nint T → NodeInvC N ∧ ReachC ap codes N) := by
  intro v
  induction v with
  | leaf i =>
    intro hsub fuel _
    have hi : i < codes.size := by
      apply hleaves
      rw [← (labelFrom_spec T codes.size).2.1]
      exact LTree_Sub_leaves_subset hsub i (by simp [Sched.LTree.leaves])
    refine ⟨leafNodeC codes i, ?_, ?_, ?_⟩
    · show childOfC _ _ _ _ _ i = _
      unfold childOfC
      rw [if_neg (by omega), if_pos hi]
    · intro j hj
      simp only [Sched.LTree.leaves, List.mem_singleton] at hj
      subst hj
      simp [leafNodeC]
    · intro _
      exact ⟨leafNodeC_inv codes i (hne i hi).1 (hne i hi).2, ReachC.leaf i hi⟩
  | node c l r ihl ihr =>
    intro hsub fuel hfuel
    obtain ⟨hc1, hc2, hget⟩ := sortedTasks_get T codes.size hsub
    have hsl : Sched.LTree.Sub l (label T codes.size) := LTree_Sub_trans (.left (.refl l)) hsub
    have hsr : Sched.LTree.Sub r (label T codes.size) := LTree_Sub_trans (.right (.refl r)) hsub
    simp only [Kmeans.LTree.nint] at hfuel
    obtain ⟨f, rfl⟩ : ∃ f, fuel = f + 1 := ⟨fuel - 1, by omega⟩
    obtain ⟨A, hA, mA, iA⟩ := ihl hsl f (by omega)
    obtain ⟨B, hB, mB, iB⟩ := ihr hsr f (by omega)
    -- children carry smaller numbers than `c ≤ n + nint - 1`
    have hlt := labelFrom_child_lt T codes.size c l r hsub
    have hidl : l.id + 1 < codes.size + Kmeans.Tree.nint T := by
      cases l with
      | leaf i =>
        have : i < codes.size := by
          apply hleaves
          rw [← (labelFrom_spec T codes.size).2.1]
          exact LTree_Sub_leaves_subset hsl i (by simp [Sched.LTree.leaves])
        simp only [Sched.LTree.id]; omega
      | node c' l' r' =>
        have := hlt c' (List.mem_append.2 (Or.inl (Kmeans.LTree.id_mem_iids c' l' r')))
        simp only [Sched.LTree.id]; omega
    have hidr : r.id + 1 < codes.size + Kmeans.Tree.nint T := by
      cases r with
      | leaf i =>
        have : i < codes.size := by
          apply hleaves
          rw [← (labelFrom_spec T codes.size).2.1]
          exact LTree_Sub_leaves_subset hsr i (by simp [Sched.LTree.leaves])
        simp only [Sched.LTree.id]; omega
      | node c' l' r' =>
        have := hlt c' (List.mem_append.2 (Or.inr (Kmeans.LTree.id_mem_iids c' l' r')))
        simp only [Sched.LTree.id]; omega
    obtain ⟨invA, rA⟩ := iA hidl
    obtain ⟨invB, rB⟩ := iB hidr
    have hsize : (Kmeans.sortTasks (treeTasks T codes.size)).toArray.size = Kmeans.Tree.nint T := by
      simp [length_sortTasks]
    have hget' : (Kmeans.sortTasks (treeTasks T codes.size)).toArray[c - codes.size]? = some (l.id, r.id, c) := by
      simpa using hget
    obtain ⟨N, hN, hNinv, hNmem⟩ := mergeNodesC_some ap A B
      (c - codes.size + 1 == (Kmeans.sortTasks (treeTasks T codes.size)).toArray.size) invA invB (hmon A B rA rB invA invB)
    refine ⟨N, ?_, hNmem _ _ mA mB, ?_⟩
    · show childOfC _ _ _ _ _ c = _
      unfold childOfC
      rw [if_pos hc1, recAlnC_succ ap _ codes codes.size f (c - codes.size) l.id r.id c hget']
      rw [hA, hB]
      exact hN
    · intro hlt
      simp only [Sched.LTree.id] at hlt
      have hlast : (c - codes.size + 1 == (Kmeans.sortTasks (treeTasks T codes.size)).toArray.size) = false := by
        rw [hsize]; simp; omega
      rw [hlast] at hN
      exact ⟨hNinv hlast, ReachC.merge A B N rA rB hN⟩

/-- the exact analogue of `recAln_tree` (hypothesis `MonHypC`) -/
theorem recAlnC_tree (ap : AlnParam α) (T : Tree) (codes : Array (List Nat))
    (hleaves : ∀ i ∈ T.leaves, i < codes.size)
    (hne : ∀ i, i < codes.size → codes.getD i [] ≠ [] ∧ ∀ c ∈ codes.getD i [], c < 23)
    (hmon : MonHypC ap codes) :
    ∀ v : Sched.LTree, Sched.LTree.Sub v (label T codes.size) → ∀ fuel, Kmeans.LTree.nint v ≤ fuel →
      ∃ N, childOfC ap (Kmeans.sortTasks (treeTasks T codes.size)).toArray codes codes.size fuel v.id = .ok N ∧
        HasMembersC N v.leaves ∧ (v.id + 1 < codes.size + Kmeans.Tree.nint T → NodeInvC N ∧ ReachC ap codes N) :=
  recAlnC_tree' ap T codes hleaves hne hmon.toInv

theorem mergeNodesC_ne_fuel (ap : AlnParam α) (A B : NodeC α) (isLast : Bool) :
    mergeNodesC .parallel ap A B isLast ≠ .error .fuel := by
  unfold mergeNodesC
  simp only
  split
  · simp
  · split
    · simp
    · split <;> simp

/-- **`recursive_aln` never needs more recursion depth than there are tasks** — no hypothesis on score values: whatever the
merges return, the recursion over the sorted task table of a tree finds every task and ends within `nint` levels -/
theorem recAlnC_tree_no_fuel (ap : AlnParam α) (T : Tree) (codes : Array (List Nat))
    (hleaves : ∀ i ∈ T.leaves, i < codes.size) :
    ∀ v : Sched.LTree, Sched.LTree.Sub v (label T codes.size) → ∀ fuel, Kmeans.LTree.nint v ≤ fuel →
      childOfC ap (Kmeans.sortTasks (treeTasks T codes.size)).toArray codes codes.size fuel v.id ≠ .error .fuel := by
  intro v
  induction v with
  | leaf i =>
    intro hsub fuel _
    have hi : i < codes.size := by
      apply hleaves
      rw [← (labelFrom_spec T codes.size).2.1]
      exact LTree_Sub_leaves_subset hsub i (by simp [Sched.LTree.leaves])
    show childOfC _ _ _ _ _ i ≠ _
    unfold childOfC
    rw [if_neg (by omega), if_pos hi]
    simp
  | node c l r ihl ihr =>
    intro hsub fuel hfuel
    obtain ⟨hc1, hc2, hget⟩ := sortedTasks_get T codes.size hsub
    have hsl : Sched.LTree.Sub l (label T codes.size) := LTree_Sub_trans (.left (.refl l)) hsub
    have hsr : Sched.LTree.Sub r (label T codes.size) := LTree_Sub_trans (.right (.refl r)) hsub
    simp only [Kmeans.LTree.nint] at hfuel
    obtain ⟨f, rfl⟩ : ∃ f, fuel = f + 1 := ⟨fuel - 1, by omega⟩
    have hA := ihl hsl f (by omega)
    have hB := ihr hsr f (by omega)
    have hget' : (Kmeans.sortTasks (treeTasks T codes.size)).toArray[c - codes.size]? = some (l.id, r.id, c) := by
      simpa using hget
    show childOfC _ _ _ _ _ c ≠ _
    unfold childOfC
    rw [if_pos hc1, recAlnC_succ ap _ codes codes.size f (c - codes.size) l.id r.id c hget']
    cases hAe : childOfC ap (Kmeans.sortTasks (treeTasks T codes.size)).toArray codes codes.size f l.id with
    | error e =>
      simp only
      intro h
      simp only [Except.error.injEq] at h
      exact hA (by rw [hAe, h])
    | ok A =>
      simp only
      cases hBe : childOfC ap (Kmeans.sortTasks (treeTasks T codes.size)).toArray codes codes.size f r.id with
      | error e =>
        simp only
        intro h
        simp only [Except.error.injEq] at h
        exact hB (by rw [hBe, h])
      | ok B =>
        simp only
        exact mergeNodesC_ne_fuel ap A B _


end Kalign.Pipeline
