import KalignModel.Model.Kernel
/-!
# The loop skeleton of the DP kernels as a table (any score carrier)

`runKernel gaInit n start rows` is a left fold of `rowStep` over the first row `initRow`.  Here the cells are
described by a function `genTab … p k` (row `p`, cell `k`) given by the obvious recurrences, and the list the
kernel returns is shown to be `[genTab m 0, …, genTab m n]` (`runKernel_eq_genTab`).  Nothing here depends on the
cell formulas, so it serves all nine kernels.
-/
namespace Kalign
section
variable {α : Type} [Score α]

/-- first row: the start state, a gap chain in cells `1..n-1`, all −∞ in cell `n` -/
def genRow0 (gaInit : Nat → α → α → α) (n : Nat) (start : States α) : Nat → States α
  | 0 => start
  | k + 1 =>
    if k + 1 < n then
      ⟨Score.negInf, gaInit (k + 1) (genRow0 gaInit n start k).ga (genRow0 gaInit n start k).a, Score.negInf⟩
    else States.negInf

/-- a later row from the previous one -/
def genRow (ops : RowOps α) (n : Nat) (prev : Nat → States α) : Nat → States α
  | 0 => ⟨Score.negInf, Score.negInf, ops.gbFirst (prev 0).gb (prev 0).a⟩
  | k + 1 =>
    ⟨ops.aCell (k + 1) (prev k).a (prev k).ga (prev k).gb,
     if k + 1 < n then ops.gaCell (k + 1) (genRow ops n prev k).ga (genRow ops n prev k).a else Score.negInf,
     if k + 1 < n then ops.gbMid (prev (k + 1)).gb (prev (k + 1)).a
     else ops.gbLast (prev (k + 1)).gb (prev (k + 1)).a⟩

/-- row `p`, cell `k` of the kernel whose `i`-th row uses the cell formulas `opsAt i` -/
def genTab (gaInit : Nat → α → α → α) (n : Nat) (start : States α) (opsAt : Nat → RowOps α) :
    Nat → Nat → States α
  | 0 => genRow0 gaInit n start
  | p + 1 => genRow (opsAt p) n (genTab gaInit n start opsAt p)

theorem initRowGo_spec (gaInit : Nat → α → α → α) (n : Nat) (start : States α) :
    ∀ d j, 1 ≤ j → j + d = n →
      initRowGo gaInit (d + 1) j (genRow0 gaInit n start (j - 1)) =
        (List.range' j (d + 1)).map (genRow0 gaInit n start) := by
  intro d
  induction d with
  | zero =>
    intro j hj hn
    obtain ⟨k, rfl⟩ : ∃ k, j = k + 1 := ⟨j - 1, by omega⟩
    simp only [Nat.zero_add, initRowGo, List.range'_one, List.map_cons, List.map_nil, genRow0]
    rw [if_neg (by omega)]
  | succ d ih =>
    intro j hj hn
    obtain ⟨k, rfl⟩ : ∃ k, j = k + 1 := ⟨j - 1, by omega⟩
    have h1 : genRow0 gaInit n start (k + 1) =
        ⟨Score.negInf, gaInit (k + 1) (genRow0 gaInit n start k).ga (genRow0 gaInit n start k).a, Score.negInf⟩ := by
      simp only [genRow0]; rw [if_pos (by omega)]
    rw [List.range'_succ, List.map_cons]
    simp only [initRowGo, Nat.add_sub_cancel]
    rw [← h1]
    have := ih (k + 1 + 1) (by omega) (by omega)
    simp only [Nat.add_sub_cancel] at this
    rw [this]

theorem initRow_spec (gaInit : Nat → α → α → α) (n : Nat) (hn : 1 ≤ n) (start : States α) :
    initRow gaInit n start = (List.range (n + 1)).map (genRow0 gaInit n start) := by
  obtain ⟨d, rfl⟩ : ∃ d, n = d + 1 := ⟨n - 1, by omega⟩
  have := initRowGo_spec gaInit (d + 1) start d 1 (by omega) (by omega)
  simp only [Nat.sub_self] at this
  rw [initRow, List.range_eq_range', List.range'_succ, List.map_cons]
  congr 1

theorem rowGo_cons2 (ops : RowOps α) (k : Nat) (pa pga pgb xa xga : α) (c c' : States α) (rest : List (States α)) :
    rowGo ops k pa pga pgb xa xga (c :: c' :: rest) =
      ⟨ops.aCell k pa pga pgb, ops.gaCell k xga xa, ops.gbMid c.gb c.a⟩ ::
        rowGo ops (k + 1) c.a c.ga c.gb (ops.aCell k pa pga pgb) (ops.gaCell k xga xa) (c' :: rest) := by
  simp [rowGo]

theorem rowGo_spec (ops : RowOps α) (n : Nat) (prev : Nat → States α) :
    ∀ d j, 1 ≤ j → j + d = n →
      rowGo ops j (prev (j - 1)).a (prev (j - 1)).ga (prev (j - 1)).gb
          (genRow ops n prev (j - 1)).a (genRow ops n prev (j - 1)).ga ((List.range' j (d + 1)).map prev) =
        (List.range' j (d + 1)).map (genRow ops n prev) := by
  intro d
  induction d with
  | zero =>
    intro j hj hn
    obtain ⟨k, rfl⟩ : ∃ k, j = k + 1 := ⟨j - 1, by omega⟩
    simp only [Nat.zero_add, List.range'_one, List.map_cons, List.map_nil, rowGo, Nat.add_sub_cancel, genRow]
    rw [if_neg (by omega), if_neg (by omega)]
  | succ d ih =>
    intro j hj hn
    obtain ⟨k, rfl⟩ : ∃ k, j = k + 1 := ⟨j - 1, by omega⟩
    rw [List.range'_succ, List.map_cons, List.range'_succ, List.map_cons, rowGo_cons2]
    simp only [Nat.add_sub_cancel]
    have h1 : genRow ops n prev (k + 1) =
        ⟨ops.aCell (k + 1) (prev k).a (prev k).ga (prev k).gb,
         ops.gaCell (k + 1) (genRow ops n prev k).ga (genRow ops n prev k).a,
         ops.gbMid (prev (k + 1)).gb (prev (k + 1)).a⟩ := by
      simp only [genRow]; rw [if_pos (by omega), if_pos (by omega)]
    have := ih (k + 1 + 1) (by omega) (by omega)
    simp only [Nat.add_sub_cancel] at this
    rw [List.range'_succ, List.map_cons, h1] at this
    rw [List.map_cons, h1]
    congr 1

theorem rowStep_spec (ops : RowOps α) (n : Nat) (hn : 1 ≤ n) (prev : Nat → States α) :
    rowStep ops ((List.range (n + 1)).map prev) = (List.range (n + 1)).map (genRow ops n prev) := by
  obtain ⟨d, rfl⟩ : ∃ d, n = d + 1 := ⟨n - 1, by omega⟩
  rw [List.range_eq_range', List.range'_succ, List.map_cons, List.map_cons, rowStep]
  have := rowGo_spec ops (d + 1) prev d 1 (by omega) (by omega)
  simp only [Nat.sub_self] at this
  congr 1

/-- **the kernel skeleton computes the table** -/
theorem runKernel_eq_genTab (gaInit : Nat → α → α → α) (n : Nat) (hn : 1 ≤ n) (start : States α)
    (opsAt : Nat → RowOps α) (m : Nat) :
    runKernel gaInit n start ((List.range m).map opsAt) =
      (List.range (n + 1)).map (genTab gaInit n start opsAt m) := by
  unfold runKernel
  induction m with
  | zero => simpa [genTab] using initRow_spec gaInit n hn start
  | succ m ih =>
    rw [List.range_succ, List.map_append, List.foldl_append, ih]
    simp only [List.map_cons, List.map_nil, List.foldl_cons, List.foldl_nil]
    rw [rowStep_spec _ n hn]
    rfl

end
end Kalign

namespace Kalign
section
variable {α : Type} [Score α]

/-- two sets of cell formulas agree wherever the skeleton evaluates them (`aCell` only for `k ≥ 1`) -/
structure RowOps.Agree (o o' : RowOps α) : Prop where
  gbFirst : o.gbFirst = o'.gbFirst
  aCell : ∀ k, o.aCell (k + 1) = o'.aCell (k + 1)
  gaCell : o.gaCell = o'.gaCell
  gbMid : o.gbMid = o'.gbMid
  gbLast : o.gbLast = o'.gbLast

theorem genRow_congr (o o' : RowOps α) (h : o.Agree o') (n : Nat) (prev : Nat → States α) (k : Nat) :
    genRow o n prev k = genRow o' n prev k := by
  induction k with
  | zero => simp [genRow, h.gbFirst]
  | succ k ih => simp [genRow, h.aCell k, h.gaCell, h.gbMid, h.gbLast, ih]

theorem genTab_congr (gaInit : Nat → α → α → α) (n : Nat) (start : States α) (opsAt opsAt' : Nat → RowOps α)
    (h : ∀ p, (opsAt p).Agree (opsAt' p)) (p : Nat) :
    genTab gaInit n start opsAt p = genTab gaInit n start opsAt' p := by
  induction p with
  | zero => rfl
  | succ p ih =>
    funext k
    simp only [genTab]
    rw [ih]
    exact genRow_congr _ _ (h p) n _ k

end
end Kalign
