import KalignModel.Lemmas.KernelSpec
/-!
# S1 for `ssForward` / `ssBackward`: both are the abstract kernel
-/
namespace Kalign

/-- the parameters are finite: penalties `gpo gpe tgpe`, matrix `s` (all in units of 1/2000) -/
structure ApOK (ap : AlnParam ExactScore) (gpo gpe tgpe : Int) (s : Nat → Nat → Int) : Prop where
  gpo : ap.gpo = some gpo
  gpe : ap.gpe = some gpe
  tgpe : ap.tgpe = some tgpe
  sub : ∀ i j, ap.sub i j = some (s i j)

/-- configuration of the forward kernel on rectangle `r` -/
def cfgF (gpo gpe tgpe : Int) (s : Nat → Nat → Int) (seq1 seq2 : Array Nat) (r : Rect) : KCfg :=
  { n := r.endb - r.startb, tF := r.startb == 0, tL := r.endb == r.lenB, gpo := gpo, gpe := gpe, tgpe := tgpe
    sc := fun p k => s (seq1.getD (r.starta + p) 0) (seq2.getD (r.startb + k) 0) }

/-- configuration of the backward kernel on rectangle `r` (rows and cells counted from the far corner) -/
def cfgB (gpo gpe tgpe : Int) (s : Nat → Nat → Int) (seq1 seq2 : Array Nat) (r : Rect) : KCfg :=
  { n := r.endb - r.startb, tF := r.endb == r.lenB, tL := r.startb == 0, gpo := gpo, gpe := gpe, tgpe := tgpe
    sc := fun p k => s (seq1.getD (r.enda - 1 - p) 0) (seq2.getD (r.endb - 1 - k) 0) }

theorem ssGb_eq (ap : AlnParam ExactScore) (gpo gpe tgpe : Int) (s : Nat → Nat → Int) (h : ApOK ap gpo gpe tgpe s)
    (t : Bool) : ssGb ap t = gGap t gpo gpe tgpe := by
  funext gb ca
  unfold ssGb gGap
  rw [h.gpo, h.gpe, h.tgpe]
  simp only [ex_sub_some, ex_smax]

theorem ssGaInit_eq (ap : AlnParam ExactScore) (gpo gpe tgpe : Int) (s : Nat → Nat → Int) (h : ApOK ap gpo gpe tgpe s)
    (t : Bool) : ssGaInit ap t = fun _ pga pa => gGap t gpo gpe tgpe pga pa := by
  funext _ pga pa
  unfold ssGaInit gGap
  rw [h.gpo, h.gpe, h.tgpe]
  simp only [ex_sub_some, ex_smax]

theorem ssAl_eq (ap : AlnParam ExactScore) (gpo gpe tgpe : Int) (s : Nat → Nat → Int) (h : ApOK ap gpo gpe tgpe s)
    (x y : Nat) (pa pga pgb : ExactScore) :
    Score.add (smax3 pa (Score.sub pga ap.gpo) (Score.sub pgb ap.gpo)) (ap.sub x y) =
      gAl gpo (s x y) pa pga pgb := by
  unfold gAl
  rw [h.gpo, h.sub]
  simp only [ex_sub_some, ex_smax3, ex_add_some]

theorem range'_reverse_eq (s m : Nat) :
    (List.range' s m).reverse = (List.range m).map fun p => s + m - 1 - p := by
  apply List.ext_getElem
  · simp
  · intro i h1 h2
    simp only [List.length_reverse, List.length_range'] at h1
    simp only [List.getElem_reverse, List.getElem_range', List.length_range', List.getElem_map, List.getElem_range]
    omega

/-- **`ssForward` is the abstract kernel on `cfgF`** -/
theorem ssForward_eq_absTab (ap : AlnParam ExactScore) (gpo gpe tgpe : Int) (s : Nat → Nat → Int)
    (h : ApOK ap gpo gpe tgpe s) (seq1 seq2 : Array Nat) (r : Rect) (hb : r.startb < r.endb)
    (start : States ExactScore) :
    ssForward ap seq1 seq2 r start =
      (List.range (r.endb - r.startb + 1)).map
        (absTab (cfgF gpo gpe tgpe s seq1 seq2 r) start (r.enda - r.starta)) := by
  have hn : 1 ≤ (cfgF gpo gpe tgpe s seq1 seq2 r).n := by simp only [cfgF]; omega
  unfold ssForward absTab
  simp only
  rw [List.range'_eq_map_range, List.map_map, ssGaInit_eq ap gpo gpe tgpe s h]
  rw [runKernel_eq_genTab _ (r.endb - r.startb) (by omega)]
  show _ = List.map (genTab (absGaInit _) _ start (absOps _) _) _
  rw [genTab_congr (opsAt' := absOps (cfgF gpo gpe tgpe s seq1 seq2 r))]
  · rfl
  · intro p
    refine ⟨?_, ?_, ?_, ?_, ?_⟩
    · exact ssGb_eq ap gpo gpe tgpe s h _
    · intro k
      funext pa pga pgb
      simp only [Function.comp, absOps, cfgF, Nat.add_sub_cancel]
      exact ssAl_eq ap gpo gpe tgpe s h _ _ pa pga pgb
    · funext _ xga xa
      simp only [Function.comp, absOps, cfgF, gGap, h.gpo, h.gpe, ex_sub_some, ex_smax]
      rfl
    · exact ssGb_eq ap gpo gpe tgpe s h false
    · exact ssGb_eq ap gpo gpe tgpe s h _

/-- **`ssBackward` is the abstract kernel on `cfgB`, cells listed from the far end** -/
theorem ssBackward_eq_absTab (ap : AlnParam ExactScore) (gpo gpe tgpe : Int) (s : Nat → Nat → Int)
    (h : ApOK ap gpo gpe tgpe s) (seq1 seq2 : Array Nat) (r : Rect) (hb : r.startb < r.endb)
    (ha : r.starta ≤ r.enda) (start : States ExactScore) :
    ssBackward ap seq1 seq2 r start =
      ((List.range (r.endb - r.startb + 1)).map
        (absTab (cfgB gpo gpe tgpe s seq1 seq2 r) start (r.enda - r.starta))).reverse := by
  have hn : 1 ≤ (cfgB gpo gpe tgpe s seq1 seq2 r).n := by simp only [cfgB]; omega
  unfold ssBackward absTab
  simp only
  rw [range'_reverse_eq, List.map_map, ssGaInit_eq ap gpo gpe tgpe s h]
  rw [runKernel_eq_genTab _ (r.endb - r.startb) (by omega)]
  show List.reverse _ = List.reverse (List.map (genTab (absGaInit _) _ start (absOps _) _) _)
  rw [genTab_congr (opsAt' := absOps (cfgB gpo gpe tgpe s seq1 seq2 r))]
  · rfl
  · intro p
    refine ⟨?_, ?_, ?_, ?_, ?_⟩
    · exact ssGb_eq ap gpo gpe tgpe s h _
    · intro k
      funext pa pga pgb
      simp only [Function.comp, absOps, cfgB, Nat.add_sub_cancel]
      have e1 : r.starta + (r.enda - r.starta) - 1 - p = r.enda - 1 - p := by omega
      have e2 : r.endb - (k + 1) = r.endb - 1 - k := by omega
      rw [e1, e2]
      exact ssAl_eq ap gpo gpe tgpe s h _ _ pa pga pgb
    · funext _ xga xa
      simp only [Function.comp, absOps, cfgB, gGap, h.gpo, h.gpe, ex_sub_some, ex_smax]
      rfl
    · exact ssGb_eq ap gpo gpe tgpe s h false
    · exact ssGb_eq ap gpo gpe tgpe s h _

end Kalign
