import KalignModel.Model.SoftFloat
/-!
# Lemmas about the software binary32 (`SoftF32`): decoding, the value grid `magVal`, round-to-nearest-even
-/
set_option exponentiation.threshold 512
namespace Kalign.SoftF32

/-! ## bit patterns -/

theorem raw_lt (x : SoftF32) : x.raw < 4294967296 := x.bits.isLt

@[simp] theorem raw_ofRaw (n : Nat) : (ofRaw n).raw = n % 4294967296 := by
  simp [raw, ofRaw, BitVec.toNat_ofNat]

theorem ext_raw {x y : SoftF32} (h : x.raw = y.raw) : x = y := by
  cases x; cases y
  simp only [raw] at h
  congr
  exact BitVec.eq_of_toNat_eq h

theorem ofRaw_raw (x : SoftF32) : ofRaw x.raw = x := by
  apply ext_raw
  rw [raw_ofRaw]
  exact Nat.mod_eq_of_lt (raw_lt x)

theorem mag_lt (x : SoftF32) : x.mag < 2147483648 := by
  unfold mag; omega

theorem raw_eq (x : SoftF32) : x.raw = (if x.sign then 2147483648 else 0) + x.mag := by
  have := raw_lt x
  unfold sign mag
  by_cases h : 2147483648 ≤ x.raw
  · simp only [h, decide_true, if_true]; omega
  · simp only [h, decide_false]; simp; omega

theorem sign_pack (s : Bool) (g : Nat) (h : g < 2147483648) : (pack s g).sign = s := by
  unfold pack sign
  rw [raw_ofRaw]
  cases s
  · simp; omega
  · simp; omega

theorem mag_pack (s : Bool) (g : Nat) (h : g < 2147483648) : (pack s g).mag = g := by
  unfold pack mag
  rw [raw_ofRaw]
  cases s
  · simp; omega
  · simp; omega

theorem pack_sign_mag (x : SoftF32) : pack x.sign x.mag = x := by
  apply ext_raw
  have h1 := raw_eq x
  have h2 := raw_lt x
  unfold pack
  rw [raw_ofRaw]
  cases hs : x.sign
  · rw [hs] at h1; simp at h1 ⊢; omega
  · rw [hs] at h1; simp at h1 ⊢; omega

theorem eq_of_sign_mag {x y : SoftF32} (hs : x.sign = y.sign) (hm : x.mag = y.mag) : x = y := by
  rw [← pack_sign_mag x, ← pack_sign_mag y, hs, hm]

/-! ## the value grid -/

/-- the pattern `E·2²³ + q` with `q ∈ [2²³, 2²⁴]` (or `E = 0`) has the value `q · 2^E` -/
theorem magVal_enc (E q : Nat) (h : E = 0 ∨ 8388608 ≤ q) (hq : q ≤ 16777216) :
    magVal (E * 8388608 + q) = q * 2 ^ E := by
  unfold magVal magSig magExp
  by_cases h24 : q = 16777216
  · subst h24
    have e1 : (E * 8388608 + 16777216) / 8388608 - 1 = E + 1 := by omega
    have e2 : (E * 8388608 + 16777216) % 8388608 = 0 := by omega
    have e3 : ¬ (E * 8388608 + 16777216 < 8388608) := by omega
    rw [if_neg e3, e1, e2, Nat.pow_succ]
    omega
  · by_cases hlo : q < 8388608
    · have hE : E = 0 := by omega
      subst hE
      have e1 : (0 * 8388608 + q) / 8388608 - 1 = 0 := by omega
      have e3 : 0 * 8388608 + q < 8388608 := by omega
      rw [if_pos e3, e1]
      omega
    · have e1 : (E * 8388608 + q) / 8388608 - 1 = E := by omega
      have e2 : (E * 8388608 + q) % 8388608 = q - 8388608 := by omega
      have e3 : ¬ (E * 8388608 + q < 8388608) := by omega
      rw [if_neg e3, e1, e2]
      have e4 : 8388608 + (q - 8388608) = q := by omega
      rw [e4]

/-- decomposition of a pattern -/
theorem pattern_decomp (g : Nat) : ∃ E q, g = E * 8388608 + q ∧ (E = 0 ∨ 8388608 ≤ q) ∧ q < 16777216 := by
  by_cases h : g < 8388608
  · exact ⟨0, g, by omega, Or.inl rfl, by omega⟩
  · exact ⟨g / 8388608 - 1, 8388608 + g % 8388608, by omega, Or.inr (by omega), by omega⟩

theorem magVal_succ_lt (g : Nat) : magVal g < magVal (g + 1) := by
  obtain ⟨E, q, rfl, h1, h2⟩ := pattern_decomp g
  rw [magVal_enc E q h1 (by omega)]
  have : E * 8388608 + q + 1 = E * 8388608 + (q + 1) := by omega
  rw [this, magVal_enc E (q + 1) (by omega) (by omega)]
  have : 0 < 2 ^ E := Nat.pow_pos (by decide)
  rw [Nat.add_mul]
  omega

theorem magVal_strictMono {g g' : Nat} (h : g < g') : magVal g < magVal g' := by
  induction g' with
  | zero => omega
  | succ n ih =>
    by_cases hn : g = n
    · subst hn; exact magVal_succ_lt g
    · exact Nat.lt_trans (ih (by omega)) (magVal_succ_lt n)

theorem magVal_mono {g g' : Nat} (h : g ≤ g') : magVal g ≤ magVal g' := by
  by_cases he : g = g'
  · subst he; exact Nat.le_refl _
  · exact Nat.le_of_lt (magVal_strictMono (by omega))

theorem magVal_lt_iff {g g' : Nat} : magVal g < magVal g' ↔ g < g' := by
  constructor
  · intro h
    by_cases hl : g < g'
    · exact hl
    · have := magVal_mono (show g' ≤ g by omega); omega
  · exact magVal_strictMono

theorem magVal_le_iff {g g' : Nat} : magVal g ≤ magVal g' ↔ g ≤ g' := by
  constructor
  · intro h
    by_cases hl : g ≤ g'
    · exact hl
    · have := magVal_strictMono (show g' < g by omega); omega
  · exact magVal_mono

theorem magVal_inj {g g' : Nat} (h : magVal g = magVal g') : g = g' := by
  have h1 := (magVal_le_iff (g := g) (g' := g')).1 (by omega)
  have h2 := (magVal_le_iff (g := g') (g' := g)).1 (by omega)
  omega

@[simp] theorem magVal_zero : magVal 0 = 0 := by decide

/-! ## round to nearest even -/

/-- `g` is the floor pattern of the value `v` (units of 2⁻¹⁴⁹) on the unbounded grid and `r` its round-to-nearest-even
pattern (on a tie the even one of `g`, `g+1`) -/
def RneAt (v g r : Nat) : Prop :=
  magVal g ≤ v ∧ v < magVal (g + 1) ∧
  ((2 * v < magVal g + magVal (g + 1) ∧ r = g) ∨
   (magVal g + magVal (g + 1) < 2 * v ∧ r = g + 1) ∨
   (2 * v = magVal g + magVal (g + 1) ∧ r = g + g % 2))

theorem RneAt.floor_unique {v g r g' r' : Nat} (h : RneAt v g r) (h' : RneAt v g' r') : g = g' := by
  by_cases h1 : g < g'
  · have := magVal_mono (show g + 1 ≤ g' by omega)
    have := h.2.1; have := h'.1; omega
  · by_cases h2 : g' < g
    · have := magVal_mono (show g' + 1 ≤ g by omega)
      have := h'.2.1; have := h.1; omega
    · omega

theorem RneAt.unique {v g r g' r' : Nat} (h : RneAt v g r) (h' : RneAt v g' r') : r = r' := by
  have hg := h.floor_unique h'
  subst hg
  obtain ⟨_, _, h3⟩ := h
  obtain ⟨_, _, h3'⟩ := h'
  omega

theorem RneAt.mono {v g r v' g' r' : Nat} (h : RneAt v g r) (h' : RneAt v' g' r') (hv : v ≤ v') : r ≤ r' := by
  by_cases h1 : g < g'
  · obtain ⟨_, _, h3⟩ := h
    obtain ⟨_, _, h3'⟩ := h'
    omega
  · by_cases h2 : g' < g
    · have := magVal_mono (show g' + 1 ≤ g by omega)
      have := h'.2.1; have := h.1; omega
    · have hg : g = g' := by omega
      subst hg
      obtain ⟨_, _, h3⟩ := h
      obtain ⟨_, _, h3'⟩ := h'
      omega

/-- a grid value rounds to itself -/
theorem RneAt.exact {g g' r : Nat} (h : RneAt (magVal g) g' r) : r = g := by
  have hs := magVal_succ_lt g
  have h0 : RneAt (magVal g) g g := ⟨Nat.le_refl _, hs, Or.inl ⟨by omega, rfl⟩⟩
  exact h.unique h0

theorem RneAt.of_grid (g : Nat) : RneAt (magVal g) g g :=
  ⟨Nat.le_refl _, magVal_succ_lt g, Or.inl ⟨by have := magVal_succ_lt g; omega, rfl⟩⟩

/-- result is the floor or its successor -/
theorem RneAt.range {v g r : Nat} (h : RneAt v g r) : g ≤ r ∧ r ≤ g + 1 := by
  obtain ⟨_, _, h3⟩ := h
  omega

theorem rne_cases (m k : Nat) :
    (2 * (m % 2 ^ k) < 2 ^ k ∧ rne m k = m / 2 ^ k) ∨
    (2 ^ k < 2 * (m % 2 ^ k) ∧ rne m k = m / 2 ^ k + 1) ∨
    (2 * (m % 2 ^ k) = 2 ^ k ∧ rne m k = m / 2 ^ k + (m / 2 ^ k) % 2) := by
  unfold rne
  simp only [Nat.shiftRight_eq_div_pow]
  have := Nat.mod_two_eq_zero_or_one (m / 2 ^ k)
  by_cases h1 : 2 ^ k < 2 * (m % 2 ^ k)
  · simp [h1]
  · by_cases h2 : 2 * (m % 2 ^ k) = 2 ^ k
    · rcases this with h | h
      · simp [h2, h]
      · simp [h2, h]
    · have h3 : 2 * (m % 2 ^ k) < 2 ^ k := by omega
      left
      refine ⟨h3, ?_⟩
      rw [if_neg]
      intro h; rcases h with h | h
      · exact h1 h
      · exact h2 h.1

/-- integers below 2²⁴ times a power of two are on the grid: the exact branch of `roundNatU` -/
theorem magVal_roundNatU_small {m e : Nat} (hm24 : m < 16777216) : magVal (roundNatU m e) = m * 2 ^ e := by
  by_cases hm : m = 0
  · subst hm; simp [roundNatU]
  have hn : m.log2 + 1 ≤ 24 := by
    have : m.log2 < 24 := (Nat.log2_lt hm).2 (by simpa using hm24)
    omega
  unfold roundNatU
  rw [if_neg hm]
  have hlo : 2 ^ m.log2 ≤ m := Nat.log2_self_le hm
  have hhi : m < 2 ^ (m.log2 + 1) := Nat.lt_log2_self
  simp only
  rw [if_pos hn, Nat.shiftLeft_eq]
  have hval : magVal ((e - min (24 - (m.log2 + 1)) e) * 8388608 + m * 2 ^ min (24 - (m.log2 + 1)) e) = m * 2 ^ e := by
    by_cases hs : 24 - (m.log2 + 1) ≤ e
    · rw [Nat.min_eq_left hs]
      have h23 : 8388608 ≤ m * 2 ^ (24 - (m.log2 + 1)) := by
        have : 2 ^ m.log2 * 2 ^ (24 - (m.log2 + 1)) ≤ m * 2 ^ (24 - (m.log2 + 1)) := Nat.mul_le_mul_right _ hlo
        rw [← Nat.pow_add] at this
        have e1 : m.log2 + (24 - (m.log2 + 1)) = 23 := by omega
        rw [e1] at this
        exact this
      have h24 : m * 2 ^ (24 - (m.log2 + 1)) < 16777216 := by
        have : m * 2 ^ (24 - (m.log2 + 1)) < 2 ^ (m.log2 + 1) * 2 ^ (24 - (m.log2 + 1)) :=
          Nat.mul_lt_mul_of_pos_right hhi (Nat.pow_pos (by decide))
        rw [← Nat.pow_add] at this
        have e1 : m.log2 + 1 + (24 - (m.log2 + 1)) = 24 := by omega
        rw [e1] at this
        exact this
      rw [magVal_enc _ _ (Or.inr h23) (Nat.le_of_lt h24), Nat.mul_assoc, ← Nat.pow_add]
      congr 2
      omega
    · have hs' : e ≤ 24 - (m.log2 + 1) := by omega
      rw [Nat.min_eq_right hs', Nat.sub_self]
      have h24 : m * 2 ^ e < 16777216 := by
        have h1 : m * 2 ^ e < 2 ^ (m.log2 + 1) * 2 ^ e := Nat.mul_lt_mul_of_pos_right hhi (Nat.pow_pos (by decide))
        rw [← Nat.pow_add] at h1
        have h2 : 2 ^ (m.log2 + 1 + e) ≤ 2 ^ 24 := Nat.pow_le_pow_right (by decide) (by omega)
        have : (2 : Nat) ^ 24 = 16777216 := by decide
        omega
      rw [magVal_enc _ _ (Or.inl rfl) (Nat.le_of_lt h24)]
      simp
  exact hval

theorem roundNatU_spec (m e : Nat) (hm : m ≠ 0) : ∃ g, RneAt (m * 2 ^ e) g (roundNatU m e) := by
  by_cases hn : m.log2 + 1 ≤ 24
  · have h24 : m < 16777216 := by
      have := (Nat.log2_lt hm).1 (show m.log2 < 24 by omega)
      simpa using this
    have hg := RneAt.of_grid (roundNatU m e)
    rw [magVal_roundNatU_small h24] at hg
    exact ⟨_, hg⟩
  unfold roundNatU
  rw [if_neg hm]
  have hlo : 2 ^ m.log2 ≤ m := Nat.log2_self_le hm
  have hhi : m < 2 ^ (m.log2 + 1) := Nat.lt_log2_self
  simp only
  · rw [if_neg hn]
    generalize hk : m.log2 + 1 - 24 = k
    have hk1 : m.log2 = 23 + k := by omega
    rw [hk1] at hlo hhi
    have hK : 0 < 2 ^ k := Nat.pow_pos (by decide)
    have hP : 0 < 2 ^ e := Nat.pow_pos (by decide)
    have hq1 : 8388608 ≤ m / 2 ^ k := by
      rw [Nat.le_div_iff_mul_le hK]
      rw [Nat.pow_add] at hlo
      exact hlo
    have hq2 : m / 2 ^ k < 16777216 := by
      rw [Nat.div_lt_iff_lt_mul hK]
      have : 23 + k + 1 = 24 + k := by omega
      rw [this, Nat.pow_add] at hhi
      exact hhi
    have hdm : 2 ^ k * (m / 2 ^ k) + m % 2 ^ k = m := Nat.div_add_mod m (2 ^ k)
    have hrem : m % 2 ^ k < 2 ^ k := Nat.mod_lt _ hK
    generalize hq : m / 2 ^ k = q at *
    generalize hr : m % 2 ^ k = rem at *
    refine ⟨(e + k) * 8388608 + q, ?_⟩
    have hv1 : magVal ((e + k) * 8388608 + q) = q * (2 ^ k * 2 ^ e) := by
      rw [magVal_enc _ _ (Or.inr hq1) (Nat.le_of_lt hq2), Nat.add_comm e k, Nat.pow_add]
    have hv2 : magVal ((e + k) * 8388608 + q + 1) = q * (2 ^ k * 2 ^ e) + 2 ^ k * 2 ^ e := by
      rw [Nat.add_assoc, magVal_enc _ _ (Or.inr (by omega)) (by omega), Nat.add_comm e k, Nat.pow_add, Nat.add_mul]
      omega
    have hv : m * 2 ^ e = q * (2 ^ k * 2 ^ e) + rem * 2 ^ e := by
      rw [← hdm, Nat.add_mul, Nat.mul_comm (2 ^ k) q, Nat.mul_assoc]
    have hY : rem * 2 ^ e < 2 ^ k * 2 ^ e := Nat.mul_lt_mul_of_pos_right hrem hP
    unfold RneAt
    rw [hv1, hv2, hv]
    refine ⟨by omega, by omega, ?_⟩
    have hgm : ((e + k) * 8388608 + q) % 2 = q % 2 := by omega
    rw [hgm]
    rcases rne_cases m k with ⟨c1, c2⟩ | ⟨c1, c2⟩ | ⟨c1, c2⟩
    · left
      rw [hr] at c1; rw [hq] at c2
      have : 2 * (rem * 2 ^ e) < 2 ^ k * 2 ^ e := by
        rw [← Nat.mul_assoc]; exact Nat.mul_lt_mul_of_pos_right c1 hP
      refine ⟨by omega, by rw [c2]⟩
    · right; left
      rw [hr] at c1; rw [hq] at c2
      have : 2 ^ k * 2 ^ e < 2 * (rem * 2 ^ e) := by
        rw [← Nat.mul_assoc]; exact Nat.mul_lt_mul_of_pos_right c1 hP
      refine ⟨by omega, by rw [c2]; omega⟩
    · right; right
      rw [hr] at c1; rw [hq] at c2
      have : 2 * (rem * 2 ^ e) = 2 ^ k * 2 ^ e := by
        rw [← Nat.mul_assoc, c1]
      refine ⟨by omega, by rw [c2]; omega⟩

@[simp] theorem roundNatU_zero (e : Nat) : roundNatU 0 e = 0 := by simp [roundNatU]

theorem roundNatU_eq_of {m e g r : Nat} (hm : m ≠ 0) (h : RneAt (m * 2 ^ e) g r) : roundNatU m e = r := by
  obtain ⟨g', h'⟩ := roundNatU_spec m e hm
  exact h'.unique h

theorem roundNatU_mono {m e m' e' : Nat} (h : m * 2 ^ e ≤ m' * 2 ^ e') : roundNatU m e ≤ roundNatU m' e' := by
  by_cases hm : m = 0
  · subst hm; simp
  · by_cases hm' : m' = 0
    · subst hm'
      have : 0 < m * 2 ^ e := Nat.mul_pos (by omega) (Nat.pow_pos (by decide))
      omega
    · obtain ⟨g, hg⟩ := roundNatU_spec m e hm
      obtain ⟨g', hg'⟩ := roundNatU_spec m' e' hm'
      exact hg.mono hg' h

theorem roundNatU_congr {m e m' e' : Nat} (h : m * 2 ^ e = m' * 2 ^ e') : roundNatU m e = roundNatU m' e' :=
  Nat.le_antisymm (roundNatU_mono (Nat.le_of_eq h)) (roundNatU_mono (Nat.le_of_eq h.symm))

/-- a value on the grid rounds to its pattern -/
theorem roundNatU_exact {m e g : Nat} (h : m * 2 ^ e = magVal g) : roundNatU m e = g := by
  by_cases hm : m = 0
  · subst hm
    have : magVal g = magVal 0 := by rw [magVal_zero]; omega
    rw [magVal_inj this]; simp
  · have hg := RneAt.of_grid g
    rw [← h] at hg
    exact roundNatU_eq_of hm hg

theorem roundNatU_decode (g : Nat) : roundNatU (magSig g) (magExp g) = g := roundNatU_exact rfl

/-- the value-level rounding function -/
def rnd (v : Nat) : Nat := roundNatU v 0

theorem roundNatU_eq_rnd (m e : Nat) : roundNatU m e = rnd (m * 2 ^ e) := by
  unfold rnd; exact roundNatU_congr (by simp)

@[simp] theorem rnd_zero : rnd 0 = 0 := by simp [rnd]
theorem rnd_mono {v v' : Nat} (h : v ≤ v') : rnd v ≤ rnd v' := roundNatU_mono (by simpa using h)
@[simp] theorem rnd_magVal (g : Nat) : rnd (magVal g) = g := roundNatU_exact (by simp)
theorem rnd_spec {v : Nat} (hv : v ≠ 0) : ∃ g, RneAt v g (rnd v) := by
  have := roundNatU_spec v 0 hv; simpa [rnd] using this
theorem rnd_eq_of {v g r : Nat} (hv : v ≠ 0) (h : RneAt v g r) : rnd v = r :=
  roundNatU_eq_of hv (by simpa using h)
theorem rnd_le_of_le {v g : Nat} (h : v ≤ magVal g) : rnd v ≤ g := by
  have := rnd_mono h; rwa [rnd_magVal] at this
theorem le_rnd_of_le {v g : Nat} (h : magVal g ≤ v) : g ≤ rnd v := by
  have := rnd_mono h; rwa [rnd_magVal] at this
theorem rnd_pos {v : Nat} (hv : v ≠ 0) : rnd v ≠ 0 := by
  have : magVal 1 ≤ v := by
    have : magVal 1 = 1 := by decide
    omega
  have := le_rnd_of_le this
  omega

/-! ## signed values -/

theorem sig_mul_ex (x : SoftF32) : x.sig * 2 ^ x.ex = magVal x.mag := rfl

/-- result of an exact signed value `z` (units of 2⁻¹⁴⁹): rounded magnitude with the sign of `z`; `s0` = sign of an exact zero -/
def packZ (s0 : Bool) (z : Int) : SoftF32 :=
  if z = 0 then pack s0 0 else pack (decide (z < 0)) (min (rnd z.natAbs) infMag)

theorem signed_scale (s : Bool) (A P : Nat) :
    (if s then -((A * P : Nat) : Int) else ((A * P : Nat) : Int)) = (if s then -(A : Int) else (A : Int)) * (P : Int) := by
  cases s
  · simp [Int.natCast_mul]
  · simp [Int.natCast_mul, Int.neg_mul]

theorem addFinite_eq (a b : SoftF32) : addFinite a b = packZ (a.sign && b.sign) (toInt a + toInt b) := by
  unfold addFinite packZ toInt
  simp only [Nat.shiftLeft_eq]
  generalize he : min a.ex b.ex = e
  have ha : magVal a.mag = (a.sig * 2 ^ (a.ex - e)) * 2 ^ e := by
    rw [← sig_mul_ex, Nat.mul_assoc, ← Nat.pow_add]
    congr 2; omega
  have hb : magVal b.mag = (b.sig * 2 ^ (b.ex - e)) * 2 ^ e := by
    rw [← sig_mul_ex, Nat.mul_assoc, ← Nat.pow_add]
    congr 2; omega
  rw [ha, hb]
  generalize a.sig * 2 ^ (a.ex - e) = A
  generalize b.sig * 2 ^ (b.ex - e) = B
  rw [signed_scale a.sign A, signed_scale b.sign B, ← Int.add_mul]
  generalize ((if a.sign = true then -(A : Int) else (A : Int)) + (if b.sign = true then -(B : Int) else (B : Int))) = S
  have hP : (0 : Int) < ((2 ^ e : Nat) : Int) := by
    have : 0 < 2 ^ e := Nat.pow_pos (by decide)
    omega
  by_cases hS : S = 0
  · subst hS; simp
  · have hz : S * ((2 ^ e : Nat) : Int) ≠ 0 := Int.mul_ne_zero hS (by omega)
    rw [if_neg hS, if_neg hz]
    have hneg : decide (S * ((2 ^ e : Nat) : Int) < 0) = decide (S < 0) := by
      rw [decide_eq_decide]
      constructor
      · intro h
        by_cases h1 : S < 0
        · exact h1
        · have := Int.mul_pos (show 0 < S by omega) hP
          omega
      · intro h
        exact Int.mul_neg_of_neg_of_pos h hP
    rw [hneg]
    congr 1
    unfold roundNat
    rw [roundNatU_eq_rnd, Int.natAbs_mul, Int.natAbs_natCast]

/-! ## classification -/

theorem isFinite_iff (x : SoftF32) : x.isFinite = true ↔ x.mag < 2139095040 := by
  unfold isFinite infMag; exact decide_eq_true_iff
theorem isNaN_iff (x : SoftF32) : x.isNaN = true ↔ 2139095040 < x.mag := by
  unfold isNaN infMag; exact decide_eq_true_iff
theorem isInf_iff (x : SoftF32) : x.isInf = true ↔ x.mag = 2139095040 := by
  simp [isInf, infMag]

theorem add_of_finite {a b : SoftF32} (ha : a.isFinite = true) (hb : b.isFinite = true) : add a b = addFinite a b := by
  rw [isFinite_iff] at ha hb
  have h1 : a.isNaN = false := by rw [← Bool.not_eq_true, isNaN_iff]; omega
  have h2 : b.isNaN = false := by rw [← Bool.not_eq_true, isNaN_iff]; omega
  have h3 : a.isInf = false := by rw [← Bool.not_eq_true, isInf_iff]; omega
  have h4 : b.isInf = false := by rw [← Bool.not_eq_true, isInf_iff]; omega
  simp [add, h1, h2, h3, h4]

/-! ## `packZ` -/

theorem rnd_min_lt (v : Nat) : min (rnd v) infMag < 2147483648 := by
  have : min (rnd v) infMag ≤ infMag := Nat.min_le_right _ _
  simp only [infMag] at this ⊢
  omega

theorem mag_packZ (s0 : Bool) (z : Int) : (packZ s0 z).mag = if z = 0 then 0 else min (rnd z.natAbs) infMag := by
  unfold packZ
  split
  · exact mag_pack _ _ (by decide)
  · exact mag_pack _ _ (rnd_min_lt _)

theorem sign_packZ (s0 : Bool) (z : Int) : (packZ s0 z).sign = if z = 0 then s0 else decide (z < 0) := by
  unfold packZ
  split
  · exact sign_pack _ _ (by decide)
  · exact sign_pack _ _ (rnd_min_lt _)

theorem mag_packZ_le (s0 : Bool) (z : Int) : (packZ s0 z).mag ≤ 2139095040 := by
  rw [mag_packZ]
  split
  · omega
  · exact Nat.min_le_right _ _

theorem packZ_not_nan (s0 : Bool) (z : Int) : (packZ s0 z).isNaN = false := by
  rw [← Bool.not_eq_true, isNaN_iff]
  have := mag_packZ_le s0 z
  omega

/-- key of the correctly rounded signed value -/
def rndKey (z : Int) : Int :=
  if z < 0 then -((min (rnd z.natAbs) infMag : Nat) : Int) else ((min (rnd z.natAbs) infMag : Nat) : Int)

theorem key_packZ (s0 : Bool) (z : Int) : (packZ s0 z).key = rndKey z := by
  unfold key rndKey
  rw [mag_packZ, sign_packZ]
  by_cases hz : z = 0
  · subst hz; cases s0 <;> simp
  · simp only [hz, if_false, decide_eq_true_eq]

theorem rndKey_mono {z z' : Int} (h : z ≤ z') : rndKey z ≤ rndKey z' := by
  unfold rndKey
  have m1 : ∀ {u v : Nat}, u ≤ v → min (rnd u) infMag ≤ min (rnd v) infMag := by
    intro u v huv
    have := rnd_mono huv
    omega
  by_cases h1 : z < 0
  · by_cases h2 : z' < 0
    · rw [if_pos h1, if_pos h2]
      have := m1 (show z'.natAbs ≤ z.natAbs by omega)
      omega
    · rw [if_pos h1, if_neg h2]
      omega
  · have h2 : ¬ z' < 0 := by omega
    rw [if_neg h1, if_neg h2]
    have := m1 (show z.natAbs ≤ z'.natAbs by omega)
    omega

/-! ## order: `key` and `toInt` agree -/

theorem magVal_eq_zero {g : Nat} : magVal g = 0 ↔ g = 0 := by
  constructor
  · intro h; exact magVal_inj (by rw [h, magVal_zero])
  · intro h; subst h; exact magVal_zero

theorem key_le_iff (x y : SoftF32) : x.key ≤ y.key ↔ toInt x ≤ toInt y := by
  unfold key toInt
  have hx := magVal_le_iff (g := x.mag) (g' := y.mag)
  have hy := magVal_le_iff (g := y.mag) (g' := x.mag)
  have zx := magVal_eq_zero (g := x.mag)
  have zy := magVal_eq_zero (g := y.mag)
  cases x.sign <;> cases y.sign <;> simp <;> omega

theorem key_lt_iff (x y : SoftF32) : x.key < y.key ↔ toInt x < toInt y := by
  have := key_le_iff y x
  omega

theorem key_add {a b : SoftF32} (ha : a.isFinite = true) (hb : b.isFinite = true) :
    (add a b).key = rndKey (toInt a + toInt b) := by
  rw [add_of_finite ha hb, addFinite_eq, key_packZ]

theorem add_not_nan {a b : SoftF32} (ha : a.isFinite = true) (hb : b.isFinite = true) : (add a b).isNaN = false := by
  rw [add_of_finite ha hb, addFinite_eq]; exact packZ_not_nan _ _

/-! ## `neg`, `sub`, `abs` -/

theorem sign_neg (x : SoftF32) : (neg x).sign = !x.sign := sign_pack _ _ (mag_lt x)
theorem mag_neg (x : SoftF32) : (neg x).mag = x.mag := mag_pack _ _ (mag_lt x)
theorem sign_abs (x : SoftF32) : (abs x).sign = false := sign_pack _ _ (mag_lt x)
theorem mag_abs (x : SoftF32) : (abs x).mag = x.mag := mag_pack _ _ (mag_lt x)

theorem isFinite_neg (x : SoftF32) : (neg x).isFinite = x.isFinite := by
  unfold isFinite; rw [mag_neg]
theorem isNaN_neg (x : SoftF32) : (neg x).isNaN = x.isNaN := by
  unfold isNaN; rw [mag_neg]

theorem toInt_neg (x : SoftF32) : toInt (neg x) = -toInt x := by
  unfold toInt; rw [sign_neg, mag_neg]; cases x.sign <;> simp

theorem sub_of_not_nan {a b : SoftF32} (ha : a.isNaN = false) (hb : b.isNaN = false) : sub a b = add a (neg b) := by
  simp [sub, ha, hb]

theorem isNaN_of_finite {x : SoftF32} (h : x.isFinite = true) : x.isNaN = false := by
  rw [isFinite_iff] at h
  rw [← Bool.not_eq_true, isNaN_iff]; omega

theorem key_sub {a b : SoftF32} (ha : a.isFinite = true) (hb : b.isFinite = true) :
    (sub a b).key = rndKey (toInt a - toInt b) := by
  rw [sub_of_not_nan (isNaN_of_finite ha) (isNaN_of_finite hb), key_add ha (by rw [isFinite_neg]; exact hb), toInt_neg]
  rfl

/-! ## magnitude bounds -/

/-- `x` is finite and `|x| ≤ N` -/
def absLe (x : SoftF32) (N : Nat) : Prop := x.mag < 2139095040 ∧ magVal x.mag ≤ N * 2 ^ 149

theorem absLe.finite {x : SoftF32} {N : Nat} (h : absLe x N) : x.isFinite = true := (isFinite_iff x).2 h.1

theorem absLe.mono {x : SoftF32} {N N' : Nat} (h : absLe x N) (hN : N ≤ N') : absLe x N' :=
  ⟨h.1, Nat.le_trans h.2 (Nat.mul_le_mul_right _ hN)⟩

theorem natAbs_toInt (x : SoftF32) : (toInt x).natAbs = magVal x.mag := by
  unfold toInt; cases x.sign <;> simp

theorem magVal_infMag : magVal 2139095040 = 2 ^ 277 := by decide

/-- the rounded magnitude of an exact value `≤ c·2^s` with `c < 2²⁴` is at most (the pattern of) `c·2^s` -/
theorem rnd_le_small {v c s : Nat} (hc : c < 16777216) (hv : v ≤ c * 2 ^ s) :
    magVal (rnd v) ≤ c * 2 ^ s := by
  have h1 := rnd_mono hv
  rw [← roundNatU_eq_rnd] at h1
  have h2 := magVal_mono h1
  rwa [magVal_roundNatU_small hc] at h2

theorem packZ_absLe {s0 : Bool} {z : Int} {c t : Nat} (hc : c < 16777216) (ht : t ≤ 104)
    (hz : z.natAbs ≤ c * 2 ^ t * 2 ^ 149) : absLe (packZ s0 z) (c * 2 ^ t) := by
  unfold absLe
  rw [mag_packZ]
  by_cases h0 : z = 0
  · simp [h0]
  rw [if_neg h0]
  have hz' : z.natAbs ≤ c * 2 ^ (t + 149) := by rw [Nat.pow_add, ← Nat.mul_assoc]; exact hz
  have h1 := rnd_le_small hc hz'
  have hlt : c * 2 ^ (t + 149) < 2 ^ 277 := by
    have : c * 2 ^ (t + 149) < 16777216 * 2 ^ (t + 149) := Nat.mul_lt_mul_of_pos_right hc (Nat.pow_pos (by decide))
    have h24 : (16777216 : Nat) = 2 ^ 24 := by decide
    rw [h24, ← Nat.pow_add] at this
    have : 2 ^ (24 + (t + 149)) ≤ 2 ^ 277 := Nat.pow_le_pow_right (by decide) (by omega)
    omega
  have hfin : rnd z.natAbs < 2139095040 := by
    rw [← magVal_lt_iff, magVal_infMag]; omega
  have : min (rnd z.natAbs) infMag = rnd z.natAbs := Nat.min_eq_left (by simp only [infMag]; omega)
  rw [this]
  refine ⟨hfin, ?_⟩
  rw [Nat.pow_add, ← Nat.mul_assoc] at h1
  exact h1

/-- **boundedness of a sum**: `|a| ≤ A`, `|b| ≤ B`, `A + B = c·2^t` with `c < 2²⁴`, `t ≤ 104` ⟹ `a + b` is finite and
`|a + b| ≤ A + B` (the exact sum is bounded by a representable number, and rounding is monotone) -/
theorem add_absLe {a b : SoftF32} {A B c t : Nat} (ha : absLe a A) (hb : absLe b B)
    (hAB : A + B = c * 2 ^ t) (hc : c < 16777216) (ht : t ≤ 104) : absLe (add a b) (A + B) := by
  rw [add_of_finite ha.finite hb.finite, addFinite_eq, hAB]
  apply packZ_absLe hc ht
  have h1 := natAbs_toInt a
  have h2 := natAbs_toInt b
  have h3 := ha.2
  have h4 := hb.2
  rw [← hAB, Nat.add_mul]
  omega

theorem neg_absLe {a : SoftF32} {A : Nat} (ha : absLe a A) : absLe (neg a) A := by
  unfold absLe; rw [mag_neg]; exact ha

theorem sub_absLe {a b : SoftF32} {A B c t : Nat} (ha : absLe a A) (hb : absLe b B)
    (hAB : A + B = c * 2 ^ t) (hc : c < 16777216) (ht : t ≤ 104) : absLe (sub a b) (A + B) := by
  rw [sub_of_not_nan (isNaN_of_finite ha.finite) (isNaN_of_finite hb.finite)]
  exact add_absLe ha (neg_absLe hb) hAB hc ht

/-! ## the sentinel `-FLT_MAX` -/

theorem magVal_fltMax : magVal 2139095039 = 16777215 * 2 ^ 253 := by decide
theorem magVal_fltMax_pred : magVal 2139095038 = 16777214 * 2 ^ 253 := by decide
theorem mag_negMax : negMax.mag = 2139095039 := by decide
theorem sign_negMax : negMax.sign = true := by decide
theorem toInt_negMax : toInt negMax = -((16777215 * 2 ^ 253 : Nat) : Int) := by
  unfold toInt; rw [sign_negMax, mag_negMax, magVal_fltMax]; rfl

/-- values within half an ulp of `FLT_MAX` round to `FLT_MAX` -/
theorem rnd_near_fltMax {v : Nat} (h1 : 16777215 * 2 ^ 253 - 2 ^ 252 < v) (h2 : v < 16777215 * 2 ^ 253 + 2 ^ 252) :
    rnd v = 2139095039 := by
  have hv : v ≠ 0 := by omega
  by_cases hge : 16777215 * 2 ^ 253 ≤ v
  · apply rnd_eq_of hv (g := 2139095039)
    refine ⟨by rw [magVal_fltMax]; exact hge, ?_, Or.inl ⟨?_, rfl⟩⟩
    · rw [show (2139095039 + 1 : Nat) = 2139095040 from rfl, magVal_infMag]; omega
    · rw [show (2139095039 + 1 : Nat) = 2139095040 from rfl, magVal_infMag, magVal_fltMax]; omega
  · apply rnd_eq_of hv (g := 2139095038)
    refine ⟨by rw [magVal_fltMax_pred]; omega, ?_, Or.inr (Or.inl ⟨?_, rfl⟩)⟩
    · rw [show (2139095038 + 1 : Nat) = 2139095039 from rfl, magVal_fltMax]; omega
    · rw [show (2139095038 + 1 : Nat) = 2139095039 from rfl, magVal_fltMax, magVal_fltMax_pred]; omega

/-- **the sentinel absorbs**: `-FLT_MAX + x = -FLT_MAX` for every finite `x` with `|x| < 2¹⁰³` (half an ulp of `FLT_MAX`) -/
theorem negMax_add {x : SoftF32} (hf : x.isFinite = true) (hx : magVal x.mag < 2 ^ 103 * 2 ^ 149) : add negMax x = negMax := by
  have hfm : negMax.isFinite = true := by decide
  rw [add_of_finite hfm hf, addFinite_eq, toInt_negMax]
  have hn := natAbs_toInt x
  have hz : -((16777215 * 2 ^ 253 : Nat) : Int) + toInt x < 0 := by omega
  unfold packZ
  rw [if_neg (by omega)]
  have : rnd (-((16777215 * 2 ^ 253 : Nat) : Int) + toInt x).natAbs = 2139095039 := by
    apply rnd_near_fltMax <;> omega
  rw [this]
  have : decide (-((16777215 * 2 ^ 253 : Nat) : Int) + toInt x < 0) = true := by simpa using hz
  rw [this]
  decide

theorem add_negMax {x : SoftF32} (hf : x.isFinite = true) (hx : magVal x.mag < 2 ^ 103 * 2 ^ 149) : add x negMax = negMax := by
  have hfm : negMax.isFinite = true := by decide
  rw [add_of_finite hf hfm, addFinite_eq, Int.add_comm, Bool.and_comm, ← addFinite_eq, ← add_of_finite hfm hf]
  exact negMax_add hf hx

/-! ## exact results -/

theorem add_eq_packZ {a b : SoftF32} (ha : a.isFinite = true) (hb : b.isFinite = true) :
    add a b = packZ (a.sign && b.sign) (toInt a + toInt b) := by
  rw [add_of_finite ha hb, addFinite_eq]

theorem sub_eq_packZ {a b : SoftF32} (ha : a.isFinite = true) (hb : b.isFinite = true) :
    sub a b = packZ (a.sign && !b.sign) (toInt a - toInt b) := by
  rw [sub_of_not_nan (isNaN_of_finite ha) (isNaN_of_finite hb), add_eq_packZ ha (by rw [isFinite_neg]; exact hb),
    toInt_neg, sign_neg]
  rfl

theorem roundNat_zero (e : Nat) : roundNat 0 e = 0 := by simp [roundNat]

/-- `packZ` of an integer of magnitude below 2²⁴ is `(float)k` -/
theorem packZ_int {s0 : Bool} {k : Int} (hk : k.natAbs < 16777216) (h0 : k = 0 → s0 = false) :
    packZ s0 (k * ((2 ^ 149 : Nat) : Int)) = ofInt k := by
  unfold packZ ofInt
  by_cases hz : k = 0
  · subst hz
    simp [h0 rfl, roundNat_zero]
  · have hP : (0 : Int) < ((2 ^ 149 : Nat) : Int) := by decide
    have hne : k * ((2 ^ 149 : Nat) : Int) ≠ 0 := Int.mul_ne_zero hz (by omega)
    rw [if_neg hne]
    have hneg : decide (k * ((2 ^ 149 : Nat) : Int) < 0) = decide (k < 0) := by
      rw [decide_eq_decide]
      constructor
      · intro h
        by_cases h1 : k < 0
        · exact h1
        · have := Int.mul_pos (show 0 < k by omega) hP
          omega
      · intro h
        exact Int.mul_neg_of_neg_of_pos h hP
    rw [hneg, Int.natAbs_mul, Int.natAbs_natCast, ← roundNatU_eq_rnd]
    rfl

theorem ofInt_finite {k : Int} (hk : k.natAbs < 16777216) : (ofInt k).mag < 2139095040 ∧
    magVal (ofInt k).mag = k.natAbs * 2 ^ 149 ∧ (ofInt k).sign = decide (k < 0) := by
  have hv : magVal (roundNatU k.natAbs 149) = k.natAbs * 2 ^ 149 := magVal_roundNatU_small hk
  have hlt : roundNatU k.natAbs 149 < 2139095040 := by
    rw [← magVal_lt_iff, hv, magVal_infMag]
    have : k.natAbs * 2 ^ 149 < 16777216 * 2 ^ 149 := Nat.mul_lt_mul_of_pos_right hk (by decide)
    have : (16777216 : Nat) * 2 ^ 149 ≤ 2 ^ 277 := by decide
    omega
  have hmin : roundNat k.natAbs 149 = roundNatU k.natAbs 149 := by
    unfold roundNat; exact Nat.min_eq_left (by simp only [infMag]; omega)
  unfold ofInt
  rw [hmin, mag_pack _ _ (by omega), sign_pack _ _ (by omega)]
  exact ⟨hlt, hv, rfl⟩

theorem toInt_ofInt {k : Int} (hk : k.natAbs < 16777216) : toInt (ofInt k) = k * ((2 ^ 149 : Nat) : Int) := by
  obtain ⟨_, h2, h3⟩ := ofInt_finite hk
  unfold toInt
  rw [h2, h3]
  by_cases h : k < 0
  · simp only [h, decide_true, if_true, Int.natCast_mul]
    rw [← Int.neg_mul]; congr 1; omega
  · simp only [h, decide_false, Int.natCast_mul]
    simp only [Bool.false_eq_true, if_false]
    congr 1; omega

end Kalign.SoftF32
